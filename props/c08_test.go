package props

import (
	"go/constant"
	"go/token"
	"strings"
	"testing"

	"verif/internal/h"
	"verif/internal/pgx"
	"verif/internal/synth"

	gen "github.com/benoitkugler/gomacro/generator"
	sqlgen "github.com/benoitkugler/gomacro/generator/sql"
	"pgregory.net/rapid"
)

// C08 — the SQL schema is a faithful image of the table structs.

func c08Gen(t *rapid.T, r *h.Rec) specCase {
	av, onEx, onCl := avoidOpts(r)
	return specCase{Spec: synth.GenSQL(t, &synth.SQLOpts{Avoid: av, OnExclude: onEx, OnClass: onCl, MaxTables: 4, SelfFK: true, ForeignFileTables: true})}
}

func sqlOutput(ls *loadedSpec) (string, outcome) {
	var text string
	oc := guard(func() { text = gen.WriteDeclarations(sqlgen.Generate(ls.an)) })
	return text, oc
}

func parseSQL(text string, src func() string) (*pgx.Script, error) {
	sc, err := pgx.ParseScript(text)
	if err != nil {
		if e, ok := err.(*pgx.SyntaxError); ok {
			return nil, h.Violf("the SQL output is not syntactically valid: line %d: %s\n--- output (around) ---\n%s\n%s", e.Line, e.Msg, aroundLine(text, e.Line), src())
		}
		return nil, h.Inconcf("SQL output outside the modelled subset: %v", err)
	}
	return sc, nil
}

func oneOf(s string, list []string) bool {
	for _, x := range list {
		if x == s {
			return true
		}
	}
	return false
}

// litValue converts a pgx literal to a constant for comparison with an enum value.
func sqlLitConst(e pgx.Expr) (constant.Value, bool) {
	l, ok := e.(*pgx.Lit)
	if !ok {
		return nil, false
	}
	switch v := l.Val.(type) {
	case int64:
		return constant.MakeInt64(v), true
	case float64:
		return constant.MakeFloat64(v), true
	case string:
		return constant.MakeString(v), true
	case bool:
		return constant.MakeBool(v), true
	}
	return nil, false
}

func c08Check(c specCase, r *h.Rec) error {
	src := func() string { return clip(c.Spec.Text(), 3500) }
	ls, err := loadSpec(c.Spec)
	if err != nil {
		return err
	}
	if ls.oc.Panicked {
		r.Refused++
		return nil
	}
	text, oc := sqlOutput(ls)
	if oc.Panicked {
		r.Refused++
		r.Class("refused:sql")
		return nil
	}
	sc, err := parseSQL(text, src)
	if err != nil {
		return err
	}
	model, err := newSQLModel(c.Spec)
	if err != nil {
		return h.Inconcf("reference model: %v\n%s", err, src())
	}
	if len(sc.Tables) != len(model.Tables) {
		var names []string
		for _, t := range sc.Tables {
			names = append(names, t.Name)
		}
		return h.Violf("the schema creates %d tables %v for %d structs of the file\n%s", len(sc.Tables), names, len(model.Tables), src())
	}
	nontrivial := false
	for _, want := range model.Tables {
		got := sc.Table(want.SQLName)
		if got == nil {
			return h.Violf("struct %s: no table named %s (snake-case-plural convention) in the schema\n%s", want.GoName, want.SQLName, src())
		}
		if len(got.Columns) != len(want.Cols) {
			return h.Violf("table %s has %d columns, the struct has %d exported or guard fields\n  %s\n%s", want.SQLName, len(got.Columns), len(want.Cols), got.Raw, src())
		}
		kinds := map[string]bool{}
		for i, wc := range want.Cols {
			gc := got.Columns[i]
			where := want.SQLName + "." + wc.Name
			if pgx.Fold(gc.Name) != pgx.Fold(wc.Name) {
				return h.Violf("%s: column %d is named %s (field order must be kept)\n%s", where, i, gc.Name, src())
			}
			kinds[wc.Kind] = true
			if wc.Primary {
				if gc.Type != "serial" || !gc.PrimaryKey {
					return h.Violf("%s: the id field must be `serial PRIMARY KEY`, got %q\n%s", where, gc.Raw, src())
				}
				continue
			}
			if !oneOf(gc.Type, wc.Types) {
				return h.Violf("%s: Go type %s maps to SQL type %v, got %q\n%s", where, typeText(wc.GoType), wc.Types, gc.Type, src())
			}
			if gc.NotNull != wc.NotNull {
				return h.Violf("%s (%s): NOT NULL is %v, expected %v (nullable only for nullable wrappers and variable-length SQL arrays)\n  %s\n%s", where, gc.Type, gc.NotNull, wc.NotNull, gc.Raw, src())
			}
			// per-type CHECKs
			switch {
			case wc.Kind == "enum":
				in, ok := gc.Check.(*pgx.In)
				if !ok || in.Not {
					return h.Violf("%s: enum column without a `CHECK (col IN (...))`: %s\n%s", where, gc.Raw, src())
				}
				if id, ok := in.X.(*pgx.Ident); !ok || pgx.Fold(id.Name) != pgx.Fold(wc.Name) {
					return h.Violf("%s: enum CHECK tests %s\n%s", where, in.X.String(), src())
				}
				// exactly the constant values (as a set)
				var gotVals []constant.Value
				for _, e := range in.List {
					v, ok := sqlLitConst(e)
					if !ok {
						return h.Violf("%s: enum CHECK lists a non literal %s\n%s", where, e.String(), src())
					}
					gotVals = append(gotVals, v)
				}
				for _, wv := range wc.EnumVals {
					found := false
					for _, gv := range gotVals {
						if gv.Kind() == litToConst(wv).Kind() && constant.Compare(gv, token.EQL, litToConst(wv)) {
							found = true
						}
						if gv.Kind() != litToConst(wv).Kind() && gv.Kind() != constant.String && litToConst(wv).Kind() != constant.String && constant.Compare(gv, token.EQL, litToConst(wv)) {
							found = true
						}
					}
					if !found {
						return h.Violf("%s: enum CHECK %s misses the constant value %s\n%s", where, gc.Check.String(), wv, src())
					}
				}
				for _, gv := range gotVals {
					found := false
					for _, wv := range wc.EnumVals {
						w := litToConst(wv)
						if (gv.Kind() == w.Kind() || (gv.Kind() != constant.String && w.Kind() != constant.String)) && constant.Compare(gv, token.EQL, w) {
							found = true
						}
					}
					if !found {
						return h.Violf("%s: enum CHECK %s lists %s which is not a constant of the enum %v\n%s", where, gc.Check.String(), gv.ExactString(), wc.EnumVals, src())
					}
				}
			case wc.ArrayLen != 0 && gc.Type != "bytea":
				n := wc.ArrayLen
				if n < 0 {
					n = 0
				}
				okLen := false
				if b, ok := gc.Check.(*pgx.BinOp); ok && b.Op == "=" {
					if call, ok := b.L.(*pgx.Call); ok && strings.EqualFold(call.Func, "array_length") && len(call.Args) == 2 {
						if id, ok := call.Args[0].(*pgx.Ident); ok && pgx.Fold(id.Name) == pgx.Fold(wc.Name) {
							if v, ok := sqlLitConst(b.R); ok && constant.Compare(v, token.EQL, constant.MakeInt64(int64(n))) {
								okLen = true
							}
						}
					}
				}
				if !okLen {
					return h.Violf("%s: fixed-size array [%d] without the length CHECK: %s\n%s", where, n, gc.Raw, src())
				}
			case wc.JSON:
				// a CHECK constraint calling a validator that exists
				found := false
				for _, ct := range sc.Constraints {
					if ct.Kind != "check" || pgx.Fold(ct.Table) != want.SQLName {
						continue
					}
					if call, ok := ct.Check.(*pgx.Call); ok && len(call.Args) == 1 {
						if id, ok := call.Args[0].(*pgx.Ident); ok && pgx.Fold(id.Name) == pgx.Fold(wc.Name) {
							if _, defined := sc.Functions[strings.ToLower(call.Func)]; !defined {
								return h.Violf("%s: the jsonb CHECK calls %s which the script does not define\n%s", where, call.Func, src())
							}
							found = true
						}
					}
				}
				if !found {
					return h.Violf("%s: jsonb column without a CHECK calling its validator\n%s", where, src())
				}
			case wc.Composite != "":
				if _, dcl := c.Spec.Resolve(c.Spec.Root(), &synth.TypeRef{K: synth.TRef, Pkg: c.Spec.Root().Path, Name: wc.Composite}); dcl != nil {
					if sc.Type(wc.Composite) == nil {
						return h.Violf("%s: local composite type %s has no CREATE TYPE\n%s", where, wc.Composite, src())
					}
				}
			}
			// guard: default + equality CHECK
			if wc.Guard != "" {
				hasDefault, hasCheck := false, false
				for _, ct := range sc.Constraints {
					if pgx.Fold(ct.Table) != want.SQLName {
						continue
					}
					if ct.Kind == "set_default" && len(ct.Columns) == 1 && pgx.Fold(ct.Columns[0]) == pgx.Fold(wc.Name) {
						hasDefault = true
					}
					if ct.Kind == "check" {
						if b, ok := ct.Check.(*pgx.BinOp); ok && b.Op == "=" {
							if id, ok := b.L.(*pgx.Ident); ok && pgx.Fold(id.Name) == pgx.Fold(wc.Name) {
								hasCheck = true
							}
						}
					}
				}
				if !hasDefault || !hasCheck {
					return h.Violf("%s: guard field needs a DEFAULT and an equality CHECK (default=%v check=%v)\n%s", where, hasDefault, hasCheck, src())
				}
			}
			// foreign keys
			nFK := 0
			for _, ct := range sc.Constraints {
				if ct.Kind != "foreign_key" || pgx.Fold(ct.Table) != want.SQLName || len(ct.Columns) != 1 || pgx.Fold(ct.Columns[0]) != pgx.Fold(wc.Name) {
					continue
				}
				nFK++
				if wc.FK == "" {
					return h.Violf("%s is not a foreign-key field but gets %s\n%s", where, ct.Raw, src())
				}
				if pgx.Fold(ct.RefTable) != snakePlural(wc.FK) {
					return h.Violf("%s: FOREIGN KEY references %s, expected %s (table of %s)\n%s", where, ct.RefTable, snakePlural(wc.FK), wc.FK, src())
				}
				if ct.OnDelete != strings.ToUpper(wc.OnDelete) {
					return h.Violf("%s: FOREIGN KEY has ON DELETE %q, the tag says %q\n%s", where, ct.OnDelete, wc.OnDelete, src())
				}
			}
			if wc.FK != "" && nFK != 1 {
				return h.Violf("%s: foreign-key field (to %s) has %d FOREIGN KEY constraints, expected exactly one\n%s", where, wc.FK, nFK, src())
			}
			if wc.FK != "" {
				nontrivial = true
			}
		}
		if len(want.Cols) >= 4 && len(kinds) >= 3 {
			nontrivial = true
		}
	}
	if nontrivial {
		r.NonTriv(specKey(c.Spec), func() any { return map[string]any{"source": clip(c.Spec.Text(), 1500), "schema_head": clip(text, 700)} })
	}
	return nil
}

func typeText(t *synth.TypeRef) string {
	if t == nil {
		return "?"
	}
	switch t.K {
	case synth.TBasic:
		return t.Name
	case synth.TRef:
		return t.Name
	case synth.TStd:
		return t.Pkg + "." + t.Name
	case synth.TSlice:
		return "[]" + typeText(t.Elem)
	case synth.TArray:
		return "[N]" + typeText(t.Elem)
	case synth.TMap:
		return "map[" + typeText(t.Key) + "]" + typeText(t.Elem)
	}
	return t.K
}

func TestC08(t *testing.T) {
	h.Main(t, h.Prop[specCase]{
		ID: "C08",
		Rule: "rapid model files of the sql profile (1..4 tables, primary/link, ids of int64 or local ID types spelled Id/ID, foreign keys by ID type / tag / sql.NullInt64 / local wrapper with ON DELETE tags, columns of every SQL kind, guards, directives) -> sql.Generate parsed by internal/pgx and compared with a reference Go->SQL mapping written from the statement: table names, column order, SQL types, NOT NULL, serial primary key, enum / length / jsonb / guard CHECKs, composite CREATE TYPE, exactly one FOREIGN KEY per foreign-key field with the tagged action; " +
			"non-trivial = a table with >= 4 columns of >= 3 SQL kinds or a foreign key; distinct by SHA-256 of the source",
		Assumes: []string{
			"names are plain CamelCase words so that every snake-case convention agrees",
			"where the statement leaves a choice (int8) both answers are accepted",
			"SQL text is read with the purpose-built parser internal/pgx",
		},
		Gen:   c08Gen,
		Check: c08Check,
	})
}
