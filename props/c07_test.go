package props

import (
	"bytes"
	"crypto/sha256"
	"encoding/hex"
	"encoding/json"
	"fmt"
	"os"
	"os/exec"
	"path/filepath"
	"sort"
	"strings"
	"sync"
	"testing"

	"verif/internal/fastload"
	"verif/internal/h"
	"verif/internal/synth"

	"github.com/benoitkugler/gomacro/analysis"
	"github.com/benoitkugler/gomacro/analysis/httpapi"
	gen "github.com/benoitkugler/gomacro/generator"
	"github.com/benoitkugler/gomacro/generator/dart"
	"github.com/benoitkugler/gomacro/generator/go/gounions"
	"github.com/benoitkugler/gomacro/generator/go/randdata"
	"github.com/benoitkugler/gomacro/generator/go/sqlcrud"
	sqlgen "github.com/benoitkugler/gomacro/generator/sql"
	"github.com/benoitkugler/gomacro/generator/typescript"
	"pgregory.net/rapid"
)

// C07 — generation is deterministic.

type c07Case struct {
	Spec    *synth.Spec      `json:"spec,omitempty"`
	Routes  *synth.RouteSpec `json:"routes,omitempty"`
	Profile string           `json:"profile"`          // types | sql | routes
	Cross   bool             `json:"cross"`            // also run the real CLI in separate processes
	Reload  bool             `json:"reload,omitempty"` // also load the written module several times with the real loader (go/packages parses files concurrently)
}

func c07Gen(t *rapid.T, r *h.Rec) c07Case {
	av, onEx, onCl := avoidOpts(r)
	c := c07Case{Cross: rapid.IntRange(0, 79).Draw(t, "cross") == 0, Reload: rapid.IntRange(0, 29).Draw(t, "reload") == 0}
	switch rapid.IntRange(0, 5).Draw(t, "profile") {
	case 0, 1:
		c.Profile = "sql"
		c.Spec = synth.GenSQL(t, &synth.SQLOpts{Avoid: av, OnExclude: onEx, OnClass: onCl, MaxTables: 4, Directives: true, SelfFK: true})
	case 2:
		c.Profile = "routes"
		c.Routes = synth.GenRoutes(t, &synth.RouteOpts{Avoid: av, OnExclude: onEx, OnClass: onCl})
		c.Cross, c.Reload = false, false
	default:
		c.Profile = "types"
		o := &synth.Opts{Avoid: av, OnExclude: onEx, OnClass: onCl,
			Pointers: true, Unions: 2, SubPkgs: true, Generics: true, Aliases: true, Recursion: true, Embedded: true, StdTypes: true,
			EnumStress: true, FixedArrays: true, Maps: true, Times: true, TagVariety: true, MaxDecls: 12, MinDecls: 4, ManySubPkgs: true, SameNamePkgs: true}
		c.Spec = synth.GenTypes(t, o)
	}
	return c
}

func sha(s string) string {
	sum := sha256.Sum256([]byte(s))
	return hex.EncodeToString(sum[:8])
}

// c07Outputs runs every target on one analysis and returns target/file -> text ("" entries for refused targets carry the diagnostic).
func c07Outputs(an *analysis.Analysis, root string) map[string]string {
	out := map[string]string{}
	run := func(name string, f func() string) {
		var text string
		oc := guard(func() { text = f() })
		if oc.Panicked {
			out[name] = "PANIC: " + oc.Msg
			return
		}
		out[name] = text
	}
	run("go/unions", func() string { return gen.WriteDeclarations(gounions.Generate(an)) })
	run("go/randdata", func() string { return gen.WriteDeclarations(randdata.Generate(an)) })
	run("go/sqlcrud", func() string { return gen.WriteDeclarations(sqlcrud.Generate(an, false)) })
	run("go/sqlcrud+sets", func() string { return gen.WriteDeclarations(sqlcrud.Generate(an, true)) })
	run("sql", func() string { return gen.WriteDeclarations(sqlgen.Generate(an)) })
	run("typescript/types", func() string { return gen.WriteDeclarations(typescript.Generate(an)) })
	oc := guard(func() {
		for _, o := range dart.Generate(root, []*analysis.Analysis{an}) {
			out["dart/"+o.Filename] = gen.WriteDeclarations(o.Content)
		}
	})
	if oc.Panicked {
		out["dart"] = "PANIC: " + oc.Msg
	}
	return out
}

func diffOutputs(a, b map[string]string) string {
	var keys []string
	seen := map[string]bool{}
	for k := range a {
		keys = append(keys, k)
		seen[k] = true
	}
	for k := range b {
		if !seen[k] {
			keys = append(keys, k)
		}
	}
	sort.Strings(keys)
	for _, k := range keys {
		x, okx := a[k]
		y, oky := b[k]
		if !okx || !oky {
			return fmt.Sprintf("output %s exists in one run only", k)
		}
		if x != y {
			return fmt.Sprintf("output %s differs between two runs (sha %s vs %s): %s", k, sha(x), sha(y), firstDiff(x, y))
		}
	}
	return ""
}

var (
	cliOnce sync.Once
	cliPath string
	cliErr  error
)

// buildCLI builds the real gomacro command from the repository under test (once per process).
func buildCLI() (string, error) {
	cliOnce.Do(func() {
		repo := os.Getenv("VERIF_REPO")
		if repo == "" {
			repo = "/repo"
		}
		cliPath = filepath.Join(scratch(), "gomacro-cli")
		cmd := exec.Command("go", "build", "-o", cliPath, "./cmd")
		cmd.Dir = repo
		cmd.Env = append(os.Environ(), "GOFLAGS=-mod=mod")
		if out, err := cmd.CombinedOutput(); err != nil {
			cliErr = fmt.Errorf("building the CLI: %v\n%s", err, out)
		}
	})
	return cliPath, cliErr
}

func c07Check(c c07Case, r *h.Rec) error {
	const R = 8
	if c.Profile == "routes" {
		return c07Routes(c, r, R)
	}
	src := func() string { return clip(c.Spec.Text(), 3000) }
	var first map[string]string
	var ld0 *fastload.Loaded
	for i := 0; i < R; i++ {
		// half of the repetitions share one load, the others use a fresh load
		var ld *fastload.Loaded
		if i < R/2 && ld0 != nil {
			ld = ld0
		} else {
			var err error
			if i%2 == 1 {
				// the other legal order of entry into the FileSet (the real loader parses concurrently)
				ld, err = fastload.LoadReversed(c.Spec)
			} else {
				ld, err = fastload.Load(c.Spec)
			}
			if err != nil {
				return h.Inconcf("synthesised source does not type-check: %v", err)
			}
			if ld0 == nil {
				ld0 = ld
			}
		}
		var an *analysis.Analysis
		oc := guard(func() { an = analysis.NewAnalysisFromFile(ld.Root, ld.FileName) })
		if oc.Panicked {
			if first != nil {
				// state surviving from an earlier load (a package-level cache) is the only thing that changed
				return h.Violf("analysis #%d of the same sources is refused (%s) although analysis #1 succeeded\n%s", i+1, clip(oc.Msg, 200), src())
			}
			r.Refused++
			return nil
		}
		outs := c07Outputs(an, gopathRoot(c.Spec))
		if first == nil {
			first = outs
			// generating twice from one analysis: a target must not leave traces in the shared analysis
			if d := diffOutputs(outs, c07Outputs(an, gopathRoot(c.Spec))); d != "" {
				return h.Violf("generating every target a second time from the same analysis gives another text: %s\n%s", d, src())
			}
			continue
		}
		if d := diffOutputs(first, outs); d != "" {
			return h.Violf("two in-process generations of the same sources differ (repetition %d): %s\n%s", i+1, d, src())
		}
	}
	r.Add("in_process_repetitions", R)
	for k, v := range first {
		if strings.HasPrefix(v, "PANIC: ") {
			r.Class("refused:" + strings.SplitN(k, "/", 3)[0])
		}
	}
	if c.Cross {
		if err := c07CrossProcess(c, r); err != nil {
			return err
		}
	}
	if c.Reload || (r.Confirm && hasEnumInTwoFiles(c.Spec)) {
		if err := c07RealReloads(c, r); err != nil {
			return err
		}
	}
	// non-trivial: >= 2 non-root packages, or >= 2 unions
	nUnions := 0
	for _, f := range c.Spec.Root().Files {
		for _, d := range f.Decls {
			if d.Kind == synth.KUnion {
				nUnions++
			}
		}
	}
	if len(c.Spec.Pkgs) >= 3 || nUnions >= 2 || c.Profile == "sql" {
		r.NonTriv(specKey(c.Spec, fmt.Sprint(c.Cross)), func() any {
			hashes := map[string]string{}
			for k, v := range first {
				hashes[k] = sha(v)
			}
			return map[string]any{"profile": c.Profile, "packages": len(c.Spec.Pkgs), "unions": nUnions, "output_hashes": hashes, "cross_process": c.Cross}
		})
	}
	return nil
}

// hasEnumInTwoFiles: typed constants of one type declared in more than one file of a package.
func hasEnumInTwoFiles(spec *synth.Spec) bool {
	for _, p := range spec.Pkgs {
		where := map[string]string{}
		for _, f := range p.Files {
			for _, b := range f.Consts {
				for _, cs := range b.Specs {
					for _, ty := range cs.OfType {
						if ty == "" {
							continue
						}
						if w, ok := where[ty]; ok && w != f.Name {
							return true
						}
						where[ty] = f.Name
					}
				}
			}
		}
	}
	return false
}

// c07RealReloads loads the written module several times with analysis.LoadSource (go/packages parses the
// files of a package concurrently, so token positions of different files are not ordered the same way on
// every load) and compares every output of every target.
func c07RealReloads(c c07Case, r *h.Rec) error {
	dir, err := os.MkdirTemp(scratch(), "c07r-")
	if err != nil {
		return h.Inconcf("scratch: %v", err)
	}
	defer os.RemoveAll(dir)
	mod := filepath.Join(dir, "go", "src", "verif.test", "org", "proj")
	file, err := fastload.WriteModule(c.Spec, mod)
	if err != nil {
		return h.Inconcf("write module: %v", err)
	}
	loads := 4
	if hasEnumInTwoFiles(c.Spec) {
		loads = 12
		if r.Confirm {
			loads = 40 // whether two loads differ depends on goroutine scheduling inside go/packages
		}
		r.Class("reload:enum_members_in_two_files")
	}
	var first map[string]string
	for i := 0; i < loads; i++ {
		devnull, _ := os.OpenFile(os.DevNull, os.O_WRONLY, 0)
		oldErr := os.Stderr
		os.Stderr = devnull
		pkg, lerr := analysis.LoadSource(file)
		os.Stderr = oldErr
		devnull.Close()
		if lerr != nil {
			return h.Inconcf("the real loader refuses the written module: %v", lerr)
		}
		var an *analysis.Analysis
		if oc := guard(func() { an = analysis.NewAnalysisFromFile(pkg, file) }); oc.Panicked {
			if first != nil {
				return h.Violf("analysis after reload #%d of the same module is refused (%s) although the first one succeeded\n%s", i+1, clip(oc.Msg, 200), clip(c.Spec.Text(), 3000))
			}
			return nil
		}
		outs := c07Outputs(an, gopathRoot(c.Spec))
		if first == nil {
			first = outs
			continue
		}
		if d := diffOutputs(first, outs); d != "" {
			return h.Violf("two loads of the same module with the real loader give different output (load %d): %s\n%s", i+1, d, clip(c.Spec.Text(), 3000))
		}
	}
	r.Add("real_loader_reloads", loads)
	return nil
}

// c07CrossProcess runs the real CLI three times as separate processes on the written module.
func c07CrossProcess(c c07Case, r *h.Rec) error {
	cli, err := buildCLI()
	if err != nil {
		return h.Inconcf("%v", err)
	}
	dir, err := os.MkdirTemp(scratch(), "c07-")
	if err != nil {
		return h.Inconcf("scratch: %v", err)
	}
	defer os.RemoveAll(dir)
	// a GOPATH-like layout so that the Dart linker recognises the root
	mod := filepath.Join(dir, "go", "src", "verif.test", "org", "proj")
	file, err := fastload.WriteModule(c.Spec, mod)
	if err != nil {
		return h.Inconcf("write module: %v", err)
	}
	goBin, err := exec.LookPath("go")
	if err != nil {
		return h.Inconcf("go not found")
	}
	binDir := filepath.Join(dir, "bin")
	os.MkdirAll(binDir, 0o755)
	os.Symlink(goBin, filepath.Join(binDir, "go"))
	// a second source of the same configuration: the sibling file of the analysed package (its declarations are
	// then analysed on their own as well, and the Dart generator merges both analyses)
	second := ""
	if files := c.Spec.Root().Files; len(files) > 1 {
		second = filepath.Join(filepath.Dir(file), files[1].Name)
		for _, d := range files[1].Decls {
			if d.Kind == synth.KGeneric {
				second = "" // an uninstantiated generic declaration is refused when it is a source itself
			}
		}
	}
	runs := 3
	if second != "" {
		runs = 4
		r.Class("cross_process:two_sources")
	}
	var first map[string]string
	for run := 0; run < runs; run++ {
		outDir := filepath.Join(dir, fmt.Sprintf("out%d", run))
		os.MkdirAll(filepath.Join(outDir, "dart"), 0o755)
		actions := []map[string]string{
			{"Mode": "go/unions", "Output": filepath.Join(outDir, "unions.go.txt")},
			{"Mode": "go/randdata", "Output": filepath.Join(outDir, "randdata.go.txt")},
			{"Mode": "sql", "Output": filepath.Join(outDir, "create.sql")},
			{"Mode": "typescript/types", "Output": filepath.Join(outDir, "types.ts")},
			{"Mode": "dart", "Output": "unused"},
		}
		if c.Profile == "sql" {
			actions = append(actions, map[string]string{"Mode": "go/sqlcrud", "Output": filepath.Join(outDir, "crud.go.txt")})
		}
		conf := map[string]any{"_dart": []map[string]string{{"Mode": "dart", "Output": filepath.Join(outDir, "dart")}}, file: actions}
		if second != "" {
			conf[second] = []map[string]string{
				{"Mode": "typescript/types", "Output": filepath.Join(outDir, "types_other.ts")},
				{"Mode": "dart", "Output": "unused"},
			}
		}
		cb, _ := json.Marshal(conf)
		confPath := filepath.Join(outDir, "conf.json")
		os.WriteFile(confPath, cb, 0o644)
		cmd := exec.Command(cli, "-config", confPath)
		cmd.Dir = filepath.Dir(file)
		cmd.Env = []string{"PATH=" + binDir, "HOME=" + os.Getenv("HOME"), "GOFLAGS=-mod=mod", "GOPROXY=off", "GOSUMDB=off", "GOTOOLCHAIN=local", "GOCACHE=" + goCacheDir()}
		var ob bytes.Buffer
		cmd.Stdout, cmd.Stderr = &ob, &ob
		if err := cmd.Run(); err != nil {
			// a diagnostic (panic of a generator) ends the CLI: nothing to compare for this program
			r.Class("cli_refused_program")
			return nil
		}
		outs := map[string]string{}
		filepath.Walk(outDir, func(p string, info os.FileInfo, err error) error {
			if err == nil && !info.IsDir() && filepath.Base(p) != "conf.json" {
				b, _ := os.ReadFile(p)
				rel, _ := filepath.Rel(outDir, p)
				outs[rel] = string(b)
			}
			return nil
		})
		if first == nil {
			first = outs
			continue
		}
		if d := diffOutputs(first, outs); d != "" {
			return h.Violf("two separate processes of the gomacro CLI produce different output for the same sources: %s\n%s", d, clip(c.Spec.Text(), 3000))
		}
	}
	r.Add("cross_process_programs", 1)
	r.Class("cross_process_ok")
	return nil
}

func goCacheDir() string {
	if d := os.Getenv("GOCACHE"); d != "" {
		return d
	}
	home, _ := os.UserHomeDir()
	return filepath.Join(home, ".cache", "go-build")
}

// c07Routes: repeated extraction + client generation on route files.
func c07Routes(c c07Case, r *h.Rec, R int) error {
	var first string
	for i := 0; i < R; i++ {
		ld, file, err := loadRoutes(c.Routes)
		if err != nil {
			return err
		}
		var text string
		oc := guard(func() { text = typescript.GenerateAxios(httpapi.ParseEcho(ld.Root, file, "")) })
		if oc.Panicked {
			r.Refused++
			return nil
		}
		// function-literal handlers are named after their position in the file set: normalise nothing, positions are stable for identical sources
		if i == 0 {
			first = text
			continue
		}
		if text != first {
			return h.Violf("two generations of the Axios client for the same route file differ: %s\n%s", firstDiff(first, text), clip(c.Routes.Text(), 2500))
		}
	}
	r.NonTriv([]byte("routes\x00"+c.Routes.Text()), func() any { return map[string]any{"profile": "routes", "client_sha": sha(first)} })
	return nil
}

func TestC07(t *testing.T) {
	h.Main(t, h.Prop[c07Case]{
		ID: "C07", ConfirmTries: 12,
		Rule: "rapid programs of the types profile (>= 1 union, several imported user packages, generics, aliases), the sql profile (with directives) and the routes profile; each is analysed and generated 8 times in one process (half on a shared load, half on fresh loads which alternate between the two orders in which files can enter the FileSet) for gounions, randdata, sqlcrud (sets on/off), sql, typescript types, dart (all files) or the Axios client, comparing every output text and the set of output files; about 1 program in 20 (rapid favours small draws) is also run three times through the real CLI (go build of cmd, -config mode with a _dart entry and, when the package has a sibling file, that file as a second source: four runs then; PATH holding only `go`) as separate processes, comparing every written file; 1 program in 30 is also loaded 4 times with the real analysis.LoadSource, whose parser works concurrently, comparing all outputs; " +
			"non-trivial = a program with >= 2 non-root packages, >= 2 unions, a sql model or a route file; distinct by SHA-256 of the source",
		Assumes: []string{
			"Go's per-iteration randomised map order plays the scheduler: a dependence on the order of k >= 2 map entries survives 8 runs with probability <= 2^-7",
			"repetition samples executions; it cannot prove absence",
		},
		Gen:   c07Gen,
		Check: c07Check,
	})
}
