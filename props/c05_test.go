package props

import (
	"crypto/sha256"
	"encoding/json"
	"fmt"
	"os"
	"regexp"
	"strconv"
	"strings"
	"testing"
	"time"

	"verif/internal/child"
	"verif/internal/h"
	"verif/internal/synth"

	gen "github.com/benoitkugler/gomacro/generator"
	"github.com/benoitkugler/gomacro/generator/go/gounions"
	"github.com/benoitkugler/gomacro/generator/go/sqlcrud"
	"pgregory.net/rapid"
)

// C05 — generated CRUD code and generated schema agree, statement by statement.

func c05Gen(t *rapid.T, r *h.Rec) execCase {
	av, onEx, onCl := avoidOpts(r)
	return execCase{
		Spec:   synth.GenSQL(t, &synth.SQLOpts{Avoid: av, OnExclude: onEx, OnClass: onCl, MaxTables: 4, Executable: true, PlainQueries: true}),
		Seed:   int64(rapid.IntRange(1, 1<<30).Draw(t, "childSeed")),
		Checks: childChecks(12, 60),
	}
}

var (
	reUniqueDir = regexp.MustCompile(`(?i)^gomacro:SQL ADD (UNIQUE|PRIMARY KEY)\s?\((.*)\)`)
	reSelectKey = regexp.MustCompile(`(?i)^gomacro:SQL _SELECT KEY\s?\((.*)\)`)
)

func splitCols(s string) []string {
	var out []string
	for _, c := range strings.Split(s, ",") {
		out = append(out, strings.TrimSpace(c))
	}
	return out
}

// harnessType prints a field type as seen from the harness file (which imports database/sql and time under aliases).
func harnessType(t *synth.TypeRef) string {
	s := goTypeText(t)
	s = strings.ReplaceAll(s, "sql.", "vcsql.")
	s = strings.ReplaceAll(s, "time.", "vctime.")
	return s
}

// keyTypeOf: the type of the ids handled by the by-foreign-key helpers (the wrapped type for nullable fields).
func keyTypeOf(spec *synth.Spec, f *synth.Field) string {
	t := f.Type
	if t.K == synth.TStd && t.Name == "NullInt64" {
		return "int64"
	}
	if t.K == synth.TRef {
		if _, d := spec.Resolve(spec.Root(), t); d != nil && d.Kind == synth.KStruct && len(d.Fields) == 2 {
			for i, fl := range d.Fields {
				if fl.Name == "Valid" {
					return harnessType(d.Fields[1-i].Type)
				}
			}
		}
	}
	return harnessType(t)
}

var (
	rePlainUpdate = regexp.MustCompile(`^gomacro:QUERY (\w+) UPDATE (\w+) SET (\w+) = \$newValue\$ WHERE (\w+) = \$selectV\$ ;$`)
	rePlainDelete = regexp.MustCompile(`^gomacro:QUERY (\w+) DELETE FROM (\w+) WHERE (\w+) = \$key\$;$`)
)

// renderCrudHarness renders the table bindings of the child harness.
func renderCrudHarness(spec *synth.Spec, model *sqlModel, ddl string, sets bool) string {
	var sb strings.Builder
	sb.WriteString("package " + spec.Root().Name + "\n")
	sb.WriteString(child.CrudHarnessStatic)
	sb.WriteString("\nconst vcDDL = " + strconv.Quote(ddl) + "\n\n")
	sb.WriteString("var vcTables = []*vcTable{\n")
	for _, tb := range model.Tables {
		T := tb.GoName
		idT := "int64"
		if tb.Primary != nil {
			idT = harnessType(tb.Primary.GoType)
		}
		fmt.Fprintf(&sb, "\t{Go: %q, SQL: %q, Type: vcreflect.TypeOf(%s{}), Primary: %v,\n", T, tb.SQLName, T, tb.Primary != nil)
		if tb.Primary != nil {
			fmt.Fprintf(&sb, "\t\tIDField: %q,\n", tb.Primary.Name)
		}
		// columns and foreign keys
		var fkCols []*sqlCol
		sb.WriteString("\t\tCols: []vcCol{\n")
		for _, c := range tb.Cols {
			if c.Guard != "" {
				continue
			}
			fkIdx := -1
			if c.FK != "" {
				fkIdx = len(fkCols)
				fkCols = append(fkCols, c)
			}
			fmt.Fprintf(&sb, "\t\t\t{Field: %q, SQLType: %q, Kind: %q, ElemKind: %q, FK: %d},\n", c.Name, c.Types[0], c.Kind, c.ElemKind, fkIdx)
		}
		sb.WriteString("\t\t},\n")
		uniqueSingle := map[string]bool{}
		type keyDir struct {
			cols   []string
			unique bool
		}
		var keys []keyDir
		for _, line := range tb.Decl.Doc {
			if m := reUniqueDir.FindStringSubmatch(line); m != nil {
				cols := splitCols(m[2])
				if len(cols) == 1 {
					uniqueSingle[cols[0]] = true
				}
				keys = append(keys, keyDir{cols, true})
			} else if m := reSelectKey.FindStringSubmatch(line); m != nil {
				keys = append(keys, keyDir{splitCols(m[1]), false})
			}
		}
		rowsConv := func(v string, primary bool) string {
			// converts the collection returned by the generated function into []any
			return fmt.Sprintf("func() []any { out := make([]any, 0, len(%s)); for _, r := range %s { out = append(out, r) }; return out }()", v, v)
		}
		sb.WriteString("\t\tFKs: []vcFK{\n")
		for _, c := range fkCols {
			K := keyTypeOf(spec, c.Field)
			conv := fmt.Sprintf("conv := make([]%s, len(keys)); for i, k := range keys { conv[i] = %s(k) }", K, K)
			fmt.Fprintf(&sb, "\t\t\t{Field: %q, Target: %q, Nullable: %v, Unique: %v, OnDelete: %q,\n", c.Name, c.FK, c.Nullable, uniqueSingle[c.Name], c.OnDelete)
			fmt.Fprintf(&sb, "\t\t\t\tSelectBy: func(db DB, keys []int64) ([]any, error) { %s; m, err := Select%ssBy%ss(db, conv...); if err != nil { return nil, err }; return %s, nil },\n", conv, T, c.Name, rowsConv("m", tb.Primary != nil))
			if tb.Primary != nil {
				fmt.Fprintf(&sb, "\t\t\t\tDeleteBy: func(db DB, keys []int64) ([]any, []int64, error) { %s; ids, err := Delete%ssBy%ss(db, conv...); if err != nil { return nil, nil, err }; out := make([]int64, len(ids)); for i, id := range ids { out[i] = int64(id) }; return nil, out, nil },\n", conv, T, c.Name)
			} else {
				fmt.Fprintf(&sb, "\t\t\t\tDeleteBy: func(db DB, keys []int64) ([]any, []int64, error) { %s; m, err := Delete%ssBy%ss(db, conv...); if err != nil { return nil, nil, err }; return %s, nil, nil },\n", conv, T, c.Name, rowsConv("m", false))
			}
			if !c.Nullable {
				// collection helpers
				mk := "m := make(" + T + "s" + ", len(rows)); for _, r := range rows { it := r.(" + T + "); m[it." + func() string {
					if tb.Primary != nil {
						return tb.Primary.Name
					}
					return ""
				}() + "] = it }"
				if tb.Primary == nil {
					mk = "m := make(" + T + "s, 0, len(rows)); for _, r := range rows { m = append(m, r.(" + T + ")) }"
				}
				fmt.Fprintf(&sb, "\t\t\t\tKeysOf: func(rows []any) []int64 { %s; got := m.%ss(); out := make([]int64, len(got)); for i, k := range got { out[i] = int64(k) }; return out },\n", mk, c.Name)
				if !uniqueSingle[c.Name] {
					fmt.Fprintf(&sb, "\t\t\t\tByKey: func(rows []any) map[int64][]any { %s; out := map[int64][]any{}; for k, sub := range m.By%s() { for _, r := range sub { out[int64(k)] = append(out[int64(k)], r) } }; return out },\n", mk, c.Name)
				}
			}
			if uniqueSingle[c.Name] {
				fmt.Fprintf(&sb, "\t\t\t\tSelectOneBy: func(db DB, key int64) (any, bool, error) { return Select%sBy%s(db, %s(key)) },\n", T, c.Name, K)
			}
			sb.WriteString("\t\t\t},\n")
		}
		sb.WriteString("\t\t},\n")
		// keys
		isFK := map[string]bool{}
		for _, c := range fkCols {
			isFK[c.Name] = true
		}
		colByName := map[string]*sqlCol{}
		for _, c := range tb.Cols {
			colByName[c.Name] = c
		}
		sb.WriteString("\t\tKeys: []vcKey{\n")
		for _, k := range keys {
			quoted := make([]string, len(k.cols))
			args := make([]string, len(k.cols))
			for i, cn := range k.cols {
				quoted[i] = strconv.Quote(cn)
				args[i] = fmt.Sprintf("args[%d].(%s)", i, harnessType(colByName[cn].GoType))
			}
			title := strings.Join(k.cols, "And")
			fmt.Fprintf(&sb, "\t\t\t{Fields: []string{%s}, Unique: %v,\n", strings.Join(quoted, ", "), k.unique)
			if k.unique {
				if !(len(k.cols) == 1 && isFK[k.cols[0]]) {
					fmt.Fprintf(&sb, "\t\t\t\tSelectOne: func(db DB, args []any) (any, bool, error) { return Select%sBy%s(db, %s) },\n", T, title, strings.Join(args, ", "))
				}
			} else {
				fmt.Fprintf(&sb, "\t\t\t\tSelectBy: func(db DB, args []any) ([]any, error) { m, err := Select%ssBy%s(db, %s); if err != nil { return nil, err }; return %s, nil },\n", T, title, strings.Join(args, ", "), rowsConv("m", tb.Primary != nil))
				fmt.Fprintf(&sb, "\t\t\t\tDeleteBy: func(db DB, args []any) ([]any, error) { m, err := Delete%ssBy%s(db, %s); if err != nil { return nil, err }; return %s, nil },\n", T, title, strings.Join(args, ", "), rowsConv("m", tb.Primary != nil))
			}
			sb.WriteString("\t\t\t},\n")
		}
		sb.WriteString("\t\t},\n")
		// custom queries over plain columns: QUERY <fn> UPDATE <T> SET <c> = $newValue$ WHERE <d> = $selectV$ ; | DELETE FROM <T> WHERE <d> = $key$;
		sb.WriteString("\t\tQueries: []vcQuery{\n")
		for _, line := range tb.Decl.Doc {
			inUnique := func(col string) bool {
				for _, k := range keys {
					for _, c := range k.cols {
						if k.unique && c == col {
							return true
						}
					}
				}
				return false
			}
			if m := rePlainUpdate.FindStringSubmatch(line); m != nil && colByName[m[3]] != nil && colByName[m[4]] != nil && !inUnique(m[3]) {
				fmt.Fprintf(&sb, "\t\t\t{Name: %q, Set: %q, Where: %q, Exec: func(db DB, set, where any) error { return %s(db, set.(%s), where.(%s)) }},\n",
					m[1], m[3], m[4], m[1], harnessType(colByName[m[3]].GoType), harnessType(colByName[m[4]].GoType))
			} else if m := rePlainDelete.FindStringSubmatch(line); m != nil && colByName[m[3]] != nil {
				fmt.Fprintf(&sb, "\t\t\t{Name: %q, Where: %q, Exec: func(db DB, _, where any) error { return %s(db, where.(%s)) }},\n",
					m[1], m[3], m[1], harnessType(colByName[m[3]].GoType))
			}
		}
		sb.WriteString("\t\t},\n")
		// entry points
		fmt.Fprintf(&sb, "\t\tSelectAll: func(db DB) ([]any, error) { m, err := SelectAll%ss(db); if err != nil { return nil, err }; return %s, nil },\n", T, rowsConv("m", tb.Primary != nil))
		if tb.Primary != nil {
			convIDs := fmt.Sprintf("conv := make([]%s, len(ids)); for i, k := range ids { conv[i] = %s(k) }", idT, idT)
			fmt.Fprintf(&sb, "\t\tInsert: func(db DB, row any) (any, error) { return row.(%s).Insert(db) },\n", T)
			fmt.Fprintf(&sb, "\t\tIDsOf: func(rows []any) []int64 { m := make(%ss, len(rows)); for _, r := range rows { it := r.(%s); m[it.%s] = it }; got := m.IDs(); out := make([]int64, len(got)); for i, k := range got { out[i] = int64(k) }; return out },\n", T, T, tb.Primary.Name)
			if !strings.Contains(idT, ".") {
				// helpers named after the ID type: <ID>ArrayToPQ always, <ID>Set with generate-sets
				fmt.Fprintf(&sb, "\t\tArrayToPQ: func(ids []int64) []int64 { %s; return []int64(%sArrayToPQ(conv)) },\n", convIDs, idT)
				if sets {
					fmt.Fprintf(&sb, "\t\tSetOps: func(ids []int64, probe int64) (int, bool, []int64, bool, []int64) { %s; back := func(ks []%s) []int64 { out := make([]int64, len(ks)); for i, k := range ks { out[i] = int64(k) }; return out }; s := New%sSetFrom(conv); n, has, keys := len(s), s.Has(%s(probe)), back(s.Keys()); s.Add(%s(probe)); return n, has, keys, s.Has(%s(probe)), back(s.Keys()) },\n", convIDs, idT, idT, idT, idT, idT)
				}
			}
			fmt.Fprintf(&sb, "\t\tSelect: func(db DB, id int64) (any, error) { return Select%s(db, %s(id)) },\n", T, idT)
			fmt.Fprintf(&sb, "\t\tSelectMany: func(db DB, ids []int64) ([]any, error) { %s; m, err := Select%ss(db, conv...); if err != nil { return nil, err }; return %s, nil },\n", convIDs, T, rowsConv("m", true))
			fmt.Fprintf(&sb, "\t\tUpdate: func(db DB, row any) (any, error) { return row.(%s).Update(db) },\n", T)
			fmt.Fprintf(&sb, "\t\tDelete: func(db DB, id int64) (any, error) { return Delete%sById(db, %s(id)) },\n", T, idT)
			fmt.Fprintf(&sb, "\t\tDeleteMany: func(db DB, ids []int64) ([]int64, error) { %s; got, err := Delete%ssByIDs(db, conv...); if err != nil { return nil, err }; out := make([]int64, len(got)); for i, id := range got { out[i] = int64(id) }; return out, nil },\n", convIDs, T)
		} else {
			fmt.Fprintf(&sb, "\t\tInsert: func(db DB, row any) (any, error) { return nil, row.(%s).Insert(db) },\n", T)
			fmt.Fprintf(&sb, "\t\tLinkDelete: func(db DB, row any) error { return row.(%s).Delete(db) },\n", T)
			fmt.Fprintf(&sb, "\t\tInsertMany: func(tx *vcsql.Tx, rows []any) error { items := make([]%s, len(rows)); for i, r := range rows { items[i] = r.(%s) }; return InsertMany%ss(tx, items...) },\n", T, T, T)
		}
		sb.WriteString("\t},\n")
	}
	sb.WriteString("}\n")
	return sb.String()
}

func c05Check(c execCase, r *h.Rec) error {
	src := func() string { return clip(c.Spec.Text(), 3500) }
	ls, err := loadSpec(c.Spec)
	if err != nil {
		return err
	}
	if ls.oc.Panicked {
		r.Refused++
		return nil
	}
	ddl, oc := sqlOutput(ls)
	if oc.Panicked {
		r.Refused++
		return nil
	}
	var crud, unions string
	if oc := guard(func() { crud = gen.WriteDeclarations(sqlcrud.Generate(ls.an, c.Seed%2 == 0)) }); oc.Panicked {
		r.Refused++
		return nil
	}
	if oc := guard(func() { unions = gen.WriteDeclarations(gounions.Generate(ls.an)) }); oc.Panicked {
		r.Refused++
		return nil
	}
	model, err := newSQLModel(c.Spec)
	if err != nil {
		return h.Inconcf("reference model: %v", err)
	}
	crudFixed, err := fixImports(c.Spec, ls, "zz_crud_gen.go", crud)
	if err != nil {
		r.Class("skipped:crud_output_does_not_parse(C01)")
		return nil
	}
	unionsFixed, err := fixImports(c.Spec, ls, "zz_unions_gen.go", unions)
	if err != nil {
		r.Class("skipped:gounions_output_does_not_parse(C01)")
		return nil
	}
	generic, err := child.Harness(c.Spec, child.Options{TypeNames: []string{}, UnionsOut: unions})
	if err != nil {
		return h.Inconcf("harness: %v", err)
	}
	histories := 12
	if c.Checks > 0 {
		histories = c.Checks
	}
	res, err := child.Run(c.Spec, scratch(), child.Options{
		Extra:      map[string]string{"zz_crud_gen.go": crudFixed, "zz_unions_gen.go": unionsFixed},
		ExtraTests: map[string]string{"zz_verif_harness_test.go": generic, "zz_verif_crud_test.go": renderCrudHarness(c.Spec, model, ddl, c.Seed%2 == 0)},
		TestRun:    "TestVerifCRUD", Seed: c.Seed, Checks: histories, NeedPQ: true, Timeout: 240 * time.Second,
	})
	if err != nil {
		return h.Inconcf("child: %v", err)
	}
	if res.BuildErr != "" {
		if !strings.Contains(res.BuildErr, "_gen.go:") && strings.Contains(res.BuildErr, "zz_verif_crud_test.go:") {
			// the generated files compile, the calls written from the reference model of the generated API
			// (names, arities and result shapes the property spells out) do not: the API is not the modelled one
			return h.Violf("the generated CRUD code compiles but does not offer the functions / result shapes the model expects (by-foreign-key returns a collection unless the column alone is UNIQUE, by-unique returns one row, ...):\n%s\n%s", clip(res.BuildErr, 1500), src())
		}
		r.Class("skipped:child_does_not_build(C01)")
		r.Add("child_build_failures", 1)
		if r.Confirm || os.Getenv("VERIF_DEBUG") != "" {
			fmt.Println("child build error:", clip(res.BuildErr, 3000))
		}
		return nil
	}
	if res.TimedOut {
		return h.Inconcf("child timed out\n%s", clip(res.Output, 1500))
	}
	var lastViol map[string]any
	done := false
	key := specKey(c.Spec)
	for _, rec := range res.Records {
		switch {
		case rec["done"] != nil:
			done = true
		case rec["inconc"] != nil:
			return h.Inconcf("%s", recStr(rec, "inconc"))
		case rec["schema_error"] != nil:
			return h.Violf("the generated schema cannot be loaded by a database implementing exactly its statements: %s\n%s", recStr(rec, "schema_error"), src())
		case rec["viol"] != nil:
			lastViol = rec
		case rec["history_ok"] != nil:
			r.Add("histories", 1)
			r.Add("operations", recInt(rec, "history_ok"))
			if nt, _ := rec["nontrivial"].(bool); nt {
				b, _ := json.Marshal(rec["sample"])
				sum := sha256.Sum256(b)
				r.NonTriv(append(append([]byte{}, key...), sum[:]...), func() any {
					return map[string]any{"schema": clip(ddl, 600), "history": rec["sample"]}
				})
			}
		}
	}
	if lastViol != nil {
		hist, _ := json.MarshalIndent(lastViol["history"], "  ", " ")
		return h.Violf("%s\n  last statement: %s\n  history: %s\n%s", recStr(lastViol, "viol"), recStr(lastViol, "last_statement"), clip(string(hist), 2500), src())
	}
	if !done {
		return h.Violf("the CRUD child died before finishing (exit %d):\n%s\n%s", res.ExitCode, clip(res.Output, 2000), src())
	}
	r.Class("programs_executed")
	return nil
}

func TestC05(t *testing.T) {
	h.Main(t, h.Prop[execCase]{
		ID: "C05",
		Rule: "rapid model files (primary tables with an id of int64 / local ID type, link tables, foreign keys by ID type / tag / sql.NullInt64 / local wrapper with ON DELETE actions, columns of every SQL kind incl. named arrays, composites, jsonb, dates, guards; UNIQUE / PRIMARY KEY / _SELECT KEY comments) are compiled with the real sqlcrud (generate-sets on/off) and gounions outputs and executed against the mini engine loaded with the generated create script (jsonb CHECKs evaluated by the validator interpreter); a rapid state machine (in the child) draws insert / select / selectAll / selectMany / update / delete / deleteMany / link delete / InsertMany (COPY) / by-foreign-key / by-unique / by-select-key calls and the pure Go helpers (IDs(), <F>s(), By<F>(), <ID>ArrayToPQ, New<ID>SetFrom / Add / Has / Keys against a map of the distinct ids) and the custom query functions of QUERY comments (UPDATE .. SET c = $newValue$ WHERE d = $selectV$, DELETE .. WHERE d = $key$ over scalar and enum columns; effect on the table compared with the model right after the call) with valid random rows and compares every result, error class and a final full scan with a map model (unique conflicts, ON DELETE CASCADE / SET NULL / refusal mirrored); the engine checks tables, columns, $1..$n placeholders vs arguments and column order on every statement; " +
			"non-trivial = a history with an insert, a non-empty read and an update/delete; distinct by (schema hash, history hash)",
		Assumes: []string{
			"the database is engine/minipg (+ engine/pq standing in for lib/pq): 'a database that implements exactly the tables the generator emits'",
			"serial ids are taken from the returned row, not predicted",
			"a child that does not compile is C01's subject and is only counted",
		},
		Gen:   c05Gen,
		Check: c05Check,
	})
}
