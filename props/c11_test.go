package props

import (
	"fmt"
	"go/types"
	"sort"
	"strings"
	"testing"

	"verif/internal/h"
	"verif/internal/synth"

	"github.com/benoitkugler/gomacro/analysis"
	"pgregory.net/rapid"
)

// C11 — union detection and membership are exact.

func c11Gen(t *rapid.T, r *h.Rec) specCase {
	av, onEx, onCl := avoidOpts(r)
	o := &synth.Opts{Avoid: av, OnExclude: onEx, OnClass: onCl, SubPkgs: true, SameNamePkgs: true, Diamonds: true, RecursiveUnions: true, ForeignUnions: true, ShortModule: true, Spelling: true, Unions: 2, UnionStress: true,
		FixedArrays: true, Maps: true, Aliases: true, Recursion: true, Embedded: true, MaxDecls: 10, MinDecls: 3, Pointers: true}
	return specCase{Spec: synth.GenTypes(t, o)}
}

// walkNodes visits every analysis node reachable by following links from the Source types.
func walkNodes(an *analysis.Analysis, visit func(n analysis.Type)) {
	seen := map[analysis.Type]bool{}
	var rec func(n analysis.Type)
	rec = func(n analysis.Type) {
		if n == nil || seen[n] {
			return
		}
		seen[n] = true
		visit(n)
		switch n := n.(type) {
		case *analysis.Struct:
			for _, f := range n.Fields {
				rec(f.Type)
			}
		case *analysis.Array:
			rec(n.Elem)
		case *analysis.Map:
			rec(n.Key)
			rec(n.Elem)
		case *analysis.Pointer:
			rec(n.Elem)
		case *analysis.Named:
			rec(n.Underlying)
		case *analysis.Union:
			for _, m := range n.Members {
				rec(m)
			}
		}
	}
	for _, s := range an.Source {
		rec(an.Types[s])
	}
	// also every value of the map (they are reachable "directly")
	var keys []types.Type
	for k := range an.Types {
		keys = append(keys, k)
	}
	sort.Slice(keys, func(i, j int) bool { return keys[i].String() < keys[j].String() })
	for _, k := range keys {
		rec(an.Types[k])
	}
}

func localNames(ts []analysis.Type) []string {
	out := make([]string, len(ts))
	for i, t := range ts {
		if n, ok := t.Type().(*types.Named); ok {
			out[i] = n.Obj().Name()
		} else {
			out[i] = t.Type().String()
		}
	}
	return out
}

// reachableInterfaces lists the interfaces of the spec that the analysis must classify
// because they are declared in the analysed file or used as a field/element type from a reachable declaration.
func c11MemberlessReachable(spec *synth.Spec, unions map[string]map[string]*synth.UnionRef) []string {
	var out []string
	seen := map[string]bool{}
	var visitDecl func(p *synth.Pkg, d *synth.Decl)
	var visitType func(p *synth.Pkg, t *synth.TypeRef)
	visitType = func(p *synth.Pkg, t *synth.TypeRef) {
		if t == nil {
			return
		}
		if t.K == synth.TRef {
			if rp, rd := spec.Resolve(p, t); rd != nil {
				visitDecl(rp, rd)
			}
		}
		visitType(p, t.Elem)
		visitType(p, t.Key)
		for _, a := range t.Args {
			visitType(p, a)
		}
	}
	visitDecl = func(p *synth.Pkg, d *synth.Decl) {
		key := p.Path + "." + d.Name
		if seen[key] {
			return
		}
		seen[key] = true
		switch d.Kind {
		case synth.KUnion:
			u := unions[p.Path][d.Name]
			if len(u.Members) == 0 {
				out = append(out, d.Name)
				return
			}
			for _, m := range u.Members {
				if md := spec.FindDecl(p.Path, m); md != nil {
					visitDecl(p, md)
				}
			}
		default:
			visitType(p, d.Type)
			for _, f := range d.Fields {
				visitType(p, f.Type)
			}
		}
	}
	for _, d := range spec.AnalysedFile().Decls {
		visitDecl(spec.Root(), d)
	}
	return out
}

func c11Check(c specCase, r *h.Rec) error {
	ls, err := loadSpec(c.Spec)
	if err != nil {
		return err
	}
	src := func() string { return clip(c.Spec.Text(), 3000) }
	if ls.oc.RuntimeEr {
		return h.Violf("union detection crashed: %s at %s\n%s", ls.oc.Msg, ls.oc.Stack, src())
	}
	unions := c.Spec.Unions()
	memberless := c11MemberlessReachable(c.Spec, unions)
	if ls.oc.Panicked {
		if len(memberless) > 0 {
			// an interface without any qualifying implementer is not a union: it is an unsupported interface type
			r.Class("expected_refusal:memberless_interface_reached")
			r.NonTriv(specKey(c.Spec), func() any { return map[string]any{"refused": ls.oc.Msg, "source": clip(c.Spec.Text(), 1800)} })
			return nil
		}
		return h.Violf("analysis refused (%s) a program whose every reachable interface has a qualifying implementer in its own package\n%s", clip(ls.oc.Msg, 200), src())
	}
	if len(memberless) > 0 {
		return h.Violf("interface(s) %v have no non-interface implementer (value method set) declared in their own package, yet the analysis accepted them\n%s", memberless, src())
	}

	// 1. every *Union node reached anywhere lists exactly the expected members in name order
	analysedUnions := map[*types.Named]*analysis.Union{}
	for _, v := range ls.an.Types {
		if u, ok := v.(*analysis.Union); ok {
			analysedUnions[u.Type().(*types.Named)] = u
		}
	}
	var verr error
	nontrivial := false
	walkNodes(ls.an, func(n analysis.Type) {
		if verr != nil {
			return
		}
		switch n := n.(type) {
		case *analysis.Union:
			named := n.Type().(*types.Named)
			ref := unions[named.Obj().Pkg().Path()][named.Obj().Name()]
			if ref == nil {
				verr = h.Inconcf("union %s not in the model", named)
				return
			}
			got := localNames(n.Members)
			if strings.Join(got, ",") != strings.Join(ref.Members, ",") {
				verr = h.Violf("union %s reports members %v, expected exactly %v (non-interface named types of its package whose value method set implements it, in name order)\n%s",
					named.Obj().Name(), got, ref.Members, src())
				return
			}
			for _, m := range n.Members {
				mn, ok := m.Type().(*types.Named)
				if !ok || mn.Obj().Pkg() != named.Obj().Pkg() {
					verr = h.Violf("union %s has member %s outside its package\n%s", named.Obj().Name(), m.Type(), src())
					return
				}
			}
			if len(ref.Members) >= 2 {
				nontrivial = true
			}
		case *analysis.Struct:
			// expected Implements: analysed unions listing it, in name order
			var want []string
			for un, u := range analysedUnions {
				ref := unions[un.Obj().Pkg().Path()][un.Obj().Name()]
				if ref == nil || un.Obj().Pkg() != n.Name.Obj().Pkg() {
					continue
				}
				for _, m := range ref.Members {
					if m == n.Name.Obj().Name() && n.Name.TypeArgs().Len() == 0 {
						want = append(want, un.String())
					}
				}
				_ = u
			}
			sort.Strings(want)
			var got []string
			for _, u := range n.Implements {
				got = append(got, u.Type().String())
			}
			if strings.Join(got, ",") != strings.Join(want, ",") {
				verr = h.Violf("struct node %s reports Implements=%v, expected %v (the analysed unions listing it, in name order)\n%s", n.Name, got, want, src())
				return
			}
			if len(want) >= 2 {
				nontrivial = true
			}
		}
	})
	if verr != nil {
		return verr
	}
	// 2. every analysed interface of the model is a *Union node (no interface silently classified otherwise)
	for pkgPath, m := range unions {
		pk := ls.ld.Pkgs[pkgPath]
		if pk == nil {
			continue
		}
		for name, ref := range m {
			obj := pk.Types.Scope().Lookup(name)
			node, ok := ls.an.Types[obj.Type()]
			if !ok {
				continue
			}
			if _, isU := node.(*analysis.Union); !isU && len(ref.Members) > 0 {
				return h.Violf("interface %s has members %v but is reported as %T\n%s", name, ref.Members, node, src())
			}
		}
	}
	for _, cl := range []string{"union:pointer_receiver_near_miss", "union:implementer_in_other_package", "union:partial_method_set_near_miss"} {
		_ = cl
	}
	if nontrivial || hasNearMiss(c.Spec) {
		r.NonTriv(specKey(c.Spec), func() any { return map[string]any{"source": clip(c.Spec.Text(), 1800)} })
	}
	r.Add("union_nodes_checked", len(analysedUnions))
	return nil
}

func hasNearMiss(spec *synth.Spec) bool {
	for _, p := range spec.Pkgs {
		for _, f := range p.Files {
			for _, d := range f.Decls {
				for _, m := range d.Impl {
					if m.Ptr {
						return true
					}
				}
			}
		}
	}
	return false
}

func TestC11(t *testing.T) {
	h.Main(t, h.Prop[specCase]{
		ID: "C11",
		Rule: "rapid program Specs of the union-stress profile (0..2 marker methods, exported/unexported markers, 1..4 members among structs / named basics / named slices / named maps / ID types, pointer-receiver and partial-method-set near misses, implementers in another package, interfaces embedding interfaces, zero-method interfaces, memberless interfaces, aliases, unions reached as fields / elements / members / top-level only) -> Union.Members and Struct.Implements of every node reachable by following links, compared with membership computed from the rendered method sets; " +
			"non-trivial = a union with >= 2 members, a struct in >= 2 unions, a near miss, or an expected refusal; distinct by SHA-256 of the rendered source",
		Assumes: []string{
			"membership oracle = value-receiver methods rendered by the synthesiser (independent of types.Implements)",
			"an interface reached by the analysis that has no qualifying implementer must be refused (it is not a union)",
		},
		Gen:   c11Gen,
		Check: c11Check,
	})
}

var _ = fmt.Sprint
