package props

import (
	"crypto/sha256"
	"encoding/json"
	"fmt"
	"sort"
	"strconv"
	"strings"
	"testing"

	"verif/internal/h"
	"verif/internal/pgx"
	"verif/internal/synth"

	"pgregory.net/rapid"
)

// C04 — generated Postgres JSON validators accept what Go emits, reject foreign shapes.

type c04Case struct {
	Spec   *synth.Spec `json:"spec"`
	Seed   int64       `json:"seed"`
	Sel    []int       `json:"sel"` // selectors choosing the corruption points (drawn by rapid)
	Checks int         `json:"checks,omitempty"`
}

func c04Gen(t *rapid.T, r *h.Rec) c04Case {
	av, onEx, onCl := avoidOpts(r)
	c := c04Case{
		Spec: synth.GenSQL(t, &synth.SQLOpts{Avoid: av, OnExclude: onEx, OnClass: onCl, MaxTables: 3, JSONHeavy: true, PayloadEmbeds: true}),
		Seed: int64(rapid.IntRange(1, 1<<30).Draw(t, "childSeed")), Checks: childChecks(25, 80),
	}
	c.Sel = rapid.SliceOfN(rapid.IntRange(0, 1<<20), 48, 48).Draw(t, "selectors")
	return c
}

type corruption struct {
	class string // extra_key | wrong_kind | unknown_kind | non_member | array_length
	path  string
	apply func() // mutates the (copied) document in place through closures
	root  bool
}

func deepCopyJSON(v any) any {
	b, _ := json.Marshal(v)
	out, _ := decodeDoc(string(b))
	return out
}

// corruptionsOf enumerates the type-directed single-point corruptions of doc (a fresh copy is
// produced for each by re-walking; setter closures write into the copy).
type docWalker struct {
	spec  *synth.Spec
	enums map[string]map[string]*synth.EnumRef
	out   []corruption
}

func (w *docWalker) add(class, path string, root bool, apply func()) {
	w.out = append(w.out, corruption{class: class, path: path, apply: apply, root: root})
}

func wrongKindFor(doc any) any {
	switch doc.(type) {
	case json.Number:
		return "zz_not_a_number"
	case string:
		return json.Number("5")
	case bool:
		return "zz_not_a_bool"
	default:
		return json.Number("5") // objects, arrays
	}
}

func (w *docWalker) walk(p *synth.Pkg, t *synth.TypeRef, doc any, set func(any), path string, depth int) {
	if depth > 12 || t == nil {
		return
	}
	root := path == "$"
	switch t.K {
	case synth.TBasic:
		if doc != nil {
			w.add("wrong_kind", path, root, func() { set(wrongKindFor(doc)) })
		}
	case synth.TStd:
		if t.Pkg == "time" && doc != nil {
			w.add("wrong_kind", path, root, func() { set(json.Number("5")) })
		}
	case synth.TSlice:
		if t.Elem.K == synth.TBasic && (t.Elem.Name == "byte" || t.Elem.Name == "uint8") {
			return
		}
		arr, ok := doc.([]any)
		if !ok {
			return // null
		}
		w.add("wrong_kind", path, root, func() { set(json.Number("5")) })
		for i := range arr {
			if i >= 3 {
				break
			}
			i := i
			w.walk(p, t.Elem, arr[i], func(v any) { arr[i] = v }, fmt.Sprintf("%s[%d]", path, i), depth+1)
		}
	case synth.TArray:
		arr, ok := doc.([]any)
		if !ok {
			return
		}
		w.add("wrong_kind", path, root, func() { set(json.Number("5")) })
		if len(arr) > 0 {
			w.add("array_length", path, root, func() { set(arr[:len(arr)-1]) })
			w.add("array_length", path, root, func() { set(append(append([]any{}, arr...), deepCopyJSON(arr[len(arr)-1]))) })
			w.add("array_length", path, root, func() { set([]any{}) }) // emptied: the one length slices special-case
			if len(arr) > 2 {
				w.add("array_length", path, root, func() { set(arr[:1]) })
			}
		}
		for i := range arr {
			if i >= 3 {
				break
			}
			i := i
			w.walk(p, t.Elem, arr[i], func(v any) { arr[i] = v }, fmt.Sprintf("%s[%d]", path, i), depth+1)
		}
	case synth.TMap:
		obj, ok := doc.(map[string]any)
		if !ok {
			return
		}
		w.add("wrong_kind", path, root, func() { set(json.Number("5")) })
		var keys []string
		for k := range obj {
			keys = append(keys, k)
		}
		sort.Strings(keys)
		for i, k := range keys {
			if i >= 3 {
				break
			}
			k := k
			w.walk(p, t.Elem, obj[k], func(v any) { obj[k] = v }, path+"."+k, depth+1)
		}
	case synth.TRef:
		rp, d := w.spec.Resolve(p, t)
		if d == nil {
			return
		}
		switch d.Kind {
		case synth.KAlias:
			w.walk(rp, d.Type, doc, set, path, depth+1)
		case synth.KNamed, synth.KEnum:
			if d.TimeLike {
				if doc != nil {
					w.add("wrong_kind", path, root, func() { set(json.Number("5")) })
				}
				return
			}
			if d.Type.K == synth.TBasic {
				if e := w.enums[rp.Path][d.Name]; e != nil && len(e.Members) > 0 {
					w.add("wrong_kind", path, root, func() { set(wrongKindFor(doc)) })
					if d.Type.Name == "string" {
						w.add("non_member", path, root, func() { set("zz_not_a_member") })
					} else if isIntBase(d.Type.Name) {
						w.add("non_member", path, root, func() { set(json.Number("1977")) })
						// the nearest non-members: just above the largest and just below the smallest value
						vals := map[int64]bool{}
						lo, hi, okVals := int64(0), int64(0), true
						for i, m := range e.Members {
							v, err := strconv.ParseInt(m.Val, 10, 64)
							if err != nil {
								okVals = false
								break
							}
							vals[v] = true
							if i == 0 || v < lo {
								lo = v
							}
							if i == 0 || v > hi {
								hi = v
							}
						}
						if okVals && hi < 1<<30 && lo > -(1<<30) {
							above, below := hi+1, lo-1
							w.add("non_member", path, root, func() { set(json.Number(strconv.FormatInt(above, 10))) })
							w.add("non_member", path, root, func() { set(json.Number(strconv.FormatInt(below, 10))) })
						}
					}
					return
				}
			}
			w.walk(rp, d.Type, doc, set, path, depth+1)
		case synth.KStruct:
			obj, ok := doc.(map[string]any)
			if !ok {
				return
			}
			if d.TimeLike {
				return
			}
			w.add("extra_key", path, root, func() { obj["zz_extra_key"] = json.Number("1") })
			w.add("wrong_kind", path, root, func() { set(json.Number("5")) })
			for _, f := range d.Fields {
				if f.Embedded {
					continue
				}
				key := synth.JSONKey(f)
				if strings.HasPrefix(key, "\x00") {
					continue
				}
				v, present := obj[key]
				if !present {
					continue
				}
				key2 := key
				w.walk(rp, f.Type, v, func(nv any) { obj[key2] = nv }, path+"."+key, depth+1)
			}
		case synth.KUnion:
			obj, ok := doc.(map[string]any)
			if !ok {
				return
			}
			w.add("unknown_kind", path, root, func() { obj["Kind"] = "ZzNoSuchKind" })
			w.add("wrong_kind", path, root, func() { set(json.Number("5")) })
			kind, _ := obj["Kind"].(string)
			if md := w.spec.FindDecl(rp.Path, kind); md != nil {
				w.walk(rp, synth.Ref(rp.Path, kind), obj["Data"], func(nv any) { obj["Data"] = nv }, path+".Data", depth+1)
			}
		}
	}
}

func c04Check(c c04Case, r *h.Rec) error {
	src := func() string { return clip(c.Spec.Text(), 3500) }
	ls, err := loadSpec(c.Spec)
	if err != nil {
		return err
	}
	if ls.oc.Panicked {
		r.Refused++
		r.Class("refused(analysis):" + clip(ls.oc.Msg, 70))
		return nil
	}
	text, oc := sqlOutput(ls)
	if oc.Panicked {
		r.Refused++
		r.Class("refused(sql):" + clip(oc.Msg, 70))
		return nil
	}
	sc, err := parseSQL(text, src)
	if err != nil {
		return err
	}
	// static closure: every function called from a body or a CHECK is defined in the script
	for _, fn := range sc.CalledFunctions() {
		if _, ok := sc.Functions[fn]; !ok {
			return h.Violf("the script calls the validation function %s but never defines it\n%s", fn, src())
		}
	}
	if len(sc.FunctionDup) > 0 {
		return h.Violf("validation function(s) %v are defined several times with different bodies\n%s", sc.FunctionDup, src())
	}
	model, err := newSQLModel(c.Spec)
	if err != nil {
		return h.Inconcf("reference model: %v", err)
	}
	// jsonb columns and the Go type of each
	type jcol struct {
		table, col string
		goType     *synth.TypeRef
		check      pgx.Expr
	}
	var cols []jcol
	typeSet := map[string]bool{}
	for _, tb := range model.Tables {
		for _, col := range tb.Cols {
			if !col.JSON || col.GoType.K != synth.TRef {
				continue
			}
			var chk pgx.Expr
			for _, ct := range sc.Constraints {
				if ct.Kind == "check" && pgx.Fold(ct.Table) == tb.SQLName {
					if call, ok := ct.Check.(*pgx.Call); ok && len(call.Args) == 1 {
						if id, ok := call.Args[0].(*pgx.Ident); ok && pgx.Fold(id.Name) == pgx.Fold(col.Name) {
							chk = ct.Check
						}
					}
				}
			}
			if chk == nil {
				return h.Violf("jsonb column %s.%s has no CHECK constraint calling a validator\n%s", tb.SQLName, col.Name, src())
			}
			cols = append(cols, jcol{tb.SQLName, col.Name, col.GoType, chk})
			typeSet[col.GoType.Name] = true
		}
	}
	if len(cols) == 0 {
		return nil
	}
	var typeNames []string
	for n := range typeSet {
		typeNames = append(typeNames, n)
	}
	sort.Strings(typeNames)
	_, res, _, err := childDocsTypes(execCase{Spec: c.Spec, Seed: c.Seed, Checks: c.Checks}, r, "docs", nil, "", typeNames)
	if err != nil || res == nil {
		return err
	}
	docsOf := map[string][]string{}
	for _, rec := range res.Records {
		if d := recRaw(rec, "doc"); d != "" {
			docsOf[recStr(rec, "type")] = append(docsOf[recStr(rec, "type")], d)
		}
		if msg := recStr(rec, "roundtrip") + recStr(rec, "wire") + recStr(rec, "refbug") + recStr(rec, "panic"); msg != "" {
			r.Class("skipped:child_reports_json_problem(C02)")
			return nil
		}
	}
	key := specKey(c.Spec)
	selIdx := 0
	nextSel := func() int {
		v := c.Sel[selIdx%len(c.Sel)]
		selIdx++
		return v
	}
	enums := c.Spec.Enums()
	for _, jc := range cols {
		docs := docsOf[jc.goType.Name]
		for di, raw := range docs {
			doc, err := decodeDoc(raw)
			if err != nil {
				return h.Inconcf("cannot decode document %s", raw)
			}
			env := map[string]pgx.Value{pgx.Fold(jc.col): pgx.JSON{V: doc}}
			passes, _, err := sc.CheckPasses(jc.check, env)
			if err != nil {
				if _, isUnsup := err.(*pgx.Unsupported); isUnsup {
					return h.Inconcf("validator outside the modelled subset: %v", err)
				}
				return h.Violf("the CHECK of %s.%s raises an error on a document Go emits for %s: %v\n  document: %s\n%s", jc.table, jc.col, jc.goType.Name, err, clip(raw, 500), src())
			}
			if !passes {
				return h.Violf("the CHECK of %s.%s evaluates to false on a document Go emits for %s\n  document: %s\n%s", jc.table, jc.col, jc.goType.Name, clip(raw, 500), src())
			}
			r.Add("accepted_documents", 1)
			if nontrivDoc(doc) {
				sum := sha256.Sum256([]byte(jc.goType.Name + "\x00" + raw))
				r.NonTriv(append(append([]byte{}, key...), sum[:]...), func() any {
					return map[string]any{"column": jc.table + "." + jc.col, "go_type": jc.goType.Name, "doc": clip(raw, 300)}
				})
			}
			if di >= 12 {
				continue // corruptions on the first documents only
			}
			// reject side: up to 5 type-directed single-point corruptions
			probe := &docWalker{spec: c.Spec, enums: enums}
			probe.walk(c.Spec.Root(), jc.goType, deepCopyJSON(doc), func(any) {}, "$", 0)
			n := len(probe.out)
			// choose the class first (so that rare classes are exercised), then the position
			byClass := map[string][]int{}
			var classes []string
			for i, co := range probe.out {
				if _, ok := byClass[co.class]; !ok {
					classes = append(classes, co.class)
				}
				byClass[co.class] = append(byClass[co.class], i)
			}
			sort.Strings(classes)
			for k := 0; k < 5 && n > 0; k++ {
				cl := classes[nextSel()%len(classes)]
				idxs := byClass[cl]
				pick := idxs[nextSel()%len(idxs)]
				// re-walk a fresh copy so that the chosen closure mutates that copy
				holder := []any{deepCopyJSON(doc)}
				w := &docWalker{spec: c.Spec, enums: enums}
				w.walk(c.Spec.Root(), jc.goType, holder[0], func(v any) { holder[0] = v }, "$", 0)
				if pick >= len(w.out) {
					continue
				}
				cor := w.out[pick]
				cor.apply()
				bad := holder[0]
				badText, _ := json.Marshal(bad)
				env := map[string]pgx.Value{pgx.Fold(jc.col): pgx.JSON{V: bad}}
				passes, isNull, err := sc.CheckPasses(jc.check, env)
				r.Class("corruption:" + cor.class)
				if err != nil {
					if _, isUnsup := err.(*pgx.Unsupported); isUnsup {
						return h.Inconcf("validator outside the modelled subset: %v", err)
					}
					r.Class("rejected_by_error:" + cor.class)
					continue // an error also refuses the row
				}
				if passes {
					what := "true"
					if isNull {
						what = "NULL (passes)"
					}
					return h.Violf("the CHECK of %s.%s evaluates to %s on a document with a corruption of class %s at %s\n  original : %s\n  corrupted: %s\n%s", jc.table, jc.col, what, cor.class, cor.path, clip(raw, 400), clip(string(badText), 400), src())
				}
				if !cor.root {
					sum := sha256.Sum256(badText)
					r.NonTriv(append(append([]byte{}, key...), sum[:]...), nil)
				}
				r.Add("rejected_corruptions", 1)
			}
		}
	}
	r.Class("programs_executed")
	return nil
}

func TestC04(t *testing.T) {
	h.Main(t, h.Prop[c04Case]{
		ID: "C04",
		Rule: "rapid model files with >= 1 jsonb column (named structs, maps, slices of structs / unions / string enums, nested unions, enums, fixed arrays, time) -> sql.Generate parsed and its validators interpreted by internal/pgx (PL/pgSQL subset, jsonb operators, SQL three-valued logic); documents come from the compiled Go package (values drawn by rapid in the child, through the generated union wrappers); accept side: the column CHECK is never false nor an error; reject side: up to 5 type-directed single-point corruptions per document (unknown object key in a struct, wrong JSON kind, unknown union Kind, non-member enum value, fixed array one element short/long, emptied or cut to one element; positions chosen by rapid selectors) must make the CHECK false (or raise); plus the static closure of validator calls; " +
			"non-trivial = an accepted document with an object of >= 2 keys / array / null container, or a rejected corruption below the document root; distinct by (program, type, document hash)",
		Assumes: []string{
			"PostgreSQL is modelled by internal/pgx: AND/OR short-circuit left to right; a run-time error on the reject side counts as a rejection, on the accept side as a violation",
			"missing keys and extra keys in the {Kind,Data} wrapper object are not among the five classes and are not asserted",
			"corruption values are small (int32-safe)",
		},
		Gen:   c04Gen,
		Check: c04Check,
	})
}
