package props

import (
	"bytes"
	"encoding/json"
	"fmt"
	"os"
	"os/exec"
	"path/filepath"
	"strings"
	"sync"
	"testing"
	"time"

	"verif/internal/h"

	gen "github.com/benoitkugler/gomacro/generator"
	"pgregory.net/rapid"
)

// C20 — formatter probing is race-free, cached and optional.
//
// The schedule runs in a child process of the same (race-instrumented) test
// binary, so that a data race report or a crash of the code under test is
// observed from outside and attributed to the generated case.

type c20Case struct {
	Tools    [4]int  `json:"tools"`    // per tool (goimports, dart, npx, pg_format): 0 installed, 1 missing, 2 probe succeeds but the run fails, 3 present but its probe fails (= not usable)
	Requests [][]int `json:"requests"` // per goroutine: the formats requested (0 NoFormat, 1 Go, 2 Dart, 3 TypeScript, 4 Psql)
	Procs    int     `json:"procs"`    // GOMAXPROCS of the child
}

var c20ToolNames = []string{"goimports", "dart", "npx", "pg_format"}

func c20Gen(t *rapid.T, r *h.Rec) c20Case {
	var c c20Case
	for i := range c.Tools {
		c.Tools[i] = rapid.IntRange(0, 3).Draw(t, "tool")
		if i == 0 && c.Tools[i] == 3 {
			c.Tools[i] = 1 // goimports is probed through `which`: present-but-unusable does not exist
		}
	}
	n := rapid.IntRange(1, 64).Draw(t, "goroutines")
	for i := 0; i < n; i++ {
		k := rapid.IntRange(1, 4).Draw(t, "nRequests")
		reqs := make([]int, k)
		for j := range reqs {
			reqs[j] = rapid.IntRange(0, 4).Draw(t, "format")
		}
		c.Requests = append(c.Requests, reqs)
	}
	c.Procs = []int{2, 4, 16}[rapid.IntRange(0, 2).Draw(t, "procs")]
	return c
}

type c20Result struct {
	Log      []string         `json:"log"`
	Requests []c20RequestInfo `json:"requests"`
	Hang     bool             `json:"hang,omitempty"` // requests still pending after c20HangAfter
}

type c20RequestInfo struct {
	Format  int    `json:"format"`
	Err     string `json:"err"`
	Content string `json:"content"`
}

const c20Script = `#!/bin/sh
# recording stand-in for %[1]s
case "$*" in
%[2]s) echo "probe %[1]s" >> "$VERIF_C20_LOG"; if [ "%[3]d" = "3" ]; then exit 1; fi; exit 0 ;;
esac
echo "run %[1]s" >> "$VERIF_C20_LOG"
if [ "%[3]d" = "2" ]; then exit 1; fi
for last; do :; done
echo "formatted by %[1]s" >> "$last"
exit 0
`

const c20Which = `#!/bin/sh
echo "probe $1" >> "$VERIF_C20_LOG"
if [ -x "$VERIF_C20_BIN/$1" ]; then exit 0; fi
exit 1
`

// TestC20Child executes one schedule (only when invoked by c20Check).
func TestC20Child(t *testing.T) {
	path := os.Getenv("VERIF_C20_CASE")
	if path == "" {
		t.Skip("helper of TestC20")
	}
	b, err := os.ReadFile(path)
	if err != nil {
		t.Fatal(err)
	}
	var c c20Case
	if err := json.Unmarshal(b, &c); err != nil {
		t.Fatal(err)
	}
	dir := filepath.Dir(path)
	bin := filepath.Join(dir, "bin")
	os.MkdirAll(bin, 0o755)
	logPath := filepath.Join(dir, "log.txt")
	os.WriteFile(logPath, nil, 0o644)
	probeArgs := []string{"__never__", "format --help", "prettier -v", "-v"}
	for i, name := range c20ToolNames {
		if c.Tools[i] == 1 {
			continue
		}
		os.WriteFile(filepath.Join(bin, name), []byte(fmt.Sprintf(c20Script, name, strings.ReplaceAll(probeArgs[i], " ", "\\ "), c.Tools[i])), 0o755)
	}
	os.WriteFile(filepath.Join(bin, "which"), []byte(c20Which), 0o755)
	os.Setenv("PATH", bin)
	os.Setenv("VERIF_C20_LOG", logPath)
	os.Setenv("VERIF_C20_BIN", bin)

	var fmts gen.Formatters
	var res c20Result
	type slot struct{ g, j int }
	files := map[slot]string{}
	idx := map[slot]int{}
	for g, reqs := range c.Requests {
		for j, f := range reqs {
			p := filepath.Join(dir, fmt.Sprintf("file-%d-%d.txt", g, j))
			os.WriteFile(p, []byte("original\n"), 0o644)
			files[slot{g, j}] = p
			idx[slot{g, j}] = len(res.Requests)
			res.Requests = append(res.Requests, c20RequestInfo{Format: f})
		}
	}
	var wg sync.WaitGroup
	start := make(chan struct{})
	for g, reqs := range c.Requests {
		wg.Add(1)
		go func(g int, reqs []int) {
			defer wg.Done()
			<-start
			for j, f := range reqs {
				err := fmts.FormatFile(gen.Format(f), files[slot{g, j}])
				if err != nil {
					res.Requests[idx[slot{g, j}]].Err = err.Error()
				}
			}
		}(g, reqs)
	}
	close(start)
	// the stand-in tools are shell scripts of a few lines (milliseconds): requests still pending after
	// c20HangAfter are blocked for good (a lock or a slot that is never released)
	finished := make(chan struct{})
	go func() { wg.Wait(); close(finished) }()
	select {
	case <-finished:
	case <-time.After(c20HangAfter):
		// (the pending goroutines may still write into res: only the flag is reported)
		os.WriteFile(filepath.Join(dir, "result.json"), []byte(`{"hang":true}`), 0o644)
		os.Exit(0)
	}
	for s, p := range files {
		content, _ := os.ReadFile(p)
		res.Requests[idx[s]].Content = string(content)
	}
	logb, _ := os.ReadFile(logPath)
	for _, l := range strings.Split(strings.TrimSpace(string(logb)), "\n") {
		if l != "" {
			res.Log = append(res.Log, l)
		}
	}
	out, _ := json.Marshal(res)
	os.WriteFile(filepath.Join(dir, "result.json"), out, 0o644)
}

const c20HangAfter = 40 * time.Second

func c20Check(c c20Case, r *h.Rec) error {
	dir, err := os.MkdirTemp(scratch(), "c20-")
	if err != nil {
		return h.Inconcf("scratch: %v", err)
	}
	defer os.RemoveAll(dir)
	b, _ := json.Marshal(c)
	casePath := filepath.Join(dir, "case.json")
	os.WriteFile(casePath, b, 0o644)
	cmd := exec.Command(os.Args[0], "-test.run", "^TestC20Child$", "-test.count", "1")
	cmd.Env = append(os.Environ(), "VERIF_C20_CASE="+casePath, fmt.Sprintf("GOMAXPROCS=%d", c.Procs), "GORACE=halt_on_error=1 exitcode=66", "VERIF_REPLAY=", "VERIF_OUT="+dir)
	var ob bytes.Buffer
	cmd.Stdout, cmd.Stderr = &ob, &ob
	runErr := cmd.Run()
	desc := func() string { return string(b) }
	if strings.Contains(ob.String(), "DATA RACE") {
		return h.Violf("data race between concurrent format requests on one shared Formatters:\n%s\n  schedule: %s", clip(ob.String(), 2500), clip(desc(), 600))
	}
	if runErr != nil {
		return h.Violf("the process issuing the format requests died: %v\n%s\n  schedule: %s", runErr, clip(ob.String(), 1500), clip(desc(), 600))
	}
	rb, err := os.ReadFile(filepath.Join(dir, "result.json"))
	if err != nil {
		return h.Inconcf("no result from the child: %v\n%s", err, ob.String())
	}
	var res c20Result
	json.Unmarshal(rb, &res)
	if res.Hang {
		return h.Violf("format requests were still pending %s after they were issued (the stand-in tools return within milliseconds): a request blocks forever\n  schedule: %s", c20HangAfter, clip(desc(), 600))
	}
	probes := map[string]int{}
	runs := map[string]int{}
	for _, l := range res.Log {
		kind, tool, _ := strings.Cut(l, " ")
		if kind == "probe" {
			probes[tool]++
		} else {
			runs[tool]++
		}
	}
	wantRuns := map[string]int{}
	requested := map[int]bool{}
	for _, rq := range res.Requests {
		requested[rq.Format] = true
		if rq.Format == 0 {
			if rq.Err != "" || rq.Content != "original\n" {
				return h.Violf("a NoFormat request returned %q / changed the file to %q\n  schedule: %s", rq.Err, rq.Content, clip(desc(), 600))
			}
			continue
		}
		tool := c20ToolNames[rq.Format-1]
		switch c.Tools[rq.Format-1] {
		case 0: // installed
			wantRuns[tool]++
			if rq.Err != "" {
				return h.Violf("%s is installed and works, the request returned the error %q\n  schedule: %s", tool, rq.Err, clip(desc(), 600))
			}
			if rq.Content != "original\nformatted by "+tool+"\n" {
				return h.Violf("%s is installed: the file should have been formatted exactly once, content is %q\n  schedule: %s", tool, rq.Content, clip(desc(), 600))
			}
		case 1, 3: // missing / unusable
			if rq.Err != "" {
				return h.Violf("%s is not installed: the request must succeed, got error %q\n  schedule: %s", tool, rq.Err, clip(desc(), 600))
			}
			if rq.Content != "original\n" {
				return h.Violf("%s is not installed: the file must be left untouched, content is %q\n  schedule: %s", tool, rq.Content, clip(desc(), 600))
			}
		case 2: // failing
			wantRuns[tool]++
			if rq.Err == "" {
				return h.Violf("the %s run fails: the request must report an error, it returned nil\n  schedule: %s", tool, clip(desc(), 600))
			}
		}
	}
	for i, tool := range c20ToolNames {
		if probes[tool] > 1 {
			return h.Violf("%s was probed %d times for one formatter cache (at most once expected)\n  log: %v\n  schedule: %s", tool, probes[tool], res.Log, clip(desc(), 600))
		}
		// (the probe of a missing dart / npx / pg_format is a failed exec and leaves no trace; goimports is probed through `which`)
		if requested[i+1] && probes[tool] != 1 && (c.Tools[i] != 1 || i == 0) {
			return h.Violf("%s was requested but probed %d times\n  schedule: %s", tool, probes[tool], clip(desc(), 600))
		}
		if runs[tool] != wantRuns[tool] {
			return h.Violf("%s ran %d times for %d requests needing it (state %d)\n  schedule: %s", tool, runs[tool], wantRuns[tool], c.Tools[i], clip(desc(), 600))
		}
	}
	nFormats := 0
	for f := range requested {
		if f != 0 {
			nFormats++
		}
	}
	degraded := false
	for _, s := range c.Tools {
		if s != 0 {
			degraded = true
		}
	}
	if len(c.Requests) >= 8 && nFormats >= 2 && degraded {
		r.NonTriv(b, func() any {
			return map[string]any{"tools": c.Tools, "goroutines": len(c.Requests), "procs": c.Procs, "log_head": res.Log[:min(len(res.Log), 12)]}
		})
	}
	r.Class(fmt.Sprintf("procs:%d", c.Procs))
	return nil
}

func TestC20(t *testing.T) {
	h.Main(t, h.Prop[c20Case]{
		ID: "C20",
		Rule: "rapid schedules: 1..64 goroutines released by one barrier, each issuing 1..4 FormatFile requests over the five formats on one shared generator.Formatters, in an environment (PATH = temp dir of recording /bin/sh stand-ins incl. `which`) where each of the four tools is installed, missing, or probes fine but fails when run; GOMAXPROCS in {2,4,16}; every schedule runs in a child process of the race-instrumented test binary; oracle: no data race report, no crash, <= 1 probe per tool per cache, exactly one run per request whose tool is present, nil result and untouched file when missing, error when the run fails, file rewritten once when it succeeds; " +
			"non-trivial = >= 8 goroutines, >= 2 formats and a missing or failing tool; distinct by schedule+environment",
		Assumes: []string{
			"the Go scheduler is not controlled: interleavings are sampled, the race detector's happens-before analysis compensates for the accesses that do execute",
			"the stand-ins are shell scripts; /bin/sh must exist",
		},
		Gen:   c20Gen,
		Check: c20Check,
	})
}
