module verif.test/org/proj

go 1.23.0
