package props

import (
	"fmt"
	"strings"

	"verif/internal/synth"
)

// Reference Go -> SQL mapping, written from the statement of C08 (not from the
// generator): boolean, smallint/integer, real, text, timestamp or date, bytea,
// typed arrays, composite types for all-integer structs, jsonb otherwise.

type sqlCol struct {
	Field     *synth.Field
	Name      string
	Types     []string // acceptable SQL types (more than one where the statement leaves a choice)
	NotNull   bool
	Primary   bool
	ArrayLen  int      // >0: fixed array length CHECK expected
	EnumVals  []string // enum column: the constants' values as Go literal text
	EnumBase  string
	JSON      bool
	Guard     string // guard tag value ("" = not a guard)
	FK        string // target Go table name ("" = none)
	OnDelete  string
	Nullable  bool
	Kind      string // bool,int,float,string,time,date,bytes,array,enum,composite,json,nullint,nullstring,nulltime (for generators of values)
	ElemKind  string // arrays: element basic kind
	GoType    *synth.TypeRef
	Composite string
}

type sqlTableRef struct {
	Decl    *synth.Decl
	GoName  string
	SQLName string
	Cols    []*sqlCol
	Primary *sqlCol
}

// snakePlural: the usual snake case (a word starts at a capital that follows a lower-case letter or a digit, or that
// ends a run of capitals and is followed by a lower-case letter: HTTPLog -> http_log, UserID -> user_id) plus "s".
func snakePlural(name string) string {
	rs := []rune(name)
	isUp := func(r rune) bool { return r >= 'A' && r <= 'Z' }
	isLow := func(r rune) bool { return r >= 'a' && r <= 'z' }
	var sb strings.Builder
	for i, r := range rs {
		if isUp(r) {
			if i > 0 && (!isUp(rs[i-1]) || (i+1 < len(rs) && isLow(rs[i+1]))) && rs[i-1] != '_' {
				sb.WriteByte('_')
			}
			sb.WriteRune(r + 32)
		} else {
			sb.WriteRune(r)
		}
	}
	return sb.String() + "s"
}

func tagGet(tag, key string) string {
	i := strings.Index(tag, key+`:"`)
	if i < 0 {
		return ""
	}
	rest := tag[i+len(key)+2:]
	j := strings.IndexByte(rest, '"')
	if j < 0 {
		return ""
	}
	return rest[:j]
}

func basicSQL(b string) []string {
	switch b {
	case "bool":
		return []string{"boolean"}
	case "int16", "uint8", "byte":
		return []string{"smallint"}
	case "int8":
		return []string{"smallint", "integer"} // the statement leaves the choice
	case "int", "int32", "int64", "uint", "uint16", "uint32", "uint64", "rune":
		return []string{"integer"}
	case "float32", "float64":
		return []string{"real"}
	case "string":
		return []string{"text"}
	}
	return nil
}

func basicKindOf(b string) string {
	switch {
	case b == "bool":
		return "bool"
	case b == "string":
		return "string"
	case strings.HasPrefix(b, "float"):
		return "float"
	}
	return "int"
}

// isTableIDName: named int64 types whose name starts or ends with "id" (any case), longer than 2
func tableFromIDName(name string) string {
	l := strings.ToLower(name)
	if len(name) > 2 && strings.HasPrefix(l, "id") {
		return name[2:]
	}
	if len(name) > 2 && strings.HasSuffix(l, "id") {
		return name[:len(name)-2]
	}
	return ""
}

type sqlModel struct {
	spec   *synth.Spec
	enums  map[string]map[string]*synth.EnumRef
	Tables []*sqlTableRef
}

// resolveCol computes the expected SQL description of a Go field type.
func (m *sqlModel) resolveCol(p *synth.Pkg, t *synth.TypeRef, c *sqlCol, depth int) error {
	if depth > 10 {
		return fmt.Errorf("type too deep")
	}
	switch t.K {
	case synth.TBasic:
		c.Types, c.NotNull, c.Kind = basicSQL(t.Name), true, basicKindOf(t.Name)
		if c.Types == nil {
			return fmt.Errorf("basic %s", t.Name)
		}
		return nil
	case synth.TStd:
		switch t.Pkg + "." + t.Name {
		case "time.Time":
			c.Types, c.NotNull, c.Kind = []string{"timestamp (0) with time zone"}, true, "time"
		case "database/sql.NullInt64":
			c.Types, c.Nullable, c.Kind = []string{"integer"}, true, "nullint"
		case "database/sql.NullString":
			c.Types, c.Nullable, c.Kind = []string{"text"}, true, "nullstring"
		case "database/sql.NullBool":
			c.Types, c.Nullable, c.Kind = []string{"boolean"}, true, "nullbool"
		case "database/sql.NullTime":
			c.Types, c.Nullable, c.Kind = []string{"timestamp (0) with time zone"}, true, "nulltime"
		default:
			return fmt.Errorf("std type %s.%s", t.Pkg, t.Name)
		}
		return nil
	case synth.TSlice, synth.TArray:
		if t.Elem.K == synth.TBasic && (t.Elem.Name == "byte" || t.Elem.Name == "uint8") && t.K == synth.TSlice {
			c.Types, c.NotNull, c.Kind = []string{"bytea"}, true, "bytes"
			return nil
		}
		// element: basic or integer enum -> SQL array; else jsonb
		elem := &sqlCol{}
		if err := m.resolveCol(p, t.Elem, elem, depth+1); err == nil && !elem.JSON && elem.Composite == "" && !elem.Nullable && elem.Kind != "time" && elem.Kind != "date" && elem.Kind != "bytes" && elem.Kind != "array" &&
			(elem.Kind != "enum" || isIntBase(elem.EnumBase)) && (t.Elem.K == synth.TBasic || elem.Kind == "enum") {
			for _, et := range elem.Types {
				c.Types = append(c.Types, et+"[]")
			}
			c.Kind, c.ElemKind = "array", elem.Kind
			if elem.Kind == "enum" {
				c.ElemKind = "int"
			}
			if t.K == synth.TArray {
				if t.Elem.K == synth.TBasic && (t.Elem.Name == "uint8" || t.Elem.Name == "byte") {
					// [N]byte: the statement leaves the choice between a typed array and bytea
					c.Types = append(c.Types, "bytea")
				}
				c.ArrayLen, c.NotNull = t.Len, true
				if t.Len == 0 {
					c.ArrayLen = -1 // zero-length: a length CHECK of 0
				}
			}
			return nil
		}
		c.Types, c.NotNull, c.JSON, c.Kind = []string{"jsonb"}, true, true, "json"
		return nil
	case synth.TMap:
		c.Types, c.NotNull, c.JSON, c.Kind = []string{"jsonb"}, true, true, "json"
		return nil
	case synth.TRef:
		rp, d := m.spec.Resolve(p, t)
		if d == nil {
			return fmt.Errorf("unresolved %s", t.Name)
		}
		switch d.Kind {
		case synth.KEnum, synth.KNamed:
			if d.Type.K == synth.TBasic {
				if e := m.enums[rp.Path][d.Name]; e != nil && len(e.Members) > 0 {
					c.Types, c.NotNull, c.Kind, c.EnumBase = basicSQL(d.Type.Name), true, "enum", d.Type.Name
					for _, mem := range e.Members {
						c.EnumVals = append(c.EnumVals, mem.Val)
					}
					return nil
				}
			}
			if d.TimeLike {
				if strings.Contains(strings.ToLower(d.Name), "date") {
					c.Types, c.NotNull, c.Kind = []string{"date"}, true, "date"
				} else {
					c.Types, c.NotNull, c.Kind = []string{"timestamp (0) with time zone"}, true, "time"
				}
				return nil
			}
			return m.resolveCol(rp, d.Type, c, depth+1)
		case synth.KAlias:
			return m.resolveCol(rp, d.Type, c, depth+1)
		case synth.KUnion:
			c.Types, c.NotNull, c.JSON, c.Kind = []string{"jsonb"}, true, true, "json"
			return nil
		case synth.KStruct, synth.KGeneric:
			// nullable look-alike: exactly two fields, one `Valid bool`
			if len(d.Fields) == 2 {
				for i, f := range d.Fields {
					if f.Name == "Valid" && f.Type.K == synth.TBasic && f.Type.Name == "bool" {
						inner := &sqlCol{}
						other := d.Fields[1-i].Type
						if other.K == synth.TBasic && other.Name == "T" && len(t.Args) == 1 {
							other = t.Args[0]
						}
						if err := m.resolveCol(rp, other, inner, depth+1); err == nil && !inner.JSON && inner.Composite == "" && inner.Kind != "array" && inner.Kind != "bytes" && inner.Kind != "enum" {
							c.Types, c.Nullable, c.Kind = inner.Types, true, "null"+inner.Kind
							return nil
						}
					}
				}
			}
			// composite: all fields integer (incl. integer enums)
			allInt := true
			for _, f := range d.Fields {
				fc := &sqlCol{}
				if err := m.resolveCol(rp, f.Type, fc, depth+1); err != nil || !((fc.Kind == "int" && f.Type.K == synth.TBasic) || (fc.Kind == "enum" && isIntBase(fc.EnumBase))) {
					allInt = false
				}
			}
			if allInt {
				c.Types, c.NotNull, c.Kind, c.Composite = []string{d.Name}, true, "composite", d.Name
				return nil
			}
			c.Types, c.NotNull, c.JSON, c.Kind = []string{"jsonb"}, true, true, "json"
			return nil
		}
	}
	return fmt.Errorf("unsupported column type kind %s", t.K)
}

// isBasicOrEnumRef: the type is a bare basic, or a (chain of) named basic / enum — not a struct, slice, …
func (m *sqlModel) isBasicOrEnumRef(p *synth.Pkg, t *synth.TypeRef) bool {
	for i := 0; i < 10; i++ {
		if t.K == synth.TBasic {
			return true
		}
		if t.K != synth.TRef {
			return false
		}
		rp, d := m.spec.Resolve(p, t)
		if d == nil || (d.Kind != synth.KNamed && d.Kind != synth.KEnum && d.Kind != synth.KAlias) || d.TimeLike {
			return false
		}
		p, t = rp, d.Type
	}
	return false
}

func newSQLModel(spec *synth.Spec) (*sqlModel, error) {
	m := &sqlModel{spec: spec, enums: spec.Enums()}
	root := spec.Root()
	for _, d := range spec.AnalysedFile().Decls {
		if d.Kind != synth.KStruct {
			continue
		}
		tb := &sqlTableRef{Decl: d, GoName: d.Name, SQLName: snakePlural(d.Name)}
		for _, f := range d.Fields {
			guard := tagGet(f.Tag, "gomacro-sql-guard")
			exported := f.Name[0] >= 'A' && f.Name[0] <= 'Z'
			if !exported && guard == "" {
				continue
			}
			c := &sqlCol{Field: f, Name: f.Name, Guard: guard, GoType: f.Type}
			if err := m.resolveCol(root, f.Type, c, 0); err != nil {
				return nil, fmt.Errorf("column %s.%s: %v", d.Name, f.Name, err)
			}
			if strings.ToLower(f.Name) == "id" && tb.Primary == nil {
				c.Primary = true
				tb.Primary = c
			}
			// foreign keys: by ID type name (except the table's own id type) or by tag
			if !c.Primary || true {
				if f.Type.K == synth.TRef {
					if _, td := spec.Resolve(root, f.Type); td != nil && td.Kind == synth.KNamed && td.Type.K == synth.TBasic && td.Type.Name == "int64" {
						if tn := tableFromIDName(td.Name); tn != "" && tn != d.Name {
							c.FK = tn
						}
					}
				}
				if c.FK == "" {
					if tn := tagGet(f.Tag, "gomacro-sql-foreign"); tn != "" {
						c.FK = tn
					}
				}
				if c.FK != "" {
					c.OnDelete = tagGet(f.Tag, "gomacro-sql-on-delete")
				}
			}
			tb.Cols = append(tb.Cols, c)
		}
		m.Tables = append(m.Tables, tb)
	}
	return m, nil
}

func (m *sqlModel) table(goName string) *sqlTableRef {
	for _, t := range m.Tables {
		if t.GoName == goName {
			return t
		}
	}
	return nil
}
