package props

import (
	"fmt"
	"go/constant"
	"go/token"
	"sort"
	"strings"
	"testing"

	"verif/internal/dartx"
	"verif/internal/h"
	"verif/internal/synth"

	"github.com/benoitkugler/gomacro/analysis"
	gen "github.com/benoitkugler/gomacro/generator"
	"github.com/benoitkugler/gomacro/generator/dart"
	"pgregory.net/rapid"
)

// C06 — Dart JSON routines mirror the Go wire format and link across files.

type c06Case struct {
	Spec   *synth.Spec `json:"spec"`
	Multi  bool        `json:"multi"`  // also analyse the files of the imported packages as extra sources
	GoPath bool        `json:"gopath"` // root given in GOPATH layout (…/go/src/…) or as a plain module directory
}

func c06Gen(t *rapid.T, r *h.Rec) c06Case {
	av, onEx, onCl := avoidOpts(r)
	o := jsonOpts(av, onEx, onCl)
	o.Unions, o.EnumStress, o.ManySubPkgs, o.Aliases = 1, true, true, true
	o.UnionStress = false
	o.ForeignUnions = true
	o.EmbedNamed = true
	c := c06Case{Spec: synth.GenTypes(t, o), Multi: rapid.Bool().Draw(t, "multi"), GoPath: rapid.Bool().Draw(t, "gopath")}
	if id, open := av["dart_multi_source_union"]; open && c.Multi {
		// known finding: with several sources, a member class first reached from a source that does not
		// analyse the union is emitted without `implements`
		for _, p := range c.Spec.Pkgs[1:] {
			for _, f := range p.Files {
				for _, d := range f.Decls {
					if d.Kind == synth.KUnion && c.Multi {
						c.Multi = false
						onEx(id)
					}
				}
			}
		}
	}
	return c
}

func dartTitle(name string) string { return strings.Title(name) }

// expectedKeys lists the JSON keys of the Dart-visible fields of a struct, in field order
// (untagged embedded structs flattened, json:"-" / unexported / gomacro:"ignore" dropped).
func expectedKeys(spec *synth.Spec, p *synth.Pkg, d *synth.Decl, depth int) []string {
	var out []string
	if depth > 8 {
		return nil
	}
	for _, f := range d.Fields {
		if f.Embedded {
			name, _, _ := strings.Cut(tagGet(f.Tag, "json"), ",")
			if ep, ed := spec.Resolve(p, f.Type); ed != nil && ed.Kind == synth.KStruct {
				if tagGet(f.Tag, "json") == "-" || strings.Contains(f.Tag, `gomacro:"ignore"`) {
					continue
				}
				if name == "" {
					out = append(out, expectedKeys(spec, ep, ed, depth+1)...)
				} else {
					out = append(out, name)
				}
			} else if ed != nil && f.Name[0] >= 'A' && f.Name[0] <= 'Z' && tagGet(f.Tag, "json") != "-" && !strings.Contains(f.Tag, `gomacro:"ignore"`) {
				// an embedded exported type that is not a struct is an ordinary field named after the type
				if name == "" {
					name = f.Name
				}
				out = append(out, name)
			}
			continue
		}
		key := synth.JSONKey(f)
		if strings.HasPrefix(key, "\x00") || strings.Contains(f.Tag, `gomacro:"ignore"`) {
			continue
		}
		out = append(out, key)
	}
	return out
}

func c06Check(c c06Case, r *h.Rec) error {
	src := func() string { return clip(c.Spec.Text(), 3500) }
	ls, err := loadSpec(c.Spec)
	if err != nil {
		return err
	}
	if ls.oc.Panicked {
		r.Refused++
		return nil
	}
	sources := []*analysis.Analysis{ls.an}
	if c.Multi {
		for _, p := range c.Spec.Pkgs[1:] {
			pk := ls.ld.Pkgs[p.Path]
			if pk == nil {
				continue
			}
			var an2 *analysis.Analysis
			oc := guard(func() { an2 = analysis.NewAnalysisFromFile(pk, pk.GoFiles[0]) })
			if oc.Panicked {
				r.Refused++
				return nil
			}
			sources = append(sources, an2)
		}
	}
	rootDir := "/home/user/projects/" + c.Spec.Root().Name
	if c.GoPath {
		rootDir = gopathRoot(c.Spec)
	}
	files := map[string]string{}
	oc := guard(func() {
		for _, o := range dart.Generate(rootDir, sources) {
			if _, dup := files[o.Filename]; dup {
				panic("verif: file emitted twice: " + o.Filename)
			}
			files[o.Filename] = gen.WriteDeclarations(o.Content)
		}
	})
	if oc.RuntimeEr {
		r.Class("skipped:dart_generator_crash(C18)")
		return nil
	}
	if oc.Panicked {
		if strings.HasPrefix(oc.Msg, "verif:") {
			return h.Violf("%s\n%s", oc.Msg, src())
		}
		r.Refused++
		r.Class("refused:dart")
		return nil
	}
	parsed := map[string]*dartx.File{}
	var names []string
	for fn, txt := range files {
		names = append(names, fn)
		df, err := dartx.Parse(txt)
		if err != nil {
			if se, ok := err.(*dartx.SyntaxError); ok {
				return h.Violf("the Dart file %s is not syntactically valid: %v\n--- output (around) ---\n%s\n%s", fn, se, aroundLine(txt, se.Line), src())
			}
			return h.Inconcf("Dart output outside the modelled subset (%s): %v", fn, err)
		}
		parsed[fn] = df
	}
	sort.Strings(names)

	// ---- linking -------------------------------------------------------------------
	declTypes := map[string]map[string]bool{}
	declFuncs := map[string]map[string]bool{}
	for _, fn := range names {
		df := parsed[fn]
		if dups := df.Duplicates(); len(dups) > 0 {
			return h.Violf("%s declares %v more than once\n%s", fn, dups, src())
		}
		declTypes[fn], _ = setOf(df.DeclaredTypeNames())
		declFuncs[fn], _ = setOf(df.DeclaredFunctionNames())
	}
	for _, fn := range names {
		df := parsed[fn]
		seenImp := map[string]bool{}
		for _, imp := range df.ImportURIs() {
			if imp == fn {
				return h.Violf("%s imports itself\n%s", fn, src())
			}
			if _, ok := parsed[imp]; !ok {
				return h.Violf("%s imports %s which is not an emitted file (emitted: %v)\n%s", fn, imp, names, src())
			}
			if seenImp[imp] {
				return h.Violf("%s imports %s twice\n%s", fn, imp, src())
			}
			seenImp[imp] = true
		}
		resolve := func(name string, decls map[string]map[string]bool, kind string) error {
			if decls[fn][name] {
				return nil // a local declaration shadows imports
			}
			var from []string
			for imp := range seenImp {
				if decls[imp][name] {
					from = append(from, imp)
				}
			}
			sort.Strings(from)
			if len(from) != 1 {
				return h.Violf("%s uses the %s %s which is defined in %d of the files it can see (local + imports %v): %v\n%s", fn, kind, name, len(from), keysOf(seenImp), from, src())
			}
			return nil
		}
		for _, tn := range df.UsedTypeNames() {
			if err := resolve(tn, declTypes, "type"); err != nil {
				return err
			}
		}
		for _, fnName := range df.UsedFunctionNames() {
			if err := resolve(fnName, declFuncs, "function"); err != nil {
				return err
			}
		}
	}

	// ---- per package: one file, never shared ---------------------------------------
	typePkgs := map[string][]string{} // Dart name -> packages declaring a type of that name
	for _, p := range c.Spec.Pkgs {
		for _, f := range p.Files {
			for _, d := range f.Decls {
				if d.Kind == synth.KGeneric || d.Kind == "inst" || d.Kind == synth.KAlias {
					continue
				}
				typePkgs[dartTitle(d.Name)] = append(typePkgs[dartTitle(d.Name)], p.Path)
			}
		}
	}
	typePkgs["Point"] = append(typePkgs["Point"], "image") // std types used by the synthesiser
	fileOfPkg := map[string]string{}
	pkgOfFile := map[string]string{}
	for _, fn := range names {
		for tn := range declTypes[fn] {
			if strings.HasPrefix(tn, "_") {
				continue
			}
			pk := typePkgs[tn]
			if len(pk) != 1 {
				continue // unknown (std) or ambiguous name
			}
			if prev, ok := fileOfPkg[pk[0]]; ok && prev != fn {
				return h.Violf("types of package %s are emitted in two files: %s and %s\n%s", pk[0], prev, fn, src())
			}
			fileOfPkg[pk[0]] = fn
			if prev, ok := pkgOfFile[fn]; ok && prev != pk[0] {
				return h.Violf("file %s holds types of two packages: %s and %s\n%s", fn, prev, pk[0], src())
			}
			pkgOfFile[fn] = pk[0]
		}
	}

	// ---- structs, unions, enums against the reference model ----------------------------
	unions := c.Spec.Unions()
	enums := c.Spec.Enums()
	findClass := func(pkgPath, name string) (*dartx.File, *dartx.Class) {
		fn := fileOfPkg[pkgPath]
		if fn == "" {
			return nil, nil
		}
		return parsed[fn], parsed[fn].Class(dartTitle(name))
	}
	nontrivial := len(names) >= 3
	for _, p := range c.Spec.Pkgs {
		for _, f := range p.Files {
			for _, d := range f.Decls {
				switch d.Kind {
				case synth.KStruct:
					df, cl := findClass(p.Path, d.Name)
					if cl == nil {
						continue // not reachable from the sources
					}
					want := expectedKeys(c.Spec, p, d, 0)
					from := df.Function(dartFuncName(d.Name, "FromJson"))
					to := df.Function(dartFuncName(d.Name, "ToJson"))
					if from == nil || to == nil {
						return h.Violf("struct %s: the class exists but its JSON routines are missing\n%s", d.Name, src())
					}
					if strings.Join(from.JSONReads(), "\x00") != strings.Join(want, "\x00") {
						return h.Violf("struct %s: fromJson reads the keys %q, Go uses %q (in field order)\n%s", d.Name, from.JSONReads(), want, src())
					}
					if strings.Join(to.MapWrites(), "\x00") != strings.Join(want, "\x00") {
						return h.Violf("struct %s: toJson writes the keys %q, Go uses %q\n%s", d.Name, to.MapWrites(), want, src())
					}
					cname, nargs, ok, cerr := from.ConstructorCall()
					if cerr != nil {
						return h.Violf("struct %s: fromJson constructor call is malformed: %v\n%s", d.Name, cerr, src())
					}
					if ok && (cname != cl.Name || nargs != len(want)) {
						return h.Violf("struct %s: fromJson builds %s with %d arguments, expected %s with one argument per exported field (%d)\n%s", d.Name, cname, nargs, cl.Name, len(want), src())
					}
					if len(cl.Fields) != len(want) || len(cl.CtorParams) != len(want) {
						return h.Violf("struct %s: the class has %d fields and %d constructor parameters for %d exported fields\n%s", d.Name, len(cl.Fields), len(cl.CtorParams), len(want), src())
					}
					for i := range cl.Fields {
						if cl.Fields[i].Name != cl.CtorParams[i] {
							return h.Violf("struct %s: class fields %v and constructor parameters %v are not in the same order\n%s", d.Name, fieldNames(cl), cl.CtorParams, src())
						}
					}
					// implements: exactly the exported unions listing it
					var wantImpl []string
					for un, u := range unions[p.Path] {
						if !(un[0] >= 'A' && un[0] <= 'Z') {
							continue
						}
						if _, ucl := findClass(p.Path, un); ucl == nil {
							continue // the union itself is not generated
						}
						for _, m := range u.Members {
							if m == d.Name {
								wantImpl = append(wantImpl, dartTitle(un))
							}
						}
					}
					sort.Strings(wantImpl)
					got := append([]string{}, cl.Implements...)
					sort.Strings(got)
					if strings.Join(got, ",") != strings.Join(wantImpl, ",") {
						return h.Violf("struct %s: the class implements %v, it is a member of the exported (generated) unions %v\n%s", d.Name, cl.Implements, wantImpl, src())
					}
				case synth.KUnion:
					u := unions[p.Path][d.Name]
					if u == nil || len(u.Members) == 0 {
						continue
					}
					df, cl := findClass(p.Path, d.Name)
					if cl == nil {
						continue
					}
					from := df.Function(dartFuncName(d.Name, "FromJson"))
					to := df.Function(dartFuncName(d.Name, "ToJson"))
					if from == nil || to == nil {
						return h.Violf("union %s: JSON routines missing\n%s", d.Name, src())
					}
					wantSet, _ := setOf(u.Members)
					casesSet, dup1 := setOf(from.SwitchCases())
					kindsSet, dup2 := setOf(to.KindWrites())
					if dup1 != "" || dup2 != "" || !sameSet(casesSet, wantSet) || !sameSet(kindsSet, wantSet) {
						return h.Violf("union %s: fromJson dispatches on %q and toJson writes the kinds %q, the Go members are %q\n%s", d.Name, from.SwitchCases(), to.KindWrites(), u.Members, src())
					}
					nontrivial = true
				case synth.KEnum, synth.KNamed:
					e := enums[p.Path][d.Name]
					if e == nil || len(e.Members) == 0 {
						continue
					}
					fn := fileOfPkg[p.Path]
					if fn == "" {
						continue
					}
					en := parsed[fn].Enum(dartTitle(d.Name))
					if en == nil {
						continue
					}
					ext := parsed[fn].ExtensionOn(dartTitle(d.Name))
					if ext == nil {
						return h.Violf("enum %s has no extension with the value conversion\n%s", d.Name, src())
					}
					var exported []synth.EnumMemberRef
					for _, m := range e.Members {
						if m.Name[0] >= 'A' && m.Name[0] <= 'Z' {
							exported = append(exported, m)
						}
					}
					// the analysis reports iota-like enums sorted by value; otherwise in name order
					if len(en.Members) != len(exported) {
						return h.Violf("enum %s: Dart declares %d members %v for %d exported constants\n%s", d.Name, len(en.Members), en.Members, len(exported), src())
					}
					seenM := map[string]bool{}
					for _, m := range en.Members {
						if seenM[m] {
							return h.Violf("enum %s: Dart member %s declared twice (%v)\n%s", d.Name, m, en.Members, src())
						}
						seenM[m] = true
					}
					var wantVals []constant.Value
					for _, m := range exported {
						wantVals = append(wantVals, litToConst(m.Val))
					}
					switch {
					case ext.IndexMode:
						// member <-> value by position: the exported values must be exactly 0..n-1 (as a set, each once)
						seen := map[int64]bool{}
						for _, v := range wantVals {
							iv, ok := constant.Int64Val(v)
							if !ok || iv < 0 || iv >= int64(len(wantVals)) || seen[iv] {
								return h.Violf("enum %s converts members and wire values by position, but its exported constants have the values %v\n%s", d.Name, valsText(wantVals), src())
							}
							seen[iv] = true
						}
					case ext.TableMode:
						if len(ext.Values) != len(wantVals) {
							return h.Violf("enum %s: value table has %d entries for %d exported constants\n%s", d.Name, len(ext.Values), len(wantVals), src())
						}
						// the table must list exactly the exported constants' values (as a multiset), aligned with the members
						used := make([]bool, len(wantVals))
						for _, lit := range ext.Values {
							var lv constant.Value
							if lit.IsString {
								lv = constant.MakeString(lit.Str)
							} else if lit.IsInt {
								lv = constant.MakeInt64(lit.Int)
							} else {
								lv = constant.MakeFloat64(lit.Float)
							}
							found := false
							for i, wv := range wantVals {
								if !used[i] && wv.Kind() == lv.Kind() && constant.Compare(wv, token.EQL, lv) {
									used[i], found = true, true
									break
								}
								if !used[i] && wv.Kind() != constant.String && lv.Kind() != constant.String && wv.Kind() != constant.Bool && constant.Compare(wv, token.EQL, lv) {
									used[i], found = true, true
									break
								}
							}
							if !found {
								return h.Violf("enum %s: the Dart value table holds %s which is not (or no longer) an exported constant value %v\n%s", d.Name, lit.Text, valsText(wantVals), src())
							}
						}
					default:
						return h.Inconcf("enum %s: unknown conversion scheme in the extension", d.Name)
					}
					if len(exported) != len(e.Members) {
						nontrivial = true
					}
				}
			}
		}
	}
	r.Class(fmt.Sprintf("files:%d", min(len(names), 5)))
	if nontrivial {
		r.NonTriv(specKey(c.Spec, fmt.Sprint(c.Multi, c.GoPath)), func() any {
			return map[string]any{"files": names, "multi": c.Multi, "gopath_root": c.GoPath, "source": clip(c.Spec.Text(), 1200)}
		})
	}
	return nil
}

func fieldNames(cl *dartx.Class) []string {
	var out []string
	for _, f := range cl.Fields {
		out = append(out, f.Name)
	}
	return out
}

func valsText(vs []constant.Value) []string {
	var out []string
	for _, v := range vs {
		out = append(out, v.ExactString())
	}
	return out
}

func TestC06(t *testing.T) {
	h.Main(t, h.Prop[c06Case]{
		ID: "C06",
		Rule: "rapid programs of the types profile (unions, enums of every style, generics, aliases, 0..4 imported packages, std types), analysed from one file or from one file per package, generated with dart.Generate under a GOPATH-style or a plain root -> every emitted file parsed by internal/dartx and compared with the reference model of the Spec: per struct the keys read by fromJson and written by toJson in field order, constructor arity, field/constructor order, implements = exported generated unions listing it; per union the dispatch cases and Kind tags = Go member names; per enum the member count and the value table (or positional scheme) = exported constants; linking with Dart scoping (every used type / helper resolves to exactly one declaration, local or in exactly one imported emitted file; no self import; imports name emitted files) and one file per Go package, never shared; " +
			"non-trivial = >= 2 output files besides predefined.dart, or a union, or an enum with unexported members; distinct by SHA-256 of (source, mode)",
		Assumes: []string{
			"no Dart analyzer offline: Dart is read with the purpose-built declaration-level parser internal/dartx (impossible text is a verdict, unmodelled text inconclusive)",
			"Dart member names are not prescribed by the statement, only the member/value table",
		},
		Gen:   c06Gen,
		Check: c06Check,
	})
}
