package props

import (
	"crypto/sha256"
	"encoding/json"
	"fmt"
	"os"
	"path/filepath"
	"strings"
	"testing"
	"time"

	"verif/internal/child"
	"verif/internal/h"
	"verif/internal/synth"

	gen "github.com/benoitkugler/gomacro/generator"
	"github.com/benoitkugler/gomacro/generator/go/gounions"
	"pgregory.net/rapid"
)

// C02 — union values survive a JSON round trip in the Kind/Data wire format.

type execCase struct {
	Spec *synth.Spec `json:"spec"`
	Seed int64       `json:"seed"` // seed of the value generator inside the child
	// Checks: number of rapid cases the child runs (values per type / histories); recorded so that a replay
	// is a function of the file alone. 0 = the quick tier's default.
	Checks int `json:"checks,omitempty"`
}

// childChecks returns the child's case count for the running tier.
func childChecks(quick, thorough int) int {
	if h.LoadConfig().Tier == "thorough" {
		return thorough
	}
	return quick
}

func jsonOpts(av map[string]string, onEx, onCl func(string)) *synth.Opts {
	return &synth.Opts{Avoid: av, OnExclude: onEx, OnClass: onCl,
		Unions: 2, SubPkgs: true, Embedded: true, FixedArrays: true, Maps: true, Times: true, TagVariety: true, StdTypes: true,
		Recursion: true, Generics: true, JSONSafe: true, NoIgnoreTag: true, MaxDecls: 9, MinDecls: 2}
}

func c02Gen(t *rapid.T, r *h.Rec) execCase {
	av, onEx, onCl := avoidOpts(r)
	o := jsonOpts(av, onEx, onCl)
	o.ContainerMembers = true
	o.EmbedUnionHolders = true
	o.EmbedPtrNextToUnion = true
	o.RecursiveUnions = true
	o.NoIgnoreTag = false // gomacro:"ignore" is a TypeScript/Dart notion: encoding/json (and so the union routines) still carry the field
	o.OtherFile = 4       // unions / members / element structs that are only reachable from the analysed file, not declared in it
	return execCase{Spec: synth.GenTypes(t, o), Seed: int64(rapid.IntRange(1, 1<<30).Draw(t, "childSeed")), Checks: childChecks(25, 80)}
}

// childDocs builds the synthesised package with the gounions output and runs the harness in "docs" mode.
func childDocs(c execCase, r *h.Rec, mode string, extra map[string]string, randFile string) (*loadedSpec, *child.Result, string, error) {
	return childDocsTypes(c, r, mode, extra, randFile, nil)
}

func childDocsTypes(c execCase, r *h.Rec, mode string, extra map[string]string, randFile string, typeNames []string) (*loadedSpec, *child.Result, string, error) {
	ls, err := loadSpec(c.Spec)
	if err != nil {
		return nil, nil, "", err
	}
	if ls.oc.Panicked {
		r.Refused++
		return ls, nil, "", nil
	}
	var unionsText string
	oc := guard(func() { unionsText = gen.WriteDeclarations(gounions.Generate(ls.an)) })
	if oc.Panicked {
		r.Refused++
		r.Class("refused(gounions):" + clip(oc.Msg, 70))
		return ls, nil, "", nil
	}
	fixed, err := fixImports(c.Spec, ls, "zz_unions_gen.go", unionsText)
	if err != nil {
		r.Class("skipped:gounions_output_does_not_parse(C01)")
		return ls, nil, "", nil
	}
	files := map[string]string{"zz_unions_gen.go": fixed}
	for k, v := range extra {
		files[k] = v
	}
	checks := 25
	if c.Checks > 0 {
		checks = c.Checks
	}
	res, err := child.Run(c.Spec, filepath.Join(scratch()), child.Options{
		Extra: files, Mode: mode, Seed: c.Seed, Checks: checks, UnionsOut: unionsText, RandFile: randFile, Timeout: 180 * time.Second, TypeNames: typeNames,
	})
	if err != nil {
		return ls, nil, "", h.Inconcf("child: %v", err)
	}
	if res.BuildErr != "" {
		r.Class("skipped:child_does_not_build(C01)")
		r.Add("child_build_failures", 1)
		if r.Confirm || os.Getenv("VERIF_DEBUG") != "" {
			fmt.Println("child build error:", clip(res.BuildErr, 2000))
		}
		return ls, nil, unionsText, nil
	}
	if res.TimedOut {
		return ls, nil, "", h.Inconcf("child timed out\n%s", clip(res.Output, 1500))
	}
	return ls, res, unionsText, nil
}

func recStr(rec map[string]any, k string) string {
	if v, ok := rec[k]; ok && v != nil {
		if s, ok := v.(string); ok {
			return s
		}
		b, _ := json.Marshal(v)
		return string(b)
	}
	return ""
}

// recRaw returns the JSON text of a record value (documents are embedded as raw JSON).
func recRaw(rec map[string]any, k string) string {
	v, ok := rec[k]
	if !ok {
		return ""
	}
	b, _ := json.Marshal(v)
	return string(b)
}

func recInt(rec map[string]any, k string) int {
	if v, ok := rec[k].(json.Number); ok {
		n, _ := v.Int64()
		return int(n)
	}
	return 0
}

func c02Check(c execCase, r *h.Rec) error {
	_, res, _, err := childDocs(c, r, "docs", nil, "")
	if err != nil || res == nil {
		return err
	}
	src := func() string { return clip(c.Spec.Text(), 3000) }
	var lastViol string
	done := false
	key := specKey(c.Spec)
	for _, rec := range res.Records {
		if rec["done"] != nil {
			done = true
		}
		if msg := recStr(rec, "refbug"); msg != "" {
			return h.Inconcf("reference encoder disagrees with encoding/json on a union-free type %s: %s\ndoc=%s\n%s", recStr(rec, "type"), msg, recRaw(rec, "doc"), src())
		}
		if msg := recStr(rec, "panic"); msg != "" {
			if strings.HasPrefix(msg, "reference:") {
				return h.Inconcf("harness: %s (type %s)\n%s", msg, recStr(rec, "type"), src())
			}
			lastViol = fmt.Sprintf("type %s: generated JSON code panicked on a member value: %s", recStr(rec, "type"), msg)
		}
		if msg := recStr(rec, "marshal_error"); msg != "" && recStr(rec, "stage") == "" {
			lastViol = fmt.Sprintf("type %s: json.Marshal failed: %s (value %s)", recStr(rec, "type"), msg, recStr(rec, "go"))
		}
		if msg := recStr(rec, "roundtrip"); msg != "" {
			lastViol = fmt.Sprintf("type %s: round trip failed: %s\n  wire: %s", recStr(rec, "type"), msg, recRaw(rec, "doc"))
		}
		if msg := recStr(rec, "wire"); msg != "" {
			lastViol = fmt.Sprintf("type %s: wire format differs from {Kind,Data} + encoding/json on the original struct: %s\n  wire: %s", recStr(rec, "type"), msg, recRaw(rec, "doc"))
		}
		if doc := recRaw(rec, "doc"); doc != "" {
			r.Add("documents", 1)
			if recInt(rec, "unions") > 0 {
				sum := sha256.Sum256([]byte(recStr(rec, "type") + "\x00" + doc))
				r.NonTriv(append(append([]byte{}, key...), sum[:]...), func() any {
					return map[string]any{"type": recStr(rec, "type"), "doc": clip(doc, 400), "source": clip(c.Spec.Text(), 1200)}
				})
				if recInt(rec, "nilcont") > 0 {
					r.Class("value:nil_or_empty_container")
				}
			}
		}
	}
	if lastViol != "" {
		return h.Violf("%s\n%s", lastViol, src())
	}
	if !done {
		return h.Violf("child died before finishing (exit %d):\n%s\n%s", res.ExitCode, clip(res.Output, 1500), src())
	}
	r.Class("programs_executed")
	return nil
}

func TestC02(t *testing.T) {
	h.Main(t, h.Prop[execCase]{
		ID: "C02",
		Rule: "rapid program Specs (types profile with >= 1 union: unions as fields, in named slices/maps, nested, struct and non-struct members, shared members, tagged / json:\"-\" / unexported siblings, embedded structs) are compiled with the real gounions output; a reflection harness draws values (rapid, in the child) for every analysed type, checks Unmarshal(Marshal(v)) == v modulo nil/empty containers and compares the wire bytes as a JSON tree with a reference encoder ({Kind,Data} for interface components, encoding/json rules on the original struct otherwise); " +
			"non-trivial = a document whose value contains >= 1 non-nil union component; distinct by (program hash, type, document hash)",
		Assumes: []string{
			"the reference encoder is validated in the same run against the real encoding/json on every union-free type (a disagreement is inconclusive, never a verdict)",
			"nil union values are outside the statement; fields invisible to encoding/json stay zero",
			"a child that does not compile is C01's subject and is only counted",
		},
		Gen:   c02Gen,
		Check: c02Check,
	})
}
