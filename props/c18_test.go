package props

import (
	"fmt"
	"testing"

	"verif/internal/h"
	"verif/internal/synth"

	"github.com/benoitkugler/gomacro/analysis"
	gen "github.com/benoitkugler/gomacro/generator"
	"github.com/benoitkugler/gomacro/generator/dart"
	"github.com/benoitkugler/gomacro/generator/go/gounions"
	"github.com/benoitkugler/gomacro/generator/go/randdata"
	"github.com/benoitkugler/gomacro/generator/go/sqlcrud"
	sqlgen "github.com/benoitkugler/gomacro/generator/sql"
	"github.com/benoitkugler/gomacro/generator/typescript"
	"pgregory.net/rapid"
)

// C18 — unsupported input is refused with a diagnostic, never a crash.
//
// "On any well-typed Go source file, analysis and each generator either
// complete or stop with an explicit gomacro diagnostic saying what is
// unsupported; they never die with a Go runtime error (index or slice out of
// range, nil dereference, failed type assertion, unbounded recursion)."

type c18Case struct {
	Spec *synth.Spec `json:"spec"`
	SQL  bool        `json:"sql,omitempty"` // drawn from the sql profile
}

func hostileOpts(av map[string]string, onEx, onCl func(string)) *synth.Opts {
	return &synth.Opts{Avoid: av, OnExclude: onEx, OnClass: onCl,
		Pointers: true, Unions: 1, Hostile: true, RareBasics: true, Recursion: true, SubPkgs: true, Generics: true, Aliases: true,
		Embedded: true, StdTypes: true, Spelling: true, TagVariety: true, EnumStress: true, FixedArrays: true, Maps: true, Times: true, MaxDecls: 10, MinDecls: 1,
		NamedRecursion: true, ZeroArrays: true, SameNamePkgs: true, ShortModule: true, StdNamedPkgs: true, RecursiveUnions: true, Diamonds: true, NestedGenerics: true}
}

func c18Gen(t *rapid.T, r *h.Rec) c18Case {
	av, onEx, onCl := avoidOpts(r)
	if rapid.IntRange(0, 4).Draw(t, "profile") == 0 {
		return c18Case{SQL: true, Spec: synth.GenSQL(t, &synth.SQLOpts{Avoid: av, OnExclude: onEx, OnClass: onCl, Directives: true, SelfFK: true})}
	}
	o := hostileOpts(av, onEx, onCl)
	o.Hostile = rapid.IntRange(0, 2).Draw(t, "hostile") != 0
	return c18Case{Spec: synth.GenTypes(t, o)}
}

// the generator stages run on one analysis
var c18Stages = []struct {
	name string
	run  func(an *analysis.Analysis, root string)
}{
	{"go/unions", func(an *analysis.Analysis, _ string) { gen.WriteDeclarations(gounions.Generate(an)) }},
	{"go/randdata", func(an *analysis.Analysis, _ string) { gen.WriteDeclarations(randdata.Generate(an)) }},
	{"go/sqlcrud", func(an *analysis.Analysis, _ string) { gen.WriteDeclarations(sqlcrud.Generate(an, false)) }},
	{"go/sqlcrud+sets", func(an *analysis.Analysis, _ string) { gen.WriteDeclarations(sqlcrud.Generate(an, true)) }},
	{"sql", func(an *analysis.Analysis, _ string) { gen.WriteDeclarations(sqlgen.Generate(an)) }},
	{"typescript/types", func(an *analysis.Analysis, _ string) { gen.WriteDeclarations(typescript.Generate(an)) }},
	{"dart", func(an *analysis.Analysis, root string) {
		for _, out := range dart.Generate(root, []*analysis.Analysis{an}) {
			gen.WriteDeclarations(out.Content)
		}
	}},
}

func gopathRoot(spec *synth.Spec) string {
	return "/home/user/go/src/" + spec.Root().Path
}

func c18Check(c c18Case, r *h.Rec) error {
	ls, err := loadSpec(c.Spec)
	if err != nil {
		return err
	}
	key := specKey(c.Spec)
	if ls.oc.RuntimeEr {
		return h.Violf("analysis died with a Go runtime error: %s\n  at %s\n--- source ---\n%s", ls.oc.Msg, ls.oc.Stack, clip(c.Spec.Text(), 3000))
	}
	if ls.oc.Panicked {
		r.Refused++
		r.Class("refused:analysis")
		r.NonTriv(append(key, "analysis"...), func() any {
			return map[string]any{"stage": "analysis", "diagnostic": clip(ls.oc.Msg, 200), "source": clip(c.Spec.Text(), 1200)}
		})
		return nil
	}
	for _, st := range c18Stages {
		st := st
		oc := guard(func() { st.run(ls.an, gopathRoot(c.Spec)) })
		if oc.RuntimeEr {
			return h.Violf("%s died with a Go runtime error: %s\n  at %s\n--- source ---\n%s", st.name, oc.Msg, oc.Stack, clip(c.Spec.Text(), 3000))
		}
		if oc.Panicked {
			r.Class("refused:" + st.name)
		} else {
			r.Class("completed:" + st.name)
		}
		r.NonTriv(append(key, st.name...), func() any {
			return map[string]any{"stage": st.name, "diagnostic": clip(oc.Msg, 200), "source": clip(c.Spec.Text(), 1200)}
		})
	}
	return nil
}

func TestC18(t *testing.T) {
	h.Main(t, h.Prop[c18Case]{
		ID: "C18",
		Rule: "rapid program Specs of the hostile profile (supported forms in unusual legal spellings + unsupported forms in every position; 1 in 5 from the sql profile) -> analysis and each of 7 generator stages under recover; " +
			"a recovered runtime.Error or a dead worker (fatal error, via the write-ahead case) is a violation, any other panic value is a diagnostic; " +
			"non-trivial = every (program, stage) pair reached (programs always contain unusual spellings or unsupported forms by construction of the profile); distinct by SHA-256 of (source, stage)",
		Assumes: []string{
			"a panic whose value implements runtime.Error is a crash; any other panic value (string, error built by gomacro) is an explicit diagnostic",
			"in-process loader (internal/fastload) stands in for analysis.LoadSource (fidelity test)",
			fmt.Sprintf("%d generator stages: go/unions, go/randdata, go/sqlcrud (sets on/off), sql, typescript/types, dart; typescript/api is exercised by C13/C14", len(c18Stages)),
		},
		Gen:        c18Gen,
		Check:      c18Check,
		WriteAhead: true,
	})
}
