package props

import (
	"encoding/json"
	"fmt"
	"sort"
	"strings"
	"testing"

	"verif/internal/h"

	gen "github.com/benoitkugler/gomacro/generator"
	"pgregory.net/rapid"
)

// C19 — declaration assembly is a set-like, order-independent merge.
//
// Statement (properties.jsonl): "Assembling a list of declarations emits the
// content of each distinct declaration ID exactly once, followed by a newline,
// all priority declarations before all others and each group in increasing ID
// order. The result does not depend on the order in which the declarations
// were supplied (equal IDs carrying equal content)".

type c19Decl struct {
	ID   string `json:"id"`
	Var  int    `json:"var"` // content variant; content = encode(ID, Var)
	Prio bool   `json:"prio"`
}

type c19Case struct {
	Decls []c19Decl `json:"decls"`
	// Perms are permutations of the indices of Decls to try (besides identity).
	Perms [][]int `json:"perms"`
}

// content is self-delimiting (its only ';' ends it, or is followed by its own final newline) so the output
// can be parsed back unambiguously; some variants contain a newline inside, one ends with a newline.
func c19Content(d c19Decl) string {
	switch d.Var % 4 {
	case 0:
		return fmt.Sprintf("<%s#%d>;", d.ID, d.Var)
	case 1:
		return fmt.Sprintf("<%s#%d>\n  body\n;", d.ID, d.Var)
	case 3:
		return fmt.Sprintf("<%s#%d>;\n", d.ID, d.Var)
	default:
		return fmt.Sprintf("<%s#%d> ;", d.ID, d.Var)
	}
}

func c19ToDecls(ds []c19Decl, perm []int) []gen.Declaration {
	out := make([]gen.Declaration, len(ds))
	for i := range ds {
		d := ds[i]
		if perm != nil {
			d = ds[perm[i]]
		}
		out[i] = gen.Declaration{ID: d.ID, Content: c19Content(d), Priority: d.Prio}
	}
	return out
}

// c19Validate is the two-sided validity oracle for one output.
func c19Validate(ds []c19Decl, out string) error {
	type info struct {
		contents       map[string]bool
		anyPrio, anyNo bool
	}
	byID := map[string]*info{}
	for _, d := range ds {
		in := byID[d.ID]
		if in == nil {
			in = &info{contents: map[string]bool{}}
			byID[d.ID] = in
		}
		in.contents[c19Content(d)] = true
		if d.Prio {
			in.anyPrio = true
		} else {
			in.anyNo = true
		}
	}
	// parse the output into the emitted (id, content) sequence
	var seq []string
	rest := out
	seen := map[string]bool{}
	for rest != "" {
		end := strings.IndexByte(rest, ';')
		if end < 0 || !strings.HasPrefix(rest, "<") {
			return h.Violf("output is not a sequence of supplied contents: %q (at %q)", out, rest)
		}
		content := rest[:end+1]
		hash := strings.IndexByte(content, '#')
		id := content[1:hash]
		in := byID[id]
		if in != nil && !in.contents[content] && in.contents[content+"\n"] && strings.HasPrefix(rest[end+1:], "\n") {
			// the variant that ends with its own newline
			content += "\n"
			end++
		}
		if in == nil || !in.contents[content] {
			return h.Violf("emitted content %q was not supplied for ID %q", content, id)
		}
		if seen[id] {
			return h.Violf("ID %q emitted more than once in %q", id, out)
		}
		seen[id] = true
		rest = rest[end+1:]
		if !strings.HasPrefix(rest, "\n") {
			return h.Violf("content of ID %q is not followed by a newline in %q", id, out)
		}
		rest = rest[1:]
		seq = append(seq, id)
	}
	if len(seq) != len(byID) {
		return h.Violf("%d distinct IDs supplied, %d emitted: %q", len(byID), len(seq), out)
	}
	// there must be a split: seq[:k] may-be-priority ascending, seq[k:] may-be-other ascending.
	// IDs that only have priority declarations must be before IDs that only have non-priority ones.
	okSplit := false
	for k := 0; k <= len(seq); k++ {
		ok := true
		for i, id := range seq {
			in := byID[id]
			if i < k && !in.anyPrio || i >= k && !in.anyNo {
				ok = false
			}
			if i > 0 && i != k && seq[i-1] >= id {
				ok = false
			}
		}
		if ok {
			okSplit = true
			break
		}
	}
	if !okSplit {
		return h.Violf("emitted ID order %q is not (priority ascending)+(others ascending) for input %s", seq, c19Show(ds))
	}
	return nil
}

func c19Show(ds []c19Decl) string {
	b, _ := json.Marshal(ds)
	return string(b)
}

func c19EqualContentPerID(ds []c19Decl) bool {
	m := map[string]int{}
	for _, d := range ds {
		if v, ok := m[d.ID]; ok && v != d.Var {
			return false
		}
		m[d.ID] = d.Var
	}
	return true
}

// reference for the unambiguous part of the statement: equal IDs carry equal
// content; an ID is in the priority group iff any of its declarations is
// (the only reading under which mixed priorities can be order independent
// *and* "priority before others" holds for the priority instance).
func c19Reference(ds []c19Decl) string {
	content := map[string]string{}
	prio := map[string]bool{}
	for _, d := range ds {
		content[d.ID] = c19Content(d)
		prio[d.ID] = prio[d.ID] || d.Prio
	}
	var p, o []string
	for id := range content {
		if prio[id] {
			p = append(p, id)
		} else {
			o = append(o, id)
		}
	}
	sort.Strings(p)
	sort.Strings(o)
	var sb strings.Builder
	for _, id := range append(p, o...) {
		sb.WriteString(content[id])
		sb.WriteByte('\n')
	}
	return sb.String()
}

func c19Check(c c19Case, r *h.Rec) error {
	ds := c.Decls
	base := gen.WriteDeclarations(c19ToDecls(ds, nil))
	if err := c19Validate(ds, base); err != nil {
		return err
	}
	equal := c19EqualContentPerID(ds)
	mixedPrioSameID := false
	{
		p := map[string][2]bool{}
		for _, d := range ds {
			v := p[d.ID]
			if d.Prio {
				v[0] = true
			} else {
				v[1] = true
			}
			p[d.ID] = v
		}
		for _, v := range p {
			if v[0] && v[1] {
				mixedPrioSameID = true
			}
		}
	}
	if equal && !mixedPrioSameID {
		// fully determined by the statement
		if want := c19Reference(ds); base != want {
			return h.Violf("WriteDeclarations(%s) = %q, reference = %q", c19Show(ds), base, want)
		}
	}
	for _, perm := range c.Perms {
		if len(perm) != len(ds) {
			continue
		}
		got := gen.WriteDeclarations(c19ToDecls(ds, perm))
		if err := c19Validate(ds, got); err != nil {
			return err
		}
		if equal && got != base {
			return h.Violf("result depends on the supply order: %s gives %q, permutation %v gives %q", c19Show(ds), base, perm, got)
		}
	}
	// classes + non-triviality: a duplicate ID and both priority classes
	dupID, hasP, hasO := false, false, false
	ids := map[string]bool{}
	for _, d := range ds {
		if ids[d.ID] {
			dupID = true
		}
		ids[d.ID] = true
		if d.Prio {
			hasP = true
		} else {
			hasO = true
		}
	}
	if r != nil {
		if dupID {
			r.Class("duplicate_id")
		}
		if mixedPrioSameID {
			r.Class("same_id_both_priorities")
		}
		if !equal {
			r.Class("same_id_different_content")
		}
		if len(ds) > 20 {
			r.Class("len>20")
		}
		if dupID && hasP && hasO {
			key, _ := json.Marshal(ds)
			r.NonTriv(key, func() any { return map[string]any{"decls": ds, "output": base} })
		}
	}
	return nil
}

func c19Gen(t *rapid.T, r *h.Rec) c19Case {
	ids := []string{"a", "b", "c", "aa", "ab", "B", "_", "", "a b", "é", "z9", "Z"}
	big := rapid.Bool().Draw(t, "big")
	maxLen := 8
	if big {
		maxLen = 200
	}
	nIDs := rapid.IntRange(1, len(ids)).Draw(t, "nIDs")
	equalContent := rapid.IntRange(0, 3).Draw(t, "equalContent") != 0
	n := rapid.IntRange(0, maxLen).Draw(t, "n")
	ds := make([]c19Decl, n)
	varOf := map[string]int{}
	for i := range ds {
		id := ids[rapid.IntRange(0, nIDs-1).Draw(t, "id")]
		v := rapid.IntRange(0, 5).Draw(t, "var")
		if equalContent {
			if old, ok := varOf[id]; ok {
				v = old
			}
			varOf[id] = v
		}
		ds[i] = c19Decl{ID: id, Var: v, Prio: rapid.Bool().Draw(t, "prio")}
	}
	nPerm := rapid.IntRange(1, 4).Draw(t, "nPerm")
	perms := make([][]int, nPerm)
	for p := range perms {
		perm := make([]int, n)
		for i := range perm {
			perm[i] = i
		}
		// Fisher-Yates driven by rapid
		for i := n - 1; i > 0; i-- {
			j := rapid.IntRange(0, i).Draw(t, "swap")
			perm[i], perm[j] = perm[j], perm[i]
		}
		perms[p] = perm
	}
	return c19Case{Decls: ds, Perms: perms}
}

// exhaustive small scope: every list up to length L over the given symbols,
// against every permutation.
func c19Exhaustive(r *h.Rec, cfg h.Config) (*c19Case, error) {
	if cfg.Shard != 0 {
		return nil, nil
	}
	run := func(symbols []c19Decl, maxLen int) (*c19Case, error) {
		var list []c19Decl
		var rec func() (*c19Case, error)
		permsOf := map[int][][]int{}
		for n := 0; n <= maxLen; n++ {
			permsOf[n] = allPerms(n)
		}
		rec = func() (*c19Case, error) {
			c := c19Case{Decls: append([]c19Decl(nil), list...), Perms: permsOf[len(list)]}
			r.Add("extra_evaluations", 1+len(c.Perms))
			if err := c19Check(c, r); err != nil {
				return &c, err
			}
			if len(list) == maxLen {
				return nil, nil
			}
			for _, s := range symbols {
				list = append(list, s)
				if c, err := rec(); err != nil {
					return c, err
				}
				list = list[:len(list)-1]
			}
			return nil, nil
		}
		return rec()
	}
	// (1) equal IDs carry equal content: IDs {a,b,c} x priorities, length <= 5 (6 with thorough)
	var sym1 []c19Decl
	for _, id := range []string{"a", "b", "c"} {
		for _, p := range []bool{true, false} {
			sym1 = append(sym1, c19Decl{ID: id, Var: 0, Prio: p})
		}
	}
	l1, l2 := 5, 3
	if cfg.Tier == "thorough" {
		l1, l2 = 6, 4
	}
	if c, err := run(sym1, l1); err != nil {
		return c, err
	}
	// (2) two contents per ID as well: validity only where contents differ
	var sym2 []c19Decl
	for _, id := range []string{"a", "b", "c"} {
		for _, v := range []int{0, 1} {
			for _, p := range []bool{true, false} {
				sym2 = append(sym2, c19Decl{ID: id, Var: v, Prio: p})
			}
		}
	}
	return run(sym2, l2)
}

func allPerms(n int) [][]int {
	var out [][]int
	perm := make([]int, n)
	for i := range perm {
		perm[i] = i
	}
	var rec func(k int)
	rec = func(k int) {
		if k == n {
			out = append(out, append([]int(nil), perm...))
			return
		}
		for i := k; i < n; i++ {
			perm[k], perm[i] = perm[i], perm[k]
			rec(k + 1)
			perm[k], perm[i] = perm[i], perm[k]
		}
	}
	rec(0)
	return out
}

func TestC19(t *testing.T) {
	h.Main(t, h.Prop[c19Case]{
		ID: "C19",
		Rule: "rapid lists of Declaration{ID,Content,Priority} (length 0..200 over 1..12 colliding IDs, contents encode (ID,variant)) each checked on 1..4 rapid permutations, " +
			"plus an exhaustive enumeration (shard 0) of all lists up to length 5 (6 thorough) over IDs {a,b,c} x priority with all permutations, and up to length 3 (4) with two contents per ID; " +
			"non-trivial = the list has a duplicate ID and both priority classes; distinct by SHA-256 of the list",
		Assumes: []string{
			"for an ID supplied with both priorities the statement is read as 'emitted once, in either group, independent of order'",
			"for equal IDs with different contents only exactly-once/validity is asserted, not permutation invariance",
		},
		Gen:        c19Gen,
		Check:      c19Check,
		Extra:      c19Exhaustive,
		Exhaustive: true,
	})
}
