package props

import (
	"bytes"
	"encoding/json"
	"fmt"
	"os"
	"os/exec"
	"path/filepath"
	"sort"
	"strings"
	"testing"

	"verif/internal/h"
	"verif/internal/synth"
	"verif/internal/tsx"

	"github.com/benoitkugler/gomacro/analysis"
	"github.com/benoitkugler/gomacro/analysis/httpapi"
	"github.com/benoitkugler/gomacro/generator/typescript"
	"pgregory.net/rapid"
)

// C14 — the generated Axios client issues exactly the extracted requests.

type c14Case struct {
	Routes *synth.RouteSpec `json:"routes"`
	// overrides applied to the extracted endpoint list (endpoint lists "built directly")
	Blob   []bool `json:"blob"`   // per endpoint: force a blob return
	NoRet  []bool `json:"noret"`  // per endpoint: drop the return type
	ArgSel []int  `json:"argsel"` // argument value selectors
}

func c14Gen(t *rapid.T, r *h.Rec) c14Case {
	av, onEx, onCl := avoidOpts(r)
	rs := synth.GenRoutes(t, &synth.RouteOpts{Avoid: av, OnExclude: onEx, OnClass: onCl})
	c := c14Case{Routes: rs}
	for range rs.Routes {
		c.Blob = append(c.Blob, rapid.IntRange(0, 9).Draw(t, "forceBlob") == 0)
		c.NoRet = append(c.NoRet, rapid.IntRange(0, 9).Draw(t, "dropReturn") == 0)
	}
	c.ArgSel = rapid.SliceOfN(rapid.IntRange(0, 1000), 16, 16).Draw(t, "argSel")
	return c
}

const c14Stub = `
"use strict";
const __calls = [];
const __errors = [];
let __current = null;
function __resp(config) {
	if (config && config.responseType === "arraybuffer") {
		return { data: "BLOBDATA", headers: { "content-disposition": "attachment; filename=report%20x.pdf" } };
	}
	return { data: { payload: 42 }, headers: {} };
}
function __body(b) {
	if (b instanceof FormData) { return { form: b.entries }; }
	return { json: b === undefined ? "__undefined__" : b };
}
const Axios = {
	get: async (...a) => { __calls.push({ m: __current, verb: "GET", url: a[0], nargs: a.length, config: a[1] }); return __resp(a[1]); },
	delete: async (...a) => { __calls.push({ m: __current, verb: "DELETE", url: a[0], nargs: a.length, config: a[1] }); return __resp(a[1]); },
	post: async (...a) => { __calls.push({ m: __current, verb: "POST", url: a[0], nargs: a.length, body: __body(a[1]), config: a[2] }); return __resp(a[2]); },
	put: async (...a) => { __calls.push({ m: __current, verb: "PUT", url: a[0], nargs: a.length, body: __body(a[1]), config: a[2] }); return __resp(a[2]); },
};
class FormData {
	constructor() { this.entries = []; }
	append(k, v, fn) {
		if (v && typeof v === "object" && v.__file) { v = { file: v.name }; }
		this.entries.push(fn === undefined ? [k, v] : [k, v, fn]);
	}
}
`

const c14Driver = `
class __Impl extends AbstractAPI {
	handleError(e) { __errors.push(String(e && e.stack ? e.stack : e)); }
	startRequest() {}
}
(async () => {
	const api = new __Impl("http://base.test", "TOKEN");
	const out = [];
	for (const call of __plan) {
		__current = call.name;
		const before = __calls.length;
		let ret, thrown = null;
		try {
			if (typeof api[call.name] !== "function") { throw new Error("no method " + call.name); }
			ret = await api[call.name](...call.args);
		} catch (e) { thrown = String(e); }
		out.push({ name: call.name, ret: ret === undefined ? "__undefined__" : ret, thrown, requests: __calls.slice(before) });
	}
	process.stdout.write(JSON.stringify({ results: out, errors: __errors }));
})();
`

// argument values by parameter kind
func c14QueryValue(kind string, sel int) any {
	switch kind {
	case "bool":
		return sel%2 == 0
	case "int64", "int", "uint":
		return []any{0, 7, -3, 1234567}[sel%4]
	case "string":
		return []string{"", "abc", "é è", "a&b=c"}[sel%4]
	}
	return []any{0, 7, 42}[sel%3]
}

func c14QueryString(v any) any {
	switch x := v.(type) {
	case bool:
		if x {
			return "ok"
		}
		return ""
	case string:
		return x
	case int:
		return fmt.Sprint(x)
	}
	return fmt.Sprint(v)
}

func isIntLike(ty analysis.Type) string {
	s := typeStr(ty)
	switch {
	case s == "bool":
		return "bool"
	case s == "string":
		return "string"
	}
	return "int64"
}

func c14Check(c c14Case, r *h.Rec) error {
	rs := c.Routes
	src := func() string { return clip(rs.Text(), 3500) }
	ld, file, err := loadRoutes(rs)
	if err != nil {
		return err
	}
	var eps []httpapi.Endpoint
	oc := guard(func() { eps = httpapi.ParseEcho(ld.Root, file, "") })
	if oc.Panicked {
		r.Class("skipped:extraction_failed(C13)")
		return nil
	}
	for i := range eps {
		if i < len(c.Blob) && c.Blob[i] && eps[i].Contract.Return != nil {
			eps[i].Contract.IsReturnBlob = true
		}
		if i < len(c.NoRet) && c.NoRet[i] && !eps[i].Contract.IsReturnBlob {
			eps[i].Contract.Return = nil
		}
	}
	var text string
	oc = guard(func() { text = typescript.GenerateAxios(eps) })
	if oc.RuntimeEr {
		return h.Violf("GenerateAxios crashed on an extracted endpoint list: %s at %s\n%s", oc.Msg, oc.Stack, src())
	}
	if oc.Panicked {
		r.Refused++
		r.Class("refused:" + clip(oc.Msg, 40))
		return nil
	}
	f, env, err := tsStatic(text, src)
	if err != nil {
		return err
	}
	_ = env
	var class *tsx.Class
	for i := range f.Decls {
		if f.Decls[i].Kind == "class" {
			class = f.Decls[i].Class
		}
	}
	if class == nil {
		return h.Violf("the client has no class\n%s", clip(text, 1500))
	}
	// one method per endpoint, named after its handler
	methods := map[string]*tsx.Member{}
	for i := range class.Members {
		m := &class.Members[i]
		if m.IsConstructor || m.Body == "" {
			continue
		}
		if _, dup := methods[m.Name]; dup {
			return h.Violf("the client declares the method %s twice\n%s", m.Name, src())
		}
		methods[m.Name] = m
	}
	type planned struct {
		Name string `json:"name"`
		Args []any  `json:"args"`
		ep   int
		exp  map[string]any
	}
	var plan []planned
	sel := 0
	next := func() int { v := c.ArgSel[sel%len(c.ArgSel)]; sel++; return v }
	for i, ep := range eps {
		ct := ep.Contract
		m := methods[ct.Name]
		if m == nil {
			return h.Violf("endpoint %s %s (handler %s) has no client method named after its handler; methods: %v\n%s", ep.Method, ep.Url, ct.Name, keysOf(methods), src())
		}
		for rep := 0; rep < 2; rep++ {
			p := planned{Name: ct.Name, ep: i, Args: []any{}}
			query := map[string]any{}
			queryStr := map[string]any{}
			for _, q := range ct.InputQueryParams {
				v := c14QueryValue(isIntLike(q.Type), next())
				query[q.Name] = v
				queryStr[q.Name] = c14QueryString(v)
			}
			formVals := map[string]any{}
			for _, fv := range ct.InputForm.ValueNames {
				formVals[fv] = []string{"v1", "", "x y"}[next()%3]
			}
			body := map[string]any{"some": "body", "n": next() % 5}
			hasBody := ct.InputBody != nil
			if hasBody {
				// one argument serves as body; when query parameters are declared too they are read from the same object
				for k, v := range query {
					body[k] = v
				}
			}
			formValue := map[string]any{"json": []any{1, "two"}}
			for _, prm := range m.Params {
				switch prm.Name {
				case "params":
					if hasBody {
						p.Args = append(p.Args, body)
					} else {
						p.Args = append(p.Args, query)
					}
				case "formParams":
					p.Args = append(p.Args, formVals)
				case "file":
					p.Args = append(p.Args, map[string]any{"__file": true, "name": "upload.bin"})
				case "formValue":
					p.Args = append(p.Args, formValue)
				default:
					return h.Violf("method %s has an unexpected parameter %q\n%s", ct.Name, prm.Name, src())
				}
			}
			// the expected request, written from the statement
			exp := map[string]any{"verb": ep.Method, "url": "http://base.test" + ep.Url}
			isForm := ct.InputForm.File != "" || len(ct.InputForm.ValueNames) > 0 || ct.InputForm.JSON.Name != ""
			switch {
			case isForm:
				var entries []any
				if ct.InputForm.File != "" {
					entries = append(entries, []any{ct.InputForm.File, map[string]any{"file": "upload.bin"}, "upload.bin"})
				}
				for _, fv := range ct.InputForm.ValueNames {
					entries = append(entries, []any{fv, formVals[fv]})
				}
				if ct.InputForm.JSON.Name != "" {
					jb, _ := json.Marshal(formValue)
					entries = append(entries, []any{ct.InputForm.JSON.Name, string(jb)})
				}
				exp["body"] = map[string]any{"form": entries}
			case hasBody:
				exp["body"] = map[string]any{"json": body}
			case ep.Method == "POST" || ep.Method == "PUT":
				exp["body"] = map[string]any{"json": nil}
			}
			if len(queryStr) > 0 {
				exp["params"] = queryStr
			}
			if ct.IsReturnBlob {
				exp["responseType"] = "arraybuffer"
				exp["ret"] = map[string]any{"blob": "BLOBDATA", "filename": "report x.pdf"}
			} else if ct.Return == nil {
				exp["ret"] = true
			} else {
				exp["ret"] = map[string]any{"payload": 42}
			}
			p.exp = exp
			plan = append(plan, p)
		}
	}
	if len(plan) == 0 {
		return nil
	}
	js, err := tsx.EraseToJS(text)
	if err != nil {
		return h.Inconcf("type erasure: %v", err)
	}
	planJSON, _ := json.Marshal(plan)
	program := c14Stub + js + "\nconst __plan = " + string(planJSON) + ";\n" + c14Driver
	dir, err := os.MkdirTemp(scratch(), "c14-")
	if err != nil {
		return h.Inconcf("scratch: %v", err)
	}
	defer os.RemoveAll(dir)
	jsPath := filepath.Join(dir, "client.js")
	os.WriteFile(jsPath, []byte(program), 0o644)
	cmd := exec.Command("/usr/bin/node", jsPath)
	var ob, eb bytes.Buffer
	cmd.Stdout, cmd.Stderr = &ob, &eb
	if err := cmd.Run(); err != nil {
		if _, statErr := os.Stat("/usr/bin/node"); statErr != nil {
			return h.Inconcf("node is not installed")
		}
		if strings.Contains(eb.String(), "SyntaxError") {
			return h.Violf("the client (types erased) is not valid JavaScript:\n%s\n%s", clip(eb.String(), 1200), src())
		}
		return h.Violf("the client fails when loaded under Node: %v\n%s\n%s", err, clip(eb.String(), 1200), src())
	}
	var out struct {
		Results []struct {
			Name     string
			Ret      any
			Thrown   *string
			Requests []map[string]any
		}
		Errors []string
	}
	dec := json.NewDecoder(bytes.NewReader(ob.Bytes()))
	if err := dec.Decode(&out); err != nil {
		return h.Inconcf("cannot decode the Node report: %v\n%s", err, clip(ob.String(), 500))
	}
	if len(out.Errors) > 0 {
		return h.Violf("a client method ended in handleError: %s\n%s", clip(out.Errors[0], 800), src())
	}
	norm := func(v any) string {
		b, _ := json.Marshal(v)
		var x any
		json.Unmarshal(b, &x)
		b, _ = json.Marshal(x)
		return string(b)
	}
	for i, res := range out.Results {
		p := plan[i]
		ep := eps[p.ep]
		where := fmt.Sprintf("method %s (%s %s)", p.Name, ep.Method, ep.Url)
		if res.Thrown != nil {
			return h.Violf("%s threw %s\n%s", where, *res.Thrown, src())
		}
		if len(res.Requests) != 1 {
			return h.Violf("%s issued %d requests, expected exactly one\n%s", where, len(res.Requests), src())
		}
		rq := res.Requests[0]
		if rq["verb"] != p.exp["verb"] || rq["url"] != p.exp["url"] {
			return h.Violf("%s sent %v %v, expected %v %v\n%s", where, rq["verb"], rq["url"], p.exp["verb"], p.exp["url"], src())
		}
		if wantBody, has := p.exp["body"]; has {
			if norm(rq["body"]) != norm(wantBody) {
				return h.Violf("%s sent the body %s, expected %s\n%s", where, norm(rq["body"]), norm(wantBody), src())
			}
		} else if rq["body"] != nil {
			return h.Violf("%s sent a body %s although it has no input\n%s", where, norm(rq["body"]), src())
		}
		cfg, _ := rq["config"].(map[string]any)
		if cfg == nil {
			return h.Violf("%s passes no request configuration (headers, params) at the position axios expects it: %s\n%s", where, norm(rq["config"]), src())
		}
		if hd, _ := cfg["headers"].(map[string]any); hd == nil || hd["Authorization"] != "Bearer TOKEN" {
			return h.Violf("%s does not send the authorization header: config %s\n%s", where, norm(cfg), src())
		}
		wantParams, hasParams := p.exp["params"]
		if hasParams {
			if norm(cfg["params"]) != norm(wantParams) {
				return h.Violf("%s sent the query parameters %s, expected exactly %s (converted to strings)\n%s", where, norm(cfg["params"]), norm(wantParams), src())
			}
		} else if cfg["params"] != nil {
			return h.Violf("%s sent query parameters %s although none is declared\n%s", where, norm(cfg["params"]), src())
		}
		if norm(cfg["responseType"]) != norm(p.exp["responseType"]) {
			return h.Violf("%s: responseType %s, expected %s\n%s", where, norm(cfg["responseType"]), norm(p.exp["responseType"]), src())
		}
		if norm(res.Ret) != norm(p.exp["ret"]) {
			return h.Violf("%s returned %s, expected %s\n%s", where, norm(res.Ret), norm(p.exp["ret"]), src())
		}
		r.Add("requests_checked", 1)
		ct := ep.Contract
		n := 0
		if ct.InputBody != nil {
			n++
		}
		if ct.InputForm.File != "" || len(ct.InputForm.ValueNames) > 0 || ct.InputForm.JSON.Name != "" {
			n++
		}
		if len(ct.InputQueryParams) > 0 {
			n++
		}
		if ct.Return != nil {
			n++
		}
		if n >= 2 {
			key, _ := json.Marshal([]any{rs.Text(), p.Name, p.Args})
			r.NonTriv(key, func() any {
				return map[string]any{"method": p.Name, "args": p.Args, "request": rq, "returned": res.Ret}
			})
		}
	}
	var ks []string
	for _, ep := range eps {
		ks = append(ks, ep.Method)
	}
	sort.Strings(ks)
	r.Class("clients_executed")
	return nil
}

func TestC14(t *testing.T) {
	h.Main(t, h.Prop[c14Case]{
		ID: "C14",
		Rule: "rapid route files (as C13) -> ParseEcho -> endpoint lists, also edited directly (forced blob returns, dropped return types) -> typescript.GenerateAxios -> parsed by internal/tsx (syntax; every mentioned type declared exactly once) -> types erased -> executed under Node against a recording Axios/FormData stand-in: every method is called twice with rapid-selected argument values and the recorded request must equal the expected one (method named after the handler, verb, base URL + URL, JSON body | form data with exactly the declared file, value and JSON fields | null for body-less POST/PUT | none, exactly the declared query parameters as strings, Authorization header, responseType for blobs, returned payload | {blob, filename} | true); " +
			"non-trivial = an executed call of an endpoint with >= 2 of {body, form, query, return}; distinct by (source, method, arguments)",
		Assumes: []string{
			"axios is a recording stand-in: what is checked is the call the client makes; Node v20 at /usr/bin/node judges the JavaScript syntax of the erased client",
			"when an endpoint declares a body and query parameters the single `params` argument serves both roles (the query values are read from the body object)",
		},
		Gen:   c14Gen,
		Check: c14Check,
	})
}
