package props

import (
	"fmt"
	"go/ast"
	"go/constant"
	"go/parser"
	"go/token"
	"go/types"
	"regexp"
	"strconv"
	"strings"
	"testing"

	"verif/internal/h"
	"verif/internal/pgx"
	"verif/internal/synth"

	gen "github.com/benoitkugler/gomacro/generator"
	"github.com/benoitkugler/gomacro/generator/go/sqlcrud"
	"pgregory.net/rapid"
)

// C16 — SQL comment directives are expanded exactly.

func c16Gen(t *rapid.T, r *h.Rec) specCase {
	av, onEx, onCl := avoidOpts(r)
	return specCase{Spec: synth.GenSQL(t, &synth.SQLOpts{Avoid: av, OnExclude: onEx, OnClass: onCl, MaxTables: 4, Directives: true, SelfFK: true, ForeignFileTables: true})}
}

var (
	reBlockComment = regexp.MustCompile(`/\*.*?\*/`)
	reSpaces       = regexp.MustCompile(`\s+`)
	reWord         = regexp.MustCompile(`\w+`)
	rePlaceholder  = regexp.MustCompile(`#\[(\w+)\.(\w+)\]`)
	reReferencesW  = regexp.MustCompile(`REFERENCES (\w+)`)
	reQueryVar     = regexp.MustCompile(`\$(\w+)\$`)
	reQueryField   = regexp.MustCompile(`(\w+)\s*=\s*\$(\w+)\$`)
)

func normSQL(s string) string {
	s = reBlockComment.ReplaceAllString(s, " ")
	s = reSpaces.ReplaceAllString(s, " ")
	s = strings.TrimSpace(s)
	s = strings.TrimSuffix(s, ";")
	s = strings.TrimSpace(s)
	s = strings.ReplaceAll(s, " ;", ";")
	s = strings.ReplaceAll(s, "( ", "(")
	s = strings.ReplaceAll(s, " )", ")")
	return s
}

// sqlLiteralOf: numbers as written, strings single-quoted (quotes doubled)
func sqlLiteralOf(goLit string) string {
	if strings.HasPrefix(goLit, `"`) {
		s, _ := strconv.Unquote(goLit)
		return "'" + strings.ReplaceAll(s, "'", "''") + "'"
	}
	return goLit
}

// refExpand is the reference expander written from the statement of C16.
func refExpand(content string, tables map[string]string, enums map[string]*synth.EnumRef, references bool) (string, error) {
	if references {
		content = reReferencesW.ReplaceAllStringFunc(content, func(s string) string {
			name := strings.TrimPrefix(s, "REFERENCES ")
			return "REFERENCES " + snakePlural(name)
		})
	}
	// whole-word table-struct names -> SQL table name; placeholders are protected first
	var perr error
	type ph struct{ ty, c string }
	var phs []ph
	content = rePlaceholder.ReplaceAllStringFunc(content, func(s string) string {
		m := rePlaceholder.FindStringSubmatch(s)
		phs = append(phs, ph{m[1], m[2]})
		return fmt.Sprintf("\x00%d\x00", len(phs)-1)
	})
	content = reWord.ReplaceAllStringFunc(content, func(w string) string {
		if sqlName, ok := tables[w]; ok {
			return sqlName
		}
		return w
	})
	for i, p := range phs {
		e := enums[p.ty]
		lit := ""
		if e != nil {
			for _, m := range e.Members {
				if m.Name == p.c {
					lit = sqlLiteralOf(m.Val)
				}
			}
		}
		if lit == "" {
			perr = fmt.Errorf("unknown enum constant %s.%s", p.ty, p.c)
		}
		content = strings.Replace(content, fmt.Sprintf("\x00%d\x00", i), lit, 1)
	}
	return content, perr
}

func c16Check(c specCase, r *h.Rec) error {
	src := func() string { return clip(c.Spec.Text(), 3500) }
	ls, err := loadSpec(c.Spec)
	if err != nil {
		return err
	}
	if ls.oc.RuntimeEr {
		return h.Violf("analysis crashed on a model file with directives: %s at %s\n%s", ls.oc.Msg, ls.oc.Stack, src())
	}
	if ls.oc.Panicked {
		r.Refused++
		return nil
	}
	text, oc := sqlOutput(ls)
	if oc.RuntimeEr {
		return h.Violf("sql generator crashed on a model file with directives: %s at %s\n%s", oc.Msg, oc.Stack, src())
	}
	if oc.Panicked {
		r.Refused++
		return nil
	}
	// the constraint section holds one statement per line: compare text, then judge syntax
	if _, err := parseSQL(text, src); err != nil {
		if _, inconclusive := err.(*h.Inconclusive); !inconclusive {
			return err
		}
		r.Class("sql_outside_modelled_subset(text comparison only)")
	}
	tables := map[string]string{}
	for _, d := range c.Spec.AnalysedFile().Decls {
		if d.Kind == synth.KStruct {
			tables[d.Name] = snakePlural(d.Name)
		}
	}
	enums := c.Spec.Enums()[c.Spec.Root().Path]
	// all statements of the script, normalised
	stmts := map[string]int{}
	for _, line := range strings.Split(text, "\n") {
		if l := normSQL(line); l != "" && !strings.HasPrefix(l, "--") {
			stmts[l]++
		}
	}
	for s := range stmts {
		if strings.Contains(strings.ToUpper(s), "_SELECT") {
			return h.Violf("an internal select-key directive reached the SQL output: %s\n%s", s, src())
		}
	}
	if strings.Contains(text, "_SELECT KEY") {
		return h.Violf("an internal select-key directive reached the SQL output\n%s", src())
	}
	expected := map[string]int{}
	nontrivial := false
	type queryExp struct {
		table  *synth.Decl
		fn     string
		sql    string
		params []string
		fields []string
	}
	var queries []queryExp
	for _, d := range c.Spec.AnalysedFile().Decls {
		if d.Kind != synth.KStruct {
			continue
		}
		for _, line := range d.Doc {
			switch {
			case strings.HasPrefix(line, "gomacro:SQL "):
				content := strings.TrimPrefix(line, "gomacro:SQL ")
				if strings.Contains(content, "_SELECT KEY") {
					continue
				}
				exp, err := refExpand(content, tables, enums, true)
				if err != nil {
					return h.Inconcf("reference expander: %v", err)
				}
				if strings.HasPrefix(exp, "ADD") {
					exp = "ALTER TABLE " + snakePlural(d.Name) + " " + exp
				}
				expected[normSQL(exp)]++
				if strings.Contains(content, "#[") || exp != content {
					nontrivial = true
				}
			case strings.HasPrefix(line, "gomacro:QUERY "):
				content := strings.TrimPrefix(line, "gomacro:QUERY ")
				fn, q, _ := strings.Cut(content, " ")
				qe := queryExp{table: d, fn: fn}
				seen := map[string]int{}
				for _, m := range reQueryField.FindAllStringSubmatch(q, -1) {
					if _, ok := seen[m[2]]; !ok {
						seen[m[2]] = len(seen) + 1
						qe.params = append(qe.params, m[2])
						qe.fields = append(qe.fields, m[1])
					}
				}
				q = reQueryVar.ReplaceAllStringFunc(q, func(s string) string {
					name := strings.Trim(s, "$")
					return fmt.Sprintf("$%d", seen[name])
				})
				exp, err := refExpand(q, tables, enums, false)
				if err != nil {
					return h.Inconcf("reference expander: %v", err)
				}
				qe.sql = exp
				queries = append(queries, qe)
				nontrivial = true
			}
		}
	}
	for exp, n := range expected {
		if stmts[exp] != n {
			var near []string
			for s := range stmts {
				if len(near) < 6 && (strings.HasPrefix(s, strings.Fields(exp)[0])) {
					near = append(near, s)
				}
			}
			return h.Violf("directive expansion: expected %d statement(s)\n    %s\n  found %d; statements of the script starting alike:\n    %s\n%s", n, exp, stmts[exp], strings.Join(near, "\n    "), src())
		}
	}
	// guards: DEFAULT and CHECK use the SQL literal of the placeholder
	for _, d := range c.Spec.AnalysedFile().Decls {
		if d.Kind != synth.KStruct {
			continue
		}
		for _, f := range d.Fields {
			gv := tagGet(f.Tag, "gomacro-sql-guard")
			if gv == "" {
				continue
			}
			exp, err := refExpand(gv, tables, enums, false)
			if err != nil {
				return h.Inconcf("reference expander: %v", err)
			}
			want1 := normSQL(fmt.Sprintf("ALTER TABLE %s ALTER COLUMN %s SET DEFAULT %s", snakePlural(d.Name), f.Name, exp))
			want2 := normSQL(fmt.Sprintf("ALTER TABLE %s ADD CHECK(%s = %s)", snakePlural(d.Name), f.Name, exp))
			if stmts[want1] != 1 || stmts[want2] != 1 {
				return h.Violf("guard %s.%s: expected\n    %s\n    %s\n  in the constraint section (found %d / %d)\n%s", d.Name, f.Name, want1, want2, stmts[want1], stmts[want2], src())
			}
			nontrivial = true
		}
	}
	// custom queries in the CRUD output
	if len(queries) > 0 {
		var crud string
		oc := guard(func() { crud = gen.WriteDeclarations(sqlcrud.Generate(ls.an, false)) })
		if oc.RuntimeEr {
			return h.Violf("sqlcrud crashed on a model file with custom queries: %s at %s\n%s", oc.Msg, oc.Stack, src())
		}
		if !oc.Panicked {
			fset := token.NewFileSet()
			file, err := parser.ParseFile(fset, "crud.go", crud, 0)
			if err != nil {
				r.Class("skipped:crud_output_does_not_parse(C01)")
			} else {
				for _, qe := range queries {
					var fd *ast.FuncDecl
					for _, dcl := range file.Decls {
						if f, ok := dcl.(*ast.FuncDecl); ok && f.Name.Name == qe.fn && f.Recv == nil {
							fd = f
						}
					}
					if fd == nil {
						return h.Violf("custom query %s: no generated function of that name\n%s", qe.fn, src())
					}
					var params [][2]string
					for _, fl := range fd.Type.Params.List {
						for _, n := range fl.Names {
							params = append(params, [2]string{n.Name, types.ExprString(fl.Type)})
						}
					}
					if len(params) != len(qe.params)+1 || params[0][1] != "DB" {
						return h.Violf("custom query %s: parameters %v, expected the DB plus exactly one argument per distinct placeholder %v\n%s", qe.fn, params, qe.params, src())
					}
					for i, pn := range qe.params {
						var fld *synth.Field
						for _, f := range qe.table.Fields {
							if f.Name == qe.fields[i] {
								fld = f
							}
						}
						wantType := "?"
						if fld != nil {
							wantType = goTypeText(fld.Type)
						}
						// the statement fixes number, order and types of the arguments, not their Go names
						if params[i+1][1] != wantType {
							return h.Violf("custom query %s: argument %d (for $%s$) is `%s %s`, expected the type %s of the field %s it is compared with\n%s", qe.fn, i+1, pn, params[i+1][0], params[i+1][1], wantType, qe.fields[i], src())
						}
					}
					// the SQL literal
					gotSQL := ""
					var passed []string
					ast.Inspect(fd.Body, func(n ast.Node) bool {
						if call, ok := n.(*ast.CallExpr); ok && len(call.Args) > 0 {
							if lit, ok := call.Args[0].(*ast.BasicLit); ok && lit.Kind == token.STRING && gotSQL == "" {
								gotSQL = constant.StringVal(constant.MakeFromLiteral(lit.Value, token.STRING, 0))
								for _, a := range call.Args[1:] {
									passed = append(passed, types.ExprString(a))
								}
							}
						}
						return true
					})
					// $1..$n are bound positionally: the arguments are passed in the order of the parameters
					var declared []string
					for _, p := range params[1:] {
						declared = append(declared, p[0])
					}
					if strings.Join(passed, ",") != strings.Join(declared, ",") {
						return h.Violf("custom query %s passes the values (%s) for $1..$%d, its parameters are (%s)\n%s", qe.fn, strings.Join(passed, ", "), len(declared), strings.Join(declared, ", "), src())
					}
					if normSQL(gotSQL) != normSQL(qe.sql) {
						return h.Violf("custom query %s sends\n    %s\n  expected\n    %s\n%s", qe.fn, normSQL(gotSQL), normSQL(qe.sql), src())
					}
					r.Add("custom_queries_checked", 1)
				}
			}
		}
	}
	if nontrivial {
		r.NonTriv(specKey(c.Spec), func() any { return map[string]any{"source": clip(c.Spec.Text(), 1800)} })
	}
	return nil
}

// goTypeText prints a TypeRef the way the generated code names it from inside the root package.
func goTypeText(t *synth.TypeRef) string {
	switch t.K {
	case synth.TBasic, synth.TRef:
		return t.Name
	case synth.TStd:
		i := strings.LastIndexByte(t.Pkg, '/')
		return t.Pkg[i+1:] + "." + t.Name
	case synth.TSlice:
		return "[]" + goTypeText(t.Elem)
	}
	return t.K
}

var _ = pgx.Fold

func TestC16(t *testing.T) {
	h.Main(t, h.Prop[specCase]{
		ID: "C16",
		Rule: "rapid model files of the sql profile with comment directives (ADD UNIQUE / PRIMARY KEY / _SELECT KEY with 1..3 columns, ADD CHECK with #[Type.Const] placeholders of int and string enums, free-standing statements whose words contain or equal table-struct names, ADD FOREIGN KEY … REFERENCES <Struct>, guard values, gomacro:QUERY with repeated and distinct $name$ placeholders; single and grouped type declarations; plain comments as neighbours) -> the constraint section of sql.Generate and the custom-query functions of sqlcrud.Generate compared with a reference expander written from the statement; " +
			"non-trivial = a directive with a placeholder, a replaced table-name word, a guard or a custom query; distinct by SHA-256 of the source",
		Assumes: []string{
			"statements are compared after removing SQL block comments and collapsing white space",
			"integer enum constants are written in decimal, so 'as written' and 'by value' coincide",
			"a placeholder is only reused for fields of one type",
		},
		Gen:   c16Gen,
		Check: c16Check,
	})
}
