package props

import (
	"fmt"
	"go/constant"
	"go/token"
	"go/types"
	"sort"
	"strings"
	"testing"

	"verif/internal/h"
	"verif/internal/synth"

	"github.com/benoitkugler/gomacro/analysis"
	"pgregory.net/rapid"
)

// C10 — enum detection is exact.

type specCase struct {
	Spec *synth.Spec `json:"spec"`
}

func c10Gen(t *rapid.T, r *h.Rec) specCase {
	av, onEx, onCl := avoidOpts(r)
	o := &synth.Opts{Avoid: av, OnExclude: onEx, OnClass: onCl, SubPkgs: true, SameNamePkgs: true, SameNameAsRoot: true, Diamonds: true, ShortModule: true, Spelling: true, EnumStress: true, Unions: 0,
		FixedArrays: true, Maps: true, MaxDecls: 9, MinDecls: 2, Pointers: true}
	return specCase{Spec: synth.GenTypes(t, o)}
}

func litToConst(lit string) constant.Value {
	neg := false
	s := lit
	if strings.HasPrefix(s, "-") {
		neg, s = true, s[1:]
	}
	var v constant.Value
	switch {
	case s == "true" || s == "false":
		return constant.MakeBool(s == "true")
	case strings.HasPrefix(s, `"`):
		return constant.MakeFromLiteral(s, token.STRING, 0)
	case strings.ContainsAny(s, ".eE"):
		v = constant.MakeFromLiteral(s, token.FLOAT, 0)
	default:
		v = constant.MakeFromLiteral(s, token.INT, 0)
	}
	if neg {
		v = constant.UnaryOp(token.SUB, v, 0)
	}
	return v
}

func c10Check(c specCase, r *h.Rec) error {
	ls, err := loadSpec(c.Spec)
	if err != nil {
		return err
	}
	if ls.oc.RuntimeEr {
		// a crash is C18's subject, but it also means detection did not deliver a result for an accepted input
		return h.Violf("enum detection crashed: %s at %s\n%s", ls.oc.Msg, ls.oc.Stack, clip(c.Spec.Text(), 2500))
	}
	if ls.oc.Panicked {
		r.Refused++
		return nil
	}
	enums := c.Spec.Enums()
	nontrivial := false
	observed := 0
	var pkgPaths []string
	for p := range enums {
		pkgPaths = append(pkgPaths, p)
	}
	sort.Strings(pkgPaths)
	for _, pkgPath := range pkgPaths {
		pk := ls.ld.Pkgs[pkgPath]
		if pk == nil {
			continue
		}
		var names []string
		for n := range enums[pkgPath] {
			names = append(names, n)
		}
		sort.Strings(names)
		for _, name := range names {
			ref := enums[pkgPath][name]
			obj := pk.Types.Scope().Lookup(name)
			if obj == nil {
				return h.Inconcf("model type %s.%s not found in the type-checked package", pkgPath, name)
			}
			node, analysed := ls.an.Types[obj.Type()]
			if !analysed {
				continue // not reachable from the analysed file: nothing to observe
			}
			observed++
			where := fmt.Sprintf("%s.%s", pk.Name, name)
			en, isEnum := node.(*analysis.Enum)
			if len(ref.Members) == 0 {
				if isEnum {
					return h.Violf("%s has no typed, not opted-out constant but is reported as an enum with members %v\n%s", where, memberNames(en), clip(c.Spec.Text(), 2500))
				}
				if _, ok := node.(*analysis.Named); !ok {
					return h.Violf("%s (named basic without constants) is reported as %T\n%s", where, node, clip(c.Spec.Text(), 2500))
				}
				continue
			}
			if !isEnum {
				return h.Violf("%s declares %d typed constants but is reported as %T, not an enum\n%s", where, len(ref.Members), node, clip(c.Spec.Text(), 2500))
			}
			// members: exactly the constants, each once, exact value, trailing comment
			got := map[string]analysis.EnumMember{}
			for _, m := range en.Members {
				if _, dup := got[m.Const.Name()]; dup {
					return h.Violf("%s: member %s reported twice\n%s", where, m.Const.Name(), clip(c.Spec.Text(), 2500))
				}
				got[m.Const.Name()] = m
			}
			for _, want := range ref.Members {
				m, ok := got[want.Name]
				if !ok {
					return h.Violf("%s: constant %s is missing from the members %v\n%s", where, want.Name, memberNames(en), clip(c.Spec.Text(), 2500))
				}
				delete(got, want.Name)
				if !constant.Compare(m.Const.Val(), token.EQL, litToConst(want.Val)) {
					return h.Violf("%s: member %s has value %s, declared %s\n%s", where, want.Name, m.Const.Val().ExactString(), want.Val, clip(c.Spec.Text(), 2500))
				}
				if m.Comment != strings.TrimSpace(want.Comment) {
					return h.Violf("%s: member %s has comment %q, trailing comment is %q\n%s", where, want.Name, m.Comment, want.Comment, clip(c.Spec.Text(), 2500))
				}
			}
			for extra := range got {
				return h.Violf("%s: %s reported as member but it is not a typed, not opted-out constant of the type in its package\n%s", where, extra, clip(c.Spec.Text(), 2500))
			}
			// kind
			info := en.Underlying().Info()
			wantInt := isIntBase(ref.Base)
			if en.IsInteger() != wantInt || (info&types.IsString != 0) != (ref.Base == "string") {
				return h.Violf("%s: base %s but IsInteger=%v kind=%v", where, ref.Base, en.IsInteger(), en.Kind())
			}
			// iota flag, only-if direction
			if en.IsIota {
				if !wantInt {
					return h.Violf("%s is flagged iota-like but is backed by %s\n%s", where, ref.Base, clip(c.Spec.Text(), 2500))
				}
				next := int64(0)
				for _, m := range en.Members {
					if !m.Const.Exported() {
						continue
					}
					v, ok := constant.Int64Val(m.Const.Val())
					if !ok || v != next {
						return h.Violf("%s is flagged iota-like but its exported members in reported order have values %s (expected 0,1,2,… without gap or duplicate)\n%s",
							where, exportedVals(en), clip(c.Spec.Text(), 2500))
					}
					next++
				}
			}
			// if direction
			if ref.PlainIota && !en.IsIota {
				return h.Violf("%s is a plain iota block of non-negative exported constants but is not flagged iota-like\n%s", where, clip(c.Spec.Text(), 2500))
			}
			// non-triviality
			if len(ref.Members) >= 2 {
				seenVal := map[string]bool{}
				unexp, dup, gap := false, false, false
				maxv, minv := int64(-1<<62), int64(1<<62)
				for _, m := range ref.Members {
					if !(m.Name[0] >= 'A' && m.Name[0] <= 'Z') {
						unexp = true
					}
					if seenVal[m.Val] {
						dup = true
					}
					seenVal[m.Val] = true
					if !wantInt {
						continue
					}
					if v, ok := constant.Int64Val(litToConst(m.Val)); ok {
						if v > maxv {
							maxv = v
						}
						if v < minv {
							minv = v
						}
					}
				}
				if wantInt && maxv-minv+1 != int64(len(seenVal)) {
					gap = true
				}
				if unexp {
					r.Class("nt:unexported_member")
				}
				if dup {
					r.Class("nt:duplicate_value")
				}
				if gap {
					r.Class("nt:gap")
				}
				if !wantInt {
					r.Class("nt:non_int_base")
				}
				if pkgPath != c.Spec.Root().Path {
					r.Class("nt:second_package")
				}
				if unexp || dup || gap || !wantInt || pkgPath != c.Spec.Root().Path {
					nontrivial = true
				}
			}
		}
	}
	r.Add("enum_types_observed", observed)
	if nontrivial {
		r.NonTriv(specKey(c.Spec), func() any { return map[string]any{"source": clip(c.Spec.Text(), 1800)} })
	}
	return nil
}

func isIntBase(b string) bool {
	switch b {
	case "int", "int8", "int16", "int32", "int64", "uint", "uint8", "uint16", "uint32", "uint64":
		return true
	}
	return false
}

func memberNames(e *analysis.Enum) []string {
	var out []string
	for _, m := range e.Members {
		out = append(out, m.Const.Name())
	}
	return out
}

func exportedVals(e *analysis.Enum) string {
	var out []string
	for _, m := range e.Members {
		if m.Const.Exported() {
			out = append(out, m.Const.Name()+"="+m.Const.Val().ExactString())
		}
	}
	return strings.Join(out, ",")
}

func TestC10(t *testing.T) {
	h.Main(t, h.Prop[specCase]{
		ID: "C10",
		Rule: "rapid program Specs of the enum-stress profile (iota blocks with offsets/shifts/blanks, explicit values with negatives, gaps, duplicates, one-per-line, multi-name specs, unexported members and aliases, opt-out comments, string/bool/float bases, sub-packages, same names in two packages, untyped constants) -> Analysis.Types compared with the enum table carried by the Spec; " +
			"non-trivial = an observed enum with >= 2 members and an unexported member, a duplicate value, a gap, a non-int base or living in a second package; distinct by SHA-256 of the rendered source",
		Assumes: []string{
			"expected values are computed by the synthesiser from the iota form it wrote (not by go/types)",
			"only types reachable from the analysed file can be observed",
		},
		Gen:   c10Gen,
		Check: c10Check,
	})
}
