package props

import (
	"fmt"
	"go/ast"
	"go/parser"
	"go/token"
	"go/types"
	"reflect"
	"sort"
	"strings"
	"testing"

	"verif/internal/h"
	"verif/internal/synth"

	"github.com/benoitkugler/gomacro/analysis"
	"pgregory.net/rapid"
)

// C12 — the analysed type graph is closed, faithful and finite.

func c12Gen(t *rapid.T, r *h.Rec) specCase {
	av, onEx, onCl := avoidOpts(r)
	o := &synth.Opts{Avoid: av, OnExclude: onEx, OnClass: onCl, SubPkgs: true, SameNamePkgs: true, Diamonds: true, RecursiveUnions: true, ForeignUnions: true, ZeroArrays: true, NamedRecursion: true, StdNamedPkgs: true, ShortModule: true, Spelling: true, Unions: 1, Generics: true, NestedGenerics: true, Aliases: true,
		Recursion: true, Embedded: true, StdTypes: true, FixedArrays: true, Maps: true, Times: true, Pointers: true, RareBasics: true, TagVariety: true,
		EnumStress: false, MaxDecls: 10, MinDecls: 2}
	if rapid.IntRange(0, 39).Draw(t, "sameLineDecls") == 0 {
		// directed, verbatim source (the renderer is gofmt-clean and never writes two declarations on one line):
		// several declarations on one line, their names in a drawn order
		names := rapid.Permutation([]string{"Alpha", "Mid", "Zeta"}).Draw(t, "sameLineOrder")
		bodies := map[string]string{"Alpha": "Alpha int", "Mid": "Mid []Zeta", "Zeta": "Zeta struct{ N Alpha }"}
		src := "package model\n\ntype First struct{ A int }\n"
		for i, n := range names {
			if i > 0 {
				src += "; "
			}
			src += "type " + bodies[n]
		}
		src += "\ntype Last map[string]First\n"
		onCl("source:several_declarations_on_one_line")
		return specCase{Spec: &synth.Spec{Pkgs: []*synth.Pkg{{Name: "model", Path: synth.Module + "/model", Files: []*synth.File{{Name: "defs.go", Src: src}}}}}}
	}
	return specCase{Spec: synth.GenTypes(t, o)}
}

// declaredTypeNames: the names of the type declarations of a source text, in source order.
func declaredTypeNames(src string) []string {
	f, err := parser.ParseFile(token.NewFileSet(), "defs.go", src, 0)
	if err != nil {
		return nil
	}
	type pn struct {
		pos  token.Pos
		name string
	}
	var l []pn
	for _, d := range f.Decls {
		if gd, ok := d.(*ast.GenDecl); ok && gd.Tok == token.TYPE {
			for _, sp := range gd.Specs {
				l = append(l, pn{sp.Pos(), sp.(*ast.TypeSpec).Name.Name})
			}
		}
	}
	sort.Slice(l, func(i, j int) bool { return l[i].pos < l[j].pos })
	var out []string
	for _, x := range l {
		out = append(out, x.name)
	}
	return out
}

const timeStructString = "struct{wall uint64; ext int64; loc *time.Location}"

func isTimeLike(t types.Type) bool { return t.Underlying().String() == timeStructString }

var (
	predefTime = (&analysis.Time{}).Type()
	predefDate = (&analysis.Time{IsDate: true}).Type()
)

// identicalModTime is types.Identical where time.Time may be reported as one of the two predefined types.
func identicalModTime(got, want types.Type) bool {
	got, want = types.Unalias(got), types.Unalias(want)
	if got == want {
		return true
	}
	if got == predefTime || got == predefDate {
		n, ok := want.(*types.Named)
		return ok && n.Obj().Pkg() != nil && n.Obj().Pkg().Path() == "time" && n.Obj().Name() == "Time"
	}
	switch w := want.(type) {
	case *types.Slice:
		g, ok := got.(*types.Slice)
		return ok && identicalModTime(g.Elem(), w.Elem())
	case *types.Array:
		g, ok := got.(*types.Array)
		return ok && g.Len() == w.Len() && identicalModTime(g.Elem(), w.Elem())
	case *types.Map:
		g, ok := got.(*types.Map)
		return ok && identicalModTime(g.Key(), w.Key()) && identicalModTime(g.Elem(), w.Elem())
	case *types.Pointer:
		g, ok := got.(*types.Pointer)
		return ok && identicalModTime(g.Elem(), w.Elem())
	}
	return types.Identical(got, want)
}

// describes checks that node is a faithful description of the Go type typ.
func describes(node analysis.Type, typ types.Type, an *analysis.Analysis) error {
	typ = types.Unalias(typ)
	if node == nil {
		return fmt.Errorf("nil node for %s", typ)
	}
	if !identicalModTime(node.Type(), typ) {
		return fmt.Errorf("node %T converts back to %s, built from %s", node, node.Type(), typ)
	}
	if isTimeLike(typ) {
		switch n := node.(type) {
		case *analysis.Time:
		case *analysis.Named:
			if _, ok := n.Underlying.(*analysis.Time); !ok {
				return fmt.Errorf("time-like %s has underlying node %T", typ, n.Underlying)
			}
		default:
			return fmt.Errorf("time-like %s reported as %T", typ, node)
		}
		return nil
	}
	switch u := typ.Underlying().(type) {
	case *types.Basic:
		switch n := node.(type) {
		case *analysis.Basic:
			if n.B.Kind() != u.Kind() {
				return fmt.Errorf("basic kind %v reported for %s", n.B.Kind(), typ)
			}
			if _, named := typ.(*types.Named); named {
				return fmt.Errorf("named type %s reported as a bare *Basic", typ)
			}
		case *analysis.Named:
			b, ok := n.Underlying.(*analysis.Basic)
			if !ok || b.B.Kind() != u.Kind() {
				return fmt.Errorf("named basic %s has underlying node %T", typ, n.Underlying)
			}
		case *analysis.Enum:
			if n.Underlying().Kind() != u.Kind() {
				return fmt.Errorf("enum %s reports base kind %v", typ, n.Underlying().Kind())
			}
		default:
			return fmt.Errorf("basic-backed %s reported as %T", typ, node)
		}
	case *types.Slice, *types.Array:
		var arr *analysis.Array
		switch n := node.(type) {
		case *analysis.Array:
			arr = n
		case *analysis.Named:
			a, ok := n.Underlying.(*analysis.Array)
			if !ok {
				return fmt.Errorf("%s reported with underlying %T", typ, n.Underlying)
			}
			arr = a
		default:
			return fmt.Errorf("%s reported as %T", typ, node)
		}
		wantLen, elem := -1, types.Type(nil)
		if a, ok := u.(*types.Array); ok {
			wantLen, elem = int(a.Len()), a.Elem()
		} else {
			elem = u.(*types.Slice).Elem()
		}
		if arr.Len != wantLen {
			return fmt.Errorf("%s reported with length %d, want %d", typ, arr.Len, wantLen)
		}
		if arr.Elem == nil || !identicalModTime(arr.Elem.Type(), elem) {
			return fmt.Errorf("%s: element link describes %v, want %s", typ, nodeType(arr.Elem), elem)
		}
	case *types.Map:
		var mp *analysis.Map
		switch n := node.(type) {
		case *analysis.Map:
			mp = n
		case *analysis.Named:
			m, ok := n.Underlying.(*analysis.Map)
			if !ok {
				return fmt.Errorf("%s reported with underlying %T", typ, n.Underlying)
			}
			mp = m
		default:
			return fmt.Errorf("%s reported as %T", typ, node)
		}
		if mp.Key == nil || !identicalModTime(mp.Key.Type(), u.Key()) {
			return fmt.Errorf("%s: key link describes %v, want %s", typ, nodeType(mp.Key), u.Key())
		}
		if mp.Elem == nil || !identicalModTime(mp.Elem.Type(), u.Elem()) {
			return fmt.Errorf("%s: element link describes %v, want %s", typ, nodeType(mp.Elem), u.Elem())
		}
	case *types.Pointer:
		p, ok := node.(*analysis.Pointer)
		if !ok {
			return fmt.Errorf("%s reported as %T", typ, node)
		}
		if p.Elem == nil || !identicalModTime(p.Elem.Type(), u.Elem()) {
			return fmt.Errorf("%s: pointer link describes %v, want %s", typ, nodeType(p.Elem), u.Elem())
		}
	case *types.Struct:
		st, ok := node.(*analysis.Struct)
		if !ok {
			return fmt.Errorf("struct %s reported as %T", typ, node)
		}
		// fields: embedded structs are flattened, everything else one entry per Go field, in order
		var want []*types.Var
		var flat func(s *types.Struct)
		flat = func(s *types.Struct) {
			for i := 0; i < s.NumFields(); i++ {
				f := s.Field(i)
				jsonName, _, _ := strings.Cut(reflect.StructTag(s.Tag(i)).Get("json"), ",")
				if es, isStruct := f.Type().Underlying().(*types.Struct); f.Embedded() && isStruct && !isTimeLike(f.Type()) && jsonName == "" {
					flat(es) // (an embedded struct with a JSON name is a regular field, as for encoding/json)
					continue
				}
				want = append(want, f)
			}
		}
		flat(u)
		if len(st.Fields) != len(want) {
			return fmt.Errorf("struct %s reports %d fields, Go has %d (embedded structs flattened)", typ, len(st.Fields), len(want))
		}
		for i, f := range st.Fields {
			if f.Field != want[i] {
				return fmt.Errorf("struct %s: field %d is %s, want %s", typ, i, f.Field.Name(), want[i].Name())
			}
			if f.Type == nil || !identicalModTime(f.Type.Type(), want[i].Type()) {
				return fmt.Errorf("struct %s: field %s links to a node describing %v, want %s", typ, f.Field.Name(), nodeType(f.Type), want[i].Type())
			}
		}
	case *types.Interface:
		if _, ok := node.(*analysis.Union); !ok {
			return fmt.Errorf("interface %s reported as %T", typ, node)
		}
	}
	return nil
}

func nodeType(n analysis.Type) any {
	if n == nil {
		return "<nil>"
	}
	return n.Type()
}

func c12Check(c specCase, r *h.Rec) error {
	ls, err := loadSpec(c.Spec)
	if err != nil {
		return err
	}
	src := func() string { return clip(c.Spec.Text(), 3000) }
	if ls.oc.RuntimeEr {
		return h.Violf("analysis crashed: %s at %s\n%s", ls.oc.Msg, ls.oc.Stack, src())
	}
	if ls.oc.Panicked {
		// the generator of this property only writes supported programs (every interface has members, no
		// pointer / channel / function / anonymous struct): a refusal means that reachable types are missing
		return h.Violf("analysis refuses (%s) a program made of supported declarations only: no type graph at all\n%s", clip(ls.oc.Msg, 200), src())
	}
	an := ls.an
	unions := c.Spec.Unions()

	// --- source order --------------------------------------------------------
	var wantOrder []string
	for _, d := range c.Spec.AnalysedFile().Decls {
		wantOrder = append(wantOrder, d.Name)
	}
	var gotOrder []string
	for _, s := range an.Source {
		switch s := s.(type) {
		case *types.Named:
			gotOrder = append(gotOrder, s.Obj().Name())
		case *types.Alias:
			gotOrder = append(gotOrder, s.Obj().Name())
		default:
			gotOrder = append(gotOrder, s.String())
		}
	}
	if raw := c.Spec.AnalysedFile().Src; raw != "" {
		wantOrder = declaredTypeNames(raw) // verbatim source: the order go/parser reports
	}
	if (c.Spec.AnalysedFile().Src == "" || wantOrder != nil) && strings.Join(gotOrder, ",") != strings.Join(wantOrder, ",") {
		return h.Violf("Source reports declarations %v, the file declares %v in this order\n%s", gotOrder, wantOrder, src())
	}

	// every source declaration (alias declarations included, under the alias type itself) has its node: the
	// generators start from Types[s] for s in Source
	for _, s := range an.Source {
		if an.Types[s] == nil {
			return h.Violf("the source declaration %s has no node in Analysis.Types\n%s", s, src())
		}
	}

	// --- closure: independent walk over go/types ------------------------------
	reach := map[types.Type]bool{}
	var order []types.Type
	var walk func(t types.Type)
	walk = func(t types.Type) {
		if t == nil {
			return
		}
		if a, ok := t.(*types.Alias); ok {
			t = types.Unalias(a)
		}
		if reach[t] {
			return
		}
		reach[t] = true
		order = append(order, t)
		if isTimeLike(t) {
			return
		}
		if n, ok := t.(*types.Named); ok {
			if _, isItf := n.Underlying().(*types.Interface); isItf {
				if n.Obj().Pkg() == nil {
					return
				}
				ref := unions[n.Obj().Pkg().Path()][n.Obj().Name()]
				if ref != nil {
					for _, m := range ref.Members {
						if o := n.Obj().Pkg().Scope().Lookup(m); o != nil {
							walk(o.Type())
						}
					}
				}
				return
			}
			if _, isBasic := n.Underlying().(*types.Basic); isBasic {
				// enums are leaves; plain named basics have an underlying *Basic node which is
				// stored under the basic type
				return
			}
			if _, isStruct := n.Underlying().(*types.Struct); !isStruct {
				walk(n.Underlying())
				return
			}
		}
		switch u := t.Underlying().(type) {
		case *types.Struct:
			for i := 0; i < u.NumFields(); i++ {
				walk(u.Field(i).Type())
			}
		case *types.Slice:
			walk(u.Elem())
		case *types.Array:
			walk(u.Elem())
		case *types.Map:
			walk(u.Key())
			walk(u.Elem())
		case *types.Pointer:
			walk(u.Elem())
		}
	}
	for _, s := range an.Source {
		walk(s)
	}
	for _, t := range order {
		if isTimeLike(t) {
			if n, ok := t.(*types.Named); ok && n.Obj().Pkg().Path() == "time" {
				continue // time.Time itself is predefined
			}
		}
		node, ok := an.Types[t]
		if !ok {
			return h.Violf("type %s is reachable from the file's declarations but missing from Analysis.Types\n%s", t, src())
		}
		if err := describes(node, t, an); err != nil {
			return h.Violf("unfaithful node: %v\n%s", err, src())
		}
	}
	// --- every entry of the result and every node reached by following links ---
	for k, node := range an.Types {
		if err := describes(node, k, an); err != nil {
			return h.Violf("unfaithful entry in Analysis.Types: %v\n%s", err, src())
		}
	}
	var verr error
	count := 0
	walkNodes(an, func(n analysis.Type) {
		count++
		if verr != nil {
			return
		}
		// a node reached through links must describe the Go type it converts back to
		if err := describes(n, n.Type(), an); err != nil {
			if _, isTime := n.(*analysis.Time); !isTime {
				verr = h.Violf("node reached by following links is inconsistent: %v\n%s", err, src())
			}
		}
		if u, ok := n.(*analysis.Union); ok {
			for _, m := range u.Members {
				if _, named := m.Type().(*types.Named); !named {
					verr = h.Violf("union %s has an unnamed member %s", u.Type(), m.Type())
				}
			}
		}
	})
	if verr != nil {
		return verr
	}
	r.Add("nodes_walked", count)

	// non-trivial: cycle, alias or generic instantiation
	txt := c.Spec.Text()
	nt := strings.Contains(txt, "Children") || strings.Contains(txt, " = ") || strings.Contains(txt, "[T ~")
	if nt {
		r.NonTriv(specKey(c.Spec), func() any { return map[string]any{"source": clip(txt, 1800), "types": len(an.Types)} })
	}
	return nil
}

func TestC12(t *testing.T) {
	h.Main(t, h.Prop[specCase]{
		ID: "C12",
		Rule: "rapid program Specs of the types profile with self/mutual recursion through slices, maps and pointers, aliases, generic instantiations, named over named, sub-package and std types -> an independent walk over go/types (union members from the Spec) checks closure of Analysis.Types, kind/length/key/element/basic kind of every node, identity of Type() modulo the predefined time types, consistency of every link, termination, and source order; " +
			"non-trivial = the program has a cycle, an alias or a generic instantiation; distinct by SHA-256 of the rendered source",
		Assumes: []string{
			"time.Time (and named types over it) may be reported as the predefined Time/Date types",
			"embedded struct fields are flattened (as the analysis documents); embedded non-structs are kept as fields",
			"a fatal stack overflow of the worker is a verdict through the write-ahead case",
		},
		Gen:        c12Gen,
		Check:      c12Check,
		WriteAhead: true,
	})
}
