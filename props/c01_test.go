package props

import (
	"os"
	"path/filepath"
	"strings"
	"testing"

	"verif/internal/fastload"
	"verif/internal/h"
	"verif/internal/synth"

	gen "github.com/benoitkugler/gomacro/generator"
	"github.com/benoitkugler/gomacro/generator/go/gounions"
	"github.com/benoitkugler/gomacro/generator/go/randdata"
	"github.com/benoitkugler/gomacro/generator/go/sqlcrud"
	"golang.org/x/tools/imports"
	"pgregory.net/rapid"
)

// C01 — generated Go boilerplate always compiles with its source package.
//
// "the Go code it emits for union JSON wrappers, SQL CRUD access and random
// data - after the import-fixing pass the tool itself applies to Go output -
// type-checks when placed in the analysed package next to the declarations it
// was generated from."

type c01Case struct {
	Spec *synth.Spec `json:"spec"`
	Gen  string      `json:"gen"` // gounions | randdata | sqlcrud
	Sets bool        `json:"sets,omitempty"`
}

func c01Gen(t *rapid.T, r *h.Rec) c01Case {
	av, onEx, onCl := avoidOpts(r)
	kind := []string{"gounions", "randdata", "sqlcrud"}[rapid.IntRange(0, 2).Draw(t, "generator")]
	c := c01Case{Gen: kind}
	switch kind {
	case "sqlcrud":
		c.Sets = rapid.Bool().Draw(t, "sets")
		c.Spec = synth.GenSQL(t, &synth.SQLOpts{Avoid: av, OnExclude: onEx, OnClass: onCl, ForeignIDs: true, SelfFK: true, ForeignFileTables: true})
	default:
		o := &synth.Opts{Avoid: av, OnExclude: onEx, OnClass: onCl,
			Pointers: true, Unions: 1, RareBasics: true, Recursion: true, SubPkgs: true, Generics: true, Aliases: true,
			Embedded: true, StdTypes: true, Spelling: true, TagVariety: true, EnumStress: true, FixedArrays: true, Maps: true, Times: true, MaxDecls: 12, EmbedUnionIface: true, EmbedPtrNextToUnion: true}
		if kind == "gounions" {
			o.Unions = 2
		}
		c.Spec = synth.GenTypes(t, o)
	}
	return c
}

// goOutput runs one Go generator + WriteDeclarations under recover.
func goOutput(c c01Case, ld anyLoaded) (text string, oc outcome) {
	oc = guard(func() {
		switch c.Gen {
		case "gounions":
			text = gen.WriteDeclarations(gounions.Generate(ld.an))
		case "randdata":
			text = gen.WriteDeclarations(randdata.Generate(ld.an))
		case "sqlcrud":
			text = gen.WriteDeclarations(sqlcrud.Generate(ld.an, c.Sets))
		}
	})
	return text, oc
}

// fixImports applies the pass behind `goimports -w` (x/tools/imports.Process)
// with the file placed in the package directory next to its sibling files.
func fixImports(spec *synth.Spec, ld *loadedSpec, name, text string) (string, error) {
	// the whole synthesised module is written out, so that the import fixer resolves
	// sub-packages exactly as `goimports -w` does inside the user's module
	root := filepath.Join(scratch(), "c01mod")
	os.RemoveAll(root)
	if _, err := fastload.WriteModule(spec, root); err != nil {
		return "", h.Inconcf("scratch: %v", err)
	}
	dir := filepath.Join(root, spec.Root().Dir())
	out, err := imports.Process(filepath.Join(dir, name), []byte(text), nil)
	return string(out), err
}

func c01Check(c c01Case, r *h.Rec) error {
	ls, err := loadSpec(c.Spec)
	if err != nil {
		return err
	}
	if ls.oc.Panicked {
		// refused by the analysis (a diagnostic) or crashed (C18's subject): not an accepted input
		r.Refused++
		return nil
	}
	text, oc := goOutput(c, anyLoaded{an: ls.an})
	if oc.Panicked {
		r.Refused++
		return nil
	}
	fixed, err := fixImports(c.Spec, ls, "zz_gen_out.go", text)
	if err != nil {
		if _, ok := err.(*h.Inconclusive); ok {
			return err
		}
		return h.Violf("%s output has a syntax error (goimports pass fails): %v\n--- output ---\n%s", c.Gen, err, clip(text, 3000))
	}
	errs := ls.ld.CheckWith(c.Spec, map[string]string{"zz_gen_out.go": fixed})
	if len(errs) > 0 {
		return h.Violf("%s output does not type-check next to its source: %s\n--- source ---\n%s", c.Gen, strings.Join(errs, "; "), clip(c.Spec.Text(), 3000))
	}
	// non-trivial: output contains at least one generated declaration beyond the header and the program has >= 3 declared types
	nDecls := 0
	for _, f := range c.Spec.Root().Files {
		nDecls += len(f.Decls)
	}
	if strings.Count(text, "\nfunc ")+strings.Count(text, "\n\tfunc ")+strings.Count(text, "\n\t\tfunc ") >= 1 && nDecls >= 3 {
		sets := ""
		if c.Sets {
			sets = "sets"
		}
		r.NonTriv(specKey(c.Spec, c.Gen, sets), func() any {
			return map[string]any{"generator": c.Gen, "sets": c.Sets, "source": clip(c.Spec.Text(), 1500), "output_head": clip(fixed, 600)}
		})
	}
	r.Class("gen:" + c.Gen)
	// differential fidelity check of the in-process loader against analysis.LoadSource (1 case in 60, and on confirmation)
	sum := specKey(c.Spec)
	if r.Confirm || sum[0]%60 == 0 {
		if err := fidelity(c.Spec); err != nil {
			return err
		}
		r.Add("fastload_fidelity_checked", 1)
	}
	return nil
}

func TestC01(t *testing.T) {
	h.Main(t, h.Prop[c01Case]{
		ID: "C01",
		Rule: "rapid program Specs (types profile for gounions/randdata, sql profile for sqlcrud x generate-sets) -> real analysis + generator + x/tools/imports.Process (the goimports pass) -> go/types check of source package + output; " +
			"non-trivial = output has at least one generated func and the program declares >= 3 types; distinct by SHA-256 of (rendered source, generator, sets flag)",
		Assumes: []string{
			"'compiles' = x/tools/imports.Process succeeds and go/types reports no error for {package sources} + {fixed output}",
			"packages are loaded by the in-process loader (internal/fastload), cross-checked against analysis.LoadSource by the fidelity test",
			"inputs refused with a diagnostic (or crashing, C18) are not accepted inputs and are only counted",
			"github.com/lib/pq is a signature-level stand-in (module not available offline)",
		},
		Gen:   c01Gen,
		Check: c01Check,
	})
}
