package props

import (
	"fmt"
	"strings"
	"testing"

	"verif/internal/h"
	"verif/internal/synth"

	gen "github.com/benoitkugler/gomacro/generator"
	"github.com/benoitkugler/gomacro/generator/go/randdata"
	"pgregory.net/rapid"
)

// C15 — generated random-data functions terminate and return well-formed values.

func c15Gen(t *rapid.T, r *h.Rec) execCase {
	av, onEx, onCl := avoidOpts(r)
	o := jsonOpts(av, onEx, onCl)
	o.Unions = 1
	o.Pointers = true
	o.EnumStress = true
	o.TagVariety = false
	o.DataIgnore = true
	o.DataIgnoreUnions = true
	o.LongArrays = true
	o.SmallKeyMaps = true
	o.JSONDash = true
	// unbounded run-time recursion on self-referential types is a known finding (R29): gated
	if _, open := av["recursive_value_type"]; open {
		if o.Recursion {
			onEx(av["recursive_value_type"])
		}
		o.Recursion = false
	}
	spec := synth.GenTypes(t, o)
	if id, open := av["recursive_value_type"]; open {
		// recursion also arises through union membership by promoted methods: repair and count
		for n := spec.BreakValueCycles(); n > 0; n-- {
			onEx(id)
		}
	}
	return execCase{Spec: spec, Seed: int64(rapid.IntRange(1, 1<<30).Draw(t, "childSeed")), Checks: childChecks(25, 80)}
}

func c15Check(c execCase, r *h.Rec) error {
	src := func() string { return clip(c.Spec.Text(), 3000) }
	ls, err := loadSpec(c.Spec)
	if err != nil {
		return err
	}
	if ls.oc.Panicked {
		r.Refused++
		return nil
	}
	var randText string
	oc := guard(func() { randText = gen.WriteDeclarations(randdata.Generate(ls.an)) })
	if oc.Panicked {
		r.Refused++
		r.Class("refused:randdata")
		return nil
	}
	fixed, err := fixImports(c.Spec, ls, "zz_rand_gen.go", randText)
	if err != nil {
		r.Class("skipped:randdata_output_does_not_parse(C01)")
		return nil
	}
	_, res, _, err := childDocs(c, r, "rand", map[string]string{"zz_rand_gen.go": fixed}, randText)
	if err != nil || res == nil {
		return err
	}
	done := false
	key := specKey(c.Spec)
	for _, rec := range res.Records {
		if rec["done"] != nil {
			done = true
		}
		name := recStr(rec, "rand")
		if name == "" {
			continue
		}
		if msg := recStr(rec, "panic"); msg != "" {
			return h.Violf("rand%s() panicked: %s\n%s", name, msg, src())
		}
		if msg := recStr(rec, "bad"); msg != "" {
			return h.Violf("rand%s() returned an ill-formed value: %s\n  value: %s %s\n%s", name, msg, clip(recStr(rec, "go"), 400), clip(recStr(rec, "doc"), 300), src())
		}
		calls, distinct := recInt(rec, "calls"), recInt(rec, "distinct")
		if multi, _ := rec["multi"].(bool); multi && distinct < 2 {
			return h.Violf("rand%s() returned the same value on %d calls although its type %s admits more than one: %s\n%s", name, calls, recStr(rec, "type"), clip(recStr(rec, "sample"), 300), src())
		}
		r.Add("rand_functions_called", 1)
		typ := recStr(rec, "type")
		if strings.ContainsAny(typ, "[") || strings.Contains(randText, "func rand"+name+"() "+typ+" {\n\t\tchoix") || true {
			r.NonTriv(append(append([]byte{}, key...), name...), func() any {
				return map[string]any{"function": "rand" + name, "type": typ, "sample": clip(recStr(rec, "sample"), 300), "distinct_over_40_calls": distinct}
			})
		}
	}
	if !done {
		// the worker died: unbounded recursion ends in a fatal stack overflow
		return h.Violf("the program calling the generated random functions died (exit %d) before finishing:\n%s\n%s", res.ExitCode, clip(res.Output, 1200), src())
	}
	r.Class("programs_executed")
	return nil
}

var _ = fmt.Sprint

func TestC15(t *testing.T) {
	h.Main(t, h.Prop[execCase]{
		ID: "C15",
		Rule: "rapid program Specs (types profile incl. pointers, types from other packages, gomacro-data:\"ignore\" fields) are compiled with the real randdata and gounions outputs; every generated rand<T>() is called 40 times under a reduced maximal stack; each result is walked by reflection against the Spec's enum/union tables (enum components among the exported constants, union components non-nil members, containers populated, skipped and unexported fields zero), at least two distinct results are required whenever the type admits more than one value, and the first results go through the JSON round trip of C02; " +
			"non-trivial = every (program, function) pair executed; distinct by (program hash, function)",
		Assumes: []string{
			"a type 'admits more than one value' when it contains a basic, time, slice component or an enum/union with >= 2 alternatives (decided by reflection in the harness)",
			"a dead child (fatal stack overflow) is a verdict; a build failure is C01's subject and only counted",
		},
		Gen:   c15Gen,
		Check: c15Check,
	})
}
