package props

import (
	"fmt"
	"strings"
	"testing"

	"verif/internal/h"
	"verif/internal/synth"

	"github.com/benoitkugler/gomacro/analysis"
	"github.com/benoitkugler/gomacro/analysis/httpapi"
	"pgregory.net/rapid"
)

// C13 — every registered HTTP route is extracted with its contract.

type routeCase struct {
	Routes *synth.RouteSpec `json:"routes"`
}

func c13Gen(t *rapid.T, r *h.Rec) routeCase {
	av, onEx, onCl := avoidOpts(r)
	return routeCase{Routes: synth.GenRoutes(t, &synth.RouteOpts{Avoid: av, OnExclude: onEx, OnClass: onCl})}
}

func typeStr(t analysis.Type) string {
	if t == nil {
		return ""
	}
	return normType(t.Type().String())
}

func normType(s string) string { return strings.ReplaceAll(s, "[]byte", "[]uint8") }

// compareEndpoints checks the extracted list against the expected one, field by field.
func compareEndpoints(got []httpapi.Endpoint, want []synth.ExpEndpoint) error {
	if len(got) != len(want) {
		var urls []string
		for _, g := range got {
			urls = append(urls, g.Method+" "+g.Url)
		}
		return fmt.Errorf("%d endpoints extracted (%v), %d routes are registered (with the prefix filter applied)", len(got), urls, len(want))
	}
	names := map[string]bool{}
	for i, w := range want {
		g := got[i]
		where := fmt.Sprintf("endpoint %d (%s %s)", i, w.Verb, w.URL)
		if g.Method != w.Verb {
			return fmt.Errorf("%s: verb %s extracted", where, g.Method)
		}
		if g.Url != w.URL {
			return fmt.Errorf("%s: URL %q extracted (constant folding of the path expression)", where, g.Url)
		}
		ct := g.Contract
		if w.Literal {
			if ct.Name == "" || names[ct.Name] {
				return fmt.Errorf("%s: function-literal handler needs a non-empty unique name, got %q", where, ct.Name)
			}
		} else if ct.Name != w.Handler {
			return fmt.Errorf("%s: handler %q extracted, registered handler is %q", where, ct.Name, w.Handler)
		}
		names[ct.Name] = true
		if typeStr(ct.InputBody) != normType(w.Input) {
			return fmt.Errorf("%s: bound input type %q, expected %q", where, typeStr(ct.InputBody), w.Input)
		}
		if ct.IsReturnBlob != w.Blob {
			return fmt.Errorf("%s: blob flag %v, expected %v", where, ct.IsReturnBlob, w.Blob)
		}
		if typeStr(ct.Return) != normType(w.Return) {
			return fmt.Errorf("%s: return type %q, expected %q", where, typeStr(ct.Return), w.Return)
		}
		if len(ct.InputQueryParams) != len(w.Query) {
			return fmt.Errorf("%s: %d query parameters extracted, the handler reads %d (%v)", where, len(ct.InputQueryParams), len(w.Query), w.Query)
		}
		for j, q := range w.Query {
			gq := ct.InputQueryParams[j]
			if gq.Name != q.Name || typeStr(gq.Type) != q.Type {
				return fmt.Errorf("%s: query parameter %d is (%q, %s), expected (%q, %s)", where, j, gq.Name, typeStr(gq.Type), q.Name, q.Type)
			}
		}
		if strings.Join(ct.InputForm.ValueNames, "\x00") != strings.Join(w.FormValues, "\x00") {
			return fmt.Errorf("%s: form values %q, expected %q", where, ct.InputForm.ValueNames, w.FormValues)
		}
		if ct.InputForm.File != w.FormFile {
			return fmt.Errorf("%s: form file %q, expected %q", where, ct.InputForm.File, w.FormFile)
		}
		if ct.InputForm.JSON.Name != w.FormJSON.Name {
			return fmt.Errorf("%s: JSON form field %q, expected %q", where, ct.InputForm.JSON.Name, w.FormJSON.Name)
		}
		if w.FormJSON.Name != "" && typeStr(ct.InputForm.JSON.Type) != w.FormJSON.Type {
			return fmt.Errorf("%s: JSON form field %q has resolved type %q, expected %q", where, w.FormJSON.Name, typeStr(ct.InputForm.JSON.Type), w.FormJSON.Type)
		}
	}
	return nil
}

func c13Check(c routeCase, r *h.Rec) error {
	rs := c.Routes
	src := func() string { return clip(rs.Text(), 4000) }
	ld, file, err := loadRoutes(rs)
	if err != nil {
		return err
	}
	for _, prefix := range []string{"", rs.Prefix} {
		var got []httpapi.Endpoint
		oc := guard(func() { got = httpapi.ParseEcho(ld.Root, file, prefix) })
		if oc.Panicked {
			kind := "refused"
			if oc.RuntimeEr {
				kind = "crashed on"
			}
			return h.Violf("the extractor %s a route file written in the supported idiom (prefix %q): %s %s\n%s", kind, prefix, oc.Msg, oc.Stack, src())
		}
		if err := compareEndpoints(got, rs.Expected(prefix)); err != nil {
			return h.Violf("prefix filter %q: %v\n%s", prefix, err, src())
		}
		if prefix == rs.Prefix {
			break
		}
	}
	kinds := map[string]bool{}
	multi := false
	for _, hd := range rs.Handlers {
		kinds[hd.Kind] = true
		n := 0
		for _, st := range hd.Stmts {
			n++
			if st.Form == "pair" {
				n++
			}
		}
		if hd.Return != "nil" && hd.Return != "err" {
			n++
		}
		if n >= 2 {
			multi = true
		}
	}
	for k := range kinds {
		r.Class("handler:" + k)
	}
	if len(kinds) >= 2 && multi {
		r.NonTriv([]byte(rs.Text()+"\x00"+rs.Prefix), func() any {
			return map[string]any{"routes": len(rs.Routes), "prefix": rs.Prefix, "source": clip(rs.Text(), 1800)}
		})
	}
	return nil
}

func TestC13(t *testing.T) {
	h.Main(t, h.Prop[routeCase]{
		ID: "C13",
		Rule: "rapid route files (1..12 registrations of GET/POST/PUT/DELETE; paths folded from literals, a local const, a package const, an imported const and their concatenations; handlers as method values on value/pointer controllers, package functions, methods and functions of an imported package, function literals; bodies with random subsets/orders of Bind(&v|p), QueryParam (single, paired, via constants), typed helpers as methods and functions (bool/int64, generic int), FormValue, FormFile, FormValueJSON in :=, =, _ = and if-init forms; returns JSON / JSONPretty of identifiers and composite literals, Blob, nil, err; decoys) x prefix filters drawn from the URL set and non-matching -> httpapi.ParseEcho compared field by field with the route table of the Spec; " +
			"non-trivial = >= 2 handler forms and a contract with >= 2 inputs/outputs; distinct by (source, prefix)",
		Assumes: []string{"only the documented idiom (assignments and a final return) is generated", "types are compared through their go/types string"},
		Gen:     c13Gen,
		Check:   c13Check,
	})
}
