package props

import (
	"bytes"
	"crypto/sha256"
	"encoding/json"
	"fmt"
	"strings"
	"testing"

	"verif/internal/h"
	"verif/internal/synth"
	"verif/internal/tsx"

	"github.com/benoitkugler/gomacro/analysis"
	gen "github.com/benoitkugler/gomacro/generator"
	"github.com/benoitkugler/gomacro/generator/typescript"
	"pgregory.net/rapid"
)

// C03 — every JSON document Go emits inhabits the generated TypeScript type;
// the TypeScript output is self-contained and well-formed.

func c03Gen(t *rapid.T, r *h.Rec) execCase {
	av, onEx, onCl := avoidOpts(r)
	o := jsonOpts(av, onEx, onCl)
	o.Unions = 1
	o.EnumStress = true
	o.EmbedNamed = true
	o.SameNamePromoted = true
	return execCase{Spec: synth.GenTypes(t, o), Seed: int64(rapid.IntRange(1, 1<<30).Draw(t, "childSeed")), Checks: childChecks(25, 80)}
}

// tsStatic parses the TypeScript output and checks well-formedness / self-containedness.
func tsStatic(text string, src func() string) (*tsx.File, *tsx.Env, error) {
	f, err := tsx.Parse(text)
	if err != nil {
		switch e := err.(type) {
		case *tsx.SyntaxError:
			return nil, nil, h.Violf("the TypeScript output is not syntactically valid: line %d: %s\n--- output (around) ---\n%s\n%s", e.Line, e.Msg, aroundLine(text, e.Line), src())
		default:
			return nil, nil, h.Inconcf("TypeScript output outside the modelled subset: %v\n%s", err, aroundLine(text, 0))
		}
	}
	env := tsx.NewEnv(f)
	for _, name := range env.TypeNames() {
		if n := env.TypeDeclCount(name); n > 1 {
			return nil, nil, h.Violf("TypeScript type %s is declared %d times\n--- output ---\n%s\n%s", name, n, grepLines(text, name), src())
		}
	}
	for _, name := range env.ValueNames() {
		if n := env.ValueDeclCount(name); n > 1 {
			return nil, nil, h.Violf("TypeScript constant %s is declared %d times\n%s", name, n, src())
		}
	}
	imported := map[string]bool{}
	for _, n := range f.ImportedNames() {
		imported[n] = true
	}
	for _, name := range f.ReferencedTypeNames() {
		if imported[name] {
			continue
		}
		if env.TypeDeclCount(name) == 0 {
			return nil, nil, h.Violf("the TypeScript output mentions type %s but never declares it\n--- output ---\n%s\n%s", name, grepLines(text, name), src())
		}
	}
	for _, name := range f.ReferencedValueNames() {
		if imported[name] {
			continue
		}
		if env.ValueDeclCount(name) == 0 {
			return nil, nil, h.Violf("the TypeScript output mentions value %s but never declares it\n%s", name, src())
		}
	}
	return f, env, nil
}

func aroundLine(text string, line int) string {
	lines := strings.Split(text, "\n")
	lo, hi := line-4, line+3
	if line == 0 {
		lo, hi = 0, 30
	}
	if lo < 0 {
		lo = 0
	}
	if hi > len(lines) {
		hi = len(lines)
	}
	return strings.Join(lines[lo:hi], "\n")
}

func grepLines(text, word string) string {
	var out []string
	for _, l := range strings.Split(text, "\n") {
		if strings.Contains(l, word) && len(out) < 8 {
			out = append(out, strings.TrimSpace(l))
		}
	}
	return strings.Join(out, "\n")
}

func decodeDoc(raw string) (any, error) {
	dec := json.NewDecoder(bytes.NewReader([]byte(raw)))
	dec.UseNumber()
	var v any
	err := dec.Decode(&v)
	return v, err
}

func tsOutput(an *analysis.Analysis) (string, outcome) {
	var text string
	oc := guard(func() { text = gen.WriteDeclarations(typescript.Generate(an)) })
	return text, oc
}

func c03Check(c execCase, r *h.Rec) error {
	src := func() string { return clip(c.Spec.Text(), 3000) }
	ls, err := loadSpec(c.Spec)
	if err != nil {
		return err
	}
	if ls.oc.Panicked {
		r.Refused++
		return nil
	}
	text, oc := tsOutput(ls.an)
	if oc.RuntimeEr {
		r.Class("skipped:typescript_generator_crash(C18)")
		return nil
	}
	if oc.Panicked {
		r.Refused++
		r.Class("refused:typescript")
		return nil
	}
	_, env, err := tsStatic(text, src)
	if err != nil {
		return err
	}
	r.Class("static_ok")
	_, res, _, err := childDocs(c, r, "docs", nil, "")
	if err != nil || res == nil {
		return err
	}
	key := specKey(c.Spec)
	var lastViol error
	for _, rec := range res.Records {
		doc := recRaw(rec, "doc") // ("full" records may hold non-member enum values: key-set ground truth only)
		if doc == "" {
			continue
		}
		tname := recStr(rec, "type")
		v, err := decodeDoc(doc)
		if err != nil {
			return h.Inconcf("cannot decode child document: %v", err)
		}
		if env.TypeDeclCount(tname) == 0 {
			// named types whose TS name equals their target (e.g. type Time time.Time) have no declaration of their own
			continue
		}
		r.Add("documents", 1)
		err = env.Inhabits(v, &tsx.Ref{Name: tname})
		switch e := err.(type) {
		case nil:
		case *tsx.Mismatch:
			lastViol = h.Violf("a JSON document Go emits for %s does not inhabit the generated TypeScript type: %s: %s\n  document: %s\n--- TypeScript ---\n%s\n%s",
				tname, e.Path, e.Msg, clip(doc, 600), grepContext(text, tname), src())
		case *tsx.Unresolved:
			lastViol = h.Violf("checking a document of %s needs %s %s which the TypeScript output does not declare\n%s", tname, e.Namespace, e.Name, src())
		default:
			return h.Inconcf("inhabitant check outside the modelled subset for %s: %v\n%s", tname, err, grepContext(text, tname))
		}
		if nontrivDoc(v) {
			sum := sha256.Sum256([]byte(tname + "\x00" + doc))
			r.NonTriv(append(append([]byte{}, key...), sum[:]...), func() any {
				return map[string]any{"type": tname, "doc": clip(doc, 300), "typescript": clip(grepContext(text, tname), 500)}
			})
		}
	}
	if lastViol != nil {
		return lastViol
	}
	r.Class("programs_executed")
	return nil
}

// nontrivDoc: an object with >= 2 keys, or a union (Kind/Data), or a null container, or an array (tuple / slice)
func nontrivDoc(v any) bool {
	switch x := v.(type) {
	case map[string]any:
		if len(x) >= 2 {
			return true
		}
		for _, e := range x {
			if e == nil || nontrivDoc(e) {
				return true
			}
		}
	case []any:
		return true
	}
	return false
}

func grepContext(text, name string) string {
	lines := strings.Split(text, "\n")
	for i, l := range lines {
		if strings.Contains(l, " "+name+" ") && (strings.Contains(l, "export interface") || strings.Contains(l, "export type")) {
			hi := i + 14
			if hi > len(lines) {
				hi = len(lines)
			}
			return strings.Join(lines[i:hi], "\n")
		}
	}
	return ""
}

var _ = fmt.Sprint

func TestC03(t *testing.T) {
	h.Main(t, h.Prop[execCase]{
		ID: "C03",
		Rule: "rapid program Specs (types profile without pointers: unions, fixed arrays incl. nested, maps with string/int/enum keys, enums of every base, opaque fields, named containers, sub-package types, every tag spelling) -> typescript.Generate parsed by internal/tsx (syntax, every exported name declared once, every mentioned name declared) and every JSON document emitted by the compiled Go package (with the generated union wrappers) checked as structural inhabitant of the declaration of its type; " +
			"non-trivial = a document with an object of >= 2 keys, a union, an array/tuple or a null container; distinct by (program, type, document hash)",
		Assumes: []string{
			"TypeScript is judged by the purpose-built parser/inhabitant relation of internal/tsx (no tsc offline): syntactically impossible text is a verdict, valid-but-unmodelled text is inconclusive",
			"fields tagged gomacro:\"ignore\" only occur on fields encoding/json does not see either (C09 owns that rule)",
			"enum-typed components hold declared constants",
		},
		Gen:   c03Gen,
		Check: c03Check,
	})
}
