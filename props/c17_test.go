package props

import (
	"encoding/json"
	"fmt"
	"os"
	"path/filepath"
	"strings"
	"testing"

	"verif/internal/h"

	"github.com/benoitkugler/gomacro/analysis"
	"golang.org/x/tools/go/packages"
	"pgregory.net/rapid"
)

// C17 — source loading maps every file to its package and a real common root.

type c17File struct {
	Name   string `json:"name"`
	Broken bool   `json:"broken,omitempty"` // contains a type error
}

type c17Dir struct {
	Path    string    `json:"path"` // relative to the module root, "" = root package
	Files   []c17File `json:"files"`
	Imports []string  `json:"imports,omitempty"` // module-relative paths of the packages its first file imports
}

type c17Input struct {
	Dir  int    `json:"dir"`
	File int    `json:"file"`
	Abs  bool   `json:"abs"`
	Kind string `json:"kind"` // ok | missing | nongo
}

type c17Case struct {
	Dirs   []c17Dir   `json:"dirs"`
	Inputs []c17Input `json:"inputs"`
	// CwdDir: 0 = the process keeps its working directory (outside the module: every relative path starts with
	// the same "../.." elements); k > 0 = the loader is called from inside Dirs[k-1], so that relative paths
	// look like "f1.go", "../foobar/f1.go", "sub/f1.go"
	CwdDir int `json:"cwd_dir,omitempty"`
}

var c17DirNames = []string{"x/API", "models-v2", "models/sub", "models.old", "foo", "foobar", "foo/bar", "ab1", "ab2", "a", "ab", "x/y", "x/yz", "models", "models2", "pkg/api", "pkg/apiserver"}

var c17Pairs = [][]string{{"foo", "foobar"}, {"ab1", "ab2"}, {"a", "ab"}, {"x/y", "x/yz"}, {"pkg/api", "pkg/apiserver"}, {"models", "models2"}, {"foo", "foo/bar"}, {"foo/bar", "foobar"},
	{"x/API", "x/api"}, {"Models", "models"}, {"models", "models/sub", "models-v2"}, {"models", "models/sub", "models.old"}, {"foo/bar", "foo"}, {"models/sub", "models"}, {"x/y/deep", "x"}} // directories that differ only by case are different directories

func c17Gen(t *rapid.T, r *h.Rec) c17Case {
	var c c17Case
	used := map[string]bool{}
	addDir := func(p string) {
		if used[p] {
			return
		}
		used[p] = true
		d := c17Dir{Path: p}
		nf := rapid.IntRange(1, 2).Draw(t, "nFiles")
		for j := 0; j < nf; j++ {
			d.Files = append(d.Files, c17File{Name: fmt.Sprintf("f%d.go", j+1)})
		}
		c.Dirs = append(c.Dirs, d)
	}
	// siblings sharing a name prefix are the interesting layouts: half of the cases start from such a pair
	if rapid.Bool().Draw(t, "prefixPair") {
		for _, p := range c17Pairs[rapid.IntRange(0, len(c17Pairs)-1).Draw(t, "pair")] {
			addDir(p)
		}
	}
	nDirs := rapid.IntRange(0, 2).Draw(t, "nDirs")
	if len(c.Dirs) == 0 && nDirs == 0 {
		nDirs = 1
	}
	for i := 0; i < nDirs; i++ {
		addDir(c17DirNames[rapid.IntRange(0, len(c17DirNames)-1).Draw(t, "dir")])
	}
	// inputs: every directory at least once most of the time, then extras (duplicates, other files)
	if rapid.IntRange(0, 3).Draw(t, "coverAll") != 0 {
		for di := range c.Dirs {
			c.Inputs = append(c.Inputs, c17Input{Dir: di, File: rapid.IntRange(0, len(c.Dirs[di].Files)-1).Draw(t, "inFile"), Abs: rapid.Bool().Draw(t, "abs"), Kind: "ok"})
		}
	}
	nIn := rapid.IntRange(0, 3).Draw(t, "nExtra")
	if len(c.Inputs) == 0 && nIn == 0 {
		nIn = 1
	}
	for i := 0; i < nIn; i++ {
		di := rapid.IntRange(0, len(c.Dirs)-1).Draw(t, "inDir")
		c.Inputs = append(c.Inputs, c17Input{Dir: di, File: rapid.IntRange(0, len(c.Dirs[di].Files)-1).Draw(t, "inFile"), Abs: rapid.Bool().Draw(t, "abs"), Kind: "ok"})
	}
	// the first file decides where the search for the common root starts: also give the deepest directory first
	if len(c.Inputs) > 1 && rapid.IntRange(0, 2).Draw(t, "reverseInputs") == 0 {
		for i, j := 0, len(c.Inputs)-1; i < j; i, j = i+1, j-1 {
			c.Inputs[i], c.Inputs[j] = c.Inputs[j], c.Inputs[i]
		}
	}
	if rapid.Bool().Draw(t, "insideModule") {
		c.CwdDir = 1 + rapid.IntRange(0, len(c.Dirs)-1).Draw(t, "cwdDir")
	}
	// one error case in six
	switch rapid.IntRange(0, 17).Draw(t, "errorCase") {
	case 0:
		c.Inputs[rapid.IntRange(0, len(c.Inputs)-1).Draw(t, "errIdx")].Kind = "missing"
	case 1:
		c.Inputs[rapid.IntRange(0, len(c.Inputs)-1).Draw(t, "errIdx")].Kind = "nongo"
	case 2:
		in := c.Inputs[rapid.IntRange(0, len(c.Inputs)-1).Draw(t, "errIdx")]
		c.Dirs[in.Dir].Files[in.File].Broken = true
	case 3, 4:
		// the type error sits in a package that is only imported, never requested
		in := c.Inputs[rapid.IntRange(0, len(c.Inputs)-1).Draw(t, "errIdx")]
		c.Dirs = append(c.Dirs, c17Dir{Path: "zz/dep", Files: []c17File{{Name: "dep.go", Broken: true}}})
		c.Dirs[in.Dir].Imports = append(c.Dirs[in.Dir].Imports, "zz/dep")
	case 5, 6:
		// a healthy package that is only imported
		in := c.Inputs[rapid.IntRange(0, len(c.Inputs)-1).Draw(t, "errIdx")]
		c.Dirs = append(c.Dirs, c17Dir{Path: "zz/dep", Files: []c17File{{Name: "dep.go"}}})
		c.Dirs[in.Dir].Imports = append(c.Dirs[in.Dir].Imports, "zz/dep")
	}
	return c
}

func pkgNameOf(dir string) string {
	if dir == "" {
		return "rootpkg"
	}
	return strings.NewReplacer("/", "_", "-", "_", ".", "_").Replace(filepath.Base(dir))
}

func c17Check(c c17Case, r *h.Rec) error {
	root, err := os.MkdirTemp(scratch(), "c17-")
	if err != nil {
		return h.Inconcf("scratch: %v", err)
	}
	defer os.RemoveAll(root)
	root, _ = filepath.EvalSymlinks(root)
	mod := filepath.Join(root, "proj")
	os.MkdirAll(mod, 0o755)
	os.WriteFile(filepath.Join(mod, "go.mod"), []byte("module verif.test/org/proj\n\ngo 1.23.0\n"), 0o644)
	anyBroken := map[int]bool{}
	for di, d := range c.Dirs {
		dir := filepath.Join(mod, d.Path)
		os.MkdirAll(dir, 0o755)
		for fi, f := range d.Files {
			src := fmt.Sprintf("package %s\n\n", pkgNameOf(d.Path))
			if fi == 0 {
				for _, imp := range d.Imports {
					src += fmt.Sprintf("import _ %q\n", "verif.test/org/proj/"+imp)
				}
			}
			src += fmt.Sprintf("\ntype T%d%d struct{ A int }\n", di, fi)
			if f.Broken {
				// inside a function body: the package still exports a complete API
				src += "\nfunc broken() int {\n\tvar x int = \"not an int\"\n\treturn x\n}\n"
				anyBroken[di] = true
			}
			os.WriteFile(filepath.Join(dir, f.Name), []byte(src), 0o644)
		}
		os.WriteFile(filepath.Join(dir, "notes.txt"), []byte("not go\n"), 0o644)
	}
	cwd, _ := os.Getwd()
	if c.CwdDir > 0 && c.CwdDir <= len(c.Dirs) {
		// relative paths are relative to the working directory of the process: move into the module for this case
		inside := filepath.Join(mod, c.Dirs[c.CwdDir-1].Path)
		if err := os.Chdir(inside); err != nil {
			return h.Inconcf("chdir: %v", err)
		}
		defer os.Chdir(cwd)
		cwd = inside
	}
	var files, absFiles []string
	expectErr := ""
	dirsUsed := map[int]bool{}
	for _, in := range c.Inputs {
		d := c.Dirs[in.Dir]
		name := d.Files[in.File].Name
		switch in.Kind {
		case "missing":
			name = "does_not_exist.go"
			expectErr = "missing file"
		case "nongo":
			name = "notes.txt"
			if expectErr == "" {
				expectErr = "non-Go file"
			}
		}
		abs := filepath.Join(mod, d.Path, name)
		absFiles = append(absFiles, abs)
		p := abs
		if !in.Abs {
			if rel, err := filepath.Rel(cwd, abs); err == nil {
				p = rel
			}
		}
		files = append(files, p)
		dirsUsed[in.Dir] = true
	}
	for di := range dirsUsed {
		if anyBroken[di] && expectErr == "" {
			expectErr = "package with a type error"
		}
		for _, imp := range c.Dirs[di].Imports {
			for dj, d := range c.Dirs {
				if d.Path == imp && anyBroken[dj] && expectErr == "" {
					expectErr = "imported package with a type error"
				}
			}
		}
	}
	desc := func() string {
		b, _ := json.Marshal(c)
		return fmt.Sprintf("layout %s\n  files: %v", b, files)
	}
	var (
		pkgs    []*packages.Package
		gotRoot string
		lerr    error
	)
	// LoadSources prints package errors on stderr: silence it
	devnull, _ := os.OpenFile(os.DevNull, os.O_WRONLY, 0)
	oldErr := os.Stderr
	os.Stderr = devnull
	oc := guard(func() { pkgs, gotRoot, lerr = analysis.LoadSources(files) })
	os.Stderr = oldErr
	devnull.Close()
	if oc.Panicked {
		return h.Violf("LoadSources crashed instead of returning an error: %s %s\n%s", oc.Msg, oc.Stack, desc())
	}
	if expectErr != "" {
		if lerr == nil {
			return h.Violf("LoadSources returned no error for a file set with a %s\n%s", expectErr, desc())
		}
		r.Class("error_case:" + expectErr)
		r.NonTriv([]byte(desc()), nil)
		return nil
	}
	if lerr != nil {
		return h.Violf("LoadSources fails on existing, well-typed Go files of one module: %v\n%s", lerr, desc())
	}
	if len(pkgs) != len(files) {
		return h.Violf("LoadSources returned %d packages for %d files\n%s", len(pkgs), len(files), desc())
	}
	for i, in := range c.Inputs {
		pk := pkgs[i]
		if pk == nil {
			return h.Violf("package %d is nil\n%s", i, desc())
		}
		found := false
		for _, gf := range pk.GoFiles {
			if gf == absFiles[i] {
				found = true
			}
		}
		wantPath := "verif.test/org/proj"
		if p := c.Dirs[in.Dir].Path; p != "" {
			wantPath += "/" + p
		}
		if !found || pk.PkgPath != wantPath {
			return h.Violf("file %s is mapped to package %s (files %v), expected the package %s containing it\n%s", files[i], pk.PkgPath, pk.GoFiles, wantPath, desc())
		}
		if pk.Types == nil || len(pk.Syntax) == 0 {
			return h.Violf("package %s is not type-checked\n%s", pk.PkgPath, desc())
		}
	}
	// the common root: an existing directory, ancestor (by path components) of every file
	st, err := os.Stat(gotRoot)
	if err != nil || !st.IsDir() {
		return h.Violf("the common root %q is not an existing directory\n%s", gotRoot, desc())
	}
	for _, abs := range absFiles {
		rel, err := filepath.Rel(gotRoot, abs)
		if err != nil || rel == ".." || strings.HasPrefix(rel, ".."+string(filepath.Separator)) {
			return h.Violf("the common root %q is not an ancestor of %s\n%s", gotRoot, abs, desc())
		}
	}
	if len(dirsUsed) >= 2 && len(files) >= 2 {
		r.NonTriv([]byte(desc()), func() any { return map[string]any{"files": files, "root": gotRoot} })
	}
	r.Class(fmt.Sprintf("dirs:%d", len(dirsUsed)))
	return nil
}

func TestC17(t *testing.T) {
	h.Main(t, h.Prop[c17Case]{
		ID: "C17",
		Rule: "rapid directory layouts inside one temporary module (1..4 package directories among names sharing prefixes — foo/foobar, ab1/ab2, a/ab, x/y vs x/yz, pkg/api vs pkg/apiserver — nested packages, 1..2 files each) and 1..5 input files (duplicates, relative to the process cwd or absolute, mixed) plus error cases (missing file, non-Go file, a type error in a requested package or in a package that is only imported) -> the real analysis.LoadSources; success => one type-checked package per file, in order, containing its absolute path and having the expected import path, and a root that is an existing directory and a path-component ancestor of every file; error cases => a non-nil error, never a panic; " +
			"non-trivial = >= 2 files in >= 2 directories, or an error case; distinct by layout hash",
		Assumes: []string{"the real loader (go list) is used, no stand-in", "the empty file list is outside the stated domain"},
		Gen:     c17Gen,
		Check:   c17Check,
	})
}
