package props

import (
	"encoding/json"
	"fmt"
	"go/types"
	"regexp"
	"sort"
	"strings"
	"testing"

	"verif/internal/dartx"
	"verif/internal/fastload"
	"verif/internal/h"
	"verif/internal/pgx"
	"verif/internal/synth"
	"verif/internal/tsx"

	"github.com/benoitkugler/gomacro/analysis"
	gen "github.com/benoitkugler/gomacro/generator"
	"github.com/benoitkugler/gomacro/generator/dart"
	sqlgen "github.com/benoitkugler/gomacro/generator/sql"
	"pgregory.net/rapid"
)

// C09 — field selection and JSON naming coincide with encoding/json.

type c09Case struct {
	Spec   *synth.Spec `json:"spec"`
	Spec2  *synth.Spec `json:"spec2"` // metamorphic variant: Spec with an ignored field added / removed / retyped
	Edit   string      `json:"edit"`
	Seed   int64       `json:"seed"`
	Checks int         `json:"checks,omitempty"`
}

func cloneSpec(s *synth.Spec) *synth.Spec {
	b, _ := json.Marshal(s)
	var out synth.Spec
	json.Unmarshal(b, &out)
	return &out
}

func sameTypeRef(a, b *synth.TypeRef) bool {
	x, _ := json.Marshal(a)
	y, _ := json.Marshal(b)
	return string(x) == string(y)
}

func fieldIgnored(f *synth.Field) bool {
	if f.Embedded {
		return false
	}
	if !(f.Name[0] >= 'A' && f.Name[0] <= 'Z') {
		return true
	}
	tag := f.Tag
	return strings.Contains(tag, `json:"-"`) || strings.Contains(tag, `gomacro:"ignore"`)
}

func c09Gen(t *rapid.T, r *h.Rec) c09Case {
	av, onEx, onCl := avoidOpts(r)
	o := jsonOpts(av, onEx, onCl)
	o.Unions, o.Recursion, o.Generics = 0, false, false
	o.NoIgnoreTag = false
	o.EmbedNamed = true
	o.SameNamePromoted = true
	o.MaxDecls = 7
	spec := synth.GenTypes(t, o)
	c := c09Case{Spec: spec, Seed: int64(rapid.IntRange(1, 1<<30).Draw(t, "childSeed")), Checks: childChecks(25, 80)}
	// metamorphic edit on one struct of the analysed file
	spec2 := cloneSpec(spec)
	var structs []*synth.Decl
	for _, d := range spec2.AnalysedFile().Decls {
		if d.Kind == synth.KStruct {
			structs = append(structs, d)
		}
	}
	if len(structs) == 0 {
		return c
	}
	d := structs[rapid.IntRange(0, len(structs)-1).Draw(t, "editStruct")]
	// types that may be used without changing the set of analysed types: basics and the types of visible siblings
	pool := []*synth.TypeRef{synth.Basic("int"), synth.Basic("string"), synth.Basic("bool")}
	for _, f := range d.Fields {
		if !fieldIgnored(f) && !f.Embedded {
			pool = append(pool, f.Type)
		}
	}
	safeType := func(tr *synth.TypeRef) bool {
		for _, p := range pool {
			if sameTypeRef(p, tr) {
				return true
			}
		}
		return false
	}
	var ignoredIdx []int
	for i, f := range d.Fields {
		if fieldIgnored(f) && safeType(f.Type) {
			ignoredIdx = append(ignoredIdx, i)
		}
	}
	op := rapid.IntRange(0, 2).Draw(t, "editOp")
	if len(ignoredIdx) == 0 {
		op = 0
	}
	switch op {
	case 0: // add
		nf := &synth.Field{Type: pool[rapid.IntRange(0, len(pool)-1).Draw(t, "editType")]}
		switch rapid.IntRange(0, 2).Draw(t, "editKind") {
		case 0:
			nf.Name = "zzHidden"
		case 1:
			nf.Name, nf.Tag = "ZzSkipped", `json:"-"`
		default:
			nf.Name, nf.Tag = "ZzIgnored", `gomacro:"ignore"`
		}
		pos := rapid.IntRange(0, len(d.Fields)).Draw(t, "editPos")
		d.Fields = append(d.Fields[:pos], append([]*synth.Field{nf}, d.Fields[pos:]...)...)
		c.Edit = fmt.Sprintf("add %s to %s", nf.Name, d.Name)
	case 1: // remove
		i := ignoredIdx[rapid.IntRange(0, len(ignoredIdx)-1).Draw(t, "editIdx")]
		c.Edit = fmt.Sprintf("remove %s from %s", d.Fields[i].Name, d.Name)
		d.Fields = append(d.Fields[:i], d.Fields[i+1:]...)
	default: // retype
		i := ignoredIdx[rapid.IntRange(0, len(ignoredIdx)-1).Draw(t, "editIdx")]
		d.Fields[i].Type = pool[rapid.IntRange(0, len(pool)-1).Draw(t, "editType")]
		c.Edit = fmt.Sprintf("retype %s of %s", d.Fields[i].Name, d.Name)
	}
	c.Spec2 = spec2
	return c
}

// augmentForSQL returns a copy of the spec in which every struct of the analysed file is made
// reachable from one table through a named slice stored as jsonb.
func augmentForSQL(spec *synth.Spec) (*synth.Spec, bool) {
	s2 := cloneSpec(spec)
	f := s2.AnalysedFile()
	table := &synth.Decl{Kind: synth.KStruct, Name: "ZzTable", Fields: []*synth.Field{{Name: "Id", Type: synth.Basic("int64")}}}
	n := 0
	for _, d := range append([]*synth.Decl{}, f.Decls...) {
		if d.Kind != synth.KStruct {
			continue
		}
		n++
		ln := fmt.Sprintf("Zz%sItems", strings.Title(d.Name))
		f.Decls = append(f.Decls, &synth.Decl{Kind: synth.KNamed, Name: ln, Type: synth.Slice(synth.Ref(s2.Root().Path, d.Name))})
		table.Fields = append(table.Fields, &synth.Field{Name: fmt.Sprintf("C%d", n), Type: synth.Ref(s2.Root().Path, ln)})
	}
	f.Decls = append(f.Decls, table)
	return s2, n > 0
}

type c09Outputs struct {
	ts        string
	dart      map[string]string
	sqlFuncs  map[string]string // validator name -> body
	sqlText   string
	refusedBy string
	an        *analysis.Analysis
	ld        *fastload.Loaded
}

func c09Generate(spec *synth.Spec) (*c09Outputs, error) {
	ls, err := loadSpec(spec)
	if err != nil {
		return nil, err
	}
	out := &c09Outputs{dart: map[string]string{}, sqlFuncs: map[string]string{}, an: ls.an, ld: ls.ld}
	if ls.oc.Panicked {
		out.refusedBy = "analysis: " + ls.oc.Msg
		return out, nil
	}
	var oc outcome
	out.ts, oc = tsOutput(ls.an)
	if oc.Panicked {
		out.refusedBy = "typescript: " + oc.Msg
		return out, nil
	}
	oc = guard(func() {
		for _, o := range dart.Generate(gopathRoot(spec), []*analysis.Analysis{ls.an}) {
			out.dart[o.Filename] = gen.WriteDeclarations(o.Content)
		}
	})
	if oc.Panicked {
		out.refusedBy = "dart: " + oc.Msg
		return out, nil
	}
	// SQL validators through an augmented program analysed from the table type only
	aug, ok := augmentForSQL(spec)
	if ok {
		ld2, err := fastload.Load(aug)
		if err != nil {
			return nil, h.Inconcf("augmented source does not type-check: %v", err)
		}
		oc = guard(func() {
			tbl := ld2.Root.Types.Scope().Lookup("ZzTable").Type()
			an2 := analysis.NewAnalysisFromTypes(ld2.Root, []types.Type{tbl})
			out.sqlText = gen.WriteDeclarations(sqlgen.Generate(an2))
		})
		if oc.Panicked {
			out.refusedBy = "sql: " + oc.Msg
			return out, nil
		}
		sc, err := pgx.ParseScript(out.sqlText)
		if err != nil {
			if _, isSyn := err.(*pgx.SyntaxError); isSyn {
				// a syntax problem of the validators is C04's subject; here only keys are compared
				out.sqlFuncs = nil
				return out, nil
			}
			return nil, h.Inconcf("SQL output outside the modelled subset: %v", err)
		}
		for name, fn := range sc.Functions {
			out.sqlFuncs[name] = fn.BodyText
		}
	}
	return out, nil
}

var reKeyIn = regexp.MustCompile(`key IN \(([^)]*)\)`)

func sortedSet(m map[string]bool) []string {
	var out []string
	for k := range m {
		out = append(out, k)
	}
	sort.Strings(out)
	return out
}

func setOf(xs []string) (map[string]bool, string) {
	m := map[string]bool{}
	dup := ""
	for _, x := range xs {
		if m[x] {
			dup = x
		}
		m[x] = true
	}
	return m, dup
}

func sameSet(a, b map[string]bool) bool {
	if len(a) != len(b) {
		return false
	}
	for k := range a {
		if !b[k] {
			return false
		}
	}
	return true
}

// ignoredKeys returns the JSON keys of the fields tagged gomacro:"ignore" that encoding/json still sees,
// following untagged embedded structs.
func ignoredKeys(spec *synth.Spec, p *synth.Pkg, d *synth.Decl, depth int) []string {
	var out []string
	if depth > 8 {
		return nil
	}
	for _, f := range d.Fields {
		if f.Embedded {
			if name, _, _ := strings.Cut(tagGet(f.Tag, "json"), ","); name != "" {
				continue // nested under its own key
			}
			if ep, ed := spec.Resolve(p, f.Type); ed != nil && ed.Kind == synth.KStruct {
				out = append(out, ignoredKeys(spec, ep, ed, depth+1)...)
			}
			continue
		}
		if strings.Contains(f.Tag, `gomacro:"ignore"`) && !strings.HasPrefix(synth.JSONKey(f), "\x00") {
			out = append(out, synth.JSONKey(f))
		}
	}
	return out
}

func dartFuncName(goName, suffix string) string {
	tn := strings.Title(goName)
	return strings.ToLower(tn[:1]) + tn[1:] + suffix
}

func c09Check(c c09Case, r *h.Rec) error {
	src := func() string { return clip(c.Spec.Text(), 3000) }
	o1, err := c09Generate(c.Spec)
	if err != nil {
		return err
	}
	if o1.refusedBy != "" {
		r.Refused++
		return nil
	}
	// ---- (c) metamorphic pair -------------------------------------------------
	if c.Spec2 != nil {
		o2, err := c09Generate(c.Spec2)
		if err != nil {
			return err
		}
		if o2.refusedBy != "" {
			return h.Violf("after '%s' (an ignored field) the program is refused: %s\n%s", c.Edit, o2.refusedBy, src())
		}
		if o1.ts != o2.ts {
			return h.Violf("'%s' (a field ignored by encoding/json or tagged gomacro:\"ignore\") changes the TypeScript output\n--- diff ---\n%s\n%s", c.Edit, firstDiff(o1.ts, o2.ts), src())
		}
		if len(o1.dart) != len(o2.dart) {
			return h.Violf("'%s' changes the set of Dart files: %v vs %v\n%s", c.Edit, keysOf(o1.dart), keysOf(o2.dart), src())
		}
		for fn, txt := range o1.dart {
			if o2.dart[fn] != txt {
				return h.Violf("'%s' changes the Dart output %s\n--- diff ---\n%s\n%s", c.Edit, fn, firstDiff(txt, o2.dart[fn]), src())
			}
		}
		if o1.sqlFuncs != nil && o2.sqlFuncs != nil {
			if len(o1.sqlFuncs) != len(o2.sqlFuncs) {
				return h.Violf("'%s' changes the set of JSON validators: %v vs %v\n%s", c.Edit, keysOf(o1.sqlFuncs), keysOf(o2.sqlFuncs), src())
			}
			for fn, body := range o1.sqlFuncs {
				if o2.sqlFuncs[fn] != body {
					return h.Violf("'%s' changes the JSON validator %s\n--- diff ---\n%s\n%s", c.Edit, fn, firstDiff(body, o2.sqlFuncs[fn]), src())
				}
			}
		}
		r.Class("metamorphic_pair:" + strings.Fields(c.Edit)[0])
	}

	// ---- (a) ground truth from the real encoder ---------------------------------
	ec := execCase{Spec: c.Spec, Seed: c.Seed, Checks: c.Checks}
	_, res, _, err := childDocs(ec, r, "docs", nil, "")
	if err != nil || res == nil {
		return err
	}
	truth := map[string]map[string]bool{}
	for _, rec := range res.Records {
		if full := recRaw(rec, "full"); full != "" {
			v, err := decodeDoc(full)
			if err != nil {
				return h.Inconcf("cannot decode %s", full)
			}
			if obj, ok := v.(map[string]any); ok {
				m := map[string]bool{}
				for k := range obj {
					m[k] = true
				}
				truth[recStr(rec, "type")] = m
			}
		}
	}
	// parse the three artefacts
	_, env, err := tsStatic(o1.ts, src)
	if err != nil {
		return err
	}
	rootDart := ""
	var dartFile *dartx.File
	for fn, txt := range o1.dart {
		if strings.HasSuffix(fn, c.Spec.Root().Name+".dart") {
			rootDart = txt
		}
	}
	if rootDart != "" {
		df, err := dartx.Parse(rootDart)
		if err != nil {
			if _, isSyn := err.(*dartx.SyntaxError); isSyn {
				return h.Violf("the Dart output is not syntactically valid: %v\n%s", err, src())
			}
			return h.Inconcf("Dart output outside the modelled subset: %v", err)
		}
		dartFile = df
	}
	nontrivial := false
	for _, d := range c.Spec.AnalysedFile().Decls {
		if d.Kind != synth.KStruct {
			continue
		}
		tr, ok := truth[d.Name]
		if !ok {
			continue
		}
		want := map[string]bool{}
		for k := range tr {
			want[k] = true
		}
		for _, k := range ignoredKeys(c.Spec, c.Spec.Root(), d, 0) {
			delete(want, k)
		}
		// analysis
		obj := o1.ld.Root.Types.Scope().Lookup(d.Name)
		st, isStruct := o1.an.Types[obj.Type()].(*analysis.Struct)
		if !isStruct {
			return h.Violf("struct %s is reported as %T", d.Name, o1.an.Types[obj.Type()])
		}
		var got []string
		for _, f := range st.Fields {
			if f.Exported() {
				got = append(got, f.JSONName())
			}
		}
		gotSet, dup := setOf(got)
		if dup != "" {
			return h.Violf("struct %s: the analysis reports the JSON key %q twice (keys %v); encoding/json emits %v\n%s", d.Name, dup, got, sortedSet(tr), src())
		}
		if !sameSet(gotSet, want) {
			return h.Violf("struct %s: the analysis selects keys %v; encoding/json emits %v (minus gomacro:\"ignore\" fields: %v)\n%s", d.Name, sortedSet(gotSet), sortedSet(tr), sortedSet(want), src())
		}
		// TypeScript
		if t, ok := env.Lookup(d.Name); ok {
			if o, isObj := t.(*tsx.Object); isObj {
				var names []string
				for _, p := range o.Props {
					names = append(names, p.Name)
				}
				ts, dup := setOf(names)
				if dup != "" || !sameSet(ts, want) {
					return h.Violf("struct %s: the TypeScript interface has keys %v, expected %v\n%s", d.Name, names, sortedSet(want), src())
				}
			} else if len(want) != 0 {
				return h.Violf("struct %s: TypeScript declares %s, expected an interface with keys %v\n%s", d.Name, t.String(), sortedSet(want), src())
			}
		} else {
			return h.Violf("struct %s has no TypeScript declaration\n%s", d.Name, src())
		}
		// Dart
		if dartFile != nil {
			from := dartFile.Function(dartFuncName(d.Name, "FromJson"))
			to := dartFile.Function(dartFuncName(d.Name, "ToJson"))
			if from == nil || to == nil {
				return h.Violf("struct %s: Dart JSON routines %s / %s not found\n%s", d.Name, dartFuncName(d.Name, "FromJson"), dartFuncName(d.Name, "ToJson"), src())
			}
			rs, dup1 := setOf(from.JSONReads())
			ws, dup2 := setOf(to.MapWrites())
			if dup1 != "" || dup2 != "" || !sameSet(rs, want) || !sameSet(ws, want) {
				return h.Violf("struct %s: Dart fromJson reads %v and toJson writes %v, expected %v\n%s", d.Name, from.JSONReads(), to.MapWrites(), sortedSet(want), src())
			}
		}
		// SQL validator
		if o1.sqlFuncs != nil {
			found := false
			for name, body := range o1.sqlFuncs {
				if !strings.HasSuffix(name, "_"+strings.ToLower(d.Name)) || !strings.Contains(name, "gomacro_validate_json_"+strings.ToLower(clipPkg(c.Spec.Root().Name))+"_") {
					continue
				}
				found = true
				var keys []string
				if m := reKeyIn.FindStringSubmatch(body); m != nil {
					for _, k := range strings.Split(m[1], ",") {
						k = strings.TrimSpace(k)
						keys = append(keys, strings.ReplaceAll(strings.Trim(k, "'"), "''", "'"))
					}
				}
				ks, dup := setOf(keys)
				if dup != "" || !sameSet(ks, want) {
					return h.Violf("struct %s: the JSON validator %s accepts keys %v, expected %v\n%s", d.Name, name, keys, sortedSet(want), src())
				}
			}
			if !found {
				return h.Violf("struct %s: no JSON validator found among %v\n%s", d.Name, keysOf(o1.sqlFuncs), src())
			}
		}
		r.Add("structs_compared", 1)
		for _, f := range d.Fields {
			if f.Embedded || fieldIgnored(f) || (f.Tag != "" && synth.JSONKey(f) != f.Name) {
				nontrivial = true
			}
		}
	}
	if nontrivial {
		r.NonTriv(specKey(c.Spec, c.Edit), func() any {
			return map[string]any{"source": clip(c.Spec.Text(), 1500), "edit": c.Edit}
		})
	}
	return nil
}

func clipPkg(name string) string {
	if len(name) > 4 {
		return name[:4]
	}
	return name
}

func keysOf[V any](m map[string]V) []string {
	var out []string
	for k := range m {
		out = append(out, k)
	}
	sort.Strings(out)
	return out
}

func firstDiff(a, b string) string {
	al, bl := strings.Split(a, "\n"), strings.Split(b, "\n")
	for i := 0; i < len(al) || i < len(bl); i++ {
		var x, y string
		if i < len(al) {
			x = al[i]
		}
		if i < len(bl) {
			y = bl[i]
		}
		if x != y {
			return fmt.Sprintf("line %d:\n- %s\n+ %s", i+1, strings.TrimSpace(x), strings.TrimSpace(y))
		}
	}
	return "(no difference?)"
}

func TestC09(t *testing.T) {
	h.Main(t, h.Prop[c09Case]{
		ID: "C09",
		Rule: "rapid union-free programs over every tag spelling (none, name, name+options, empty name+options, \"-\", \"-,\", other keys before/after json, gomacro ignore/opaque), unexported fields, embedded (tagged and untagged) and nested structs; the compiled package marshals an all-non-zero value of every struct with the real encoding/json (ground truth key set); compared with Exported()/JSONName() of the analysis and with the keys of the TypeScript interface, the Dart fromJson/toJson and the SQL validator; plus a metamorphic pair (program, program with an ignored field added / removed / retyped) whose TypeScript, Dart and validator texts must be byte-identical; " +
			"non-trivial = a compared struct with a renamed, ignored or embedded field; distinct by SHA-256 of (source, edit)",
		Assumes: []string{
			"ground truth is encoding/json itself, consulted by compiling and running the analysed package",
			"in metamorphic edits the ignored field only uses basic types or the type of a visible sibling, so that the set of analysed types is unchanged",
			"validators are reached by making every struct the element of a named slice stored in a jsonb column of an extra table",
		},
		Gen:   c09Gen,
		Check: c09Check,
	})
}
