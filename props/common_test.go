package props

import (
	"crypto/sha256"
	"fmt"
	"io"
	"log"
	"os"
	"path/filepath"
	"runtime"
	"runtime/debug"
	"strings"
	"sync"
	"testing"

	"verif/internal/fastload"
	"verif/internal/h"
	"verif/internal/synth"

	"github.com/benoitkugler/gomacro/analysis"
)

func TestMain(m *testing.M) {
	log.SetOutput(io.Discard) // gomacro logs "embedded struct … will be flattened" etc.
	fastload.RegisterExtra("github.com/lib/pq", map[string]string{"pq.go": pqStub})
	code := m.Run()
	if scratchDir != "" {
		os.RemoveAll(scratchDir)
	}
	os.Exit(code)
}

// pqStub mirrors the exported surface of github.com/lib/pq the generated CRUD code uses
// (types and signatures only; behaviour lives in /verif/engine/pq for the executed properties).
const pqStub = `package pq

import (
	"database/sql/driver"
	"time"
)

type (
	Int64Array   []int64
	Int32Array   []int32
	Float64Array []float64
	Float32Array []float32
	StringArray  []string
	BoolArray    []bool
	ByteaArray   [][]byte
)

func (*Int64Array) Scan(src interface{}) error     { return nil }
func (Int64Array) Value() (driver.Value, error)    { return nil, nil }
func (*Int32Array) Scan(src interface{}) error     { return nil }
func (Int32Array) Value() (driver.Value, error)    { return nil, nil }
func (*Float64Array) Scan(src interface{}) error   { return nil }
func (Float64Array) Value() (driver.Value, error)  { return nil, nil }
func (*Float32Array) Scan(src interface{}) error   { return nil }
func (Float32Array) Value() (driver.Value, error)  { return nil, nil }
func (*StringArray) Scan(src interface{}) error    { return nil }
func (StringArray) Value() (driver.Value, error)   { return nil, nil }
func (*BoolArray) Scan(src interface{}) error      { return nil }
func (BoolArray) Value() (driver.Value, error)     { return nil, nil }
func (*ByteaArray) Scan(src interface{}) error     { return nil }
func (ByteaArray) Value() (driver.Value, error)    { return nil, nil }

type NullTime struct {
	Time  time.Time
	Valid bool
}

func (nt *NullTime) Scan(value interface{}) error  { return nil }
func (nt NullTime) Value() (driver.Value, error)   { return nil, nil }

func CopyIn(table string, columns ...string) string { return "" }
`

var (
	scratchOnce sync.Once
	scratchDir  string
)

// scratch returns a per-process temporary directory (outside /repo and /verif), removed at exit.
func scratch() string {
	scratchOnce.Do(func() {
		// inside the driver's work directory when there is one: it disappears with it even if this process is killed
		d, err := os.MkdirTemp(os.Getenv("VERIF_OUT"), "verif-scratch-")
		if err != nil {
			panic(err)
		}
		scratchDir = d
	})
	return scratchDir
}

// outcome of running a piece of gomacro under recover.
type outcome struct {
	Panicked  bool
	RuntimeEr bool   // the recovered value implements runtime.Error
	Msg       string // panic message
	Stack     string
}

func (o outcome) Diagnostic() bool { return o.Panicked && !o.RuntimeEr }

func guard(f func()) (out outcome) {
	defer func() {
		if r := recover(); r != nil {
			out.Panicked = true
			out.Msg = fmt.Sprint(r)
			if _, ok := r.(runtime.Error); ok {
				out.RuntimeEr = true
				out.Stack = trimStack(string(debug.Stack()))
			}
		}
	}()
	f()
	return out
}

func trimStack(s string) string {
	var keep []string
	for _, l := range strings.Split(s, "\n") {
		if strings.Contains(l, "gomacro") && !strings.Contains(l, "verif/") {
			keep = append(keep, strings.TrimSpace(l))
		}
		if len(keep) >= 6 {
			break
		}
	}
	return strings.Join(keep, " <- ")
}

// analyse loads the spec in process and runs the analysis under recover.
func analyse(spec *synth.Spec) (*fastload.Loaded, *analysis.Analysis, outcome, error) {
	ld, err := fastload.Load(spec)
	if err != nil {
		return nil, nil, outcome{}, h.Inconcf("synthesised source does not type-check (synthesiser bug): %v\n%s", err, spec.Text())
	}
	var an *analysis.Analysis
	oc := guard(func() { an = analysis.NewAnalysisFromFile(ld.Root, ld.FileName) })
	return ld, an, oc, nil
}

func specKey(spec *synth.Spec, extra ...string) []byte {
	hsh := sha256.New()
	hsh.Write([]byte(spec.Text()))
	for _, e := range extra {
		hsh.Write([]byte{0})
		hsh.Write([]byte(e))
	}
	return hsh.Sum(nil)
}

func avoidOpts(r *h.Rec) (map[string]string, func(string), func(string)) {
	cfg := h.LoadConfig()
	av := h.Avoided(cfg.RootDir)
	if os.Getenv("VERIF_NOAVOID") != "" {
		av = map[string]string{}
	}
	return av, func(f string) { r.Exclude(f) }, func(c string) { r.Class(c) }
}

func writeFiles(dir string, files map[string]string) error {
	if err := os.MkdirAll(dir, 0o755); err != nil {
		return err
	}
	for n, s := range files {
		if err := os.WriteFile(filepath.Join(dir, n), []byte(s), 0o644); err != nil {
			return err
		}
	}
	return nil
}

func clip(s string, n int) string {
	if len(s) > n {
		return s[:n] + "…"
	}
	return s
}

type loadedSpec struct {
	ld *fastload.Loaded
	an *analysis.Analysis
	oc outcome
}

type anyLoaded struct{ an *analysis.Analysis }

func loadSpec(spec *synth.Spec) (*loadedSpec, error) {
	ld, an, oc, err := analyse(spec)
	if err != nil {
		return nil, err
	}
	return &loadedSpec{ld: ld, an: an, oc: oc}, nil
}

// loadRoutes type-checks a route file (with its echo stand-in and inner package) in process.
func loadRoutes(rs *synth.RouteSpec) (*fastload.Loaded, string, error) {
	ld, err := fastload.Load(rs.Spec())
	if err != nil {
		return nil, "", h.Inconcf("synthesised route file does not type-check (synthesiser bug): %v\n%s", err, rs.Text())
	}
	return ld, ld.FileName, nil
}

// fidelity compares the in-process loader with the real analysis.LoadSource on one spec:
// the outputs of every generator must be byte-identical. A disagreement is a harness defect.
func fidelity(spec *synth.Spec) error {
	dir, err := os.MkdirTemp(scratch(), "fid-")
	if err != nil {
		return h.Inconcf("scratch: %v", err)
	}
	defer os.RemoveAll(dir)
	mod := filepath.Join(dir, "go", "src", "verif.test", "org", "proj")
	file, err := fastload.WriteModule(spec, mod)
	if err != nil {
		return h.Inconcf("write module: %v", err)
	}
	devnull, _ := os.OpenFile(os.DevNull, os.O_WRONLY, 0)
	oldErr := os.Stderr
	os.Stderr = devnull
	pkg, lerr := analysis.LoadSource(file)
	os.Stderr = oldErr
	devnull.Close()
	if lerr != nil {
		return h.Inconcf("the real loader refuses a program the in-process loader accepts: %v\n%s", lerr, spec.Text())
	}
	ld, err := fastload.Load(spec)
	if err != nil {
		return h.Inconcf("fastload: %v", err)
	}
	var anReal, anFast *analysis.Analysis
	ocR := guard(func() { anReal = analysis.NewAnalysisFromFile(pkg, file) })
	ocF := guard(func() { anFast = analysis.NewAnalysisFromFile(ld.Root, ld.FileName) })
	if ocR.Panicked != ocF.Panicked || ocR.Msg != ocF.Msg {
		return h.Inconcf("analysis outcome differs between loaders: real %q, in-process %q\n%s", ocR.Msg, ocF.Msg, spec.Text())
	}
	if ocR.Panicked {
		return nil
	}
	real := c07Outputs(anReal, gopathRoot(spec))
	fast := c07Outputs(anFast, gopathRoot(spec))
	if d := diffOutputs(real, fast); d != "" {
		return h.Inconcf("generator outputs differ between the real loader and the in-process loader: %s\n%s", d, spec.Text())
	}
	return nil
}
