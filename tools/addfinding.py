#!/usr/bin/env python3
"""addfinding.py <replay.json> <property> <id> <avoid-features|-> <what fails...>
Copies a (shrunk) replay into findings/ and appends an open-finding line to KNOWN_FINDINGS.txt."""
import sys, os, shutil
root = os.path.dirname(os.path.dirname(os.path.abspath(__file__)))
replay, prop, fid, avoid = sys.argv[1:5]
what = " ".join(sys.argv[5:])
dst = "findings/%s-%s.json" % (prop, fid)
shutil.copy(replay, os.path.join(root, dst))
line = "finding: property=%s id=%s repro=%s" % (prop, fid, dst)
if avoid != "-":
    line += " avoid=" + avoid
line += " :: " + what + "\n"
with open(os.path.join(root, "KNOWN_FINDINGS.txt"), "a") as f:
    f.write(line)
print(line, end="")
