#!/bin/sh
# Runs the repository's baseline suite (guard off) and restores the fixtures the suite rewrites.
# usage: tools/repo_tests.sh [repo-dir]   -> prints "<pass> <fail> [failed tests]"
REPO=${1:-/repo}
export GOFLAGS=-mod=mod GOPROXY=off GOSUMDB=off GOTOOLCHAIN=local
cd "$REPO" || exit 2
go test -mod=mod -json -vet=off -count=1 -timeout 25m ./... > /tmp/repo_json.$$.log 2>&1
python3 - /tmp/repo_json.$$.log <<'PY'
import json,sys
p=0; failed=[]
for l in open(sys.argv[1]):
    try: e=json.loads(l)
    except Exception:
        print("RAW", l.strip()[:200]); continue
    if e.get('Test') and e.get('Action') in ('pass','fail'):
        if e['Action']=='pass': p+=1
        else: failed.append(e['Package'].split('gomacro/')[-1]+'::'+e['Test'])
print(p, len(failed), failed)
PY
rm -f /tmp/repo_json.$$.log
git checkout -- . 2>/dev/null
