#!/bin/sh
# usage: tools/runall.sh [tier] [seed] : runs every claimed check and prints one line per check
T=${1:-quick}; S=${2:-1}
cd /verif
for p in $(python3 -c "import json; print(' '.join(c['property_id'] for c in json.load(open('MANIFEST.json'))['checks']))"); do
  start=$(date +%s)
  VERIF_SEED=$S ./check $p $T > /tmp/runall.$p.log 2>&1; rc=$?
  end=$(date +%s)
  echo "$p rc=$rc $((end-start))s $(grep -v '^KNOWN' /tmp/runall.$p.log | head -1 | cut -c1-150)"
  if [ $rc -ne 0 ]; then grep -v '^KNOWN' /tmp/runall.$p.log | sed -n '2,6p' | cut -c1-220; fi
done
