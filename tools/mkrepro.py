#!/usr/bin/env python3
"""mkrepro.py <out.json> <property> <extra-json|-> <pkgname> <file>=<path-to-go-source> [<subdir/file>=<path> ...]
Builds a replay file whose Spec carries hand-written source files verbatim.
The first file is the analysed file of the root package <pkgname>; entries whose name has a directory
(e.g. sb/sb.go) become sub-packages verif.test/org/proj/<pkgname>/<dir> (package name = dir)."""
import sys, json, os
out, prop, extra, pkg = sys.argv[1:5]
root = {"name": pkg, "path": "verif.test/org/proj/" + pkg, "files": []}
pkgs = [root]
subs = {}
for a in sys.argv[5:]:
    name, path = a.split("=", 1)
    src = open(path).read()
    if "/" in name:
        d, fn = name.rsplit("/", 1)
        if d not in subs:
            subs[d] = {"name": d.split("/")[-1], "path": "verif.test/org/proj/%s/%s" % (pkg, d), "files": []}
            pkgs.append(subs[d])
        subs[d]["files"].append({"name": fn, "decls": [], "src": src})
    else:
        root["files"].append({"name": name, "decls": [], "src": src})
case = {"spec": {"pkgs": pkgs}}
if extra != "-":
    case.update(json.loads(extra))
json.dump({"property": prop, "case": case}, open(out, "w"), indent=1)
