#!/usr/bin/env python3
"""markfixed.py <property> <id> <commit> : turns an open finding line into a fixed line (keeping repro and text)."""
import sys, re, os
root = os.path.dirname(os.path.dirname(os.path.abspath(__file__)))
prop, fid, commit = sys.argv[1:4]
p = os.path.join(root, "KNOWN_FINDINGS.txt")
out = []
done = False
for line in open(p):
    if line.startswith("finding:") and ("property=%s " % prop) in line and ("id=%s " % fid) in line:
        head, what = line[len("finding:"):].split("::", 1)
        toks = [t for t in head.split() if not t.startswith("avoid=")]
        toks.insert(2, "commit=" + commit)
        line = "fixed: " + " ".join(toks) + " ::" + what
        done = True
    out.append(line)
open(p, "w").write("".join(out))
print("marked" if done else "NOT FOUND")
