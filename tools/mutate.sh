#!/bin/sh
# usage: tools/mutate.sh <file-in-repo> <python-expr old> <python-expr new> <PROP> [tier]
# applies a textual mutation to a scratch copy of /repo and runs the check against it
F=$1; OLD=$2; NEW=$3; P=$4; T=${5:-quick}
M=/tmp/mrepo.$$
rm -rf $M && cp -r /repo $M && rm -rf $M/.git
python3 - "$M/$F" "$OLD" "$NEW" <<'PY' || { rm -rf $M; exit 3; }
import sys
p,old,new=sys.argv[1:4]
s=open(p).read()
if s.count(old)<1: print("MUTATION TARGET NOT FOUND"); sys.exit(1)
open(p,'w').write(s.replace(old,new,1))
PY
(cd $M && GOFLAGS=-mod=mod GOPROXY=off GOSUMDB=off GOTOOLCHAIN=local go build ./analysis/... ./generator/... ./cmd 2>&1 | grep -v "import cycle\|analysis/sql/test\|httpapi/test\|function main is undeclared" | head -5)
cd /verif && VERIF_REPO=$M ./check $P $T 2>&1 | grep -v "^KNOWN" | head -${LINES_OUT:-6} | cut -c1-260
rm -rf $M
