#!/bin/sh
# usage: tools/seedrun.sh <seeded-dir> <PROP> [tier] [seed] : runs a check against a scratch copy of /repo with the seeded patch applied
D=$1; P=$2; T=${3:-quick}; S=${4:-1}
M=/tmp/seedrepo.$$
rm -rf $M && cp -r /repo $M && rm -rf $M/.git
(cd $M && git init -q . >/dev/null 2>&1; git apply $D/patch.diff) || { echo "APPLY FAILED $D"; rm -rf $M; exit 3; }
(cd $M && GOFLAGS=-mod=mod GOPROXY=off GOSUMDB=off GOTOOLCHAIN=local go build ./analysis ./analysis/sql ./analysis/httpapi ./generator/... ./cmd 2>&1 | head -5)
cd /verif && VERIF_SHRINK=${VERIF_SHRINK:-2s} VERIF_SEED=$S VERIF_REPO=$M ./check $P $T > /tmp/seedrun.$$.log 2>&1; rc=$?
echo "$(basename $D) $P $T seed=$S rc=$rc :: $(grep -v '^KNOWN' /tmp/seedrun.$$.log | head -1 | cut -c1-110)"
grep -v '^KNOWN' /tmp/seedrun.$$.log | sed -n '2,4p' | cut -c1-240
rm -rf $M /tmp/seedrun.$$.log
exit $rc
