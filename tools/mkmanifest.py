#!/usr/bin/env python3
"""Regenerates /verif/MANIFEST.json from the table below (kept as a script so
that the manifest stays valid and consistent while checks are added)."""
import json, os, sys

ROOT = os.path.dirname(os.path.dirname(os.path.abspath(__file__)))

# id -> (technique, level text, level note, design ref)
CHECKS = {
 "C01": ("PBT (rapid): generated programs -> real generators -> goimports pass (x/tools/imports) -> go/types type-checker in the loop",
         "Program Specs from the types and sql profiles are analysed by the real gomacro, each of the three Go generators (sqlcrud with generate-sets on/off) is run, the import-fixing pass the tool applies is run, and the result is type-checked with go/types next to the source package. Exploration: held on every generated accepted input; known findings are excluded by construction and counted.",
         "Trusts go/types + x/tools/imports as the definition of 'compiles'; in-process loader cross-checked against analysis.LoadSource; lib/pq replaced by a signature-level stand-in.",
         "DESIGN.md §4 C01"),
 "C02": ("PBT (rapid, two levels): generated programs compiled with the real gounions output; round-trip + differential against a reference encoder validated against encoding/json",
         "Programs with unions in every documented position are compiled together with the generated wrappers; a reflection harness draws values of every analysed type, checks Unmarshal(Marshal(v)) == v (nil == empty) and compares the wire bytes as a JSON tree with a reference encoder ({Kind,Data} for union components, encoding/json rules on the original struct). Exploration.",
         "The reference encoder is cross-checked in every run against the real encoding/json on all union-free types (a disagreement is inconclusive, never a verdict); nil union values are outside the statement.",
         "DESIGN.md §4 C02"),
 "C03": ("PBT (rapid, two levels): cross-language inhabitant check of Go-emitted JSON documents against the parsed TypeScript declarations (internal/tsx)",
         "The TypeScript output of generated programs is parsed (syntax, every name declared exactly once, every mentioned name declared) and every JSON document emitted by the compiled Go package for every analysed type is checked as a structural inhabitant of the declaration (exact key sets, optional keys, primitive kinds, null only where admitted, tuple lengths, enum literal sets, Kind/Data shapes, Record key kinds). Exploration.",
         "No tsc offline: TypeScript is judged by the purpose-built parser and inhabitant relation of internal/tsx (two-sided rule: impossible text is a verdict, valid-but-unmodelled text is inconclusive).",
         "DESIGN.md §4 C03"),
 "C04": ("PBT (rapid, two levels): validator evaluation under a PostgreSQL model (internal/pgx) on Go-emitted documents and type-directed single-point corruptions",
         "For model files with jsonb columns the generated script is parsed and its PL/pgSQL validators interpreted; every document the compiled Go package emits for the column types must pass the column CHECK (never false, never an error) and up to five type-directed corruptions per document (unknown key, wrong kind, unknown Kind, non-member enum value, wrong fixed-array length) must make it false; the closure of validator calls is checked statically. Exploration.",
         "PostgreSQL is modelled (internal/pgx: jsonb operators, three-valued logic, left-to-right AND/OR); missing keys and extra keys in the Kind/Data wrapper are not asserted.",
         "DESIGN.md §4 C04"),
 "C05": ("PBT (rapid): model-based stateful test — generated CRUD code executed against a schema-enforcing in-memory engine loaded from the generated DDL, compared with a map model after every step",
         "Generated model files are compiled with the real sqlcrud/gounions outputs and driven by a rapid state machine (insert, selects, update, deletes, link-table delete, COPY-based InsertMany, by-foreign-key / unique / select-key functions) against engine/minipg loaded with the generated create script; results, error classes (unique, foreign key, no rows) and a final scan are compared with a map model mirroring ON DELETE actions; the engine validates tables, columns, placeholders and column order of every statement. Exploration.",
         "The database is the purpose-built engine/minipg with engine/pq standing in for lib/pq (module unavailable offline); both were property-tested on their own; jsonb CHECKs are evaluated by the pgx interpreter.",
         "DESIGN.md §4 C05, Appendix B"),
 "C06": ("PBT (rapid): structural parse of every emitted Dart file (internal/dartx) vs the reference model of the Spec; cross-file link resolution with Dart scoping",
         "Programs spread over a root package, sub-packages, sibling packages and std types are generated from one or several sources under both root layouts; per struct the JSON keys read/written in field order, constructor arity and order, implements lists; per union the dispatch cases and Kind tags; per enum the member/value table; every used type and helper resolves to exactly one declaration (local or one imported emitted file), no self import, one file per Go package. Exploration.",
         "No Dart analyzer offline: Dart is read with the purpose-built declaration-level parser internal/dartx; Dart member names and run-time typing are not part of the statement.",
         "DESIGN.md §4 C06"),
 "C07": ("PBT (rapid): repeated-run differential — 8 in-process generations per program (shared and fresh loads) and 3 separate processes of the real CLI, comparing every output text and the set of files",
         "Programs of the types, sql and routes profiles are generated repeatedly; Go's randomised map iteration plays the scheduler; all seven targets are compared byte for byte, the real CLI (config mode with a _dart entry) is run in separate processes for a sample. Exploration: a dependence on the order of k>=2 map entries survives 8 runs with probability <= 2^-7.",
         "Repetition samples executions; it cannot prove absence of non-determinism.",
         "DESIGN.md §4 C07"),
 "C08": ("PBT (rapid): structural parse of the generated DDL (internal/pgx) vs a reference Go->SQL mapping written from the statement",
         "Generated model files over all column kinds, tags and directives are translated by the real sql generator; the parsed schema is compared with a reference mapping (table names, column order, SQL types, NOT NULL, serial primary key, enum/length/jsonb/guard CHECKs, composite CREATE TYPE, exactly one FOREIGN KEY per foreign-key field with its ON DELETE action). Exploration.",
         "Names are plain CamelCase words so that every snake-case convention agrees; where the statement leaves a choice both answers are accepted.",
         "DESIGN.md §4 C08"),
 "C09": ("PBT (rapid): ground truth from the real encoding/json by executing the analysed package; key-set comparison across analysis / TypeScript / Dart / SQL validator; metamorphic pairs",
         "For union-free programs over every tag spelling and embedding, the compiled package marshals an all-non-zero value of every struct; the key set is compared with Exported()/JSONName() and with the keys parsed out of the TypeScript interface, the Dart fromJson/toJson and the validator's key list; a metamorphic pair (ignored field added/removed/retyped) must leave the three outputs byte-identical. Exploration.",
         "Ground truth is encoding/json itself; Dart/TS/SQL keys are read with the purpose-built parsers (internal/dartx, tsx, pgx).",
         "DESIGN.md §4 C09"),
 "C10": ("PBT (rapid): generated const-declaration styles vs reference enum table carried by the generator",
         "Enum-stress programs (every declaration style of the quantifier, sub-packages, same names in two packages) are analysed and every observable named basic type is compared with the expected member table (names, exact values, trailing comments, opt-outs) and both directions of the iota flag. Exploration.",
         "Expected values are computed by the synthesiser from the iota form it wrote, not by go/types; only types reachable from the analysed file are observable.",
         "DESIGN.md §4 C10"),
 "C11": ("PBT (rapid): generated interfaces/implementers vs membership computed from rendered method sets (own model of Go method-set rules)",
         "Union-stress programs (near misses, foreign implementers, embedded interfaces, zero-method and memberless interfaces, aliases) are analysed; Union.Members and Struct.Implements of every node reachable by following links are compared with the model; a memberless interface that is reached must be refused. Exploration.",
         "The oracle is a hand-written model of value method sets (promotion through embedded structs, shadowing, package-qualified unexported names), independent of types.Implements.",
         "DESIGN.md §4 C11"),
 "C12": ("PBT (rapid): independent go/types walk as reference for closure, faithfulness, link consistency, termination and source order",
         "Programs with recursion, aliases, generics, sub-package and std types are analysed; an independent walk over go/types decides closure of Analysis.Types, kind/length/key/element of every node, Type() identity modulo predefined time types, every link, termination (write-ahead case + fresh-process confirmation for fatal stack overflows) and source order. Exploration.",
         "go/types is the ground truth for the Go side; union members come from the Spec model.",
         "DESIGN.md §4 C12"),
 "C13": ("PBT (rapid): generated route files vs the route table carried by the generator, field by field, under generated prefix filters",
         "Route files in the documented idiom (all handler forms, folded path expressions, every contract statement form, decoys) are extracted by the real ParseEcho and compared with the expected endpoint list: count, order, verb, URL, handler name, input / return types, blob flag, query parameters with resolved types, form values, file, JSON field and its resolved type; with and without prefix filters. Exploration.",
         "Only the idiom the extractor documents is generated (assignments and a final return); types are compared through their go/types string.",
         "DESIGN.md §4 C13"),
 "C14": ("PBT (rapid): generated clients parsed (internal/tsx), type-erased and executed under Node against a recording Axios/FormData stand-in; recorded request vs expected request",
         "Endpoint lists extracted from generated route files (and edited directly) are turned into the Axios client; the client must parse, declare every type it mentions exactly once, and every method, called with generated arguments under Node, must issue exactly the expected request (verb, URL, body kind and content, query parameters as strings, headers, responseType) and return the expected value. Exploration.",
         "axios is a recording stand-in; Node v20 judges JavaScript syntax; TypeScript syntax by internal/tsx.",
         "DESIGN.md §4 C14"),
 "C15": ("PBT (rapid): generated programs compiled with the real randdata output; every rand<T>() executed repeatedly, results walked by reflection against the Spec's enum/union tables; JSON round trip",
         "Every generated random function of every generated program is called 40 times under a reduced maximal stack; results must be well-formed (exported enum constants, non-nil union members, populated containers, skipped fields zero), vary when the type admits more than one value, and survive the JSON round trip; a dead child (stack overflow) is a verdict. Exploration.",
         "Termination is observed, not proved: runaway recursion shows up as a fatal stack overflow within the reduced stack; 'admits more than one value' is decided conservatively by reflection.",
         "DESIGN.md §4 C15"),
 "C16": ("PBT (rapid): reference expander written from the statement vs the constraint section and the generated custom-query functions",
         "Model files with every kind of comment directive (placeholders of int and string enums, table-name words and look-alikes, REFERENCES, guards, select keys, custom queries with repeated placeholders, grouped declarations) are generated; expected statements from a reference expander are compared textually (comments and white space normalised) with the SQL output, and the generated Go custom-query functions are parsed and compared (parameter list, types, numbered SQL). Exploration.",
         "Statements are compared after removing SQL block comments and collapsing white space; integer constants are written in decimal.",
         "DESIGN.md §4 C16"),
 "C17": ("PBT (rapid): generated directory layouts and file sets through the real loader (go list); validity predicate on packages and common root; error cases",
         "Layouts with sibling directories sharing name prefixes, nested packages, duplicates, relative and absolute paths are loaded with the real analysis.LoadSources: one type-checked package per file in order, the expected import path, a root that exists and is a path-component ancestor of every file; missing files, non-Go files and type errors must give an error, never a panic. Exploration.",
         "Uses the real loader, no stand-in.",
         "DESIGN.md §4 C17"),
 "C18": ("PBT (rapid): hostile program generator, recovered panic classified runtime.Error vs diagnostic; worker death detected through a write-ahead case",
         "Hostile-profile programs (legal unusual spellings + unsupported forms in every position, plus sql-profile model files) go through analysis and seven generator stages under recover; a runtime.Error or a dead worker is a violation, any other panic value a diagnostic. Exploration.",
         "A panic value implementing runtime.Error is a crash, anything else is an explicit diagnostic; typescript/api is exercised by C13/C14.",
         "DESIGN.md §4 C18"),
 "C20": ("PBT (rapid) over schedules and environments: child process of the race-instrumented binary per schedule; invocation log of recording stand-in tools as oracle",
         "1..64 goroutines issue format requests on one shared Formatters in environments where each tool is installed, missing, unusable or failing; every schedule runs in a child process built with -race; a race report or a crash is a violation; the log of the stand-ins decides probe-at-most-once, one run per request, untouched file / nil when absent, error when failing. Exploration (the weakest fit of the family: interleavings are sampled, not controlled).",
         "The Go scheduler is not controlled; the race detector's happens-before analysis compensates for accesses that do execute; probes of missing dart/npx/pg_format leave no trace and are not counted.",
         "DESIGN.md §4 C20"),
 "C19": ("PBT (rapid) + exhaustive small scope: reference implementation / validity predicate / permutation metamorphic relation",
         "Generated declaration lists (random up to length 200 with heavy ID collisions, and every list up to length 5 over a 3-ID alphabet with all permutations) are assembled by the real WriteDeclarations and compared with a ten-line reference and a two-sided validity predicate; permutation invariance is a metamorphic check. Exploration: holds on everything generated, exhaustive only inside the small scope.",
         "Trusts only the Go toolchain; where the statement leaves freedom (same ID with both priorities, same ID with different contents) every reading is accepted.",
         "DESIGN.md §4 C19"),
}

# properties not (yet) claimed -> reason
NOT_APPLICABLE = {
}

ALL = ["C%02d" % i for i in range(1, 21)]

def main():
    checks = []
    for pid in ALL:
        if pid not in CHECKS:
            continue
        tech, text, note, ref = CHECKS[pid]
        checks.append({
            "property_id": pid,
            "quick_cmd": "./check %s quick" % pid,
            "thorough_cmd": "./check %s thorough" % pid,
            "evidence_file": "evidence/%s.json" % pid,
            "replay_cmd_template": "./check %s quick --replay {path}" % pid,
            "engine": "rapid-props",
            "level_claimed": {"category": "exploration", "text": text, "design_ref": ref},
            "level_note": note,
            "technique": tech,
        })
    na = []
    for pid in ALL:
        if pid in CHECKS:
            continue
        na.append({"property_id": pid, "reason": NOT_APPLICABLE.get(pid, "check not built yet in this session (planned, see DESIGN.md §4); nothing is claimed for it")})
    m = {
        "version": 1,
        "setup_cmd": "./check --setup",
        "hooks": {
            "guard": "verif",
            "enable": "no hooks: every observation point is an exported API of gomacro; checks build /repo's working tree through a replace directive in /verif/go.mod",
            "baseline_off_cmd": "cd /repo && go test -vet=off -count=1 -timeout 25m ./...",
            "source_commits": [],
            "add_only": True,
        },
        "engines": [
            {"name": "rapid-props", "path": "props/ internal/ cmd/vcheck", "serves_properties": [c["property_id"] for c in checks],
             "kind_free_text": "pgregory.net/rapid property tests sharded over processes by cmd/vcheck; generators in internal/synth, oracles per property in props/"},
        ],
        "checks": checks,
        "not_applicable": na,
        "notes": "All checks are property-based tests (rapid) with explicit oracles; see DESIGN.md. Exit 0 held / 1 VIOLATION / 2 inconclusive (harness limitation).",
    }
    with open(os.path.join(ROOT, "MANIFEST.json"), "w") as f:
        json.dump(m, f, indent=1)
        f.write("\n")

if __name__ == "__main__":
    main()
