#!/usr/bin/env python3
"""Regenerates /verif/MANIFEST.json from the table below (kept as a script so
that the manifest stays valid and consistent while checks are added)."""
import json, os, sys

ROOT = os.path.dirname(os.path.dirname(os.path.abspath(__file__)))

# id -> (technique, level text, level note, design ref)
CHECKS = {
 "C19": ("PBT (rapid) + exhaustive small scope: reference implementation / validity predicate / permutation metamorphic relation",
         "Generated declaration lists (random up to length 200 with heavy ID collisions, and every list up to length 5 over a 3-ID alphabet with all permutations) are assembled by the real WriteDeclarations and compared with a ten-line reference and a two-sided validity predicate; permutation invariance is a metamorphic check. Exploration: holds on everything generated, exhaustive only inside the small scope.",
         "Trusts only the Go toolchain; where the statement leaves freedom (same ID with both priorities, same ID with different contents) every reading is accepted.",
         "DESIGN.md §4 C19"),
}

# properties not (yet) claimed -> reason
NOT_APPLICABLE = {
}

ALL = ["C%02d" % i for i in range(1, 21)]

def main():
    checks = []
    for pid in ALL:
        if pid not in CHECKS:
            continue
        tech, text, note, ref = CHECKS[pid]
        checks.append({
            "property_id": pid,
            "quick_cmd": "./check %s quick" % pid,
            "thorough_cmd": "./check %s thorough" % pid,
            "evidence_file": "evidence/%s.json" % pid,
            "replay_cmd_template": "./check %s quick --replay {path}" % pid,
            "engine": "rapid-props",
            "level_claimed": {"category": "exploration", "text": text, "design_ref": ref},
            "level_note": note,
            "technique": tech,
        })
    na = []
    for pid in ALL:
        if pid in CHECKS:
            continue
        na.append({"property_id": pid, "reason": NOT_APPLICABLE.get(pid, "check not built yet in this session (planned, see DESIGN.md §4); nothing is claimed for it")})
    m = {
        "version": 1,
        "setup_cmd": "./check --setup",
        "hooks": {
            "guard": "verif",
            "enable": "no hooks: every observation point is an exported API of gomacro; checks build /repo's working tree through a replace directive in /verif/go.mod",
            "baseline_off_cmd": "cd /repo && go test -vet=off -count=1 -timeout 25m ./...",
            "source_commits": [],
            "add_only": True,
        },
        "engines": [
            {"name": "rapid-props", "path": "props/ internal/ cmd/vcheck", "serves_properties": [c["property_id"] for c in checks],
             "kind_free_text": "pgregory.net/rapid property tests sharded over processes by cmd/vcheck; generators in internal/synth, oracles per property in props/"},
        ],
        "checks": checks,
        "not_applicable": na,
        "notes": "All checks are property-based tests (rapid) with explicit oracles; see DESIGN.md. Exit 0 held / 1 VIOLATION / 2 inconclusive (harness limitation).",
    }
    with open(os.path.join(ROOT, "MANIFEST.json"), "w") as f:
        json.dump(m, f, indent=1)
        f.write("\n")

if __name__ == "__main__":
    main()
