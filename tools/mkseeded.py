#!/usr/bin/env python3
"""Stores the confirmed seeded changes under /verif/seeded/<id>/ and prints the catch table.

usage: tools/mkseeded.py <src-dir> <verify-logs-glob> <first-run-log|-> <final-run-log> [suite-rerun-log]

<src-dir>/<id>/ holds patch.diff, meta.json and demo/ as written by the sub-agent;
the verify logs hold the lines printed by the confirmation script
  "<id> clean_demo_rc=0 build_rc=0 patched_demo_rc=1 suite=[36 1 [...]]";
the run logs hold the lines printed by tools/seedrun.sh
  "<id> <PROP> quick seed=1 rc=<n> :: ...".
"""
import glob, json, os, re, shutil, sys

src, vglob, first, final = sys.argv[1:5]
suite_rerun = sys.argv[5] if len(sys.argv) > 5 else None
root = os.path.dirname(os.path.dirname(os.path.abspath(__file__)))

verify = {}
for f in glob.glob(vglob):
    for l in open(f):
        m = re.match(r"(C\d\d-\d+) clean_demo_rc=(\d+) build_rc=(\d+) patched_demo_rc=(\d+) suite=\[(.*)\]$", l.strip())
        if m:
            verify[m.group(1)] = {"demo_on_unchanged_tree": "passes" if m.group(2) == "0" else "FAILS", "builds_with_patch": m.group(3) == "0",
                                  "demo_with_patch": "fails" if m.group(4) != "0" else "PASSES", "repository_suite_with_patch": m.group(5)}
if suite_rerun and os.path.exists(suite_rerun):
    for l in open(suite_rerun):
        m = re.match(r"(C\d\d-\d+) suite=\[(.*)\]$", l.strip())
        if m and m.group(1) in verify:
            verify[m.group(1)]["repository_suite_with_patch_rerun_sequentially"] = m.group(2)


# manual re-runs of a demonstration with the author's exact command ("<id> clean=pass patched=fail")
manual = os.environ.get("SEEDED_MANUAL")
if manual and os.path.exists(manual):
    for l in open(manual):
        m = re.match(r"(C\d\d-\d+) clean=(\w+) patched=(\w+)", l.strip())
        if m and m.group(1) in verify:
            verify[m.group(1)]["demo_on_unchanged_tree"] = "passes" if m.group(2) == "pass" else "FAILS"
            verify[m.group(1)]["demo_with_patch"] = "fails" if m.group(3) == "fail" else "PASSES"
            verify[m.group(1)]["note"] = "the generic confirmation script did not fit this demonstration's layout; it was re-run with the author's exact command"


def runs(path):
    out = {}
    if path == "-" or not os.path.exists(path):
        return out
    lines = open(path).read().split("\n")
    for i, l in enumerate(lines):
        m = re.match(r"(C\d\d-\d+) (C\d\d) (\w+) seed=(\d+) rc=(\d+) :: (.*)$", l)
        if m:
            detail = [x.strip() for x in lines[i + 1:i + 3] if x.strip() and not re.match(r"C\d\d-\d+ ", x)]
            out[m.group(1)] = {"rc": int(m.group(5)), "summary": m.group(6).strip(), "detail": detail}
    return out


r1, r2 = runs(first), runs(final)

NOTES = {
    "C06-10": "needs two imported packages with one name in the Dart-facing profile; C06 generates same-named packages for the analysis-only properties only (its Dart file-name model is keyed by package path and has not been extended to aliased imports): the shape is never generated (DESIGN.md 8.6, round 6)",
    "C14-10": "needs a time-typed endpoint type (a user type called Time over time.Time); the route type pool has no time types (the Node harness would need values for them): the shape is never generated (DESIGN.md 8.6, round 6)",
    "C05-6": "needs a column named like an SQL reserved word (Order, Group, User, ...): on the unchanged tree such a column already gives a schema PostgreSQL refuses, so these names are a documented precondition of the property and are never generated (DESIGN.md 3.1, 8.6)",
    "C15-5": "needs an imported package named like the analysed one (or two imported packages with one name); for a property that compiles the generated Go this is outside the domain: the import-fixing pass resolves the package-name qualifier to the package itself on the unchanged tree as well (import cycle). The same change is caught by C10 (tools/seedrun.sh seeded/C15-5 C10 quick 1: VIOLATION) and C11, where only the analysis is observed",
}
verdict = {0: "MISSED", 1: "caught (VIOLATION)", 2: "inconclusive (exit 2)", 3: "patch did not apply"}
rows = []
for d in sorted(glob.glob(os.path.join(src, "C*-*"))):
    sid = os.path.basename(d)
    meta = json.load(open(os.path.join(d, "meta.json")))
    dst = os.path.join(root, "seeded", sid)
    if os.path.exists(dst):
        shutil.rmtree(dst)
    os.makedirs(dst)
    shutil.copy(os.path.join(d, "patch.diff"), os.path.join(dst, "patch.diff"))
    if os.path.exists(os.path.join(d, "patch.orig.diff")):
        shutil.copy(os.path.join(d, "patch.orig.diff"), os.path.join(dst, "patch.orig.diff"))
    if os.path.isdir(os.path.join(d, "demo")):
        shutil.copytree(os.path.join(d, "demo"), os.path.join(dst, "demo"))
    out = {
        "id": sid,
        "property": meta["property"],
        "summary": meta.get("summary", ""),
        "files": meta.get("files", []),
        "needs_to_manifest": meta.get("needs_to_manifest", ""),
        "author": "fresh sub-agent given only the property text and a scratch worktree of /repo",
        "demonstration": {
            "how_the_author_ran_it": meta.get("demo_run", ""),
            "fails_with": meta.get("demo_fails_with", ""),
            "how_to_run_here": "git -C /repo worktree add --detach /tmp/wt HEAD; cd /tmp/wt; git apply /verif/seeded/%s/patch.diff; mkdir zzdemo; cp -r /verif/seeded/%s/demo/* zzdemo/; go test -vet=off -count=1 ./zzdemo/...   (a demo/zzdemo directory is copied as is; a demo with its own go.mod is run in place with `go test [-race] ./...` after pointing its `replace github.com/benoitkugler/gomacro => ...` line at /tmp/wt; demo/run.sh <worktree>, when present, does all of it); git -C /repo worktree remove --force /tmp/wt" % (sid, sid),
        },
        "confirmed_by_me": verify.get(sid, {}),
        "checks_run": {
            "command": "tools/seedrun.sh <dir> %s quick 1   (scratch copy of /repo + git apply, then VERIF_REPO=<copy> ./check %s quick; the copy is deleted afterwards)" % (meta["property"], meta["property"]),
        },
    }
    if sid in r1:
        out["checks_run"]["first_run_before_strengthening"] = {"verdict": verdict.get(r1[sid]["rc"], str(r1[sid]["rc"])), "line": r1[sid]["summary"]}
    if sid in r2:
        out["checks_run"]["final_run"] = {"verdict": verdict.get(r2[sid]["rc"], str(r2[sid]["rc"])), "line": r2[sid]["summary"], "message": r2[sid]["detail"]}
    if sid in NOTES:
        out["checks_run"]["why_not_caught"] = NOTES[sid]
    json.dump(out, open(os.path.join(dst, "meta.json"), "w"), indent=1)
    rows.append((sid, meta["property"], meta.get("summary", "").split(". ")[0][:150], verdict.get(r1.get(sid, {}).get("rc"), "-"), verdict.get(r2.get(sid, {}).get("rc"), "-")))

print("| id | change (first sentence of the author's summary) | first quick run | final quick run |")
print("|---|---|---|---|")
for sid, prop, summ, a, b in rows:
    print("| %s | %s | %s | %s |" % (sid, summ.replace("|", "/"), a, b))
