#!/bin/sh
# Rebuilds /verif/seeded from the three rounds of sub-agent output kept under /tmp (only meaningful in the
# session that produced them) and prints the catch tables that DESIGN.md §8.6 embeds.
cd /verif
export SEEDED_MANUAL=/tmp/verify_manual.log
echo "#### Round 1"; python3 tools/mkseeded.py /tmp/seeded '/tmp/verify_wt*.log' /tmp/seedrun_all.log /tmp/seedrunG1.log /tmp/suite_reruns.log
echo; echo "#### Round 2"; python3 tools/mkseeded.py /tmp/seeded2 '/tmp/verify2_wt*.log' /tmp/seedrun2_all.log /tmp/seedrunG2.log /tmp/suite_reruns.log
echo; echo "#### Round 3"; python3 tools/mkseeded.py /tmp/seeded3 '/tmp/verify3_wt*.log' /tmp/seedrun3_all.log /tmp/seedrunG3.log /tmp/suite_reruns.log
echo; echo "#### Round 4"; python3 tools/mkseeded.py /tmp/seeded4 '/tmp/verify4_wt*.log' /tmp/seedrun4_all.log /tmp/seedrunG4.log /tmp/suite_reruns.log
