module verif

go 1.23.0

require (
	github.com/benoitkugler/gomacro v0.0.0
	golang.org/x/tools v0.31.0
	pgregory.net/rapid v1.3.0
)

require (
	golang.org/x/mod v0.24.0 // indirect
	golang.org/x/sync v0.12.0 // indirect
)

replace github.com/benoitkugler/gomacro => /repo
