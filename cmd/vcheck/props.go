package main

func init() {
	reg("C06", propCfg{Pkg: "props", Quick: tierCfg{12, 1500}, Thorough: tierCfg{14, 25000}})
	reg("C14", propCfg{Pkg: "props", Quick: tierCfg{12, 40}, Thorough: tierCfg{14, 800}})
	reg("C13", propCfg{Pkg: "props", Quick: tierCfg{12, 1200}, Thorough: tierCfg{14, 12000}})
	reg("C07", propCfg{Pkg: "props", Quick: tierCfg{12, 120}, Thorough: tierCfg{14, 900}})
	reg("C20", propCfg{Pkg: "props", Race: true, Quick: tierCfg{12, 25}, Thorough: tierCfg{14, 1200}})
	reg("C17", propCfg{Pkg: "props", Quick: tierCfg{12, 60}, Thorough: tierCfg{14, 500}})
	reg("C05", propCfg{Pkg: "props", Quick: tierCfg{12, 14}, Thorough: tierCfg{14, 100}})
	reg("C04", propCfg{Pkg: "props", Quick: tierCfg{12, 16}, Thorough: tierCfg{14, 150}})
	reg("C16", propCfg{Pkg: "props", Quick: tierCfg{12, 2000}, Thorough: tierCfg{14, 30000}})
	reg("C08", propCfg{Pkg: "props", Quick: tierCfg{12, 2000}, Thorough: tierCfg{14, 30000}})
	reg("C15", propCfg{Pkg: "props", Quick: tierCfg{12, 16}, Thorough: tierCfg{14, 150}})
	reg("C09", propCfg{Pkg: "props", Quick: tierCfg{12, 16}, Thorough: tierCfg{14, 150}})
	reg("C03", propCfg{Pkg: "props", Quick: tierCfg{12, 16}, Thorough: tierCfg{14, 150}})
	reg("C02", propCfg{Pkg: "props", Quick: tierCfg{12, 16}, Thorough: tierCfg{14, 150}})
	reg("C10", propCfg{Pkg: "props", Quick: tierCfg{12, 3000}, Thorough: tierCfg{14, 30000}})
	reg("C11", propCfg{Pkg: "props", Quick: tierCfg{12, 3000}, Thorough: tierCfg{14, 30000}})
	reg("C12", propCfg{Pkg: "props", Quick: tierCfg{12, 3000}, Thorough: tierCfg{14, 30000}})
	reg("C18", propCfg{Pkg: "props", Quick: tierCfg{12, 2000}, Thorough: tierCfg{14, 30000}})
	reg("C01", propCfg{Pkg: "props", Quick: tierCfg{12, 800}, Thorough: tierCfg{14, 20000}})
	reg("C19", propCfg{Pkg: "props", Quick: tierCfg{4, 5000}, Thorough: tierCfg{14, 150000}})
}
