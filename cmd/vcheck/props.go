package main

func init() {
	reg("C19", propCfg{Pkg: "props", Quick: tierCfg{4, 5000}, Thorough: tierCfg{14, 150000}})
}
