package main

func init() {
	reg("C18", propCfg{Pkg: "props", Quick: tierCfg{12, 700}, Thorough: tierCfg{14, 30000}, MemGB: 8})
	reg("C01", propCfg{Pkg: "props", Quick: tierCfg{12, 500}, Thorough: tierCfg{14, 20000}})
	reg("C19", propCfg{Pkg: "props", Quick: tierCfg{4, 5000}, Thorough: tierCfg{14, 150000}})
}
