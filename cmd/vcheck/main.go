// Command vcheck is the driver behind ./check: it builds the property's test
// binary against the current /repo working tree, fans the rapid campaign out
// over shard processes, merges their reports into evidence/<ID>.json and maps
// the outcome to the exit code contract (0 held, 1 VIOLATION, 2 inconclusive).
package main

import (
	"encoding/json"
	"fmt"
	"os"
	"os/exec"
	"path/filepath"
	"sort"
	"strconv"
	"strings"
	"sync"
	"syscall"
	"time"

	"verif/internal/child"
	"verif/internal/h"
)

type tierCfg struct {
	Shards int
	Checks int // rapid checks per shard
}

type propCfg struct {
	Pkg      string // test package directory under /verif
	Race     bool
	Quick    tierCfg
	Thorough tierCfg
	// TimeoutS is the per-shard timeout in seconds (0 = default)
	TimeoutQ, TimeoutT int
	MemGB              int // ulimit -v per shard, 0 = none
	Steps              int // -rapid.steps for state machines (0 = default)
}

var props = map[string]propCfg{}

func reg(id string, c propCfg) { props[id] = c }

const root = "/verif"

func env(extra ...string) []string {
	e := os.Environ()
	e = append(e, "GOFLAGS=-mod=mod", "GOPROXY=off", "GOSUMDB=off", "GOTOOLCHAIN=local", "GONOSUMDB=*", "GONOSUMCHECK=1")
	return append(e, extra...)
}

func fatal2(format string, a ...any) {
	fmt.Printf("INCONCLUSIVE: "+format+"\n", a...)
	os.Exit(2)
}

func build(id string, pc propCfg, work string) string {
	bin := filepath.Join(work, id+".test")
	args := []string{"test", "-c", "-o", bin}
	if alt := os.Getenv("VERIF_REPO"); alt != "" && alt != "/repo" {
		// sensitivity runs against a scratch copy of the repository
		mod, _ := os.ReadFile(filepath.Join(root, "go.mod"))
		alt, _ = filepath.Abs(alt)
		m := strings.Replace(string(mod), "=> /repo", "=> "+alt, 1)
		os.WriteFile(filepath.Join(work, "go.mod"), []byte(m), 0o644)
		sum, _ := os.ReadFile(filepath.Join(root, "go.sum"))
		os.WriteFile(filepath.Join(work, "go.sum"), sum, 0o644)
		args = append(args, "-modfile="+filepath.Join(work, "go.mod"))
	}
	if pc.Race {
		args = append(args, "-race")
	}
	args = append(args, "./"+pc.Pkg)
	cmd := exec.Command("go", args...)
	cmd.Dir = root
	cmd.Env = env()
	out, err := cmd.CombinedOutput()
	if err != nil {
		fmt.Printf("%s\n", out)
		fatal2("building the check against /repo failed: %v", err)
	}
	return bin
}

type shardResult struct {
	k      int
	report *h.ShardReport
	died   bool
	log    string
	exit   int
}

func runShard(bin, id string, pc propCfg, tier string, tc tierCfg, k int, seed int64, work string, replay string) shardResult {
	outDir := work
	rseed := 1 + ((seed*1000003 + int64(k)) & ((1 << 62) - 1))
	timeout := pc.TimeoutQ
	if tier == "thorough" {
		timeout = pc.TimeoutT
	}
	if timeout == 0 {
		if tier == "thorough" {
			timeout = 3000
		} else {
			timeout = 900
		}
	}
	shrink := "20s"
	if tier == "thorough" {
		shrink = "60s"
	}
	if s := os.Getenv("VERIF_SHRINK"); s != "" {
		shrink = s // sensitivity runs only need the verdict
	}
	args := []string{
		"-test.run", "^Test" + id + "$", "-test.timeout", fmt.Sprintf("%ds", timeout), "-test.count", "1",
		"-rapid.checks", strconv.Itoa(tc.Checks), "-rapid.seed", strconv.FormatInt(rseed, 10),
		"-rapid.nofailfile", "-rapid.shrinktime", shrink,
	}
	if pc.Steps > 0 {
		args = append(args, "-rapid.steps", strconv.Itoa(pc.Steps))
	}
	reportPath := filepath.Join(outDir, fmt.Sprintf("shard-%d.json", k))
	os.Remove(reportPath)
	var cmd *exec.Cmd
	if pc.MemGB > 0 {
		sh := fmt.Sprintf("ulimit -v %d; exec \"$0\" \"$@\"", pc.MemGB*1024*1024)
		cmd = exec.Command("/bin/sh", append([]string{"-c", sh, bin}, args...)...)
	} else {
		cmd = exec.Command(bin, args...)
	}
	cmd.Dir = filepath.Join(root, pc.Pkg)
	cmd.Env = env(
		"VERIF_TIER="+tier, "VERIF_SEED="+strconv.FormatInt(seed, 10),
		"VERIF_SHARD="+strconv.Itoa(k), "VERIF_SHARDS="+strconv.Itoa(tc.Shards),
		"VERIF_OUT="+outDir, "VERIF_ROOT="+root, "VERIF_REPLAY="+replay,
	)
	logPath := filepath.Join(outDir, fmt.Sprintf("shard-%d.log", k))
	lf, _ := os.Create(logPath)
	cmd.Stdout, cmd.Stderr = lf, lf
	err := cmd.Run()
	lf.Close()
	res := shardResult{k: k, log: logPath}
	if err != nil {
		if ee, ok := err.(*exec.ExitError); ok {
			res.exit = ee.ExitCode()
			if ws, ok := ee.Sys().(syscall.WaitStatus); ok && ws.Signaled() {
				res.exit = 128 + int(ws.Signal())
			}
		} else {
			res.exit = -1
		}
	}
	if b, err := os.ReadFile(reportPath); err == nil {
		var rep h.ShardReport
		if json.Unmarshal(b, &rep) == nil {
			res.report = &rep
		}
	}
	if res.report == nil || !res.report.Completed {
		res.died = true
	}
	return res
}

func tail(path string, n int) string {
	b, err := os.ReadFile(path)
	if err != nil {
		return ""
	}
	lines := strings.Split(strings.TrimRight(string(b), "\n"), "\n")
	if len(lines) > n {
		lines = lines[len(lines)-n:]
	}
	return strings.Join(lines, "\n")
}

func main() {
	args := os.Args[1:]
	if len(args) >= 1 && args[0] == "--setup" {
		setup()
		return
	}
	if len(args) < 2 {
		fmt.Println("usage: check <ID> <quick|thorough> [--replay <file>]")
		os.Exit(2)
	}
	id, tier := args[0], args[1]
	replay := ""
	for i := 2; i < len(args); i++ {
		if args[i] == "--replay" && i+1 < len(args) {
			replay, _ = filepath.Abs(args[i+1])
			i++
		}
	}
	if t := os.Getenv("VERIF_TIER"); t != "" && tier == "" {
		tier = t
	}
	pc, ok := props[id]
	if !ok {
		fatal2("unknown property %s", id)
	}
	if tier != "quick" && tier != "thorough" {
		tier = "quick"
	}
	seed := int64(1)
	if v := os.Getenv("VERIF_SEED"); v != "" {
		if n, err := strconv.ParseInt(v, 10, 64); err == nil {
			seed = n
		}
	}
	start := time.Now()
	work, err := os.MkdirTemp("", "verif-"+id+"-")
	if err != nil {
		fatal2("mkdtemp: %v", err)
	}
	defer os.RemoveAll(work)
	housekeeping()
	os.MkdirAll(filepath.Join(root, "evidence"), 0o755)
	os.MkdirAll(filepath.Join(root, "replays"), 0o755)

	bin := build(id, pc, work)

	tc := pc.Quick
	if tier == "thorough" {
		tc = pc.Thorough
	}
	if replay != "" {
		tc = tierCfg{Shards: 1, Checks: 1}
	}
	maxPar := 14
	results := make([]shardResult, tc.Shards)
	var wg sync.WaitGroup
	sem := make(chan struct{}, maxPar)
	for k := 0; k < tc.Shards; k++ {
		wg.Add(1)
		go func(k int) {
			defer wg.Done()
			sem <- struct{}{}
			defer func() { <-sem }()
			results[k] = runShard(bin, id, pc, tier, tc, k, seed, work, replay)
		}(k)
	}
	wg.Wait()
	// a worker that died without a verdict (out of memory, killed) is run once more before anything is concluded
	if replay == "" {
		for k := range results {
			if results[k].died {
				cur := filepath.Join(work, fmt.Sprintf("current-%d.json", k))
				if _, err := os.Stat(cur); err == nil {
					continue // a write-ahead case exists: handled below (confirmation in a fresh process)
				}
				results[k] = runShard(bin, id, pc, tier, tc, k, seed, work, replay)
			}
		}
	}

	// ---- merge ---------------------------------------------------------------
	var (
		violations   []h.Failure
		inconclusive []h.Failure
		known        []string
		hashes       = map[string]bool{}
		classes      = map[string]int{}
		excluded     = map[string]int{}
		extra        = map[string]int{}
		samples      []any
		generated    int
		refused      int
		rule         string
		assumes      []string
		knownGone    []string
		fixedOK      []string
		exhaustive   bool
	)
	for _, res := range results {
		if res.report != nil {
			rep := res.report
			generated += rep.Generated
			refused += rep.Refused
			for _, hsh := range rep.Hashes {
				hashes[hsh] = true
			}
			for k, v := range rep.Classes {
				classes[k] += v
			}
			for k, v := range rep.Excluded {
				excluded[k] += v
			}
			for k, v := range rep.Extra {
				extra[k] += v
			}
			if len(samples) < 5 {
				for _, s := range rep.Samples {
					if len(samples) < 5 {
						samples = append(samples, s)
					}
				}
			}
			if rep.Rule != "" {
				rule, assumes = rep.Rule, rep.Assumes
			}
			known = append(known, rep.Known...)
			knownGone = append(knownGone, rep.KnownGone...)
			fixedOK = append(fixedOK, rep.FixedOK...)
			exhaustive = exhaustive || rep.Exhaustive
			for _, f := range rep.Failures {
				if f.Kind == "violation" {
					violations = append(violations, f)
				} else {
					inconclusive = append(inconclusive, f)
				}
			}
		}
		if res.died {
			// the worker died before finishing: is there a write-ahead case?
			cur := filepath.Join(work, fmt.Sprintf("current-%d.json", res.k))
			if _, err := os.Stat(cur); err == nil && replay == "" {
				b, _ := os.ReadFile(cur)
				sumName := fmt.Sprintf("%s-crash-%d-%d.json", id, seed, res.k)
				promoted := filepath.Join(root, "replays", sumName)
				os.WriteFile(promoted, b, 0o644)
				// confirm in a fresh process
				sub := filepath.Join(work, fmt.Sprintf("confirm-%d", res.k))
				os.MkdirAll(sub, 0o755)
				r2 := runShard(bin, id, pc, tier, tierCfg{Shards: 1, Checks: 1}, 0, seed, sub, promoted)
				switch {
				case r2.died:
					violations = append(violations, h.Failure{Kind: "violation", Replay: promoted,
						Msg: "worker process died (fatal error) on this case, twice:\n" + tail(r2.log, 6)})
				case r2.report != nil && len(r2.report.Failures) > 0:
					for _, f := range r2.report.Failures {
						if f.Kind == "violation" {
							violations = append(violations, f)
						} else {
							inconclusive = append(inconclusive, f)
						}
					}
				default:
					// the last case passes in a fresh process: the death was not caused by the case (resources); run the shard again
					os.Remove(cur)
					r3 := runShard(bin, id, pc, tier, tc, res.k, seed, work, "")
					if r3.died || r3.report == nil {
						inconclusive = append(inconclusive, h.Failure{Kind: "inconclusive", Replay: promoted,
							Msg: fmt.Sprintf("shard %d died twice (exit %d) but its last case passes in a fresh process:\n%s", res.k, res.exit, tail(res.log, 8))})
					} else {
						rep := r3.report
						generated += rep.Generated
						refused += rep.Refused
						for _, hsh := range rep.Hashes {
							hashes[hsh] = true
						}
						for _, f := range rep.Failures {
							if f.Kind == "violation" {
								violations = append(violations, f)
							} else {
								inconclusive = append(inconclusive, f)
							}
						}
					}
				}
			} else if replay != "" && res.report == nil {
				violations = append(violations, h.Failure{Kind: "violation", Replay: replay,
					Msg: "worker process died (fatal error) on the replayed case:\n" + tail(res.log, 6)})
			} else {
				inconclusive = append(inconclusive, h.Failure{Kind: "inconclusive",
					Msg: fmt.Sprintf("shard %d did not complete (exit %d):\n%s", res.k, res.exit, tail(res.log, 12))})
			}
		}
	}

	// ---- evidence -------------------------------------------------------------
	if replay == "" {
		distinct := len(hashes)
		evals := generated + extra["extra_evaluations"]
		if samples == nil {
			samples = []any{}
		}
		cov := map[string]any{
			"evaluations":                   evals,
			"distinct_nontrivial":           distinct,
			"rule":                          rule,
			"samples":                       samples,
			"classes":                       classes,
			"excluded_by_construction":      excluded,
			"counters":                      extra,
			"refused_with_diagnostic":       refused,
			"known_findings_reproduced":     nz(known),
			"known_findings_not_reproduced": nz(knownGone),
			"fixed_findings_regression_ok":  nz(fixedOK),
			"shards":                        tc.Shards,
			"rapid_checks_per_shard":        tc.Checks,
			"inconclusive":                  len(inconclusive),
		}
		if exhaustive {
			cov["exhaustive_part"] = true
		}
		ev := map[string]any{
			"property_id": id,
			"tier":        tier,
			"seed":        seed,
			"level":       "exploration",
			"coverage":    cov,
			"assumptions": assumes,
			"wall_s":      time.Since(start).Seconds(),
			"violations":  len(violations),
		}
		b, _ := json.MarshalIndent(ev, "", " ")
		os.WriteFile(filepath.Join(root, "evidence", id+".json"), append(b, '\n'), 0o644)
		fmt.Printf("%s %s seed=%d: %d cases generated, %d distinct non-trivial, %d refused, %.1fs\n",
			id, tier, seed, evals, distinct, refused, time.Since(start).Seconds())
	}

	if replay != "" && len(violations) == 0 && len(inconclusive) == 0 {
		fmt.Printf("replay %s: property %s held on the replayed case\n", replay, id)
	}
	sort.Strings(known)
	for _, k := range known {
		fmt.Println(k)
	}
	seen := map[string]bool{}
	for i, v := range violations {
		if i >= 8 {
			break
		}
		if seen[v.Replay] {
			continue
		}
		seen[v.Replay] = true
		fmt.Printf("VIOLATION property=%s replay=%s\n", id, v.Replay)
		fmt.Printf("  %s\n", strings.ReplaceAll(v.Msg, "\n", "\n  "))
	}
	if len(violations) > 0 {
		os.RemoveAll(work) // os.Exit does not run the deferred clean-up
		os.Exit(1)
	}
	if len(inconclusive) > 0 {
		for i, v := range inconclusive {
			if i >= 5 {
				break
			}
			fmt.Printf("INCONCLUSIVE property=%s replay=%s\n  %s\n", id, v.Replay, strings.ReplaceAll(v.Msg, "\n", "\n  "))
		}
		os.RemoveAll(work)
		os.Exit(2)
	}
}

// housekeeping bounds what the checks leave on disk: the dedicated build cache of the child programs
// (every synthesised program is a new package: Go only trims cache entries after five days) and work
// directories of runs that were killed.
func housekeeping() {
	cache := child.GoCache()
	// the cache has 256 two-hex-digit sub-directories of similar size: measure one
	var sample int64
	filepath.Walk(filepath.Join(cache, "00"), func(_ string, info os.FileInfo, err error) error {
		if err == nil && !info.IsDir() {
			sample += info.Size()
		}
		return nil
	})
	if sample*256 > 12<<30 {
		// concurrent checks only lose cached objects: the go command rebuilds what is missing
		os.RemoveAll(cache)
	}
	old := time.Now().Add(-6 * time.Hour)
	for _, pat := range []string{"verif-C??-*", "verif-scratch-*"} {
		dirs, _ := filepath.Glob(filepath.Join(os.TempDir(), pat))
		for _, d := range dirs {
			if st, err := os.Stat(d); err == nil && st.IsDir() && st.ModTime().Before(old) {
				os.RemoveAll(d)
			}
		}
	}
}

func nz(s []string) []string {
	if s == nil {
		return []string{}
	}
	return s
}

func setup() {
	// warm the build caches: every test binary once
	pkgs := map[string]bool{}
	for _, pc := range props {
		pkgs[pc.Pkg] = pkgs[pc.Pkg] || pc.Race
	}
	for pkg, race := range pkgs {
		for _, r := range []bool{false, true} {
			if r && !race {
				continue
			}
			args := []string{"test", "-c", "-o", os.DevNull}
			if r {
				args = append(args, "-race")
			}
			args = append(args, "./"+pkg)
			cmd := exec.Command("go", args...)
			cmd.Dir = root
			cmd.Env = env()
			if out, err := cmd.CombinedOutput(); err != nil {
				fmt.Printf("setup: building %s failed: %v\n%s\n", pkg, err, out)
				os.Exit(1)
			}
		}
	}
	fmt.Println("setup ok")
}
