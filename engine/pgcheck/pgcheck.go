// Package pgcheck exposes the PL/pgSQL validator interpreter of internal/pgx to
// child programs (which cannot import internal packages): it evaluates the
// generated jsonb validators for the CHECK constraints of the mini engine.
package pgcheck

import (
	"fmt"

	"verif/internal/pgx"
)

// New parses the DDL script and returns a function usable with minipg's SetCheckFunc.
func New(ddl string) (func(fn string, jsonText []byte) (bool, error), error) {
	sc, err := pgx.ParseScript(ddl)
	if err != nil {
		return nil, err
	}
	return func(fn string, jsonText []byte) (bool, error) {
		if jsonText == nil {
			return true, nil // CHECK passes on NULL
		}
		doc, err := pgx.ParseJSON(string(jsonText))
		if err != nil {
			return false, fmt.Errorf("invalid JSON: %v", err)
		}
		v, err := sc.Call(fn, doc)
		if err != nil {
			return false, err
		}
		switch b := v.(type) {
		case nil:
			return true, nil
		case bool:
			return b, nil
		}
		return false, fmt.Errorf("validator %s returned %T", fn, v)
	}, nil
}
