package e2e

import (
	"database/sql"
	"encoding/json"
	"errors"
	"reflect"
	"sort"
	"testing"
	"time"

	"verif/engine/minipg"
)

func class(err error) string {
	var e *minipg.Error
	if errors.As(err, &e) {
		return e.Class
	}
	return ""
}

func sample(title string) Question {
	return Question{
		Page:        Page{Title: title, Weights: map[string]float64{"a": 1.5}},
		Public:      true,
		IdTeacher:   7,
		Description: "it's a \"question\", with \\ and é",
		Fixed:       FixedArray{1, -2, 3},
		Strings:     Strings{"a b", `c"d`, "", "NULL", "{x}"},
		Bools:       Bools{true, false},
		Cp:          Composite{A: -4, B: 200, C: 6},
		Deadline:    Time(time.Date(2024, 2, 29, 10, 11, 12, 0, time.UTC)),
		DeadlineOpt: sql.NullTime{Time: time.Date(2025, 1, 1, 0, 0, 0, 0, time.UTC), Valid: true},
	}
}

func TestGeneratedCRUD(t *testing.T) {
	db, eng, err := minipg.Open(DDL)
	if err != nil {
		t.Fatal(err)
	}
	defer db.Close()
	if got := eng.Ignored(); len(got) != 1 || got[0] != "CREATE UNIQUE INDEX index_name ON question_tags (Tag)" {
		t.Errorf("Ignored() = %q", got)
	}
	eng.SetCheckFunc(func(fn string, text []byte) (bool, error) {
		if fn != "gomacro_validate_json_e2e_Page" {
			t.Errorf("unexpected check function %s", fn)
		}
		var obj map[string]json.RawMessage
		if json.Unmarshal(text, &obj) != nil || obj == nil {
			return false, nil
		}
		for k := range obj {
			if k != "Title" && k != "Weights" {
				return false, nil
			}
		}
		return true, nil
	})

	ex, err := Exercice{Title: "ex"}.Insert(db)
	if err != nil || ex.Id != 1 || ex.Title != "ex" {
		t.Fatalf("%+v %v", ex, err)
	}

	// Insert / Select round trip
	in := sample("q1")
	in.NeedExercice = sql.NullInt64{Int64: ex.Id, Valid: true}
	q1, err := in.Insert(db)
	if err != nil {
		t.Fatal(err)
	}
	in.Id = 1
	if !reflect.DeepEqual(q1, in) {
		t.Errorf("Insert returned\n%+v\nwant\n%+v", q1, in)
	}
	got, err := SelectQuestion(db, 1)
	if err != nil || !reflect.DeepEqual(got, in) {
		t.Errorf("SelectQuestion = %+v, %v", got, err)
	}
	// nil slices and invalid Null types become SQL NULL and come back as such
	in2 := sample("q2")
	in2.Strings, in2.Bools, in2.DeadlineOpt = nil, nil, sql.NullTime{}
	q2, err := in2.Insert(db)
	if err != nil {
		t.Fatal(err)
	}
	in2.Id = 2
	if !reflect.DeepEqual(q2, in2) {
		t.Errorf("Insert returned\n%+v\nwant\n%+v", q2, in2)
	}
	// an empty, non nil slice is stored as '{}' and comes back empty and non nil
	in3 := sample("q3")
	in3.Strings = Strings{}
	q3, err := in3.Insert(db)
	if err != nil || q3.Strings == nil || len(q3.Strings) != 0 {
		t.Errorf("%#v %v", q3.Strings, err)
	}
	// the guard column, never sent, took its default
	rows := eng.Rows("questions")
	if n := len(rows[0]); rows[0][n-1] != int64(1) {
		t.Errorf("guard = %v", rows[0][n-1])
	}

	all, err := SelectAllQuestions(db)
	if err != nil || len(all) != 3 {
		t.Fatalf("%d %v", len(all), err)
	}
	some, err := SelectQuestions(db, 1, 3, 99)
	ids := some.IDs()
	sort.Slice(ids, func(i, j int) bool { return ids[i] < ids[j] })
	if err != nil || !reflect.DeepEqual(ids, []int64{1, 3}) {
		t.Errorf("%v %v", ids, err)
	}
	if none, err := SelectQuestions(db); err != nil || len(none) != 0 {
		t.Errorf("%v %v", none, err)
	}
	byEx, err := SelectQuestionsByNeedExercices(db, ex.Id)
	if err != nil || len(byEx) != 1 || byEx[1].Id != 1 {
		t.Errorf("%v %v", byEx, err)
	}
	if _, err := SelectQuestion(db, 99); err != sql.ErrNoRows {
		t.Errorf("got %v", err)
	}

	// Update
	q2.Description = "updated"
	q2.Cp = Composite{1, 2, 3}
	q2.NeedExercice = sql.NullInt64{Int64: 1, Valid: true}
	up, err := q2.Update(db)
	if err != nil || !reflect.DeepEqual(up, q2) {
		t.Errorf("Update = %+v, %v", up, err)
	}
	ghost := sample("ghost")
	ghost.Id = 99
	if _, err := ghost.Update(db); err != sql.ErrNoRows {
		t.Errorf("got %v", err)
	}

	// constraint violations surface as classified errors
	bad := sample("bad")
	bad.NeedExercice = sql.NullInt64{Int64: 42, Valid: true}
	if _, err := bad.Insert(db); class(err) != "foreign_key" {
		t.Errorf("got %v", err)
	}
	bad = sample("bad")
	bad.Cp.A = 1 << 40
	if _, err := bad.Insert(db); class(err) != "type" {
		t.Errorf("got %v", err)
	}
	bad = sample("bad")
	bad.Description = "nul \x00 byte"
	if _, err := bad.Insert(db); class(err) != "type" {
		t.Errorf("got %v", err)
	}
	if _, err := DeleteExerciceById(db, ex.Id); class(err) != "foreign_key" {
		t.Errorf("got %v", err)
	}

	// link table: Insert, InsertMany (COPY), unique, selects
	if err := (QuestionTag{Tag: "t0", IdQuestion: 1}).Insert(db); err != nil {
		t.Fatal(err)
	}
	if err := (QuestionTag{Tag: "t0", IdQuestion: 1}).Insert(db); class(err) != "unique" {
		t.Errorf("got %v", err)
	}
	tx, err := db.Begin()
	if err != nil {
		t.Fatal(err)
	}
	if err := InsertManyQuestionTags(tx); err != nil {
		t.Fatal(err)
	}
	if err := InsertManyQuestionTags(tx, QuestionTag{"t1", 1}, QuestionTag{"t,\"2\"\\", 2}, QuestionTag{"t1", 2}); err != nil {
		t.Fatal(err)
	}
	if err := tx.Commit(); err != nil {
		t.Fatal(err)
	}
	// a failing COPY inserts nothing
	tx, _ = db.Begin()
	if err := InsertManyQuestionTags(tx, QuestionTag{"t9", 3}, QuestionTag{"t9", 99}); class(err) != "foreign_key" {
		t.Errorf("got %v", err)
	}
	tx.Rollback()
	tags, err := SelectAllQuestionTags(db)
	want := QuestionTags{{"t0", 1}, {"t1", 1}, {"t,\"2\"\\", 2}, {"t1", 2}}
	if err != nil || !reflect.DeepEqual(tags, want) {
		t.Errorf("%v %v", tags, err)
	}
	tags, err = SelectQuestionTagsByIdQuestions(db, 2, 3)
	if err != nil || !reflect.DeepEqual(tags, want[2:]) {
		t.Errorf("%v %v", tags, err)
	}
	item, found, err := SelectQuestionTagByIdQuestionAndTag(db, 2, "t1")
	if err != nil || !found || item != (QuestionTag{"t1", 2}) {
		t.Errorf("%v %v %v", item, found, err)
	}
	if _, found, err := SelectQuestionTagByIdQuestionAndTag(db, 3, "t1"); err != nil || found {
		t.Errorf("%v %v", found, err)
	}

	// Delete: the question cascades to its tags
	del, err := DeleteQuestionById(db, 1)
	if err != nil || !reflect.DeepEqual(del, in) {
		t.Errorf("%+v %v", del, err)
	}
	tags, _ = SelectAllQuestionTags(db)
	if !reflect.DeepEqual(tags, want[2:]) {
		t.Errorf("%v", tags)
	}
	if err := (QuestionTag{IdQuestion: 2}).Delete(db); err != nil || eng.RowCount("question_tags") != 0 {
		t.Errorf("%v", err)
	}
	gone, err := DeleteQuestionsByNeedExercices(db, 1)
	if err != nil || !reflect.DeepEqual(gone, []int64{2}) {
		t.Errorf("%v %v", gone, err)
	}
	gone, err = DeleteQuestionsByIDs(db, 1, 2, 3)
	if err != nil || !reflect.DeepEqual(gone, []int64{3}) {
		t.Errorf("%v %v", gone, err)
	}
	if _, err := DeleteExerciceById(db, ex.Id); err != nil {
		t.Error(err)
	}
	for _, name := range eng.TableNames() {
		if eng.RowCount(name) != 0 {
			t.Errorf("%s is not empty", name)
		}
	}

	// every statement went through the log, and the only errors are the expected ones
	classes := map[string]int{}
	for _, s := range eng.Log() {
		if s.Err != nil {
			classes[class(s.Err)]++
		}
	}
	if want := map[string]int{"foreign_key": 3, "type": 2, "unique": 1}; !reflect.DeepEqual(classes, want) {
		t.Errorf("error classes in the log: %v", classes)
	}
}

// The JSON validator callback rejects what the plpgsql function would reject.
func TestCheckFuncRejects(t *testing.T) {
	db, eng, err := minipg.Open(DDL)
	if err != nil {
		t.Fatal(err)
	}
	defer db.Close()
	eng.SetCheckFunc(func(fn string, text []byte) (bool, error) { return false, nil })
	if _, err := sample("q").Insert(db); class(err) != "check" {
		t.Errorf("got %v", err)
	}
}
