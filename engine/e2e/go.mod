module e2e

go 1.23.0

require (
	github.com/lib/pq v0.0.0
	verif v0.0.0
)

replace verif => /verif

replace github.com/lib/pq => /verif/engine/pq

replace github.com/benoitkugler/gomacro => /repo
