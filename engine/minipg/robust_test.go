package minipg

import (
	"math/rand"
	"reflect"
	"strings"
	"testing"
)

var knownClasses = map[string]bool{
	"syntax": true, "undefined_table": true, "undefined_column": true, "placeholder": true, "arity": true, "type": true,
	"not_null": true, "check": true, "unique": true, "foreign_key": true, "unsupported": true,
}

var seedStatements = []string{
	"INSERT INTO owners (name, age, nick) VALUES ($1, $2, $3) RETURNING id, name, age, nick;",
	"INSERT INTO links (idowner, iditem, rank) VALUES ($1, $2, $3);",
	"SELECT id, name, age, nick FROM owners WHERE id = $1",
	"SELECT id, name, age, nick FROM owners WHERE id = ANY($1)",
	"SELECT idowner, iditem, rank FROM links WHERE ((IdItem IS NULL AND $1 IS NULL) OR IdItem = $1) AND IdOwner = $2",
	"UPDATE owners SET (name, age, nick) = ($1, $2, $3) WHERE id = $4 RETURNING id, name, age, nick;",
	"UPDATE owners SET Nick = $1 WHERE Age = 1 /* Enum.A */ OR Age = $2;",
	"DELETE FROM owners WHERE id = $1 RETURNING id, name;",
	"DELETE FROM links WHERE idowner = ANY($1) RETURNING idowner, iditem, rank",
	`COPY "links" ("idowner", "iditem", "rank") FROM STDIN`,
	"SELECT * FROM items WHERE fixed = '{1,2,3}' AND NOT (ok OR score >= -1.5e3) AND label IN ('a', 'b''c')",
}

var fragments = []string{
	"(", ")", ",", ";", "=", "<>", "!=", "<", ">=", "$1", "$2", "$0", "$99", "$", "$$", "'", "''", "\"", "\"\"", "--", "/*", "*/", "*",
	"NULL", "NOT", "AND", "OR", "IS", "IN", "ANY", "WHERE", "FROM", "SET", "VALUES", "RETURNING", "INTO", "SELECT", "INSERT",
	"UPDATE", "DELETE", "COPY", "STDIN", "DEFAULT", "TRUE", "id", "owners", "nope", "1", "-", "+", "1.5", "'x'", "::", "[", "]", ".", " ",
	"\n", "\x00", "é", "ORDER BY", "LIMIT", "JOIN", "E'", "1e", "||", "{", "}", "\\",
}

func mutate(rng *rand.Rand, s string) string {
	b := []byte(s)
	for n := 1 + rng.Intn(3); n > 0; n-- {
		switch rng.Intn(6) {
		case 0: // delete a span
			if len(b) > 0 {
				i := rng.Intn(len(b))
				j := i + rng.Intn(1+min(8, len(b)-i))
				b = append(b[:i:i], b[j:]...)
			}
		case 1: // insert a fragment
			i := rng.Intn(len(b) + 1)
			f := fragments[rng.Intn(len(fragments))]
			b = append(b[:i:i], append([]byte(f), b[i:]...)...)
		case 2: // replace a byte
			if len(b) > 0 {
				b[rng.Intn(len(b))] = byte(rng.Intn(256))
			}
		case 3: // duplicate a span
			if len(b) > 0 {
				i := rng.Intn(len(b))
				j := i + rng.Intn(1+min(12, len(b)-i))
				b = append(b[:j:j], append(append([]byte{}, b[i:j]...), b[j:]...)...)
			}
		case 4: // truncate
			if len(b) > 0 {
				b = b[:rng.Intn(len(b))]
			}
		case 5: // swap two words
			w := strings.Fields(string(b))
			if len(w) > 1 {
				i, j := rng.Intn(len(w)), rng.Intn(len(w))
				w[i], w[j] = w[j], w[i]
				b = []byte(strings.Join(w, " "))
			}
		}
	}
	return string(b)
}

// The statement parser never panics, and classifies every failure.
func TestParserRobustness(t *testing.T) {
	rng := rand.New(rand.NewSource(1))
	n := 200000
	if testing.Short() {
		n = 20000
	}
	ok := 0
	for i := 0; i < n; i++ {
		sql := mutate(rng, seedStatements[rng.Intn(len(seedStatements))])
		st, err := parseStatement(sql, rng.Intn(2) == 0)
		if st == nil {
			t.Fatalf("%q: nil statement", sql)
		}
		if err == nil {
			ok++
			continue
		}
		if err.Class != "syntax" && err.Class != "unsupported" {
			t.Fatalf("%q: unexpected class %v", sql, err)
		}
	}
	if ok == 0 || ok == n {
		t.Errorf("%d/%d statements parsed", ok, n)
	}
}

// Mutated statements run against a real database never panic, always give a
// classified error, and failures never modify the data.
func TestExecRobustness(t *testing.T) {
	db, e := openShop(t)
	seedShop(t, db)
	mustExec(t, db, "INSERT INTO links (idowner, iditem, rank) VALUES (1, 1, 1)")
	rng := rand.New(rand.NewSource(2))
	argPool := []any{nil, 1, 2, 99, "x", "{1,2}", "{}", 1.5, true, []byte("1"), "(1,2)", "", "1"}
	n := 30000
	if testing.Short() {
		n = 3000
	}
	for i := 0; i < n; i++ {
		sql := mutate(rng, seedStatements[rng.Intn(len(seedStatements))])
		args := make([]any, rng.Intn(5))
		for j := range args {
			args[j] = argPool[rng.Intn(len(argPool))]
		}
		tx, err := db.Begin()
		if err != nil {
			t.Fatal(err)
		}
		before := snapshotDB(e)
		if rng.Intn(2) == 0 {
			_, err = tx.Exec(sql, args...)
		} else {
			ps, perr := tx.Prepare(sql)
			err = perr
			if perr == nil {
				_, err = ps.Exec(args...)
				ps.Close()
			}
		}
		if err != nil {
			if !knownClasses[classOf(err)] {
				t.Fatalf("%q %v: unclassified error %v", sql, args, err)
			}
			if after := snapshotDB(e); !reflect.DeepEqual(before, after) {
				t.Fatalf("%q %v: failed with %v but modified the data", sql, args, err)
			}
		}
		tx.Rollback()
	}
}

// The DDL loader never panics on mutated scripts.
func TestLoaderRobustness(t *testing.T) {
	rng := rand.New(rand.NewSource(3))
	stmts := strings.SplitAfter(shopDDL, ";")
	n := 20000
	if testing.Short() {
		n = 2000
	}
	for i := 0; i < n; i++ {
		parts := append([]string{}, stmts...)
		k := rng.Intn(len(parts))
		parts[k] = mutate(rng, parts[k])
		ddl := strings.Join(parts, "")
		db, _, err := OpenWith(ddl, Options{Lenient: rng.Intn(2) == 0, ReservedWords: rng.Intn(4) == 0, EnforceUniqueIndexes: true})
		if err != nil {
			if c := classOf(err); c != "syntax" && c != "schema" {
				t.Fatalf("unexpected error %v", err)
			}
			continue
		}
		db.Close()
	}
	// and on the real, larger script
	for i := 0; i < 300; i++ {
		db, _, err := OpenLenient(mutate(rng, modelsDDL))
		if err == nil {
			db.Close()
		}
	}
}
