package minipg

import (
	"bytes"
	"database/sql/driver"
	"encoding/hex"
	"encoding/json"
	"fmt"
	"math"
	"reflect"
	"strconv"
	"strings"
	"time"
	"unicode/utf8"
)

// Internal value representation (one Go type per SQL type family):
//
//	integer kinds, serial   int64
//	real, double precision  float64
//	boolean                 bool
//	text, varchar           string
//	bytea                   []byte
//	jsonb, json             jsonVal
//	date, timestamp         time.Time (UTC)
//	T[]                     arrayVal (nil elements are SQL NULL)
//	composite               recordVal (nil fields are SQL NULL)
//	unknown type (lenient)  string
//	NULL                    nil
//
// Values are immutable once stored.
type (
	arrayVal  []any
	recordVal []any
	jsonVal   []byte
)

type typeKind int

const (
	kInt2 typeKind = iota
	kInt4
	kInt8
	kBool
	kFloat4
	kFloat8
	kText
	kJSON
	kBytea
	kDate
	kTimestamp
	kComposite
	kUnknown
)

// sqlType describes a column type.
type sqlType struct {
	kind      typeKind
	array     bool
	serial    bool
	precision int // timestamps: fractional digits, -1 when unspecified
	comp      *compositeType
	name      string // normalised text, see ColumnInfo.Type
}

type compositeType struct {
	name   string
	fields []compositeField
}

type compositeField struct {
	name string
	typ  *sqlType
}

// elem returns the element type of an array type.
func (t *sqlType) elem() *sqlType {
	e := *t
	e.array = false
	e.name = strings.TrimSuffix(t.name, "[]")
	return &e
}

func (t *sqlType) isInteger() bool {
	return !t.array && (t.kind == kInt2 || t.kind == kInt4 || t.kind == kInt8)
}

func (t *sqlType) isNumeric() bool {
	return t.isInteger() || (!t.array && (t.kind == kFloat4 || t.kind == kFloat8))
}

// comparableWith reports whether values of both types can be compared by the
// engine (same family).
func (t *sqlType) comparableWith(o *sqlType) bool {
	if t.array != o.array {
		return false
	}
	if t.array {
		return t.elem().comparableWith(o.elem())
	}
	if t.isNumeric() && o.isNumeric() {
		return true
	}
	if t.kind == kComposite || o.kind == kComposite {
		return t.kind == o.kind && t.comp == o.comp
	}
	if (t.kind == kDate || t.kind == kTimestamp) && (o.kind == kDate || o.kind == kTimestamp) {
		return true
	}
	return t.kind == o.kind
}

// valueOptions are the Options relevant to value conversion.
type valueOptions struct {
	roundTimestamps bool
	localDates      bool
	float4          bool
}

func typeErr(t *sqlType, v any, why string) *Error {
	if why != "" {
		why = ": " + why
	}
	return errf("type", "cannot convert %s to %s%s", describeValue(v), t.name, why)
}

func describeValue(v any) string {
	switch v := v.(type) {
	case nil:
		return "NULL"
	case string:
		return fmt.Sprintf("string %s", clip(strconv.Quote(v)))
	case []byte:
		return fmt.Sprintf("[]byte %s", clip(strconv.Quote(string(v))))
	case time.Time:
		return "time " + v.Format(time.RFC3339Nano)
	default:
		return fmt.Sprintf("%T %v", v, v)
	}
}

func clip(s string) string {
	if len(s) > 80 {
		return s[:77] + "..."
	}
	return s
}

// coerce converts a driver argument (int64, float64, bool, []byte, string,
// time.Time or nil) to the internal representation of type t.
func coerce(t *sqlType, v any, opt valueOptions) (any, *Error) {
	if v == nil {
		return nil, nil
	}
	if t.array {
		var text string
		switch v := v.(type) {
		case string:
			text = v
		case []byte:
			text = string(v)
		default:
			return nil, typeErr(t, v, "arrays must be given in text format")
		}
		return coerceArrayText(t, text, opt)
	}
	switch v := v.(type) {
	case int64:
		switch t.kind {
		case kInt2, kInt4, kInt8:
			return checkIntRange(t, v)
		case kFloat4, kFloat8:
			return checkFloat(t, float64(v), opt)
		}
		return nil, typeErr(t, v, "")
	case float64:
		switch t.kind {
		case kFloat4, kFloat8:
			return checkFloat(t, v, opt)
		}
		return nil, typeErr(t, v, "")
	case bool:
		if t.kind == kBool {
			return v, nil
		}
		return nil, typeErr(t, v, "")
	case time.Time:
		switch t.kind {
		case kTimestamp:
			return normTimestamp(v, t.precision, opt.roundTimestamps), nil
		case kDate:
			return normDate(v, opt.localDates), nil
		}
		return nil, typeErr(t, v, "")
	case []byte:
		if t.kind == kBytea {
			return append([]byte{}, v...), nil
		}
		return coerceText(t, string(v), opt)
	case string:
		return coerceText(t, v, opt)
	}
	return nil, typeErr(t, v, "unexpected driver value")
}

func checkIntRange(t *sqlType, v int64) (any, *Error) {
	switch t.kind {
	case kInt2:
		if v < math.MinInt16 || v > math.MaxInt16 {
			return nil, typeErr(t, v, "out of range")
		}
	case kInt4:
		if v < math.MinInt32 || v > math.MaxInt32 {
			return nil, typeErr(t, v, "out of range")
		}
	}
	return v, nil
}

func checkFloat(t *sqlType, v float64, opt valueOptions) (any, *Error) {
	if t.kind == kFloat4 && opt.float4 {
		f := float64(float32(v))
		if math.IsInf(f, 0) && !math.IsInf(v, 0) {
			return nil, typeErr(t, v, "out of range")
		}
		return f, nil
	}
	return v, nil
}

func trimSQLSpace(s string) string { return strings.Trim(s, " \t\n\r\f\v") }

// coerceText is the "input function" of the scalar type t: it converts the text
// s like PostgreSQL converts an untyped literal or a text-format parameter.
func coerceText(t *sqlType, s string, opt valueOptions) (any, *Error) {
	if t.array {
		return coerceArrayText(t, s, opt)
	}
	switch t.kind {
	case kInt2, kInt4, kInt8:
		x, err := strconv.ParseInt(trimSQLSpace(s), 10, 64)
		if err != nil {
			return nil, typeErr(t, s, "invalid input syntax for integer")
		}
		return checkIntRange(t, x)
	case kFloat4, kFloat8:
		x, err := strconv.ParseFloat(trimSQLSpace(s), 64)
		if err != nil {
			if ne, ok := err.(*strconv.NumError); !ok || ne.Err != strconv.ErrRange || math.IsInf(x, 0) {
				return nil, typeErr(t, s, "invalid input syntax for real")
			}
		}
		return checkFloat(t, x, opt)
	case kBool:
		b, ok := parseBoolText(s)
		if !ok {
			return nil, typeErr(t, s, "invalid input syntax for boolean")
		}
		return b, nil
	case kText:
		if err := checkTextEncoding(s); err != "" {
			return nil, typeErr(t, s, err)
		}
		return s, nil
	case kBytea:
		b, err := parseByteaText(s)
		if err != nil {
			return nil, typeErr(t, s, err.Error())
		}
		return b, nil
	case kJSON:
		if err := checkTextEncoding(s); err != "" {
			return nil, typeErr(t, s, err)
		}
		if !json.Valid([]byte(s)) {
			return nil, typeErr(t, s, "invalid input syntax for json")
		}
		if t.name == "jsonb" && hasNulEscape(s) {
			return nil, typeErr(t, s, `\u0000 cannot be converted to text`)
		}
		return jsonVal(s), nil
	case kTimestamp:
		tm, ok := parseTimeText(s)
		if !ok {
			return nil, typeErr(t, s, "invalid input syntax for timestamp")
		}
		return normTimestamp(tm, t.precision, opt.roundTimestamps), nil
	case kDate:
		tm, ok := parseTimeText(s)
		if !ok {
			return nil, typeErr(t, s, "invalid input syntax for date")
		}
		return normDate(tm, true), nil
	case kComposite:
		return coerceRecordText(t, s, opt)
	case kUnknown:
		return s, nil
	}
	return nil, typeErr(t, s, "unsupported type")
}

// checkTextEncoding returns a non empty reason when s cannot be stored in a
// PostgreSQL text value of an UTF8 database.
func checkTextEncoding(s string) string {
	if strings.IndexByte(s, 0) >= 0 {
		return "invalid byte sequence for encoding \"UTF8\": 0x00"
	}
	if !utf8.ValidString(s) {
		return "invalid byte sequence for encoding \"UTF8\""
	}
	return ""
}

// hasNulEscape reports whether the (valid) JSON text contains the escape
// \u0000 inside a string, which jsonb rejects.
func hasNulEscape(s string) bool {
	inString := false
	for i := 0; i < len(s); i++ {
		c := s[i]
		if !inString {
			if c == '"' {
				inString = true
			}
			continue
		}
		switch c {
		case '"':
			inString = false
		case '\\':
			if strings.HasPrefix(s[i+1:], "u0000") {
				return true
			}
			i++ // skip the escaped character
		}
	}
	return false
}

func parseBoolText(s string) (bool, bool) {
	s = asciiLower(trimSQLSpace(s))
	if s == "" {
		return false, false
	}
	switch {
	case strings.HasPrefix("true", s), strings.HasPrefix("yes", s), s == "on", s == "1":
		return true, true
	case strings.HasPrefix("false", s), strings.HasPrefix("no", s), s == "of", s == "off", s == "0":
		return false, true
	}
	return false, false
}

// parseByteaText decodes the hex ("\x...") or escape input format of bytea.
func parseByteaText(s string) ([]byte, error) {
	if strings.HasPrefix(s, `\x`) {
		h := strings.Map(func(r rune) rune {
			if r == ' ' || r == '\t' || r == '\n' || r == '\r' {
				return -1
			}
			return r
		}, s[2:])
		out, err := hex.DecodeString(h)
		if err != nil {
			return nil, fmt.Errorf("invalid hexadecimal data")
		}
		return out, nil
	}
	out := make([]byte, 0, len(s))
	for i := 0; i < len(s); i++ {
		c := s[i]
		if c != '\\' {
			out = append(out, c)
			continue
		}
		if i+1 < len(s) && s[i+1] == '\\' {
			out = append(out, '\\')
			i++
			continue
		}
		if i+3 < len(s) && s[i+1] >= '0' && s[i+1] <= '3' && s[i+2] >= '0' && s[i+2] <= '7' && s[i+3] >= '0' && s[i+3] <= '7' {
			out = append(out, (s[i+1]-'0')<<6|(s[i+2]-'0')<<3|(s[i+3]-'0'))
			i += 3
			continue
		}
		return nil, fmt.Errorf("invalid input syntax for type bytea")
	}
	return out, nil
}

var timeLayouts = []string{
	time.RFC3339Nano,
	"2006-01-02 15:04:05.999999999Z07:00",
	"2006-01-02 15:04:05.999999999Z07",
	"2006-01-02 15:04:05.999999999",
	"2006-01-02T15:04:05.999999999",
	"2006-01-02",
}

func parseTimeText(s string) (time.Time, bool) {
	s = trimSQLSpace(s)
	for _, layout := range timeLayouts {
		if t, err := time.Parse(layout, s); err == nil {
			return t, true
		}
	}
	return time.Time{}, false
}

var pgEpochUnix = time.Date(2000, 1, 1, 0, 0, 0, 0, time.UTC).Unix()

func floorDiv(a, b int64) int64 {
	q := a / b
	if (a%b != 0) && ((a < 0) != (b < 0)) {
		q--
	}
	return q
}

// normTimestamp converts t to UTC and reduces it to the precision of the column
// (PostgreSQL stores microseconds). With round == false the value is truncated
// (floored); with round == true it is rounded like PostgreSQL does: half-even
// to the microsecond when reading the literal, then half away from the
// PostgreSQL epoch (2000-01-01) to the column precision.
func normTimestamp(t time.Time, precision int, round bool) time.Time {
	secs := t.Unix() - pgEpochUnix
	ns := int64(t.Nanosecond())
	micros := secs*1_000_000 + ns/1000
	if round {
		rem := ns % 1000
		if rem > 500 || (rem == 500 && (ns/1000)%2 == 1) {
			micros++
		}
	}
	if precision >= 0 && precision < 6 {
		scale := int64(1)
		for i := precision; i < 6; i++ {
			scale *= 10
		}
		if round {
			offset := scale / 2
			if micros >= 0 {
				micros = ((micros + offset) / scale) * scale
			} else {
				micros = -(((-micros + offset) / scale) * scale)
			}
		} else {
			micros = floorDiv(micros, scale) * scale
		}
	}
	s := floorDiv(micros, 1_000_000)
	us := micros - s*1_000_000
	return time.Unix(pgEpochUnix+s, us*1000).UTC()
}

// normDate keeps the calendar day of t: in UTC by default, or as written in
// t's own location when local is set (which is what PostgreSQL does with the
// text sent by lib/pq).
func normDate(t time.Time, local bool) time.Time {
	if !local {
		t = t.UTC()
	}
	y, m, d := t.Date()
	return time.Date(y, m, d, 0, 0, 0, 0, time.UTC)
}

// ---------------------------------------------------------------- arrays

// parseArrayText parses the one-dimensional PostgreSQL array text format. NULL
// elements are returned as nil pointers.
func parseArrayText(s string) ([]*string, error) {
	s = trimSQLSpace(s)
	if len(s) < 2 || s[0] != '{' {
		if len(s) > 0 && s[0] == '[' {
			return nil, fmt.Errorf("array dimension decoration is not supported")
		}
		return nil, fmt.Errorf("malformed array literal: must start with \"{\"")
	}
	i := 1
	skipSpace := func() {
		for i < len(s) && isSpace(s[i]) {
			i++
		}
	}
	var out []*string
	skipSpace()
	if i < len(s) && s[i] == '}' {
		i++
		skipSpace()
		if i != len(s) {
			return nil, fmt.Errorf("malformed array literal: junk after closing brace")
		}
		return []*string{}, nil
	}
	for {
		skipSpace()
		if i >= len(s) {
			return nil, fmt.Errorf("malformed array literal: unexpected end of input")
		}
		switch s[i] {
		case '{':
			return nil, fmt.Errorf("multidimensional arrays are not supported")
		case '"':
			i++
			var sb strings.Builder
			closed := false
			for i < len(s) {
				c := s[i]
				if c == '\\' {
					if i+1 >= len(s) {
						return nil, fmt.Errorf("malformed array literal: unexpected end of input")
					}
					sb.WriteByte(s[i+1])
					i += 2
					continue
				}
				if c == '"' {
					closed = true
					i++
					break
				}
				sb.WriteByte(c)
				i++
			}
			if !closed {
				return nil, fmt.Errorf("malformed array literal: unterminated quoted element")
			}
			v := sb.String()
			out = append(out, &v)
		default:
			var sb strings.Builder
			escaped := false
			lastNonSpace := 0
			for i < len(s) && s[i] != ',' && s[i] != '}' {
				c := s[i]
				if c == '{' || c == '"' {
					return nil, fmt.Errorf("malformed array literal: unexpected %q", c)
				}
				if c == '\\' {
					if i+1 >= len(s) {
						return nil, fmt.Errorf("malformed array literal: unexpected end of input")
					}
					sb.WriteByte(s[i+1])
					lastNonSpace = sb.Len()
					escaped = true
					i += 2
					continue
				}
				sb.WriteByte(c)
				if !isSpace(c) {
					lastNonSpace = sb.Len()
				}
				i++
			}
			v := sb.String()[:lastNonSpace]
			if v == "" {
				return nil, fmt.Errorf("malformed array literal: unexpected empty element")
			}
			if !escaped && strings.EqualFold(v, "null") {
				out = append(out, nil)
			} else {
				out = append(out, &v)
			}
		}
		skipSpace()
		if i >= len(s) {
			return nil, fmt.Errorf("malformed array literal: unexpected end of input")
		}
		if s[i] == ',' {
			i++
			continue
		}
		if s[i] == '}' {
			i++
			skipSpace()
			if i != len(s) {
				return nil, fmt.Errorf("malformed array literal: junk after closing brace")
			}
			return out, nil
		}
		return nil, fmt.Errorf("malformed array literal: unexpected %q", s[i])
	}
}

func coerceArrayText(t *sqlType, s string, opt valueOptions) (any, *Error) {
	elems, err := parseArrayText(s)
	if err != nil {
		return nil, typeErr(t, s, err.Error())
	}
	et := t.elem()
	out := make(arrayVal, len(elems))
	for i, e := range elems {
		if e == nil {
			continue
		}
		v, cerr := coerceText(et, *e, opt)
		if cerr != nil {
			return nil, typeErr(t, s, fmt.Sprintf("element %d: %s", i, cerr.Msg))
		}
		out[i] = v
	}
	return out, nil
}

// appendArrayElem appends the array_out representation of one text element.
func appendArrayElem(b []byte, s string) []byte {
	needQuote := s == "" || strings.EqualFold(s, "null")
	if !needQuote {
		for i := 0; i < len(s); i++ {
			c := s[i]
			if c == '{' || c == '}' || c == '"' || c == '\\' || c == ',' || isSpace(c) {
				needQuote = true
				break
			}
		}
	}
	if !needQuote {
		return append(b, s...)
	}
	b = append(b, '"')
	for i := 0; i < len(s); i++ {
		if s[i] == '"' || s[i] == '\\' {
			b = append(b, '\\')
		}
		b = append(b, s[i])
	}
	return append(b, '"')
}

// ---------------------------------------------------------------- composites

// parseRecordText parses the text format of a composite value: (f1,f2,...).
// NULL fields (empty, unquoted) are returned as nil pointers.
func parseRecordText(s string) ([]*string, error) {
	s = trimSQLSpace(s)
	if len(s) < 2 || s[0] != '(' {
		return nil, fmt.Errorf("malformed record literal: missing left parenthesis")
	}
	i := 1
	var out []*string
	for {
		// one field
		var sb strings.Builder
		quoted := false
		inQuote := false
		for {
			if i >= len(s) {
				return nil, fmt.Errorf("malformed record literal: unexpected end of input")
			}
			c := s[i]
			if inQuote {
				switch {
				case c == '\\':
					if i+1 >= len(s) {
						return nil, fmt.Errorf("malformed record literal: unexpected end of input")
					}
					sb.WriteByte(s[i+1])
					i += 2
				case c == '"':
					if i+1 < len(s) && s[i+1] == '"' {
						sb.WriteByte('"')
						i += 2
					} else {
						inQuote = false
						i++
					}
				default:
					sb.WriteByte(c)
					i++
				}
				continue
			}
			if c == ',' || c == ')' {
				break
			}
			switch c {
			case '\\':
				if i+1 >= len(s) {
					return nil, fmt.Errorf("malformed record literal: unexpected end of input")
				}
				sb.WriteByte(s[i+1])
				quoted = true
				i += 2
			case '"':
				inQuote = true
				quoted = true
				i++
			default:
				sb.WriteByte(c)
				i++
			}
		}
		if sb.Len() == 0 && !quoted {
			out = append(out, nil)
		} else {
			v := sb.String()
			out = append(out, &v)
		}
		if s[i] == ',' {
			i++
			continue
		}
		// ')'
		i++
		if trimSQLSpace(s[i:]) != "" {
			return nil, fmt.Errorf("malformed record literal: junk after right parenthesis")
		}
		return out, nil
	}
}

func coerceRecordText(t *sqlType, s string, opt valueOptions) (any, *Error) {
	fields, err := parseRecordText(s)
	if err != nil {
		return nil, typeErr(t, s, err.Error())
	}
	if t.comp == nil {
		return nil, typeErr(t, s, "unknown composite type")
	}
	if len(fields) != len(t.comp.fields) {
		return nil, typeErr(t, s, fmt.Sprintf("malformed record literal: got %d fields, type %s has %d", len(fields), t.comp.name, len(t.comp.fields)))
	}
	out := make(recordVal, len(fields))
	for i, f := range fields {
		if f == nil {
			continue
		}
		v, cerr := coerceText(t.comp.fields[i].typ, *f, opt)
		if cerr != nil {
			return nil, typeErr(t, s, fmt.Sprintf("field %s: %s", t.comp.fields[i].name, cerr.Msg))
		}
		out[i] = v
	}
	return out, nil
}

func appendRecordField(b []byte, s string) []byte {
	needQuote := s == ""
	if !needQuote {
		for i := 0; i < len(s); i++ {
			c := s[i]
			if c == '(' || c == ')' || c == '"' || c == '\\' || c == ',' || isSpace(c) {
				needQuote = true
				break
			}
		}
	}
	if !needQuote {
		return append(b, s...)
	}
	b = append(b, '"')
	for i := 0; i < len(s); i++ {
		if s[i] == '"' || s[i] == '\\' {
			b = append(b, s[i])
		}
		b = append(b, s[i])
	}
	return append(b, '"')
}

// ---------------------------------------------------------------- output

func formatFloat(f float64, bits int) string {
	switch {
	case math.IsNaN(f):
		return "NaN"
	case math.IsInf(f, 1):
		return "Infinity"
	case math.IsInf(f, -1):
		return "-Infinity"
	}
	return strconv.FormatFloat(f, 'g', -1, bits)
}

// textOf returns the PostgreSQL text output of a non NULL internal value, as it
// appears inside arrays and composites.
func textOf(t *sqlType, v any) string {
	switch v := v.(type) {
	case int64:
		return strconv.FormatInt(v, 10)
	case float64:
		return formatFloat(v, 64)
	case bool:
		if v {
			return "t"
		}
		return "f"
	case string:
		return v
	case []byte:
		return `\x` + hex.EncodeToString(v)
	case jsonVal:
		return string(v)
	case time.Time:
		if t != nil && t.kind == kDate {
			return v.Format("2006-01-02")
		}
		return v.Format("2006-01-02 15:04:05.999999Z07")
	case arrayVal:
		var et *sqlType
		if t != nil {
			et = t.elem()
		}
		b := []byte{'{'}
		for i, e := range v {
			if i > 0 {
				b = append(b, ',')
			}
			if e == nil {
				b = append(b, "NULL"...)
				continue
			}
			b = appendArrayElem(b, textOf(et, e))
		}
		return string(append(b, '}'))
	case recordVal:
		b := []byte{'('}
		for i, f := range v {
			if i > 0 {
				b = append(b, ',')
			}
			if f == nil {
				continue
			}
			var ft *sqlType
			if t != nil && t.comp != nil && i < len(t.comp.fields) {
				ft = t.comp.fields[i].typ
			}
			b = appendRecordField(b, textOf(ft, f))
		}
		return string(append(b, ')'))
	}
	return fmt.Sprint(v)
}

// encode converts an internal value to what lib/pq hands to Scan.
func encode(t *sqlType, v any) driver.Value {
	switch v := v.(type) {
	case nil:
		return nil
	case int64, float64, bool, time.Time:
		return v
	case string:
		if t != nil && t.kind == kUnknown {
			return []byte(v)
		}
		return v
	case []byte:
		return append([]byte{}, v...)
	case jsonVal:
		return append([]byte{}, v...)
	case arrayVal, recordVal:
		return []byte(textOf(t, v))
	}
	return nil
}

// ---------------------------------------------------------------- comparison

// compareValues compares two non NULL internal values of the same family.
// ok is false when they cannot be ordered.
func compareValues(a, b any) (cmp int, ok bool) {
	switch a := a.(type) {
	case int64:
		switch b := b.(type) {
		case int64:
			return cmpOrdered(a, b), true
		case float64:
			return cmpFloat(float64(a), b), true
		}
	case float64:
		switch b := b.(type) {
		case int64:
			return cmpFloat(a, float64(b)), true
		case float64:
			return cmpFloat(a, b), true
		}
	case bool:
		if b, isB := b.(bool); isB {
			switch {
			case a == b:
				return 0, true
			case !a:
				return -1, true
			}
			return 1, true
		}
	case string:
		if b, isB := b.(string); isB {
			return strings.Compare(a, b), true
		}
	case []byte:
		if b, isB := b.([]byte); isB {
			return bytes.Compare(a, b), true
		}
	case time.Time:
		if b, isB := b.(time.Time); isB {
			return a.Compare(b), true
		}
	case jsonVal:
		if b, isB := b.(jsonVal); isB {
			if jsonEqual(a, b) {
				return 0, true
			}
			// arbitrary but deterministic order; only equality is meaningful
			if c := bytes.Compare(a, b); c != 0 {
				return c, true
			}
			return 1, true
		}
	case arrayVal:
		if b, isB := b.(arrayVal); isB {
			return cmpSeq(a, b)
		}
	case recordVal:
		if b, isB := b.(recordVal); isB {
			return cmpSeq(a, b)
		}
	}
	return 0, false
}

func cmpOrdered(a, b int64) int {
	switch {
	case a < b:
		return -1
	case a > b:
		return 1
	}
	return 0
}

// cmpFloat orders floats like PostgreSQL: NaN equals NaN and is greater than
// everything else.
func cmpFloat(a, b float64) int {
	an, bn := math.IsNaN(a), math.IsNaN(b)
	switch {
	case an && bn:
		return 0
	case an:
		return 1
	case bn:
		return -1
	case a < b:
		return -1
	case a > b:
		return 1
	}
	return 0
}

// cmpSeq compares arrays (and records) element by element; a NULL element
// equals a NULL element and sorts after non NULL ones, like in PostgreSQL
// array comparison.
func cmpSeq(a, b []any) (int, bool) {
	for i := 0; i < len(a) && i < len(b); i++ {
		x, y := a[i], b[i]
		switch {
		case x == nil && y == nil:
			continue
		case x == nil:
			return 1, true
		case y == nil:
			return -1, true
		}
		c, ok := compareValues(x, y)
		if !ok {
			return 0, false
		}
		if c != 0 {
			return c, true
		}
	}
	return cmpOrdered(int64(len(a)), int64(len(b))), true
}

func jsonEqual(a, b []byte) bool {
	var x, y any
	if json.Unmarshal(a, &x) != nil || json.Unmarshal(b, &y) != nil {
		return bytes.Equal(a, b)
	}
	return reflect.DeepEqual(x, y)
}

// appendKey appends a canonical, injective encoding of a non NULL value, used
// to index UNIQUE and FOREIGN KEY columns. Integers and integral floats share
// the same encoding so that keys of different numeric types match.
func appendKey(b []byte, v any) []byte {
	switch v := v.(type) {
	case int64:
		b = append(b, 'n')
		b = strconv.AppendInt(b, v, 10)
	case float64:
		if v == math.Trunc(v) && math.Abs(v) < 1<<62 {
			b = append(b, 'n')
			b = strconv.AppendInt(b, int64(v), 10)
		} else {
			b = append(b, 'f')
			b = append(b, formatFloat(v, 64)...)
		}
	case bool:
		if v {
			b = append(b, 'T')
		} else {
			b = append(b, 'F')
		}
	case string:
		b = append(b, 's')
		b = strconv.AppendInt(b, int64(len(v)), 10)
		b = append(b, ':')
		b = append(b, v...)
	case []byte:
		b = append(b, 'b')
		b = strconv.AppendInt(b, int64(len(v)), 10)
		b = append(b, ':')
		b = append(b, v...)
	case jsonVal:
		var x any
		canon := []byte(v)
		if json.Unmarshal(v, &x) == nil {
			if c, err := json.Marshal(x); err == nil {
				canon = c
			}
		}
		b = append(b, 'j')
		b = strconv.AppendInt(b, int64(len(canon)), 10)
		b = append(b, ':')
		b = append(b, canon...)
	case time.Time:
		b = append(b, 't')
		b = strconv.AppendInt(b, v.Unix(), 10)
		b = append(b, '.')
		b = strconv.AppendInt(b, int64(v.Nanosecond()), 10)
	case arrayVal:
		b = append(b, '[')
		for _, e := range v {
			if e == nil {
				b = append(b, '0')
			} else {
				b = appendKey(b, e)
			}
			b = append(b, ',')
		}
		b = append(b, ']')
	case recordVal:
		b = append(b, '(')
		for _, e := range v {
			if e == nil {
				b = append(b, '0')
			} else {
				b = appendKey(b, e)
			}
			b = append(b, ',')
		}
		b = append(b, ')')
	default:
		b = append(b, '?')
		b = append(b, fmt.Sprint(v)...)
	}
	return append(b, ';')
}

// keyOf returns the key of the columns idx of row, and false when one of them
// is NULL.
func keyOf(row []any, idx []int) (string, bool) {
	var b []byte
	for _, i := range idx {
		if row[i] == nil {
			return "", false
		}
		b = appendKey(b, row[i])
	}
	return string(b), true
}
