package minipg

import (
	"fmt"
	"strconv"
	"strings"
)

// ---------------------------------------------------------------- schema model

type column struct {
	name       string
	typ        *sqlType
	notNull    bool
	hasDefault bool // explicit DEFAULT clause
	def        any  // coerced default value (nil for DEFAULT NULL)
	defText    string
}

type checkConstraint struct {
	src   string // expression text, as written
	bound bexpr
}

type fkAction int

const (
	actNoAction fkAction = iota
	actRestrict
	actCascade
	actSetNull
	actSetDefault
)

func (a fkAction) String() string {
	return [...]string{"NO ACTION", "RESTRICT", "CASCADE", "SET NULL", "SET DEFAULT"}[a]
}

type foreignKey struct {
	child    *table
	cols     []int
	parent   *table
	refCols  []int
	onDelete fkAction
	onUpdate fkAction
}

func (fk *foreignKey) String() string {
	return fmt.Sprintf("%s(%s) -> %s(%s)", fk.child.name, strings.Join(fk.child.colNames(fk.cols), ", "),
		fk.parent.name, strings.Join(fk.parent.colNames(fk.refCols), ", "))
}

type table struct {
	name    string
	cols    []*column
	byName  map[string]int
	pk      []int   // nil when the table has no primary key
	uniques [][]int // UNIQUE constraints (primary key excluded)
	checks  []*checkConstraint
	fks     []*foreignKey // outgoing
	refBy   []*foreignKey // incoming

	rows [][]any       // in insertion order; row slices are immutable
	seq  map[int]int64 // last value of the sequence of each serial column
}

func (t *table) colNames(idx []int) []string {
	out := make([]string, len(idx))
	for i, c := range idx {
		out[i] = t.cols[c].name
	}
	return out
}

// uniqueSets returns the primary key followed by the UNIQUE constraints.
func (t *table) uniqueSets() [][]int {
	if t.pk == nil {
		return t.uniques
	}
	return append([][]int{t.pk}, t.uniques...)
}

func sameSet(a, b []int) bool {
	if len(a) != len(b) {
		return false
	}
	for _, x := range a {
		found := false
		for _, y := range b {
			if x == y {
				found = true
				break
			}
		}
		if !found {
			return false
		}
	}
	return true
}

// ---------------------------------------------------------------- loader

// loader applies the statements of a DDL script to an Engine.
type loader struct {
	e        *Engine
	problems []string // schema problems (fatal unless lenient)
}

func (l *loader) problem(format string, args ...any) {
	l.problems = append(l.problems, fmt.Sprintf(format, args...))
}

// load parses the whole script. It returns a *Error for scripts which cannot
// even be split into statements.
func (l *loader) load(ddl string) *Error {
	toks, lerr := lex(ddl)
	if lerr != nil {
		return errf("syntax", "%s", lerr.Msg)
	}
	stmts, texts, serr := splitStatements(ddl, toks)
	if serr != nil {
		return serr
	}
	for i, st := range stmts {
		l.statement(st, texts[i])
	}
	return nil
}

func (l *loader) ignore(text string) { l.e.ignored = append(l.e.ignored, text) }

func oneLine(s string) string { return clip(strings.Join(strings.Fields(s), " ")) }

func (l *loader) statement(toks []token, text string) {
	p := &parser{toks: toks, reserved: l.e.opt.ReservedWords}
	switch {
	case p.acceptKw("create"):
		orReplace := false
		if p.peek().is("or") && p.peekAt(1).is("replace") {
			p.i += 2
			orReplace = true
		}
		switch {
		case p.acceptKw("function") || p.acceptKw("procedure"):
			l.createFunction(p, text, orReplace)
		case p.acceptKw("type"):
			l.createType(p, text)
		case p.acceptKw("table"):
			if err := l.createTable(p, text); err != nil {
				l.problem("%s: %s", oneLine(text), err.Msg)
			}
		case p.peek().is("unique") && p.peekAt(1).is("index"):
			p.i += 2
			if !l.e.opt.EnforceUniqueIndexes || !l.createUniqueIndex(p) {
				l.ignore(text)
			}
		default:
			l.ignore(text)
		}
	case p.acceptKw("alter"):
		if !p.acceptKw("table") {
			l.ignore(text)
			return
		}
		understood, err := l.alterTable(p, text)
		if err != nil {
			l.problem("%s: %s", oneLine(text), err.Msg)
		} else if !understood {
			l.ignore(text)
		}
	default:
		l.ignore(text)
	}
}

func (l *loader) createFunction(p *parser, text string, orReplace bool) {
	name, err := p.ident("function name")
	if err != nil {
		l.ignore(text)
		return
	}
	if p.acceptOp(".") { // schema qualified
		if name, err = p.ident("function name"); err != nil {
			l.ignore(text)
			return
		}
	}
	body := ""
	for _, t := range p.toks[p.i:] {
		if t.kind == tDollar {
			body = t.text
			break
		}
		if t.kind == tString && body == "" {
			body = t.text // AS '...' form (also matches LANGUAGE '...', the dollar form wins)
		}
	}
	if _, exists := l.e.funcs[name]; exists {
		if !orReplace {
			l.problem("%s: function %q already exists", oneLine(text), name)
			return
		}
	} else {
		l.e.funcOrder = append(l.e.funcOrder, name)
	}
	l.e.funcs[name] = body
}

func (l *loader) createType(p *parser, text string) {
	name, err := p.ident("type name")
	if err != nil || !p.acceptKw("as") || !p.peek().isOp("(") {
		l.ignore(text) // enum, range, shell types...
		return
	}
	p.i++
	ct := &compositeType{name: name}
	for {
		fname, err := p.ident("field name")
		if err != nil {
			l.problem("%s: %s", oneLine(text), err.Msg)
			return
		}
		ft, terr := l.parseType(p)
		if terr != nil {
			l.problem("%s: field %s: %s", oneLine(text), fname, terr.Msg)
			return
		}
		ct.fields = append(ct.fields, compositeField{name: fname, typ: ft})
		if p.acceptOp(",") {
			continue
		}
		if !p.acceptOp(")") || p.peek().kind != tEOF {
			l.problem("%s: %s", oneLine(text), p.unexpected("in composite type definition").Msg)
			return
		}
		break
	}
	if _, exists := l.e.types[name]; exists {
		l.problem("%s: type %q already exists", oneLine(text), name)
		return
	}
	if _, exists := l.e.tables[name]; exists {
		l.problem("%s: type %q already exists (as a table)", oneLine(text), name)
		return
	}
	l.e.types[name] = ct
}

// parseType parses a column type.
func (l *loader) parseType(p *parser) (*sqlType, *Error) {
	t := p.peek()
	if t.kind != tIdent && t.kind != tQIdent {
		return nil, p.unexpected("expected a type name")
	}
	p.i++
	out := &sqlType{precision: -1}
	// optional "(n[,m])" modifier
	modifier := func() (int, bool, *Error) {
		if !p.acceptOp("(") {
			return 0, false, nil
		}
		n := p.next()
		if n.kind != tNumber {
			return 0, false, errf("syntax", "type modifier must be a number (offset %d)", n.pos)
		}
		v, _ := strconv.Atoi(n.text)
		if p.acceptOp(",") {
			if p.next().kind != tNumber {
				return 0, false, errf("syntax", "type modifier must be a number (offset %d)", n.pos)
			}
		}
		if err := p.expectOp(")", "after type modifier"); err != nil {
			return 0, false, err
		}
		return v, true, nil
	}
	name := t.text
	if t.kind == tQIdent {
		name = "\x00" + t.text // never a builtin
	}
	switch name {
	case "integer", "int", "int4":
		out.kind, out.name = kInt4, "integer"
	case "smallint", "int2":
		out.kind, out.name = kInt2, "smallint"
	case "bigint", "int8":
		out.kind, out.name = kInt8, "bigint"
	case "serial", "serial4":
		out.kind, out.name, out.serial = kInt4, "serial", true
	case "bigserial", "serial8":
		out.kind, out.name, out.serial = kInt8, "bigserial", true
	case "smallserial", "serial2":
		out.kind, out.name, out.serial = kInt2, "smallserial", true
	case "boolean", "bool":
		out.kind, out.name = kBool, "boolean"
	case "real", "float4":
		out.kind, out.name = kFloat4, "real"
	case "float8":
		out.kind, out.name = kFloat8, "double precision"
	case "float":
		n, has, err := modifier()
		if err != nil {
			return nil, err
		}
		if has && n <= 24 {
			out.kind, out.name = kFloat4, "real"
		} else {
			out.kind, out.name = kFloat8, "double precision"
		}
	case "double":
		if !p.acceptKw("precision") {
			return nil, p.unexpected("expected PRECISION after DOUBLE")
		}
		out.kind, out.name = kFloat8, "double precision"
	case "text":
		out.kind, out.name = kText, "text"
	case "varchar", "char", "character", "bpchar":
		if name == "character" {
			p.acceptKw("varying")
		}
		if _, _, err := modifier(); err != nil {
			return nil, err
		}
		out.kind, out.name = kText, "text"
	case "jsonb":
		out.kind, out.name = kJSON, "jsonb"
	case "json":
		out.kind, out.name = kJSON, "json"
	case "bytea":
		out.kind, out.name = kBytea, "bytea"
	case "date":
		out.kind, out.name = kDate, "date"
	case "timestamp", "timestamptz":
		out.kind = kTimestamp
		n, has, err := modifier()
		if err != nil {
			return nil, err
		}
		if has {
			if n < 0 || n > 6 {
				return nil, errf("syntax", "timestamp precision %d out of range", n)
			}
			out.precision = n
		}
		zone := " without time zone"
		if name == "timestamptz" {
			zone = " with time zone"
		} else if p.peek().is("with") || p.peek().is("without") {
			if p.peek().is("with") {
				zone = " with time zone"
			}
			p.i++
			if !p.acceptKw("time") || !p.acceptKw("zone") {
				return nil, p.unexpected("expected TIME ZONE")
			}
		}
		out.name = "timestamp"
		if has {
			out.name += " (" + strconv.Itoa(n) + ")"
		}
		out.name += zone
	default:
		if p.peek().isOp(".") {
			return nil, errf("unsupported", "schema qualified type names are not supported")
		}
		typeName := t.text
		if ct, ok := l.e.types[typeName]; ok {
			out.kind, out.comp, out.name = kComposite, ct, ct.name
		} else {
			out.kind, out.name = kUnknown, typeName
		}
	}
	// array suffix
	if p.acceptKw("array") {
		out.array = true
		if p.acceptOp("[") {
			if p.peek().kind == tNumber {
				p.i++
			}
			if err := p.expectOp("]", "in array type"); err != nil {
				return nil, err
			}
		}
	}
	for p.peek().isOp("[") {
		p.i++
		if p.peek().kind == tNumber {
			p.i++
		}
		if err := p.expectOp("]", "in array type"); err != nil {
			return nil, err
		}
		out.array = true
	}
	if out.array {
		if out.serial {
			return nil, errf("syntax", "array of serial is not supported")
		}
		out.name += "[]"
	}
	return out, nil
}

// skipBalanced returns the tokens between the parenthesis at the current
// position and its matching one, and moves after it.
func (p *parser) skipBalanced() ([]token, *Error) {
	if !p.peek().isOp("(") {
		return nil, p.unexpected("expected \"(\"")
	}
	depth := 0
	start := p.i + 1
	for {
		t := p.peek()
		switch {
		case t.kind == tEOF:
			return nil, errf("syntax", "unbalanced parenthesis at offset %d", p.toks[start-1].pos)
		case t.isOp("("):
			depth++
		case t.isOp(")"):
			depth--
			if depth == 0 {
				inner := append(append([]token{}, p.toks[start:p.i]...), token{kind: tEOF, pos: t.pos})
				p.i++
				return inner, nil
			}
		}
		p.i++
	}
}

func tokensText(toks []token) string {
	var parts []string
	for _, t := range toks {
		if t.kind == tEOF {
			break
		}
		parts = append(parts, t.raw)
	}
	return strings.Join(parts, " ")
}

// pendingCheck is a CHECK constraint parsed (as tokens) inside a statement,
// bound once the table is complete.
type pendingCheck struct {
	toks []token
}

func (l *loader) createTable(p *parser, text string) *Error {
	if p.peek().is("if") && p.peekAt(1).is("not") && p.peekAt(2).is("exists") {
		p.i += 3
	}
	name, err := p.ident("table name")
	if err != nil {
		return err
	}
	if p.peek().isOp(".") {
		return errf("unsupported", "schema qualified table names are not supported")
	}
	if _, exists := l.e.tables[name]; exists {
		return errf("schema", "relation %q already exists", name)
	}
	if _, exists := l.e.types[name]; exists {
		return errf("schema", "type %q already exists", name)
	}
	if err := p.expectOp("(", "after table name"); err != nil {
		return err
	}
	tbl := &table{name: name, byName: map[string]int{}, seq: map[int]int64{}}
	var (
		checks  []pendingCheck
		uniques [][]string
		pks     [][]string
		fks     []*fkSpec
	)
	for {
		t := p.peek()
		// table constraint ?
		if t.is("constraint") {
			p.i++
			if _, err := p.ident("constraint name"); err != nil {
				return err
			}
			t = p.peek()
		}
		switch {
		case t.is("primary") && p.peekAt(1).is("key"):
			p.i += 2
			cols, err := p.identList("column")
			if err != nil {
				return err
			}
			pks = append(pks, cols)
		case t.is("unique") && p.peekAt(1).isOp("("):
			p.i++
			cols, err := p.identList("column")
			if err != nil {
				return err
			}
			uniques = append(uniques, cols)
		case t.is("check") && p.peekAt(1).isOp("("):
			p.i++
			inner, err := p.skipBalanced()
			if err != nil {
				return err
			}
			checks = append(checks, pendingCheck{toks: inner})
			p.skipConstraintAttributes()
		case t.is("foreign") && p.peekAt(1).is("key"):
			p.i += 2
			spec, err := p.parseForeignKey(nil)
			if err != nil {
				return err
			}
			fks = append(fks, spec)
		case t.is("like") || t.is("exclude"):
			return errf("unsupported", "%s in CREATE TABLE", strings.ToUpper(t.text))
		default:
			// column definition
			cname, err := p.ident("column name")
			if err != nil {
				return err
			}
			if _, dup := tbl.byName[cname]; dup {
				return errf("schema", "column %q specified more than once", cname)
			}
			typ, terr := l.parseType(p)
			if terr != nil {
				return errf(terr.Class, "column %s: %s", cname, terr.Msg)
			}
			if typ.kind == kUnknown {
				// reported, but the table is still created so that the rest
				// of the script can be analysed
				l.problem("%s: column %s: type %q does not exist", oneLine("CREATE TABLE "+name), cname, typ.name)
			}
			col := &column{name: cname, typ: typ}
			tbl.byName[cname] = len(tbl.cols)
			tbl.cols = append(tbl.cols, col)
			if typ.serial {
				col.notNull = true
			}
			// column constraints
		constraints:
			for {
				c := p.peek()
				if c.is("constraint") {
					p.i++
					if _, err := p.ident("constraint name"); err != nil {
						return err
					}
					c = p.peek()
				}
				switch {
				case c.is("not") && p.peekAt(1).is("null"):
					p.i += 2
					col.notNull = true
				case c.is("null"):
					p.i++
				case c.is("primary") && p.peekAt(1).is("key"):
					p.i += 2
					pks = append(pks, []string{cname})
				case c.is("unique"):
					p.i++
					uniques = append(uniques, []string{cname})
				case c.is("check") && p.peekAt(1).isOp("("):
					p.i++
					inner, err := p.skipBalanced()
					if err != nil {
						return err
					}
					checks = append(checks, pendingCheck{toks: inner})
					p.skipConstraintAttributes()
				case c.is("default"):
					p.i++
					e, err := p.parsePrimary()
					if err != nil {
						return errf(err.Class, "column %s: DEFAULT: %s", cname, err.Msg)
					}
					if e, err = p.checkTrailingOperator(e); err != nil {
						return errf(err.Class, "column %s: DEFAULT: %s", cname, err.Msg)
					}
					if err := l.setDefault(tbl, col, e); err != nil {
						return err
					}
				case c.is("references"):
					p.i++
					spec, err := p.parseForeignKey([]string{cname})
					if err != nil {
						return err
					}
					fks = append(fks, spec)
				case c.is("generated"), c.is("collate"):
					return errf("unsupported", "%s in column definition", strings.ToUpper(c.text))
				default:
					break constraints
				}
			}
		}
		if p.acceptOp(",") {
			continue
		}
		if err := p.expectOp(")", "at the end of the column list"); err != nil {
			return err
		}
		break
	}
	if p.peek().kind != tEOF {
		return p.unexpected("after CREATE TABLE")
	}
	if len(tbl.cols) == 0 {
		// PostgreSQL accepts it, the generator never produces it
		return errf("unsupported", "table without columns")
	}
	// register, then apply constraints (self references are allowed)
	l.e.tables[name] = tbl
	l.e.tableOrder = append(l.e.tableOrder, name)
	for _, cols := range pks {
		if err := l.addPrimaryKey(tbl, cols); err != nil {
			l.problem("%s: %s", oneLine("CREATE TABLE "+name), err.Msg)
		}
	}
	for _, cols := range uniques {
		if err := l.addUnique(tbl, cols); err != nil {
			l.problem("%s: %s", oneLine("CREATE TABLE "+name), err.Msg)
		}
	}
	for _, c := range checks {
		l.addCheck(tbl, c.toks, "CREATE TABLE "+name+": CHECK ("+tokensText(c.toks)+")")
	}
	for _, spec := range fks {
		if err := l.addForeignKey(tbl, spec); err != nil {
			l.problem("%s: %s", oneLine("CREATE TABLE "+name), err.Msg)
		}
	}
	return nil
}

// skipConstraintAttributes skips NO INHERIT / NOT VALID / DEFERRABLE clauses.
func (p *parser) skipConstraintAttributes() {
	for {
		switch {
		case p.peek().is("no") && p.peekAt(1).is("inherit"):
			p.i += 2
		case p.peek().is("not") && p.peekAt(1).is("valid"):
			p.i += 2
		case p.peek().is("not") && p.peekAt(1).is("deferrable"):
			p.i += 2
		case p.peek().is("deferrable"):
			p.i++
		case p.peek().is("initially") && (p.peekAt(1).is("deferred") || p.peekAt(1).is("immediate")):
			p.i += 2
		default:
			return
		}
	}
}

type fkSpec struct {
	cols     []string
	refTable string
	refCols  []string // nil: primary key of refTable
	onDelete fkAction
	onUpdate fkAction
}

// parseForeignKey parses "[(cols)] REFERENCES t [(cols)] [actions]"; when cols
// is given (column constraint) the parser is already after REFERENCES.
func (p *parser) parseForeignKey(cols []string) (*fkSpec, *Error) {
	spec := &fkSpec{cols: cols}
	if cols == nil {
		var err *Error
		if spec.cols, err = p.identList("column"); err != nil {
			return nil, err
		}
		if err := p.expectKw("references", "in foreign key"); err != nil {
			return nil, err
		}
	}
	var err *Error
	if spec.refTable, err = p.ident("referenced table name"); err != nil {
		return nil, err
	}
	if p.peek().isOp(".") {
		return nil, errf("unsupported", "schema qualified table names are not supported")
	}
	if p.peek().isOp("(") {
		if spec.refCols, err = p.identList("column"); err != nil {
			return nil, err
		}
	}
	for {
		switch {
		case p.peek().is("match"):
			p.i++
			m := p.next()
			if !m.is("simple") {
				return nil, errf("unsupported", "MATCH %s foreign keys are not supported", strings.ToUpper(m.text))
			}
		case p.peek().is("on") && (p.peekAt(1).is("delete") || p.peekAt(1).is("update")):
			isDelete := p.peekAt(1).is("delete")
			p.i += 2
			var act fkAction
			switch {
			case p.acceptKw("cascade"):
				act = actCascade
			case p.acceptKw("restrict"):
				act = actRestrict
			case p.peek().is("no") && p.peekAt(1).is("action"):
				p.i += 2
				act = actNoAction
			case p.peek().is("set") && p.peekAt(1).is("null"):
				p.i += 2
				act = actSetNull
			case p.peek().is("set") && p.peekAt(1).is("default"):
				p.i += 2
				act = actSetDefault
			default:
				return nil, p.unexpected("expected a referential action")
			}
			if p.peek().isOp("(") {
				return nil, errf("unsupported", "column list in referential action")
			}
			if isDelete {
				spec.onDelete = act
			} else {
				spec.onUpdate = act
			}
		default:
			p.skipConstraintAttributes()
			return spec, nil
		}
	}
}

func (l *loader) resolveColumns(tbl *table, names []string) ([]int, *Error) {
	out := make([]int, len(names))
	seen := map[int]bool{}
	for i, n := range names {
		idx, ok := tbl.byName[n]
		if !ok {
			return nil, errf("schema", "column %q of relation %q does not exist", n, tbl.name)
		}
		if seen[idx] {
			return nil, errf("schema", "column %q appears twice in the constraint", n)
		}
		seen[idx] = true
		out[i] = idx
	}
	return out, nil
}

func (l *loader) addPrimaryKey(tbl *table, names []string) *Error {
	if tbl.pk != nil {
		return errf("schema", "multiple primary keys for table %q are not allowed", tbl.name)
	}
	cols, err := l.resolveColumns(tbl, names)
	if err != nil {
		return err
	}
	if len(tbl.rows) > 0 {
		return errf("unsupported", "adding a constraint to a non empty table")
	}
	tbl.pk = cols
	for _, c := range cols {
		tbl.cols[c].notNull = true
	}
	return nil
}

func (l *loader) addUnique(tbl *table, names []string) *Error {
	cols, err := l.resolveColumns(tbl, names)
	if err != nil {
		return err
	}
	tbl.uniques = append(tbl.uniques, cols)
	return nil
}

// addCheck binds a CHECK expression. Expressions which cannot be understood are
// kept in Ignored(); expressions naming unknown columns or functions are schema
// problems.
func (l *loader) addCheck(tbl *table, toks []token, text string) {
	p := &parser{toks: toks, reserved: false}
	e, err := p.parseExpr()
	if err == nil && p.peek().kind != tEOF {
		err = p.unexpected("after CHECK expression")
	}
	if err != nil {
		l.ignore(text)
		return
	}
	b := &binder{tbl: tbl, checkMode: true, opt: l.e.vopt}
	bound, err := b.bindBool(e)
	if err != nil {
		switch err.Class {
		case "undefined_column":
			l.problem("%s: %s", oneLine(text), err.Msg)
		case "type":
			l.problem("%s: %s", oneLine(text), err.Msg)
		default:
			l.ignore(text)
		}
		return
	}
	// the functions must exist at this point of the script
	missing := ""
	walkExpr(e, func(x expr) {
		if c, ok := x.(callExpr); ok && c.fn != "array_length" {
			if _, defined := l.e.funcs[c.fn]; !defined && missing == "" {
				missing = c.raw
			}
		}
	})
	if missing != "" {
		l.problem("%s: function %s(...) does not exist", oneLine(text), missing)
		return
	}
	tbl.checks = append(tbl.checks, &checkConstraint{src: tokensText(toks), bound: bound})
}

func (l *loader) setDefault(tbl *table, col *column, e expr) *Error {
	switch e.(type) {
	case numLit, strLit, boolLit, nullLit:
	default:
		return errf("unsupported", "column %s: only literal DEFAULT values are supported", col.name)
	}
	b := &binder{tbl: tbl, checkMode: true, opt: l.e.vopt}
	t := col.typ
	be, err := b.bindTo(e, t)
	if err != nil {
		return errf("schema", "column %s: DEFAULT: %s", col.name, err.Msg)
	}
	col.hasDefault = true
	col.def = be.(bConst).v
	switch x := e.(type) {
	case numLit:
		col.defText = x.text
	case strLit:
		col.defText = "'" + strings.ReplaceAll(x.s, "'", "''") + "'"
	case boolLit:
		col.defText = strconv.FormatBool(x.b)
	case nullLit:
		col.defText = "NULL"
	}
	return nil
}

func (l *loader) addForeignKey(tbl *table, spec *fkSpec) *Error {
	cols, err := l.resolveColumns(tbl, spec.cols)
	if err != nil {
		return err
	}
	parent, ok := l.e.tables[spec.refTable]
	if !ok {
		return errf("schema", "foreign key (%s) references unknown table %q", strings.Join(spec.cols, ", "), spec.refTable)
	}
	var refCols []int
	if spec.refCols == nil {
		if parent.pk == nil {
			return errf("schema", "foreign key (%s): there is no primary key for referenced table %q", strings.Join(spec.cols, ", "), parent.name)
		}
		refCols = parent.pk
	} else {
		if refCols, err = l.resolveColumns(parent, spec.refCols); err != nil {
			return errf("schema", "foreign key (%s): %s", strings.Join(spec.cols, ", "), err.Msg)
		}
		matched := false
		for _, u := range parent.uniqueSets() {
			if sameSet(u, refCols) {
				matched = true
				break
			}
		}
		if !matched {
			return errf("schema", "foreign key (%s): there is no unique constraint matching given keys (%s) for referenced table %q",
				strings.Join(spec.cols, ", "), strings.Join(spec.refCols, ", "), parent.name)
		}
	}
	if len(refCols) != len(cols) {
		return errf("schema", "foreign key (%s): number of referencing and referenced columns disagree (%d vs %d for %q)",
			strings.Join(spec.cols, ", "), len(cols), len(refCols), parent.name)
	}
	for i := range cols {
		ct, pt := tbl.cols[cols[i]].typ, parent.cols[refCols[i]].typ
		if !ct.comparableWith(pt) {
			return errf("schema", "foreign key: columns %s.%s (%s) and %s.%s (%s) are of incompatible types",
				tbl.name, tbl.cols[cols[i]].name, ct.name, parent.name, parent.cols[refCols[i]].name, pt.name)
		}
	}
	if spec.onDelete == actSetNull || spec.onUpdate == actSetNull {
		// legal, but bound to fail at run time on NOT NULL columns; nothing to report
		_ = 0
	}
	fk := &foreignKey{child: tbl, cols: cols, parent: parent, refCols: refCols, onDelete: spec.onDelete, onUpdate: spec.onUpdate}
	tbl.fks = append(tbl.fks, fk)
	parent.refBy = append(parent.refBy, fk)
	return nil
}

// alterTable handles ALTER TABLE statements. understood is false for the forms
// which are kept in Ignored().
func (l *loader) alterTable(p *parser, text string) (understood bool, err *Error) {
	if p.peek().is("if") && p.peekAt(1).is("exists") {
		p.i += 2
	}
	p.acceptKw("only")
	name, err := p.ident("table name")
	if err != nil {
		return false, err
	}
	if p.peek().isOp(".") {
		return false, errf("unsupported", "schema qualified table names are not supported")
	}
	tbl, ok := l.e.tables[name]
	switch {
	case p.acceptKw("add"):
		if p.acceptKw("constraint") {
			if _, err := p.ident("constraint name"); err != nil {
				return false, err
			}
		}
		t := p.peek()
		isConstraint := (t.is("foreign") && p.peekAt(1).is("key")) || (t.is("primary") && p.peekAt(1).is("key")) ||
			t.is("unique") || t.is("check")
		if !isConstraint {
			return false, nil // ADD COLUMN, ADD EXCLUDE...
		}
		if !ok {
			return true, errf("schema", "relation %q does not exist", name)
		}
		switch {
		case t.is("foreign"):
			p.i += 2
			spec, err := p.parseForeignKey(nil)
			if err != nil {
				return true, err
			}
			if p.peek().kind != tEOF {
				return true, p.unexpected("after foreign key definition")
			}
			return true, l.addForeignKey(tbl, spec)
		case t.is("primary"):
			p.i += 2
			cols, err := p.identList("column")
			if err != nil {
				return true, err
			}
			p.skipConstraintAttributes()
			if p.peek().kind != tEOF {
				return true, p.unexpected("after primary key definition")
			}
			return true, l.addPrimaryKey(tbl, cols)
		case t.is("unique"):
			p.i++
			if p.peek().is("using") {
				return true, errf("unsupported", "UNIQUE USING INDEX")
			}
			cols, err := p.identList("column")
			if err != nil {
				return true, err
			}
			p.skipConstraintAttributes()
			if p.peek().kind != tEOF {
				return true, p.unexpected("after unique constraint definition")
			}
			return true, l.addUnique(tbl, cols)
		default: // check
			p.i++
			inner, err := p.skipBalanced()
			if err != nil {
				return true, err
			}
			p.skipConstraintAttributes()
			if p.peek().kind != tEOF {
				return true, p.unexpected("after check constraint definition")
			}
			l.addCheck(tbl, inner, text)
			return true, nil
		}
	case p.acceptKw("alter"):
		p.acceptKw("column")
		cname, err := p.ident("column name")
		if err != nil {
			return false, err
		}
		switch {
		case p.peek().is("set") && p.peekAt(1).is("default"):
			p.i += 2
			if !ok {
				return true, errf("schema", "relation %q does not exist", name)
			}
			idx, found := tbl.byName[cname]
			if !found {
				return true, errf("schema", "column %q of relation %q does not exist", cname, name)
			}
			e, err := p.parsePrimary()
			if err != nil {
				return true, err
			}
			if e, err = p.checkTrailingOperator(e); err != nil {
				return true, err
			}
			if p.peek().kind != tEOF {
				return true, p.unexpected("after DEFAULT value")
			}
			return true, l.setDefault(tbl, tbl.cols[idx], e)
		case p.peek().is("drop") && p.peekAt(1).is("default"):
			p.i += 2
			if !ok {
				return true, errf("schema", "relation %q does not exist", name)
			}
			idx, found := tbl.byName[cname]
			if !found {
				return true, errf("schema", "column %q of relation %q does not exist", cname, name)
			}
			c := tbl.cols[idx]
			c.hasDefault, c.def, c.defText = false, nil, ""
			return true, nil
		case (p.peek().is("set") || p.peek().is("drop")) && p.peekAt(1).is("not") && p.peekAt(2).is("null"):
			set := p.peek().is("set")
			if !ok {
				return true, errf("schema", "relation %q does not exist", name)
			}
			idx, found := tbl.byName[cname]
			if !found {
				return true, errf("schema", "column %q of relation %q does not exist", cname, name)
			}
			if !set {
				for _, c := range tbl.pk {
					if c == idx {
						return true, errf("schema", "column %q is in a primary key", cname)
					}
				}
			}
			tbl.cols[idx].notNull = set
			return true, nil
		}
		return false, nil
	}
	return false, nil
}

// createUniqueIndex understands CREATE UNIQUE INDEX [name] ON t (col, ...)
// when Options.EnforceUniqueIndexes is set.
func (l *loader) createUniqueIndex(p *parser) bool {
	if !p.peek().is("on") {
		if _, err := p.ident("index name"); err != nil {
			return false
		}
	}
	if !p.acceptKw("on") {
		return false
	}
	name, err := p.ident("table name")
	if err != nil {
		return false
	}
	tbl, ok := l.e.tables[name]
	if !ok || !p.peek().isOp("(") {
		return false
	}
	cols, err := p.identList("column")
	if err != nil || p.peek().kind != tEOF {
		return false
	}
	return l.addUnique(tbl, cols) == nil
}
