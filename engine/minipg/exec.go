package minipg

import (
	"database/sql/driver"
	"fmt"
	"sort"
	"strings"
)

// result is the outcome of a statement.
type result struct {
	cols     []string
	types    []*sqlType
	rows     [][]driver.Value
	affected int64
}

// executor runs one statement; it gives statement level atomicity: every table
// modified is saved on first touch and restored when the statement fails.
type executor struct {
	e       *Engine
	undo    map[*table][][]any
	order   []*table // touched tables, in order
	pending []pendingRef
	ev      *evalCtx
	depth   int
}

// pendingRef is a NO ACTION / RESTRICT foreign key check postponed to the end
// of the statement: no row of fk.child may still reference key unless a row of
// fk.parent carries it.
type pendingRef struct {
	fk  *foreignKey
	key string
}

func (e *Engine) newExecutor() *executor {
	return &executor{e: e, undo: map[*table][][]any{}, ev: &evalCtx{checkFn: e.checkFn}}
}

// touch must be called before the first modification of t.
func (x *executor) touch(t *table) {
	if _, ok := x.undo[t]; ok {
		return
	}
	x.undo[t] = t.rows
	x.order = append(x.order, t)
	t.rows = t.rows[:len(t.rows):len(t.rows)] // appends must not write into the saved array
}

func (x *executor) rollback() {
	for t, rows := range x.undo {
		t.rows = rows
	}
}

// ---------------------------------------------------------------- validation shared by Prepare and Exec

// resolve checks the table and the columns named by the statement.
func (e *Engine) resolve(st *statement) (*table, *Error) {
	t, ok := e.tables[st.table]
	if !ok {
		return nil, errf("undefined_table", "relation %q does not exist", st.table)
	}
	check := func(name string) *Error {
		if _, ok := t.byName[name]; !ok {
			return errf("undefined_column", "column %q of relation %q does not exist", name, t.name)
		}
		return nil
	}
	for _, c := range st.cols {
		if err := check(c); err != nil {
			return nil, err
		}
	}
	var werr *Error
	visit := func(x expr) {
		if c, ok := x.(colRef); ok && werr == nil {
			werr = check(c.name)
		}
	}
	for _, v := range st.values {
		walkExpr(v, visit)
	}
	walkExpr(st.where, visit)
	if werr != nil {
		return nil, werr
	}
	for _, c := range st.out {
		if c == "*" {
			continue
		}
		if err := check(c); err != nil {
			return nil, err
		}
	}
	// a column may be assigned only once
	if st.kind == "insert" || st.kind == "update" || st.kind == "copy" {
		seen := map[string]bool{}
		for _, c := range st.cols {
			if seen[c] {
				if st.kind == "update" {
					return nil, errf("syntax", "multiple assignments to same column %q", c)
				}
				return nil, errf("syntax", "column %q specified more than once", c)
			}
			seen[c] = true
		}
	}
	if (st.kind == "insert" || (st.kind == "update" && st.tuple)) && len(st.cols) != len(st.values) {
		return nil, errf("arity", "%s has %d target columns but %d expressions", strings.ToUpper(st.kind), len(st.cols), len(st.values))
	}
	return t, nil
}

// checkPlaceholders verifies that the placeholders are exactly $1..$n with
// n == nargs.
func checkPlaceholders(st *statement, nargs int) *Error {
	for i, n := range st.params {
		if n != i+1 {
			if n == 0 {
				return errf("placeholder", "there is no parameter $0")
			}
			return errf("placeholder", "placeholder $%d is not used (placeholders must be exactly $1..$n)", i+1)
		}
	}
	if len(st.params) != nargs {
		return errf("placeholder", "got %d parameters but the statement requires %d", nargs, len(st.params))
	}
	return nil
}

func (t *table) outputColumns(st *statement) []int {
	var out []int
	for _, c := range st.out {
		if c == "*" {
			for i := range t.cols {
				out = append(out, i)
			}
			continue
		}
		out = append(out, t.byName[c])
	}
	return out
}

func (t *table) project(res *result, outIdx []int, rows [][]any) {
	for _, i := range outIdx {
		res.cols = append(res.cols, t.cols[i].name)
		res.types = append(res.types, t.cols[i].typ)
	}
	for _, r := range rows {
		out := make([]driver.Value, len(outIdx))
		for j, i := range outIdx {
			out[j] = encode(t.cols[i].typ, r[i])
		}
		res.rows = append(res.rows, out)
	}
}

// ---------------------------------------------------------------- statements

// run executes a parsed statement (other than COPY). The engine lock is held.
func (e *Engine) run(st *statement, args []any) (*result, *Error) {
	t, err := e.resolve(st)
	if err != nil {
		return nil, err
	}
	if err := checkPlaceholders(st, len(args)); err != nil {
		return nil, err
	}
	b := &binder{tbl: t, args: args, opt: e.vopt, paramTyped: map[int]bool{}, paramSeen: map[int]bool{}}

	// values of INSERT / UPDATE
	type assign struct {
		col   int
		val   bexpr
		isDef bool
	}
	var assigns []assign
	for i, v := range st.values {
		ci := t.byName[st.cols[i]]
		col := t.cols[ci]
		if _, isDef := v.(defLit); isDef {
			assigns = append(assigns, assign{col: ci, isDef: true})
			continue
		}
		if _, isCol := v.(colRef); isCol && st.kind == "insert" {
			return nil, errf("unsupported", "column references are not allowed in VALUES")
		}
		be, err := b.bindTo(v, col.typ)
		if err != nil {
			if err.Class == "type" {
				err.Msg = "column " + col.name + ": " + err.Msg
			}
			return nil, err
		}
		assigns = append(assigns, assign{col: ci, val: be})
	}
	var where bexpr
	if st.where != nil {
		if where, err = b.bindBool(st.where); err != nil {
			return nil, err
		}
	}
	for _, n := range st.params {
		if b.paramSeen[n] && !b.paramTyped[n] {
			return nil, errf("type", "could not determine data type of parameter $%d", n)
		}
	}

	x := e.newExecutor()
	res := &result{}
	outIdx := t.outputColumns(st)

	match := func() ([]int, *Error) {
		var idx []int
		for i, r := range t.rows {
			if where != nil {
				v, err := where.eval(x.ev, r)
				if err != nil {
					return nil, err
				}
				if v != true {
					continue
				}
			}
			idx = append(idx, i)
		}
		return idx, nil
	}

	switch st.kind {
	case "select":
		idx, err := match()
		if err != nil {
			return nil, err
		}
		rows := make([][]any, len(idx))
		for i, k := range idx {
			rows[i] = t.rows[k]
		}
		t.project(res, outIdx, rows)
		res.affected = int64(len(idx))
		return res, nil

	case "insert":
		row := make([]any, len(t.cols))
		given := make([]bool, len(t.cols))
		for _, a := range assigns {
			if a.isDef {
				continue
			}
			v, err := a.val.eval(x.ev, nil)
			if err != nil {
				return nil, err
			}
			row[a.col] = v
			given[a.col] = true
		}
		for i := range t.cols {
			if !given[i] {
				row[i] = t.defaultValue(i)
			}
		}
		if err := x.insertRows(t, [][]any{row}); err != nil {
			x.rollback()
			return nil, err
		}
		if err := x.finish(); err != nil {
			x.rollback()
			return nil, err
		}
		if st.hasOut {
			t.project(res, outIdx, [][]any{row})
		}
		res.affected = 1
		return res, nil

	case "update":
		idx, err := match()
		if err != nil {
			return nil, err
		}
		newRows := make([][]any, len(idx))
		for k, i := range idx {
			old := t.rows[i]
			nr := append([]any{}, old...)
			for _, a := range assigns {
				if a.isDef {
					nr[a.col] = t.defaultValue(a.col)
					continue
				}
				v, err := a.val.eval(x.ev, old)
				if err != nil {
					return nil, err
				}
				nr[a.col] = v
			}
			newRows[k] = nr
		}
		err = x.updateRows(t, idx, newRows)
		if err == nil {
			err = x.finish()
		}
		if err != nil {
			x.rollback()
			return nil, err
		}
		if st.hasOut {
			t.project(res, outIdx, newRows)
		}
		res.affected = int64(len(idx))
		return res, nil

	case "delete":
		idx, err := match()
		if err != nil {
			return nil, err
		}
		removed := make([][]any, len(idx))
		for k, i := range idx {
			removed[k] = t.rows[i]
		}
		err = x.deleteRows(t, idx)
		if err == nil {
			err = x.finish()
		}
		if err != nil {
			x.rollback()
			return nil, err
		}
		if st.hasOut {
			t.project(res, outIdx, removed)
		}
		res.affected = int64(len(idx))
		return res, nil
	}
	return nil, errf("unsupported", "statement kind %q", st.kind)
}

// defaultValue returns the value of column i when it is not given: DEFAULT
// clause, next sequence value for serial columns, NULL otherwise. Like in
// PostgreSQL, sequence values are consumed even if the statement later fails
// or the transaction is rolled back.
func (t *table) defaultValue(i int) any {
	c := t.cols[i]
	switch {
	case c.hasDefault:
		return c.def
	case c.typ.serial:
		t.seq[i]++
		return t.seq[i]
	}
	return nil
}

// ---------------------------------------------------------------- row level checks

// checkRow verifies NOT NULL then CHECK constraints, in this order.
func (x *executor) checkRow(t *table, row []any) *Error {
	for i, c := range t.cols {
		if c.notNull && row[i] == nil {
			return errf("not_null", "null value in column %q of relation %q violates not-null constraint", c.name, t.name)
		}
	}
	for _, ck := range t.checks {
		v, err := ck.bound.eval(x.ev, row)
		if err != nil {
			return err
		}
		if v == false {
			return errf("check", "new row for relation %q violates check constraint (%s)", t.name, ck.src)
		}
	}
	return nil
}

// checkUnique verifies the primary key and the unique constraints for the
// given rows of t (which are already stored in t.rows).
func (x *executor) checkUnique(t *table, rows [][]any) *Error {
	for k, u := range t.uniqueSets() {
		counts := map[string]int{}
		for _, r := range t.rows {
			if key, ok := keyOf(r, u); ok {
				counts[key]++
			}
		}
		for _, r := range rows {
			if key, ok := keyOf(r, u); ok && counts[key] > 1 {
				kind := "unique constraint"
				if k == 0 && t.pk != nil {
					kind = "primary key"
				}
				return errf("unique", "duplicate key value violates %s of %q: (%s)=(%s) already exists",
					kind, t.name, strings.Join(t.colNames(u), ", "), describeKey(t, r, u))
			}
		}
	}
	return nil
}

func describeKey(t *table, row []any, idx []int) string {
	parts := make([]string, len(idx))
	for i, c := range idx {
		if row[c] == nil {
			parts[i] = "null"
		} else {
			parts[i] = clip(textOf(t.cols[c].typ, row[c]))
		}
	}
	return strings.Join(parts, ", ")
}

// checkOutgoing verifies that the rows of t reference existing rows.
func (x *executor) checkOutgoing(t *table, rows [][]any) *Error {
	for _, fk := range t.fks {
		if err := x.checkOutgoingFK(t, fk, rows); err != nil {
			return err
		}
	}
	return nil
}

func (x *executor) checkOutgoingFK(t *table, fk *foreignKey, rows [][]any) *Error {
	{
		var present map[string]bool
		for _, r := range rows {
			key, ok := keyOf(r, fk.cols)
			if !ok {
				continue // MATCH SIMPLE: a NULL column disables the check
			}
			if present == nil {
				present = map[string]bool{}
				for _, pr := range fk.parent.rows {
					if k, ok := keyOf(pr, fk.refCols); ok {
						present[k] = true
					}
				}
			}
			if !present[key] {
				return errf("foreign_key", "insert or update on table %q violates foreign key constraint %s: key (%s)=(%s) is not present in table %q",
					t.name, fk, strings.Join(t.colNames(fk.cols), ", "), describeKey(t, r, fk.cols), fk.parent.name)
			}
		}
	}
	return nil
}

// checkOutgoingChanged is checkOutgoing restricted, per foreign key, to the rows whose key differs from
// the one of the row they replace.
func (x *executor) checkOutgoingChanged(t *table, oldRows, newRows [][]any) *Error {
	for _, fk := range t.fks {
		var changed [][]any
		for i, r := range newRows {
			nk, nok := keyOf(r, fk.cols)
			ok, ook := keyOf(oldRows[i], fk.cols)
			if nok && ook && nk == ok {
				continue
			}
			changed = append(changed, r)
		}
		if len(changed) == 0 {
			continue
		}
		if err := x.checkOutgoingFK(t, fk, changed); err != nil {
			return err
		}
	}
	return nil
}

// finish runs the checks postponed to the end of the statement.
func (x *executor) finish() *Error {
	for _, p := range x.pending {
		referenced := false
		for _, r := range p.fk.child.rows {
			if k, ok := keyOf(r, p.fk.cols); ok && k == p.key {
				referenced = true
				break
			}
		}
		if !referenced {
			continue
		}
		stillThere := false
		for _, r := range p.fk.parent.rows {
			if k, ok := keyOf(r, p.fk.refCols); ok && k == p.key {
				stillThere = true
				break
			}
		}
		if !stillThere {
			return errf("foreign_key", "update or delete on table %q violates foreign key constraint %s: the key is still referenced from table %q",
				p.fk.parent.name, p.fk, p.fk.child.name)
		}
	}
	x.pending = nil
	return nil
}

// ---------------------------------------------------------------- mutations

// insertRows appends complete, coerced rows to t.
func (x *executor) insertRows(t *table, rows [][]any) *Error {
	for _, r := range rows {
		if err := x.checkRow(t, r); err != nil {
			return err
		}
	}
	x.touch(t)
	t.rows = append(t.rows, rows...)
	if err := x.checkUnique(t, rows); err != nil {
		return err
	}
	return x.checkOutgoing(t, rows)
}

const maxCascadeDepth = 64

// deleteRows removes the rows of t at the given (sorted) indexes and applies
// the referential actions of the foreign keys pointing to t.
func (x *executor) deleteRows(t *table, idx []int) *Error {
	if len(idx) == 0 {
		return nil
	}
	x.depth++
	defer func() { x.depth-- }()
	if x.depth > maxCascadeDepth {
		return errf("unsupported", "referential actions nested too deeply")
	}
	x.touch(t)
	doomed := make(map[int]bool, len(idx))
	for _, i := range idx {
		doomed[i] = true
	}
	removed := make([][]any, 0, len(idx))
	kept := make([][]any, 0, len(t.rows)-len(idx))
	for i, r := range t.rows {
		if doomed[i] {
			removed = append(removed, r)
		} else {
			kept = append(kept, r)
		}
	}
	t.rows = kept
	return x.propagate(t, removed, nil)
}

// propagate applies the referential actions triggered by the removal (newRows
// == nil) or the modification (newRows[i] replaces oldRows[i]) of rows of t.
func (x *executor) propagate(t *table, oldRows, newRows [][]any) *Error {
	for _, fk := range t.refBy {
		// old key -> new row (nil for deletions)
		type change struct {
			key    string
			newRow []any
		}
		var changes []change
		seen := map[string]bool{}
		for i, old := range oldRows {
			key, ok := keyOf(old, fk.refCols)
			if !ok || seen[key] {
				continue
			}
			var nr []any
			if newRows != nil {
				nr = newRows[i]
				if nk, ok := keyOf(nr, fk.refCols); ok && nk == key {
					continue // referenced key unchanged
				}
			}
			seen[key] = true
			changes = append(changes, change{key: key, newRow: nr})
		}
		if len(changes) == 0 {
			continue
		}
		action := fk.onDelete
		if newRows != nil {
			action = fk.onUpdate
		}
		child := fk.child
		switch action {
		case actNoAction, actRestrict:
			for _, c := range changes {
				x.pending = append(x.pending, pendingRef{fk: fk, key: c.key})
			}
		case actCascade:
			byKey := map[string][]any{}
			for _, c := range changes {
				byKey[c.key] = c.newRow
			}
			var match []int
			var repl [][]any
			for i, r := range child.rows {
				key, ok := keyOf(r, fk.cols)
				if !ok {
					continue
				}
				nr, hit := byKey[key]
				if !hit {
					continue
				}
				match = append(match, i)
				if newRows != nil {
					cr := append([]any{}, r...)
					for k, c := range fk.cols {
						cr[c] = nr[fk.refCols[k]]
					}
					repl = append(repl, cr)
				}
			}
			if len(match) == 0 {
				continue
			}
			var err *Error
			if newRows == nil {
				err = x.deleteRows(child, match)
			} else {
				err = x.updateRows(child, match, repl)
			}
			if err != nil {
				return err
			}
		case actSetNull, actSetDefault:
			keys := map[string]bool{}
			for _, c := range changes {
				keys[c.key] = true
			}
			var match []int
			var repl [][]any
			for i, r := range child.rows {
				key, ok := keyOf(r, fk.cols)
				if !ok || !keys[key] {
					continue
				}
				cr := append([]any{}, r...)
				for _, c := range fk.cols {
					if action == actSetDefault {
						cr[c] = child.defaultValue(c)
					} else {
						cr[c] = nil
					}
				}
				match = append(match, i)
				repl = append(repl, cr)
			}
			if len(match) == 0 {
				continue
			}
			if err := x.updateRows(child, match, repl); err != nil {
				return err
			}
		}
	}
	return nil
}

// updateRows replaces the rows of t at idx by newRows (complete, coerced).
func (x *executor) updateRows(t *table, idx []int, newRows [][]any) *Error {
	if len(idx) == 0 {
		return nil
	}
	x.depth++
	defer func() { x.depth-- }()
	if x.depth > maxCascadeDepth {
		return errf("unsupported", "referential actions nested too deeply")
	}
	for _, r := range newRows {
		if err := x.checkRow(t, r); err != nil {
			return err
		}
	}
	x.touch(t)
	oldRows := make([][]any, len(idx))
	rows := append([][]any{}, t.rows...)
	for k, i := range idx {
		oldRows[k] = rows[i]
		rows[i] = newRows[k]
	}
	t.rows = rows
	if err := x.checkUnique(t, newRows); err != nil {
		return err
	}
	// like PostgreSQL (RI_FKey_fk_upd_check_required) an UPDATE re-checks a foreign key only when its
	// columns change: a row whose other reference is being removed by the same statement (ON DELETE
	// SET NULL on one key, CASCADE on another) is not refused half-way
	if err := x.checkOutgoingChanged(t, oldRows, newRows); err != nil {
		return err
	}
	return x.propagate(t, oldRows, newRows)
}

// ---------------------------------------------------------------- COPY

// copyColumns returns the target column indexes of a COPY statement.
func (t *table) copyColumns(st *statement) []int {
	if st.allCols {
		out := make([]int, len(t.cols))
		for i := range out {
			out[i] = i
		}
		return out
	}
	out := make([]int, len(st.cols))
	for i, c := range st.cols {
		out[i] = t.byName[c]
	}
	return out
}

// copyRow validates and coerces one row given to a COPY statement. Like
// lib/pq, []byte arguments are transmitted in the bytea hex format whatever
// the type of the target column.
func (e *Engine) copyRow(t *table, cols []int, args []any) ([]any, *Error) {
	if len(args) != len(cols) {
		return nil, errf("arity", "COPY expects %d values per row, got %d", len(cols), len(args))
	}
	row := make([]any, len(t.cols))
	given := make([]bool, len(t.cols))
	for k, ci := range cols {
		col := t.cols[ci]
		arg := args[k]
		if b, isBytes := arg.([]byte); isBytes && !(col.typ.kind == kBytea && !col.typ.array) {
			arg = fmt.Sprintf(`\x%x`, b)
		}
		v, err := coerce(col.typ, arg, e.vopt)
		if err != nil {
			err.Msg = "column " + col.name + ": " + err.Msg
			return nil, err
		}
		row[ci] = v
		given[ci] = true
	}
	for i := range t.cols {
		if !given[i] {
			row[i] = copyDefault{}
		}
	}
	return row, nil
}

// copyDefault marks a column to be filled with its default at flush time.
type copyDefault struct{}

// copyFlush inserts the buffered rows atomically.
func (e *Engine) copyFlush(t *table, rows [][]any) *Error {
	for _, r := range rows {
		for i, v := range r {
			if _, isDef := v.(copyDefault); isDef {
				r[i] = t.defaultValue(i)
			}
		}
	}
	x := e.newExecutor()
	err := x.insertRows(t, rows)
	if err == nil {
		err = x.finish()
	}
	if err != nil {
		x.rollback()
		return err
	}
	return nil
}

// ---------------------------------------------------------------- transactions

// snapshot saves the content of every table.
func (e *Engine) snapshot() map[*table][][]any {
	snap := make(map[*table][][]any, len(e.tables))
	for _, t := range e.tables {
		snap[t] = t.rows
		t.rows = t.rows[:len(t.rows):len(t.rows)]
	}
	return snap
}

func (e *Engine) restore(snap map[*table][][]any) {
	for t, rows := range snap {
		t.rows = rows
	}
}

// sortedTableNames returns the table names in lexical order.
func (e *Engine) sortedTableNames() []string {
	out := make([]string, 0, len(e.tables))
	for n := range e.tables {
		out = append(out, n)
	}
	sort.Strings(out)
	return out
}
