package minipg

import (
	"database/sql"
	"database/sql/driver"
	"reflect"
	"strings"
	"testing"
	"time"
)

const shopDDL = `
CREATE TYPE Pair AS (A integer, B smallint);
CREATE TABLE owners (
	Id serial PRIMARY KEY,
	Name text NOT NULL,
	Age smallint CHECK (Age IN (1, 2, 3)) NOT NULL,
	Nick text
);
CREATE TABLE items (
	Id serial PRIMARY KEY,
	IdOwner integer NOT NULL,
	Opt integer,
	Label text NOT NULL,
	Score real NOT NULL,
	Ok boolean NOT NULL,
	Data jsonb NOT NULL,
	Raw bytea,
	Fixed integer[] CHECK (array_length(Fixed, 1) = 3) NOT NULL,
	Tags text[],
	Flags boolean[],
	Cp Pair NOT NULL,
	Day date,
	At timestamp (0) with time zone,
	guard smallint CHECK (guard IN (0, 1, 2)) NOT NULL
);
CREATE TABLE links (
	IdOwner integer NOT NULL,
	IdItem integer,
	Rank integer NOT NULL
);
ALTER TABLE items ADD FOREIGN KEY(IdOwner) REFERENCES owners ;
ALTER TABLE items ADD FOREIGN KEY(Opt) REFERENCES owners ON DELETE SET NULL;
ALTER TABLE items ALTER COLUMN guard SET DEFAULT 1 /* Enum.B */;
ALTER TABLE items ADD CHECK(guard = 1 /* Enum.B */);
ALTER TABLE items ADD UNIQUE(IdOwner, Label);
ALTER TABLE links ADD FOREIGN KEY(IdOwner) REFERENCES owners ON DELETE CASCADE;
ALTER TABLE links ADD FOREIGN KEY(IdItem) REFERENCES items ON DELETE CASCADE;
ALTER TABLE links ADD UNIQUE(IdOwner, IdItem);
CREATE OR REPLACE FUNCTION validate_data (data jsonb) RETURNS boolean AS $$ BEGIN RETURN TRUE; END; $$ LANGUAGE 'plpgsql' IMMUTABLE;
ALTER TABLE items ADD CONSTRAINT Data_gomacro CHECK (validate_data(Data));
`

func openShop(t testing.TB) (*sql.DB, *Engine) {
	t.Helper()
	db, e, err := Open(shopDDL)
	if err != nil {
		t.Fatal(err)
	}
	t.Cleanup(func() { db.Close() })
	return db, e
}

func mustExec(t testing.TB, db interface {
	Exec(string, ...any) (sql.Result, error)
}, query string, args ...any) sql.Result {
	t.Helper()
	res, err := db.Exec(query, args...)
	if err != nil {
		t.Fatalf("%s: %v", query, err)
	}
	return res
}

const insertItem = `INSERT INTO items (idowner, opt, label, score, ok, data, raw, fixed, tags, flags, cp, day, at)
	VALUES ($1, $2, $3, $4, $5, $6, $7, $8, $9, $10, $11, $12, $13) RETURNING id`

func itemArgs(owner int64, label string) []any {
	return []any{owner, nil, label, 1.5, true, `{"a": 1}`, []byte{1, 2}, "{1,2,3}", `{"x","y z"}`, "{t,f}", "(1, 2)",
		time.Date(2024, 5, 6, 0, 0, 0, 0, time.UTC), time.Date(2024, 5, 6, 7, 8, 9, 0, time.UTC)}
}

func seedShop(t testing.TB, db *sql.DB) {
	t.Helper()
	mustExec(t, db, "INSERT INTO owners (name, age) VALUES ($1, $2)", "ann", 1)
	mustExec(t, db, "INSERT INTO owners (name, age, nick) VALUES ($1, $2, $3)", "bob", 2, "b")
	mustExec(t, db, insertItem, itemArgs(1, "first")...)
	mustExec(t, db, insertItem, itemArgs(2, "second")...)
}

func TestInsertSelectRoundTripAndEncoding(t *testing.T) {
	db, e := openShop(t)
	seedShop(t, db)

	rows, err := db.Query("SELECT Id, IdOwner, opt, label, score, ok, data, raw, fixed, tags, flags, cp, day, at, guard FROM Items WHERE ID = $1", 1)
	if err != nil {
		t.Fatal(err)
	}
	defer rows.Close()
	cols, _ := rows.Columns()
	if want := "id idowner opt label score ok data raw fixed tags flags cp day at guard"; strings.Join(cols, " ") != want {
		t.Errorf("columns %q", cols)
	}
	if !rows.Next() {
		t.Fatal("no row")
	}
	vals := make([]any, len(cols))
	ptrs := make([]any, len(cols))
	for i := range vals {
		ptrs[i] = &vals[i]
	}
	if err := rows.Scan(ptrs...); err != nil {
		t.Fatal(err)
	}
	want := []any{
		int64(1), int64(1), nil, "first", 1.5, true, []byte(`{"a": 1}`), []byte{1, 2}, []byte("{1,2,3}"), []byte(`{x,"y z"}`),
		[]byte("{t,f}"), []byte("(1,2)"), time.Date(2024, 5, 6, 0, 0, 0, 0, time.UTC), time.Date(2024, 5, 6, 7, 8, 9, 0, time.UTC), int64(1),
	}
	if !reflect.DeepEqual(vals, want) {
		t.Errorf("got\n%#v\nwant\n%#v", vals, want)
	}
	types, err := rows.ColumnTypes()
	if err != nil {
		t.Fatal(err)
	}
	if rows.Next() {
		t.Error("more than one row")
	}
	if types[8].DatabaseTypeName() != "INTEGER[]" || types[13].DatabaseTypeName() != "TIMESTAMP (0) WITH TIME ZONE" {
		t.Errorf("type names %q %q", types[8].DatabaseTypeName(), types[13].DatabaseTypeName())
	}
	if e.RowCount("items") != 2 || e.RowCount("OWNERS") != 2 {
		t.Errorf("row counts")
	}
	if got := e.Rows("owners"); !reflect.DeepEqual(got, [][]driver.Value{{int64(1), "ann", int64(1), nil}, {int64(2), "bob", int64(2), "b"}}) {
		t.Errorf("Rows(owners) = %v", got)
	}

	// RETURNING hands values back in the listed order; serial gives 1, 2, 3...
	var id, age int64
	var name string
	if err := db.QueryRow("INSERT INTO owners (age, name) VALUES ($1, $2) RETURNING name, id, age;", 3, "cy").Scan(&name, &id, &age); err != nil {
		t.Fatal(err)
	}
	if name != "cy" || id != 3 || age != 3 {
		t.Errorf("got %q %d %d", name, id, age)
	}
	// SELECT * and RETURNING *
	var nick sql.NullString
	if err := db.QueryRow("SELECT * FROM owners WHERE name = 'bob'").Scan(&id, &name, &age, &nick); err != nil || id != 2 || nick.String != "b" {
		t.Errorf("got %d %v %v", id, nick, err)
	}
	// no rows
	if err := db.QueryRow("SELECT id FROM owners WHERE id = $1", 99).Scan(&id); err != sql.ErrNoRows {
		t.Errorf("expected ErrNoRows, got %v", err)
	}
	// results
	res := mustExec(t, db, "UPDATE owners SET nick = $1", "n")
	if n, err := res.RowsAffected(); err != nil || n != 3 {
		t.Errorf("RowsAffected = %d, %v", n, err)
	}
	if _, err := res.LastInsertId(); err == nil {
		t.Error("LastInsertId must fail")
	}
}

func TestIdentifierFolding(t *testing.T) {
	db, _ := openShop(t)
	seedShop(t, db)
	var n int64
	for _, q := range []string{
		`SELECT IDOWNER FROM ITEMS WHERE LaBeL = 'first'`,
		`select "idowner" from "items" where "label" = 'first'`,
		"SELECT\n\tidOwner\nFROM   items\nWHERE label = 'first' ;",
	} {
		if err := db.QueryRow(q).Scan(&n); err != nil || n != 1 {
			t.Errorf("%s: %d %v", q, n, err)
		}
	}
	// quoted identifiers are literal
	err := db.QueryRow(`SELECT "IdOwner" FROM items`).Scan(&n)
	wantClass(t, err, "undefined_column")
	err = db.QueryRow(`SELECT idowner FROM "Items"`).Scan(&n)
	wantClass(t, err, "undefined_table")
}

func TestValidationClasses(t *testing.T) {
	db, e := openShop(t)
	seedShop(t, db)
	e.ResetLog()

	bad := func(i int, v any) []any {
		a := itemArgs(1, "x")
		a[i] = v
		return a
	}
	cases := []struct {
		name  string
		class string
		query string
		args  []any
	}{
		// syntax
		{"empty", "syntax", "", nil},
		{"only semicolon", "syntax", " ; ", nil},
		{"garbage", "syntax", "$1", nil},
		{"empty insert lists", "syntax", "INSERT INTO owners () VALUES ()", nil},
		{"empty values", "syntax", "INSERT INTO owners (name) VALUES ()", nil},
		{"empty update tuple", "syntax", "UPDATE owners SET () = () WHERE id = $1", []any{1}},
		{"missing values", "syntax", "INSERT INTO owners (name) ($1)", []any{"a"}},
		{"missing from", "syntax", "SELECT id owners", nil},
		{"trailing comma", "syntax", "SELECT id, FROM owners", nil},
		{"unbalanced", "syntax", "SELECT id FROM owners WHERE (id = $1", []any{1}},
		{"unterminated string", "syntax", "SELECT id FROM owners WHERE name = 'x", nil},
		{"double where", "syntax", "SELECT id FROM owners WHERE id = 1 WHERE id = 2", nil},
		{"chained comparison", "syntax", "SELECT id FROM owners WHERE id = 1 = 2", nil},
		{"multiple statements", "syntax", "DELETE FROM links; DELETE FROM items", nil},
		{"copy empty columns", "syntax", `COPY "links" () FROM STDIN`, nil},
		{"duplicate insert column", "syntax", "INSERT INTO owners (name, name) VALUES ($1, $2)", []any{"a", "b"}},
		{"duplicate set column", "syntax", "UPDATE owners SET name = $1, name = $2", []any{"a", "b"}},
		// undefined_table / undefined_column
		{"unknown table", "undefined_table", "SELECT id FROM nope", nil},
		{"unknown table insert", "undefined_table", "INSERT INTO nope (a) VALUES ($1)", []any{1}},
		{"unknown insert column", "undefined_column", "INSERT INTO owners (name, nope) VALUES ($1, $2)", []any{"a", 1}},
		{"unknown select column", "undefined_column", "SELECT id, nope FROM owners", nil},
		{"unknown where column", "undefined_column", "SELECT id FROM owners WHERE nope = $1", []any{1}},
		{"unknown returning column", "undefined_column", "DELETE FROM owners WHERE id = $1 RETURNING nope", []any{1}},
		{"unknown set column", "undefined_column", "UPDATE owners SET nope = $1", []any{1}},
		{"unknown any column", "undefined_column", "SELECT id FROM owners WHERE nope = ANY($1)", []any{"{1}"}},
		// placeholder
		{"missing arg", "placeholder", "SELECT id FROM owners WHERE id = $1", nil},
		{"extra arg", "placeholder", "SELECT id FROM owners WHERE id = $1", []any{1, 2}},
		{"gap", "placeholder", "SELECT id FROM owners WHERE id = $1 AND age = $3", []any{1, 2, 3}},
		{"gap with 2 args", "placeholder", "SELECT id FROM owners WHERE id = $2", []any{1, 2}},
		{"dollar zero", "placeholder", "SELECT id FROM owners WHERE id = $0", []any{1}},
		{"args without placeholders", "placeholder", "SELECT id FROM owners", []any{1}},
		// arity
		{"insert arity less", "arity", "INSERT INTO owners (name, age) VALUES ($1)", []any{"a"}},
		{"insert arity more", "arity", "INSERT INTO owners (name) VALUES ($1, $2)", []any{"a", 1}},
		{"update arity", "arity", "UPDATE owners SET (name, age) = ($1) WHERE id = $2", []any{"a", 1}},
		// type
		{"int from text", "type", "INSERT INTO owners (name, age) VALUES ($1, $2)", []any{"a", "one"}},
		{"int from float", "type", "INSERT INTO owners (name, age) VALUES ($1, $2)", []any{"a", 1.5}},
		{"int from bool", "type", "INSERT INTO owners (name, age) VALUES ($1, $2)", []any{"a", true}},
		{"smallint range", "type", "INSERT INTO owners (name, age) VALUES ($1, $2)", []any{"a", 40000}},
		{"text from int", "type", "INSERT INTO owners (name, age) VALUES ($1, $2)", []any{7, 1}},
		{"text from time", "type", "INSERT INTO owners (name, age) VALUES ($1, $2)", []any{time.Now(), 1}},
		{"text with NUL", "type", "INSERT INTO owners (name, age) VALUES ($1, $2)", []any{"a\x00b", 1}},
		{"text invalid utf8", "type", "INSERT INTO owners (name, age) VALUES ($1, $2)", []any{"a\xffb", 1}},
		{"integer range", "type", insertItem, bad(0, int64(1)<<31)},
		{"real from text", "type", insertItem, bad(3, "abc")},
		{"bool from int", "type", insertItem, bad(4, 1)},
		{"invalid json", "type", insertItem, bad(5, "{a:1}")},
		{"json from int", "type", insertItem, bad(5, 12)},
		{"jsonb NUL escape", "type", insertItem, bad(5, `{"a":"\u0000"}`)},
		{"bytea bad hex", "type", insertItem, bad(6, `\xzz`)},
		{"array not text", "type", insertItem, bad(7, 3)},
		{"array malformed", "type", insertItem, bad(7, "1,2,3")},
		{"array element", "type", insertItem, bad(7, "{1,x,3}")},
		{"array multidim", "type", insertItem, bad(7, "{{1,2,3}}")},
		{"bool array element", "type", insertItem, bad(9, "{t,maybe}")},
		{"composite arity", "type", insertItem, bad(10, "(1,2,3)")},
		{"composite field", "type", insertItem, bad(10, "(1,x)")},
		{"composite field range", "type", insertItem, bad(10, "(1,70000)")},
		{"composite malformed", "type", insertItem, bad(10, "1,2")},
		{"date from int", "type", insertItem, bad(11, 20240101)},
		{"timestamp from text", "type", insertItem, bad(12, "tomorrow")},
		{"where param type", "type", "SELECT id FROM owners WHERE id = $1", []any{"x"}},
		{"where literal type", "type", "SELECT id FROM owners WHERE name = 3", nil},
		{"any not an array", "type", "SELECT id FROM owners WHERE id = ANY($1)", []any{"1,2"}},
		{"any element type", "type", "SELECT id FROM owners WHERE id = ANY($1)", []any{"{1,a}"}},
		{"non boolean where", "type", "SELECT id FROM owners WHERE id", nil},
		{"untyped param", "type", "SELECT id FROM owners WHERE $1 IS NULL", []any{1}},
		{"literal to text column", "type", "UPDATE owners SET name = 5", nil},
		// not_null
		{"null in not null", "not_null", "INSERT INTO owners (name, age) VALUES ($1, $2)", []any{nil, 1}},
		{"missing not null column", "not_null", "INSERT INTO owners (name) VALUES ($1)", []any{"a"}},
		{"update to null", "not_null", "UPDATE owners SET name = $1 WHERE id = $2", []any{nil, 1}},
		{"null array", "not_null", insertItem, bad(7, nil)},
		{"explicit null pk", "not_null", "INSERT INTO owners (id, name, age) VALUES ($1, $2, $3)", []any{nil, "a", 1}},
		// check
		{"enum check", "check", "INSERT INTO owners (name, age) VALUES ($1, $2)", []any{"a", 4}},
		{"enum check update", "check", "UPDATE owners SET age = 0 WHERE id = 1", nil},
		{"array length", "check", insertItem, bad(7, "{1,2}")},
		{"empty array length passes as NULL but other length fails", "check", insertItem, bad(7, "{1,2,3,4}")},
		{"guard", "check", "UPDATE items SET guard = 2 WHERE id = 1", nil},
		// unique
		{"pk", "unique", "INSERT INTO owners (id, name, age) VALUES ($1, $2, $3)", []any{1, "a", 1}},
		{"unique pair", "unique", insertItem, itemArgs(1, "first")},
		{"unique update", "unique", "UPDATE items SET (idowner, label) = ($1, $2) WHERE id = $3", []any{1, "first", 2}},
		{"unique update many", "unique", "UPDATE items SET label = 'same', idowner = 1", nil},
		// foreign_key
		{"fk insert", "foreign_key", insertItem, itemArgs(77, "z")},
		{"fk nullable insert", "foreign_key", insertItem, bad(1, 77)},
		{"fk update", "foreign_key", "UPDATE items SET idowner = $1 WHERE id = $2", []any{77, 1}},
		{"fk delete no action", "foreign_key", "DELETE FROM owners WHERE id = $1", []any{1}},
		{"fk update referenced key", "foreign_key", "UPDATE owners SET id = 10 WHERE id = 1", nil},
		// unsupported
		{"create", "unsupported", "CREATE TABLE x (a integer)", nil},
		{"truncate", "unsupported", "TRUNCATE owners", nil},
		{"begin", "unsupported", "BEGIN", nil},
		{"join", "unsupported", "SELECT id FROM owners JOIN items ON items.idowner = owners.id", nil},
		{"order by", "unsupported", "SELECT id FROM owners ORDER BY id", nil},
		{"limit", "unsupported", "SELECT id FROM owners LIMIT 1", nil},
		{"count", "unsupported", "SELECT count(*) FROM owners", nil},
		{"select expression", "unsupported", "SELECT 1", nil},
		{"alias", "unsupported", "SELECT id FROM owners o", nil},
		{"arithmetic", "unsupported", "UPDATE owners SET age = age + 1", nil},
		{"cast", "unsupported", "SELECT id FROM owners WHERE id = $1::int", []any{1}},
		{"like", "unsupported", "SELECT id FROM owners WHERE name LIKE 'a%'", nil},
		{"subquery", "unsupported", "SELECT id FROM owners WHERE id IN (SELECT idowner FROM items)", nil},
		{"function in where", "unsupported", "SELECT id FROM owners WHERE lower(name) = 'a'", nil},
		{"multi row values", "unsupported", "INSERT INTO owners (name, age) VALUES ($1, $2), ($3, $4)", []any{"a", 1, "b", 2}},
		{"insert without columns", "unsupported", "INSERT INTO owners VALUES ($1, $2, $3, $4)", []any{9, "a", 1, nil}},
		{"on conflict", "unsupported", "INSERT INTO owners (name, age) VALUES ($1, $2) ON CONFLICT DO NOTHING", []any{"a", 1}},
		{"param vs param", "unsupported", "SELECT id FROM owners WHERE $1 = $2", []any{1, 1}},
		{"copy outside prepare", "unsupported", `COPY "links" ("idowner") FROM STDIN`, nil},
		{"named parameter", "unsupported", "SELECT id FROM owners WHERE id = $1", []any{sql.Named("id", 1)}},
		{"bit string", "unsupported", `SELECT id FROM owners WHERE name = B'101'`, nil},
	}
	before := snapshotDB(e)
	for i, c := range cases {
		_, err := db.Exec(c.query, c.args...)
		if err == nil {
			t.Errorf("%s: expected class %q, got no error", c.name, c.class)
			continue
		}
		if got := classOf(err); got != c.class {
			t.Errorf("%s: expected class %q, got %v", c.name, c.class, err)
		}
		// the same through Query
		rows, qerr := db.Query(c.query, c.args...)
		if qerr == nil {
			rows.Close()
			t.Errorf("%s: Query succeeded", c.name)
		} else if classOf(qerr) != c.class {
			t.Errorf("%s: Query: expected class %q, got %v", c.name, c.class, qerr)
		}
		// each failure is recorded
		log := e.Log()
		if len(log) != 2*(i+1) {
			t.Fatalf("%s: log has %d entries, want %d", c.name, len(log), 2*(i+1))
		}
		last := log[len(log)-1]
		if last.SQL != c.query || last.Err == nil || classOf(last.Err) != c.class {
			t.Errorf("%s: log entry %+v", c.name, last)
		}
	}
	// failed statements leave the database untouched
	if after := snapshotDB(e); !reflect.DeepEqual(before, after) {
		t.Errorf("database modified by failing statements:\n%v\n%v", before, after)
	}
}

func snapshotDB(e *Engine) map[string][][]driver.Value {
	out := map[string][][]driver.Value{}
	for _, n := range e.TableNames() {
		out[n] = e.Rows(n)
	}
	return out
}

func TestLogContent(t *testing.T) {
	db, e := openShop(t)
	mustExec(t, db, "INSERT INTO owners (name, age) VALUES ($1, $2)", "ann", int8(1))
	var id int64
	db.QueryRow("SELECT id FROM Owners WHERE name = $1 ;", "ann").Scan(&id)
	db.Exec("UPDATE nope SET a = 1")
	db.Exec("DELETE FROM owners WHERE id = $1", []byte("9"))
	db.Exec("VACUUM")
	log := e.Log()
	want := []Stmt{
		{SQL: "INSERT INTO owners (name, age) VALUES ($1, $2)", Args: []driver.Value{"ann", int64(1)}, Kind: "insert", Table: "owners"},
		{SQL: "SELECT id FROM Owners WHERE name = $1 ;", Args: []driver.Value{"ann"}, Kind: "select", Table: "owners"},
		{SQL: "UPDATE nope SET a = 1", Kind: "update", Table: "nope"},
		{SQL: "DELETE FROM owners WHERE id = $1", Args: []driver.Value{[]byte("9")}, Kind: "delete", Table: "owners"},
		{SQL: "VACUUM", Kind: "other"},
	}
	if len(log) != len(want) {
		t.Fatalf("log: %+v", log)
	}
	for i := range want {
		got := log[i]
		if (got.Err != nil) != (i == 2 || i == 4) {
			t.Errorf("entry %d: Err = %v", i, got.Err)
		}
		got.Err = nil
		if !reflect.DeepEqual(got, want[i]) {
			t.Errorf("entry %d: %+v want %+v", i, got, want[i])
		}
	}
	e.ResetLog()
	if len(e.Log()) != 0 {
		t.Error("ResetLog")
	}
}
