package minipg

import (
	"database/sql"
	"database/sql/driver"
	"errors"
	"fmt"
	"reflect"
	"sort"
	"strings"
	"sync"
	"testing"
	"time"
)

func queryInts(t testing.TB, db interface {
	Query(string, ...any) (*sql.Rows, error)
}, query string, args ...any) []int64 {
	t.Helper()
	rows, err := db.Query(query, args...)
	if err != nil {
		t.Fatalf("%s: %v", query, err)
	}
	defer rows.Close()
	out := []int64{}
	for rows.Next() {
		var v int64
		if err := rows.Scan(&v); err != nil {
			t.Fatalf("%s: %v", query, err)
		}
		out = append(out, v)
	}
	if err := rows.Err(); err != nil {
		t.Fatal(err)
	}
	return out
}

func TestDefaultAndSerial(t *testing.T) {
	db, e := openShop(t)
	seedShop(t, db)
	// guard is never listed: it takes its DEFAULT
	if got := queryInts(t, db, "SELECT guard FROM items"); !reflect.DeepEqual(got, []int64{1, 1}) {
		t.Errorf("guard = %v", got)
	}
	// DEFAULT key word
	mustExec(t, db, "UPDATE items SET guard = DEFAULT WHERE id = 1")
	// a failing insert consumes a sequence value, like PostgreSQL
	_, err := db.Exec("INSERT INTO owners (name, age) VALUES ($1, $2)", "x", 9)
	wantClass(t, err, "check")
	var id int64
	if err := db.QueryRow("INSERT INTO owners (name, age) VALUES ($1, $2) RETURNING id", "cy", 3).Scan(&id); err != nil || id != 4 {
		t.Errorf("id = %d, %v", id, err)
	}
	// a type error is detected before the sequence is touched
	_, err = db.Exec("INSERT INTO owners (name, age) VALUES ($1, $2)", "x", "nine")
	wantClass(t, err, "type")
	if err := db.QueryRow("INSERT INTO owners (name, age) VALUES ($1, $2) RETURNING id", "di", 3).Scan(&id); err != nil || id != 5 {
		t.Errorf("id = %d, %v", id, err)
	}
	// an explicit id does not move the sequence
	mustExec(t, db, "INSERT INTO owners (id, name, age) VALUES ($1, $2, $3)", 100, "ed", 1)
	if err := db.QueryRow("INSERT INTO owners (name, age) VALUES ($1, $2) RETURNING id", "fy", 3).Scan(&id); err != nil || id != 6 {
		t.Errorf("id = %d, %v", id, err)
	}
	// nullable columns not listed are NULL
	var nick sql.NullString
	if err := db.QueryRow("SELECT nick FROM owners WHERE id = 6").Scan(&nick); err != nil || nick.Valid {
		t.Errorf("nick = %v, %v", nick, err)
	}
	if e.RowCount("owners") != 6 {
		t.Errorf("RowCount = %d", e.RowCount("owners"))
	}
}

func TestTransactions(t *testing.T) {
	db, e := openShop(t)
	seedShop(t, db)
	before := snapshotDB(e)
	e.ResetLog()

	tx, err := db.Begin()
	if err != nil {
		t.Fatal(err)
	}
	mustExec(t, tx, "INSERT INTO owners (name, age) VALUES ($1, $2)", "cy", 3)
	mustExec(t, tx, "DELETE FROM items WHERE id = $1", 2)
	mustExec(t, tx, "UPDATE owners SET nick = 'zz' WHERE id = 1")
	if e.RowCount("owners") != 3 || e.RowCount("items") != 1 {
		t.Error("changes not visible inside the transaction")
	}
	if err := tx.Rollback(); err != nil {
		t.Fatal(err)
	}
	if after := snapshotDB(e); !reflect.DeepEqual(before, after) {
		t.Errorf("rollback did not restore:\n%v\n%v", before, after)
	}
	// the log keeps everything, flagged as transactional
	log := e.Log()
	if len(log) != 3 || !log[0].InTx || log[1].Kind != "delete" {
		t.Errorf("log = %+v", log)
	}
	// sequences are not rolled back (PostgreSQL semantics)
	var id int64
	if err := db.QueryRow("INSERT INTO owners (name, age) VALUES ($1, $2) RETURNING id", "cy", 3).Scan(&id); err != nil || id != 4 {
		t.Errorf("id = %d, %v", id, err)
	}
	if log := e.Log(); log[len(log)-1].InTx {
		t.Error("statement outside of a transaction flagged InTx")
	}

	tx, _ = db.Begin()
	mustExec(t, tx, "DELETE FROM items WHERE id = $1", 2)
	// an error inside a transaction does not abort it by default, and leaves no partial effect
	_, err = tx.Exec("DELETE FROM owners WHERE id = ANY($1)", "{1,2}")
	wantClass(t, err, "foreign_key")
	if e.RowCount("owners") != 3 {
		t.Error("partial delete")
	}
	if err := tx.Commit(); err != nil {
		t.Fatal(err)
	}
	if e.RowCount("items") != 1 {
		t.Error("commit lost")
	}
}

func TestAbortTxOnError(t *testing.T) {
	db, e, err := OpenWith(shopDDL, Options{AbortTxOnError: true})
	if err != nil {
		t.Fatal(err)
	}
	defer db.Close()
	seedShop(t, db)
	tx, _ := db.Begin()
	mustExec(t, tx, "INSERT INTO owners (name, age) VALUES ($1, $2)", "cy", 3)
	_, err = tx.Exec("INSERT INTO owners (name, age) VALUES ($1, $2)", "cy", 30)
	wantClass(t, err, "check")
	_, err = tx.Exec("INSERT INTO owners (name, age) VALUES ($1, $2)", "cy", 3)
	wantClass(t, err, "aborted_tx")
	_, err = tx.Prepare("SELECT id FROM owners")
	wantClass(t, err, "aborted_tx")
	if err := tx.Commit(); !errors.Is(err, ErrInFailedTransaction) {
		t.Errorf("Commit = %v", err)
	}
	if e.RowCount("owners") != 2 {
		t.Errorf("failed transaction was not rolled back")
	}
	// outside of a transaction nothing is aborted
	_, err = db.Exec("INSERT INTO owners (name, age) VALUES ($1, $2)", "cy", 30)
	wantClass(t, err, "check")
	mustExec(t, db, "INSERT INTO owners (name, age) VALUES ($1, $2)", "cy", 3)
}

func TestCopy(t *testing.T) {
	db, e := openShop(t)
	seedShop(t, db)
	const copyLinks = `COPY "links" ("idowner", "iditem", "rank") FROM STDIN`

	// outside of a transaction: refused, like lib/pq
	_, err := db.Prepare(copyLinks)
	wantClass(t, err, "unsupported")

	tx, _ := db.Begin()
	stmt, err := tx.Prepare(copyLinks)
	if err != nil {
		t.Fatal(err)
	}
	for i, row := range [][]any{{1, 1, 10}, {1, 2, 11}, {2, nil, 12}} {
		if _, err := stmt.Exec(row...); err != nil {
			t.Fatalf("row %d: %v", i, err)
		}
	}
	if e.RowCount("links") != 0 {
		t.Error("rows visible before the flush")
	}
	// immediate validation of a row
	_, err = stmt.Exec(1, 2)
	wantClass(t, err, "arity")
	_, err = stmt.Exec(1, "x", 3)
	wantClass(t, err, "type")
	res, err := stmt.Exec()
	if err != nil {
		t.Fatal(err)
	}
	if n, _ := res.RowsAffected(); n != 3 {
		t.Errorf("RowsAffected = %d", n)
	}
	_, err = stmt.Exec(1, 1, 1)
	wantClass(t, err, "unsupported") // already closed
	if err := stmt.Close(); err != nil {
		t.Fatal(err)
	}
	if err := tx.Commit(); err != nil {
		t.Fatal(err)
	}
	want := [][]driver.Value{{int64(1), int64(1), int64(10)}, {int64(1), int64(2), int64(11)}, {int64(2), nil, int64(12)}}
	if got := e.Rows("links"); !reflect.DeepEqual(got, want) {
		t.Errorf("links = %v", got)
	}
	var kinds []string
	for _, s := range e.Log() {
		if s.Kind == "copy" {
			kinds = append(kinds, fmt.Sprintf("%d:%v", len(s.Args), s.Err != nil))
		}
	}
	if got := strings.Join(kinds, " "); got != "0:true 3:false 3:false 3:false 2:true 3:true 0:false 3:true" {
		t.Errorf("copy log = %s", got)
	}

	// the flush is atomic: a constraint error inserts nothing
	for _, bad := range [][]any{{1, 1, 99} /* unique */, {9, nil, 1} /* fk */, {2, 2, nil} /* not null */} {
		tx, _ = db.Begin()
		stmt, err = tx.Prepare(copyLinks)
		if err != nil {
			t.Fatal(err)
		}
		stmt.Exec(2, 2, 50)
		stmt.Exec(bad...)
		if _, err := stmt.Exec(); err == nil {
			t.Errorf("%v: expected an error", bad)
		}
		stmt.Close()
		tx.Commit()
		if e.RowCount("links") != 3 {
			t.Fatalf("%v: partial COPY", bad)
		}
	}

	// Close without flush sends the rows (lib/pq behaviour); columns left out
	// take their default; unquoted identifiers are folded
	tx, _ = db.Begin()
	stmt, err = tx.Prepare(`COPY Owners (NAME, age) FROM STDIN;`)
	if err != nil {
		t.Fatal(err)
	}
	stmt.Exec("cy", 3)
	if err := stmt.Close(); err != nil {
		t.Fatal(err)
	}
	tx.Commit()
	if got := queryInts(t, db, "SELECT id FROM owners WHERE name = 'cy'"); !reflect.DeepEqual(got, []int64{3}) {
		t.Errorf("got %v", got)
	}

	// prepare time validation
	tx, _ = db.Begin()
	_, err = tx.Prepare(`COPY "nope" ("a") FROM STDIN`)
	wantClass(t, err, "undefined_table")
	_, err = tx.Prepare(`COPY "links" ("nope") FROM STDIN`)
	wantClass(t, err, "undefined_column")
	_, err = tx.Prepare(`COPY "Links" ("idowner") FROM STDIN`)
	wantClass(t, err, "undefined_table")
	_, err = tx.Prepare(`COPY "links" ("idowner") TO STDOUT`)
	wantClass(t, err, "unsupported")
	tx.Rollback()
}

// like lib/pq, COPY transmits []byte in the bytea hex format whatever the
// column type: only bytea columns get the bytes back.
func TestCopyByteSlices(t *testing.T) {
	db, e, err := Open(`CREATE TABLE t (b bytea, s text, j jsonb);`)
	if err != nil {
		t.Fatal(err)
	}
	defer db.Close()
	tx, _ := db.Begin()
	stmt, err := tx.Prepare(`COPY "t" ("b", "s", "j") FROM STDIN`)
	if err != nil {
		t.Fatal(err)
	}
	if _, err := stmt.Exec([]byte{0xde, 0xad}, []byte("hi"), `{"a":1}`); err != nil {
		t.Fatal(err)
	}
	_, err = stmt.Exec(nil, nil, []byte(`{"a":1}`))
	wantClass(t, err, "type")
	if _, err := stmt.Exec(); err != nil {
		t.Fatal(err)
	}
	tx.Commit()
	want := [][]driver.Value{{[]byte{0xde, 0xad}, `\x6869`, []byte(`{"a":1}`)}}
	if got := e.Rows("t"); !reflect.DeepEqual(got, want) {
		t.Errorf("got %q", got)
	}
	// through a regular statement the bytes are the text
	mustExec(t, db, "INSERT INTO t (b, s, j) VALUES ($1, $2, $3)", `\x00ff`, []byte("hi"), []byte(`[1]`))
	if got := e.Rows("t")[1]; !reflect.DeepEqual(got, []driver.Value{[]byte{0, 0xff}, "hi", []byte(`[1]`)}) {
		t.Errorf("got %q", got)
	}
}

func TestCascades(t *testing.T) {
	db, e := openShop(t)
	seedShop(t, db)
	mustExec(t, db, "INSERT INTO owners (name, age) VALUES ('cy', 3)")
	mustExec(t, db, "UPDATE items SET opt = 3")
	for _, l := range [][]any{{1, 1, 1}, {1, 2, 2}, {2, 1, 3}, {3, nil, 4}, {3, 2, 5}} {
		mustExec(t, db, "INSERT INTO links (idowner, iditem, rank) VALUES ($1, $2, $3)", l...)
	}
	// deleting an item cascades to its links
	if got := queryInts(t, db, "DELETE FROM items WHERE id = $1 RETURNING id", 1); !reflect.DeepEqual(got, []int64{1}) {
		t.Errorf("got %v", got)
	}
	if got := queryInts(t, db, "SELECT rank FROM links"); !reflect.DeepEqual(got, []int64{2, 4, 5}) {
		t.Errorf("links = %v", got)
	}
	// deleting owner 3: links cascade, items.opt is set to NULL
	mustExec(t, db, "DELETE FROM owners WHERE id = 3")
	if got := queryInts(t, db, "SELECT rank FROM links"); !reflect.DeepEqual(got, []int64{2}) {
		t.Errorf("links = %v", got)
	}
	var opt sql.NullInt64
	if err := db.QueryRow("SELECT opt FROM items WHERE id = 2").Scan(&opt); err != nil || opt.Valid {
		t.Errorf("opt = %v, %v", opt, err)
	}
	// owner 2 is still referenced by item 2 (NO ACTION)
	_, err := db.Exec("DELETE FROM owners WHERE id = 2")
	wantClass(t, err, "foreign_key")
	// but deleting the referencing rows first works, and cascades to the link
	mustExec(t, db, "DELETE FROM items WHERE idowner = 2")
	mustExec(t, db, "DELETE FROM owners WHERE id = ANY($1)", "{1,2}")
	for _, n := range e.TableNames() {
		if e.RowCount(n) != 0 {
			t.Errorf("%s not empty", n)
		}
	}
}

func TestCascadeVariants(t *testing.T) {
	ddl := `
	CREATE TABLE a (id serial PRIMARY KEY, x integer, y integer);
	ALTER TABLE a ADD UNIQUE (x, y);
	CREATE TABLE b (id serial PRIMARY KEY, ida integer NOT NULL);
	CREATE TABLE c (ida integer, idb integer);
	CREATE TABLE d (x integer, y integer, n integer NOT NULL);
	CREATE TABLE tree (id serial PRIMARY KEY, parent integer);
	CREATE TABLE strict (ida integer NOT NULL);
	CREATE TABLE upd (ida integer, k integer DEFAULT 1);
	ALTER TABLE b ADD FOREIGN KEY (ida) REFERENCES a ON DELETE CASCADE;
	ALTER TABLE c ADD FOREIGN KEY (ida) REFERENCES a ON DELETE CASCADE;
	ALTER TABLE c ADD FOREIGN KEY (idb) REFERENCES b;
	ALTER TABLE d ADD FOREIGN KEY (x, y) REFERENCES a (x, y) ON DELETE SET NULL;
	ALTER TABLE tree ADD FOREIGN KEY (parent) REFERENCES tree ON DELETE CASCADE;
	ALTER TABLE strict ADD FOREIGN KEY (ida) REFERENCES a ON DELETE SET NULL;
	ALTER TABLE upd ADD FOREIGN KEY (ida) REFERENCES a ON UPDATE CASCADE ON DELETE SET DEFAULT;
	`
	db, e, err := Open(ddl)
	if err != nil {
		t.Fatal(err)
	}
	defer db.Close()
	mustExec(t, db, "INSERT INTO a (x, y) VALUES (1, 1)")
	mustExec(t, db, "INSERT INTO a (x, y) VALUES (2, 2)")
	mustExec(t, db, "INSERT INTO a (x, y) VALUES (NULL, 3)")
	mustExec(t, db, "INSERT INTO a (x, y) VALUES (NULL, 3)") // NULLs never conflict
	mustExec(t, db, "INSERT INTO b (ida) VALUES (1)")
	mustExec(t, db, "INSERT INTO c (ida, idb) VALUES (1, 1)")
	mustExec(t, db, "INSERT INTO d (x, y, n) VALUES (1, 1, 1)")
	mustExec(t, db, "INSERT INTO d (x, y, n) VALUES (2, 2, 2)")
	mustExec(t, db, "INSERT INTO d (x, y, n) VALUES (7, NULL, 3)") // MATCH SIMPLE: not checked
	_, err = db.Exec("INSERT INTO d (x, y, n) VALUES (1, 2, 4)")
	wantClass(t, err, "foreign_key")

	// NO ACTION is checked at the end of the statement: c references b which is
	// deleted by the cascade from a, but c itself is deleted by its own cascade
	mustExec(t, db, "DELETE FROM a WHERE id = 1")
	if e.RowCount("b") != 0 || e.RowCount("c") != 0 {
		t.Error("cascade")
	}
	// multi column SET NULL
	want := [][]driver.Value{{nil, nil, int64(1)}, {int64(2), int64(2), int64(2)}, {int64(7), nil, int64(3)}}
	if got := e.Rows("d"); !reflect.DeepEqual(got, want) {
		t.Errorf("d = %v", got)
	}
	// updating a referenced key: NO ACTION refuses
	_, err = db.Exec("UPDATE a SET x = 5 WHERE id = 2")
	wantClass(t, err, "foreign_key")
	mustExec(t, db, "UPDATE a SET y = 9 WHERE id = 3") // not referenced

	// SET NULL on a NOT NULL column fails
	mustExec(t, db, "INSERT INTO strict (ida) VALUES (2)")
	_, err = db.Exec("DELETE FROM a WHERE id = 2")
	wantClass(t, err, "not_null")
	if e.RowCount("a") != 3 || e.RowCount("d") != 3 {
		t.Error("failed delete left partial effects")
	}
	mustExec(t, db, "DELETE FROM strict")

	// ON UPDATE CASCADE and ON DELETE SET DEFAULT
	mustExec(t, db, "INSERT INTO a (id, x, y) VALUES (1, 0, 0)")
	mustExec(t, db, "INSERT INTO upd (ida) VALUES (2)")
	mustExec(t, db, "DELETE FROM d")
	mustExec(t, db, "UPDATE a SET id = 20 WHERE id = 2")
	if got := e.Rows("upd"); !reflect.DeepEqual(got, [][]driver.Value{{int64(20), int64(1)}}) {
		t.Errorf("upd = %v", got)
	}

	// self reference, recursive cascade
	for _, p := range []any{nil, 1, 2, 3, 1} {
		mustExec(t, db, "INSERT INTO tree (parent) VALUES ($1)", p)
	}
	_, err = db.Exec("INSERT INTO tree (parent) VALUES (42)")
	wantClass(t, err, "foreign_key")
	mustExec(t, db, "INSERT INTO tree (id, parent) VALUES (50, 50)") // a row may reference itself
	if got := queryInts(t, db, "DELETE FROM tree WHERE id = 2 RETURNING id"); !reflect.DeepEqual(got, []int64{2}) {
		t.Errorf("got %v", got)
	}
	if got := queryInts(t, db, "SELECT id FROM tree"); !reflect.DeepEqual(got, []int64{1, 5, 50}) {
		t.Errorf("tree = %v", got)
	}
	mustExec(t, db, "DELETE FROM tree")
	if e.RowCount("tree") != 0 {
		t.Error("tree")
	}
}

func TestWhereSemantics(t *testing.T) {
	db, _, err := Open(`CREATE TABLE t (id serial PRIMARY KEY, a integer, b text, ok boolean, arr integer[], f real);`)
	if err != nil {
		t.Fatal(err)
	}
	defer db.Close()
	for _, r := range [][]any{{1, "x", true, "{1,2}", 0.5}, {2, "y", false, "{}", 1.5}, {nil, nil, nil, nil, nil}, {3, "x", nil, "{3,NULL}", 2}} {
		mustExec(t, db, "INSERT INTO t (a, b, ok, arr, f) VALUES ($1, $2, $3, $4, $5)", r...)
	}
	cases := []struct {
		where string
		args  []any
		want  []int64
	}{
		{"a = $1", []any{1}, []int64{1}},
		{"a = $1", []any{nil}, []int64{}}, // comparison with NULL is NULL
		{"a <> $1", []any{1}, []int64{2, 4}},
		{"a != 1", nil, []int64{2, 4}},
		{"NOT a = 1", nil, []int64{2, 4}},
		{"a < 3 AND a >= 2", nil, []int64{2}},
		{"a <= 1 OR a > 2", nil, []int64{1, 4}},
		{"a IS NULL", nil, []int64{3}},
		{"a IS NOT NULL", nil, []int64{1, 2, 4}},
		{"$1 IS NULL AND a = $1", []any{nil}, []int64{}},
		// the NULL safe comparison emitted for nullable foreign keys
		{"((a IS NULL AND $1 IS NULL) OR a = $1)", []any{nil}, []int64{3}},
		{"((a IS NULL AND $1 IS NULL) OR a = $1)", []any{2}, []int64{2}},
		{"((a IS NULL AND $1 IS NULL) OR a = $1) AND b = $2", []any{3, "x"}, []int64{4}},
		{"a = ANY($1)", []any{"{1,3,9}"}, []int64{1, 4}},
		{"a = ANY($1)", []any{[]byte("{2}")}, []int64{2}},
		{"a = ANY($1)", []any{"{}"}, []int64{}},
		{"a = ANY($1)", []any{nil}, []int64{}},
		{"a = ANY($1)", []any{"{NULL,1}"}, []int64{1}},
		{"NOT (a = ANY($1))", []any{"{NULL,1}"}, []int64{}}, // NULL for the non matching rows
		{"NOT (a = ANY($1))", []any{"{1}"}, []int64{2, 4}},
		{"a = ANY('{1,2}')", nil, []int64{1, 2}},
		{"a <> ANY($1)", []any{"{1,2}"}, []int64{1, 2, 4}},
		{"$1 = ANY(arr)", []any{2}, []int64{1}},
		{"a = ANY(arr)", nil, []int64{1, 4}},
		{"b = ANY($1)", []any{`{"x","z"}`}, []int64{1, 4}},
		{"a IN (1, 3)", nil, []int64{1, 4}},
		{"a NOT IN (1, 3)", nil, []int64{2}},
		{"a NOT IN (1, NULL)", nil, []int64{}},
		{"b IN ('x')", nil, []int64{1, 4}},
		{"ok", nil, []int64{1}},
		{"NOT ok", nil, []int64{2}},
		{"ok = $1", []any{false}, []int64{2}},
		{"ok IS NULL OR ok", nil, []int64{1, 3, 4}},
		{"$1", []any{true}, []int64{1, 2, 3, 4}},
		{"true", nil, []int64{1, 2, 3, 4}},
		{"NULL", nil, []int64{}},
		{"1 = a", nil, []int64{1}},
		{"$1 = a", []any{"2"}, []int64{2}}, // text format integer
		{"a = '3'", nil, []int64{4}},
		{"a = -1", nil, []int64{}},
		{"f > 1", nil, []int64{2, 4}},
		{"f = $1", []any{2}, []int64{4}},
		{"f < 1.0", nil, []int64{1}},
		{"arr = $1", []any{"{1,2}"}, []int64{1}},
		{"arr = '{}'", nil, []int64{2}},
		{"1 = 1", nil, []int64{1, 2, 3, 4}},
		{"$1 = 1", []any{1}, []int64{1, 2, 3, 4}},
		{"a = a", nil, []int64{1, 2, 4}},
		{"(((a = 1)))", nil, []int64{1}},
		{"a = 1 /* one */ OR a = 2 -- two", nil, []int64{1, 2}},
	}
	for _, c := range cases {
		got := queryInts(t, db, "SELECT id FROM t WHERE "+c.where, c.args...)
		if !reflect.DeepEqual(got, c.want) {
			t.Errorf("WHERE %s %v: got %v want %v", c.where, c.args, got, c.want)
		}
	}
	// UPDATE and DELETE without WHERE hit every row; SET a = b style
	mustExec(t, db, "UPDATE t SET a = id")
	if got := queryInts(t, db, "SELECT a FROM t"); !reflect.DeepEqual(got, []int64{1, 2, 3, 4}) {
		t.Errorf("got %v", got)
	}
	res := mustExec(t, db, "DELETE FROM t")
	if n, _ := res.RowsAffected(); n != 4 {
		t.Errorf("deleted %d", n)
	}
}

func TestUpdateForms(t *testing.T) {
	db, e := openShop(t)
	seedShop(t, db)
	var name, nick string
	var age int64
	err := db.QueryRow(`UPDATE owners SET (
		name, age, nick
		) = (
		$1, $2, $3
		) WHERE id = $4 RETURNING nick, name, age;
		`, "zed", 3, "z", 1).Scan(&nick, &name, &age)
	if err != nil || name != "zed" || nick != "z" || age != 3 {
		t.Errorf("%q %q %d %v", name, nick, age, err)
	}
	// single column tuple
	mustExec(t, db, "UPDATE owners SET (nick) = ($1) WHERE id = $2", nil, 1)
	// update of no row
	if err := db.QueryRow("UPDATE owners SET (nick) = ($1) WHERE id = $2 RETURNING id", "a", 99).Scan(&age); err != sql.ErrNoRows {
		t.Errorf("got %v", err)
	}
	// custom query shapes of gomacro
	mustExec(t, db, "UPDATE items SET Label = $1 WHERE Fixed = $2 ;", "all", "{1,2,3}") // would violate unique(idowner,label)? owners differ
	mustExec(t, db, "UPDATE items SET Score = $1 WHERE IdOwner = $2 OR Opt = $2;", 2.5, 2)
	mustExec(t, db, "UPDATE owners SET Nick = $1 WHERE Age = 3 /* Enum.C */ ;", "c")
	want := [][]driver.Value{{int64(1), "zed", int64(3), "c"}, {int64(2), "bob", int64(2), "b"}}
	if got := e.Rows("owners"); !reflect.DeepEqual(got, want) {
		t.Errorf("owners = %v", got)
	}
}

func TestTimeHandling(t *testing.T) {
	ddl := `CREATE TABLE t (d date, ts timestamp (0) with time zone, tsn timestamp with time zone, ts3 timestamp (3) with time zone);`
	paris := time.FixedZone("paris", 2*3600)
	in := time.Date(2024, 3, 10, 0, 30, 15, 987_654_321, paris) // 2024-03-09T22:30:15.987654321Z

	db, e, err := Open(ddl)
	if err != nil {
		t.Fatal(err)
	}
	defer db.Close()
	mustExec(t, db, "INSERT INTO t (d, ts, tsn, ts3) VALUES ($1, $1, $1, $1)", in)
	want := []driver.Value{
		time.Date(2024, 3, 9, 0, 0, 0, 0, time.UTC),
		time.Date(2024, 3, 9, 22, 30, 15, 0, time.UTC),
		time.Date(2024, 3, 9, 22, 30, 15, 987_654_000, time.UTC),
		time.Date(2024, 3, 9, 22, 30, 15, 987_000_000, time.UTC),
	}
	if got := e.Rows("t")[0]; !reflect.DeepEqual(got, want) {
		t.Errorf("default: got %v", got)
	}
	// comparisons use the normalised value
	var n int
	if err := db.QueryRow("SELECT ts3 FROM t WHERE ts = $1 AND d = $1 AND tsn = $1", in).Scan(new(time.Time)); err != nil {
		t.Errorf("comparison with the original value: %v (%d)", err, n)
	}

	db2, e2, err := OpenWith(ddl, Options{RoundTimestamps: true, LocalDates: true})
	if err != nil {
		t.Fatal(err)
	}
	defer db2.Close()
	mustExec(t, db2, "INSERT INTO t (d, ts, tsn, ts3) VALUES ($1, $1, $1, $1)", in)
	want = []driver.Value{
		time.Date(2024, 3, 10, 0, 0, 0, 0, time.UTC),
		time.Date(2024, 3, 9, 22, 30, 16, 0, time.UTC),
		time.Date(2024, 3, 9, 22, 30, 15, 987_654_000, time.UTC),
		time.Date(2024, 3, 9, 22, 30, 15, 988_000_000, time.UTC),
	}
	if got := e2.Rows("t")[0]; !reflect.DeepEqual(got, want) {
		t.Errorf("faithful: got %v", got)
	}
	// text input
	mustExec(t, db2, "INSERT INTO t (d, ts) VALUES ($1, $2)", "2024-01-02", "2024-01-02T03:04:05Z")
	if got := e2.Rows("t")[1]; !reflect.DeepEqual(got[:2], []driver.Value{time.Date(2024, 1, 2, 0, 0, 0, 0, time.UTC), time.Date(2024, 1, 2, 3, 4, 5, 0, time.UTC)}) {
		t.Errorf("text: got %v", got)
	}
	// zero time and times before the PostgreSQL epoch
	mustExec(t, db2, "INSERT INTO t (ts, tsn) VALUES ($1, $2)", time.Time{}, time.Date(1999, 12, 31, 23, 59, 59, 500_000_000, time.UTC))
	got := e2.Rows("t")[2]
	if !got[1].(time.Time).Equal(time.Time{}) || !got[2].(time.Time).Equal(time.Date(1999, 12, 31, 23, 59, 59, 500_000_000, time.UTC)) {
		t.Errorf("old times: got %v", got)
	}
}

func TestFloat4Option(t *testing.T) {
	ddl := `CREATE TABLE t (f real, g double precision, fs real[]);`
	db, e, _ := Open(ddl)
	defer db.Close()
	mustExec(t, db, "INSERT INTO t (f, g, fs) VALUES ($1, $1, $2)", 0.1, "{0.1,1e40}")
	if got := e.Rows("t")[0]; got[0] != 0.1 || got[1] != 0.1 || string(got[2].([]byte)) != "{0.1,1e+40}" {
		t.Errorf("got %v", got)
	}
	db2, e2, _ := OpenWith(ddl, Options{Float4: true})
	defer db2.Close()
	mustExec(t, db2, "INSERT INTO t (f, g, fs) VALUES ($1, $1, $2)", 0.1, "{0.1}")
	if got := e2.Rows("t")[0]; got[0] != float64(float32(0.1)) || got[1] != 0.1 {
		t.Errorf("got %v", got)
	}
	_, err := db2.Exec("INSERT INTO t (f) VALUES ($1)", 1e40)
	wantClass(t, err, "type")
	_, err = db2.Exec("INSERT INTO t (fs) VALUES ($1)", "{1e40}")
	wantClass(t, err, "type")
}

func TestReservedWordsOption(t *testing.T) {
	ddl := `CREATE TABLE repass (Order text NOT NULL, Id serial PRIMARY KEY, Index integer);`
	db, _, err := Open(ddl)
	if err != nil {
		t.Fatal(err)
	}
	defer db.Close()
	// accepted by default (gomacro's own fixture has such a column)
	mustExec(t, db, "INSERT INTO repass (order, index) VALUES ($1, $2) RETURNING order, id", "a", 1)
	mustExec(t, db, "UPDATE repass SET Order = $1 WHERE Order = $2 AND index = 1", "b", "a")
	if got := queryInts(t, db, "SELECT id FROM repass WHERE order = 'b'"); len(got) != 1 {
		t.Errorf("got %v", got)
	}
	var s string
	if err := db.QueryRow("SELECT order, id FROM repass").Scan(&s, new(int)); err != nil || s != "b" {
		t.Errorf("%q %v", s, err)
	}
	_, err = db.Query("SELECT id FROM repass ORDER BY id")
	wantClass(t, err, "unsupported")

	_, _, err = OpenWith(ddl, Options{ReservedWords: true})
	e := wantClass(t, err, "schema")
	if !strings.Contains(e.Msg, "reserved key word") {
		t.Errorf("got %v", e)
	}
	db2, _, err := OpenWith(`CREATE TABLE repass ("order" text NOT NULL, Id serial PRIMARY KEY, Index integer);`, Options{ReservedWords: true})
	if err != nil {
		t.Fatal(err)
	}
	defer db2.Close()
	_, err = db2.Exec("INSERT INTO repass (order) VALUES ($1)", "a")
	wantClass(t, err, "syntax")
	_, err = db2.Query("SELECT order FROM repass")
	wantClass(t, err, "syntax")
	mustExec(t, db2, `INSERT INTO repass ("order", index) VALUES ($1, 2)`, "a")
	if !IsReservedWord("Order") || IsReservedWord("index") {
		t.Error("IsReservedWord")
	}
}

func TestUniqueIndexOption(t *testing.T) {
	ddl := `CREATE TABLE t (a integer, b text); CREATE UNIQUE INDEX idx ON t (b); CREATE UNIQUE INDEX ON t (lower(b));`
	db, e, err := OpenWith(ddl, Options{EnforceUniqueIndexes: true})
	if err != nil {
		t.Fatal(err)
	}
	defer db.Close()
	if got := e.Ignored(); len(got) != 1 || !strings.Contains(got[0], "lower") {
		t.Errorf("Ignored = %q", got)
	}
	mustExec(t, db, "INSERT INTO t (a, b) VALUES (1, 'x')")
	_, err = db.Exec("INSERT INTO t (a, b) VALUES (2, 'x')")
	wantClass(t, err, "unique")
}

func TestCheckFunc(t *testing.T) {
	db, e := openShop(t)
	mustExec(t, db, "INSERT INTO owners (name, age) VALUES ('a', 1)")
	// nil CheckFunc: skipped
	mustExec(t, db, insertItem, itemArgs(1, "a")...)
	var calls []string
	e.SetCheckFunc(func(fn string, text []byte) (bool, error) {
		calls = append(calls, fn+":"+string(text))
		if string(text) == `"boom"` {
			return false, errors.New("boom")
		}
		return strings.HasPrefix(string(text), "{"), nil
	})
	mustExec(t, db, insertItem, itemArgs(1, "b")...)
	args := itemArgs(1, "c")
	args[5] = `[1]`
	_, err := db.Exec(insertItem, args...)
	wantClass(t, err, "check")
	args[5] = `"boom"`
	_, err = db.Exec(insertItem, args...)
	if e := wantClass(t, err, "check"); !strings.Contains(e.Msg, "boom") {
		t.Errorf("got %v", e)
	}
	_, err = db.Exec("UPDATE items SET data = $1", "null")
	wantClass(t, err, "check")
	if want := []string{`validate_data:{"a": 1}`, `validate_data:[1]`, `validate_data:"boom"`, `validate_data:null`}; !reflect.DeepEqual(calls, want) {
		t.Errorf("calls = %q", calls)
	}
}

func TestIsolationBetweenDatabasesAndConcurrency(t *testing.T) {
	db1, e1 := openShop(t)
	db2, e2 := openShop(t)
	seedShop(t, db1)
	if e2.RowCount("owners") != 0 || e1.RowCount("owners") != 2 {
		t.Error("databases are not isolated")
	}
	var wg sync.WaitGroup
	for g := 0; g < 8; g++ {
		wg.Add(1)
		go func(g int) {
			defer wg.Done()
			for i := 0; i < 50; i++ {
				if _, err := db2.Exec("INSERT INTO owners (name, age) VALUES ($1, $2)", fmt.Sprintf("o%d-%d", g, i), 1); err != nil {
					t.Error(err)
					return
				}
				rows, err := db2.Query("SELECT id FROM owners WHERE age = $1", 1)
				if err != nil {
					t.Error(err)
					return
				}
				rows.Close()
			}
		}(g)
	}
	wg.Wait()
	ids := queryInts(t, db2, "SELECT id FROM owners")
	sort.Slice(ids, func(i, j int) bool { return ids[i] < ids[j] })
	if len(ids) != 400 || ids[0] != 1 || ids[399] != 400 {
		t.Errorf("ids: %d values", len(ids))
	}
	if len(e2.Log()) != 801 {
		t.Errorf("log has %d entries", len(e2.Log()))
	}
	// closing the DB forgets the DSN
	db2.Close()
	if _, err := sql.Open("minipg", e2.dsn); err == nil {
		db3, _ := sql.Open("minipg", e2.dsn)
		if db3 != nil && db3.Ping() == nil {
			t.Error("closed database still reachable")
		}
	}
}

func TestPreparedStatements(t *testing.T) {
	db, e := openShop(t)
	ins, err := db.Prepare("INSERT INTO owners (name, age) VALUES ($1, $2) RETURNING id")
	if err != nil {
		t.Fatal(err)
	}
	defer ins.Close()
	for i, name := range []string{"a", "b", "c"} {
		var id int64
		if err := ins.QueryRow(name, 1).Scan(&id); err != nil || id != int64(i+1) {
			t.Errorf("%d %v", id, err)
		}
	}
	_, err = ins.Exec("d")
	wantClass(t, err, "placeholder")
	_, err = ins.Exec("d", 1, 2)
	wantClass(t, err, "placeholder")
	_, err = ins.Exec("d", 7)
	wantClass(t, err, "check")
	// errors detected at Prepare time, and recorded
	e.ResetLog()
	_, err = db.Prepare("SELECT id FROM nope")
	wantClass(t, err, "undefined_table")
	_, err = db.Prepare("SELECT nope FROM owners")
	wantClass(t, err, "undefined_column")
	_, err = db.Prepare("SELECT FROM")
	wantClass(t, err, "syntax")
	_, err = db.Prepare("INSERT INTO owners (name) VALUES ($1, $2)")
	wantClass(t, err, "arity")
	if log := e.Log(); len(log) != 4 || log[0].Kind != "select" || log[3].Table != "owners" || log[3].Err == nil {
		t.Errorf("log = %+v", log)
	}
	// INSERT ... DEFAULT and literals
	mustExec(t, db, "INSERT INTO owners (id, name, age, nick) VALUES (DEFAULT, 'lit', 2, NULL)")
	if got := e.Rows("owners"); len(got) != 4 || !reflect.DeepEqual(got[3], []driver.Value{int64(5), "lit", int64(2), nil}) {
		t.Errorf("owners = %v", got)
	}
	// an *sql.Stmt survives its statement failing, and Query on a statement without RETURNING gives no row
	sel, _ := db.Prepare("DELETE FROM owners WHERE id = $1")
	rows, err := sel.Query(5)
	if err != nil || rows.Next() {
		t.Errorf("%v", err)
	}
	rows.Close()
	sel.Close()
	if e.RowCount("owners") != 3 {
		t.Error("delete through Query")
	}
}

// A row holding two references to the same parent, one ON DELETE SET NULL and one ON DELETE CASCADE:
// PostgreSQL re-checks a foreign key on UPDATE only when its columns change, so the intermediate
// SET NULL update is not refused because of the other (still dangling) key, and the row is then removed.
func TestSetNullAndCascadeOnOneRow(t *testing.T) {
	db, e, err := Open(`
	CREATE TABLE levels (id serial PRIMARY KEY, n integer);
	CREATE TABLE labels (idlevel integer, idlevel3 integer NOT NULL, v integer);
	ALTER TABLE labels ADD FOREIGN KEY (idlevel) REFERENCES levels ON DELETE SET NULL;
	ALTER TABLE labels ADD FOREIGN KEY (idlevel3) REFERENCES levels ON DELETE CASCADE;
	`)
	if err != nil {
		t.Fatal(err)
	}
	defer db.Close()
	mustExec(t, db, "INSERT INTO levels (n) VALUES (1)")
	mustExec(t, db, "INSERT INTO levels (n) VALUES (2)")
	mustExec(t, db, "INSERT INTO labels (idlevel, idlevel3, v) VALUES (1, 1, 10)")
	mustExec(t, db, "INSERT INTO labels (idlevel, idlevel3, v) VALUES (1, 2, 20)")
	mustExec(t, db, "DELETE FROM levels WHERE id = 1")
	if got := queryInts(t, db, "SELECT v FROM labels"); !reflect.DeepEqual(got, []int64{20}) {
		t.Errorf("labels = %v", got)
	}
	if e.RowCount("levels") != 1 {
		t.Errorf("levels has %d rows", e.RowCount("levels"))
	}
	// a plain UPDATE to a missing key is still refused
	_, err = db.Exec("UPDATE labels SET idlevel3 = 9 WHERE v = 20")
	wantClass(t, err, "foreign_key")
}
