package minipg

import "fmt"

// Error is the error type returned for every rule violated by a statement
// (and for DDL problems reported by Open).
//
// Class is one of:
//
//	"syntax"           the statement text is not valid SQL
//	"undefined_table"  unknown table
//	"undefined_column" unknown column
//	"placeholder"      placeholders are not exactly $1..$n, or n != len(args)
//	"arity"            number of target columns != number of values
//	"type"             a value cannot be converted to the column's SQL type
//	"not_null"         NOT NULL violation
//	"check"            CHECK constraint violation
//	"unique"           PRIMARY KEY / UNIQUE violation
//	"foreign_key"      FOREIGN KEY violation
//	"unsupported"      valid-looking SQL outside of the supported subset
//
// and, only when Options.AbortTxOnError is set:
//
//	"aborted_tx"       statement issued in a transaction that already failed
//
// and, only from Open/OpenWith:
//
//	"schema"           the DDL is inconsistent (e.g. foreign key to an unknown table)
type Error struct {
	Class string
	Msg   string
}

func (e *Error) Error() string { return "minipg: " + e.Class + ": " + e.Msg }

func errf(class, format string, args ...any) *Error {
	return &Error{Class: class, Msg: fmt.Sprintf(format, args...)}
}

// classOf returns the class of err when it is a *Error, "" otherwise.
func classOf(err error) string {
	if e, ok := err.(*Error); ok && e != nil {
		return e.Class
	}
	return ""
}
