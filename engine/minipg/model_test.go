package minipg

import (
	"database/sql"
	"database/sql/driver"
	"fmt"
	"math/rand"
	"reflect"
	"strconv"
	"strings"
	"testing"
)

const modelDDL = `
CREATE TABLE parents (Id serial PRIMARY KEY, Name text NOT NULL, Kind smallint CHECK (Kind IN (0, 1, 2)) NOT NULL, Opt integer);
CREATE TABLE children (Id serial PRIMARY KEY, IdParent integer NOT NULL, Maybe integer, Label text NOT NULL, Vals integer[]);
CREATE TABLE links (IdParent integer NOT NULL, IdChild integer, Weight integer NOT NULL);
ALTER TABLE parents ADD UNIQUE(Name);
ALTER TABLE children ADD FOREIGN KEY(IdParent) REFERENCES parents ON DELETE CASCADE;
ALTER TABLE children ADD FOREIGN KEY(Maybe) REFERENCES parents ON DELETE SET NULL;
ALTER TABLE children ADD UNIQUE(IdParent, Label);
ALTER TABLE links ADD FOREIGN KEY(IdParent) REFERENCES parents ;
ALTER TABLE links ADD FOREIGN KEY(IdChild) REFERENCES children ON DELETE CASCADE;
ALTER TABLE links ADD UNIQUE(IdParent, IdChild);
`

// the model: plain slices in insertion order; nil any = SQL NULL
type (
	mParent struct {
		id   int64
		name any // string
		kind any // int64
		opt  any // int64
	}
	mChild struct {
		id       int64
		idParent any
		maybe    any
		label    any
		vals     any // string in array text format
	}
	mLink struct{ idParent, idChild, weight any }

	model struct {
		parents               []mParent
		children              []mChild
		links                 []mLink
		seqParents, seqChilds int64
	}
)

func (m *model) clone() *model {
	c := *m
	c.parents = append([]mParent(nil), m.parents...)
	c.children = append([]mChild(nil), m.children...)
	c.links = append([]mLink(nil), m.links...)
	return &c
}

func (m *model) hasParent(id any) bool {
	for _, p := range m.parents {
		if id == any(p.id) {
			return true
		}
	}
	return false
}

func (m *model) hasChild(id any) bool {
	for _, c := range m.children {
		if id == any(c.id) {
			return true
		}
	}
	return false
}

// checkParent returns the class of the first violated rule for a new version
// of a parent (self is the index of the row being updated, -1 for inserts).
func (m *model) checkParent(p mParent, self int) string {
	if p.name == nil || p.kind == nil {
		return "not_null"
	}
	if k := p.kind.(int64); k < 0 || k > 2 {
		return "check"
	}
	for i, o := range m.parents {
		if i != self && (o.id == p.id || o.name == p.name) {
			return "unique"
		}
	}
	return ""
}

func (m *model) checkChild(c mChild, self int) string {
	if c.idParent == nil || c.label == nil {
		return "not_null"
	}
	for i, o := range m.children {
		if i != self && (o.id == c.id || (o.idParent == c.idParent && o.label == c.label)) {
			return "unique"
		}
	}
	if !m.hasParent(c.idParent) || (c.maybe != nil && !m.hasParent(c.maybe)) {
		return "foreign_key"
	}
	return ""
}

func (m *model) checkLink(l mLink, self int) string {
	if l.idParent == nil || l.weight == nil {
		return "not_null"
	}
	if l.idChild != nil {
		for i, o := range m.links {
			if i != self && o.idParent == l.idParent && o.idChild == l.idChild {
				return "unique"
			}
		}
	}
	if !m.hasParent(l.idParent) || (l.idChild != nil && !m.hasChild(l.idChild)) {
		return "foreign_key"
	}
	return ""
}

// deleteChildren removes the children selected by keep == false and cascades to links.
func (m *model) deleteChildren(doomed func(mChild) bool) (deleted []mChild) {
	gone := map[int64]bool{}
	var kept []mChild
	for _, c := range m.children {
		if doomed(c) {
			gone[c.id] = true
			deleted = append(deleted, c)
		} else {
			kept = append(kept, c)
		}
	}
	m.children = kept
	var links []mLink
	for _, l := range m.links {
		if id, ok := l.idChild.(int64); ok && gone[id] {
			continue
		}
		links = append(links, l)
	}
	m.links = links
	return deleted
}

// deleteParents applies DELETE FROM parents for the given ids; it returns the
// deleted rows, or the error class (the model is then unchanged).
func (m *model) deleteParents(ids map[int64]bool) ([]mParent, string) {
	w := m.clone()
	var deleted []mParent
	var kept []mParent
	for _, p := range w.parents {
		if ids[p.id] {
			deleted = append(deleted, p)
		} else {
			kept = append(kept, p)
		}
	}
	w.parents = kept
	w.deleteChildren(func(c mChild) bool { id, _ := c.idParent.(int64); return ids[id] })
	for i, c := range w.children {
		if id, ok := c.maybe.(int64); ok && ids[id] {
			w.children[i].maybe = nil
		}
	}
	for _, l := range w.links {
		if id, ok := l.idParent.(int64); ok && ids[id] {
			return nil, "foreign_key" // NO ACTION
		}
	}
	*m = *w
	return deleted, ""
}

func (p mParent) row() []driver.Value { return []driver.Value{p.id, p.name, p.kind, p.opt} }
func (c mChild) row() []driver.Value {
	var vals driver.Value
	if c.vals != nil {
		vals = []byte(c.vals.(string))
	}
	return []driver.Value{c.id, c.idParent, c.maybe, c.label, vals}
}
func (l mLink) row() []driver.Value { return []driver.Value{l.idParent, l.idChild, l.weight} }

func (m *model) tables() map[string][][]driver.Value {
	out := map[string][][]driver.Value{"parents": {}, "children": {}, "links": {}}
	for _, p := range m.parents {
		out["parents"] = append(out["parents"], p.row())
	}
	for _, c := range m.children {
		out["children"] = append(out["children"], c.row())
	}
	for _, l := range m.links {
		out["links"] = append(out["links"], l.row())
	}
	return out
}

func engineTables(e *Engine) map[string][][]driver.Value {
	out := map[string][][]driver.Value{}
	for _, n := range e.TableNames() {
		out[n] = e.Rows(n)
		if out[n] == nil {
			out[n] = [][]driver.Value{}
		}
	}
	return out
}

type queryer interface {
	Exec(string, ...any) (sql.Result, error)
	Query(string, ...any) (*sql.Rows, error)
	Prepare(string) (*sql.Stmt, error)
}

// runQuery returns all the rows as driver values, or the error class.
func runQuery(t *testing.T, db queryer, query string, args ...any) ([][]driver.Value, string) {
	t.Helper()
	rows, err := db.Query(query, args...)
	if err != nil {
		c := classOf(err)
		if c == "" {
			t.Fatalf("%s %v: unclassified error %v", query, args, err)
		}
		return nil, c
	}
	defer rows.Close()
	cols, _ := rows.Columns()
	out := [][]driver.Value{}
	for rows.Next() {
		vals := make([]any, len(cols))
		ptrs := make([]any, len(cols))
		for i := range vals {
			ptrs[i] = &vals[i]
		}
		if err := rows.Scan(ptrs...); err != nil {
			t.Fatal(err)
		}
		row := make([]driver.Value, len(cols))
		for i, v := range vals {
			row[i] = v
		}
		out = append(out, row)
	}
	if err := rows.Err(); err != nil {
		t.Fatal(err)
	}
	return out, ""
}

func pgInts(ids []int64) string {
	parts := make([]string, len(ids))
	for i, v := range ids {
		parts[i] = strconv.FormatInt(v, 10)
	}
	return "{" + strings.Join(parts, ",") + "}"
}

func TestModelBased(t *testing.T) {
	seeds := []int64{1, 2, 3, 4, 5, 6, 7, 8}
	steps := 1500
	if testing.Short() {
		seeds, steps = seeds[:2], 400
	}
	for _, seed := range seeds {
		t.Run(fmt.Sprint("seed", seed), func(t *testing.T) { runModel(t, seed, steps) })
	}
}

func runModel(t *testing.T, seed int64, steps int) {
	rng := rand.New(rand.NewSource(seed))
	sqlDB, e, err := Open(modelDDL)
	if err != nil {
		t.Fatal(err)
	}
	defer sqlDB.Close()
	m := &model{}

	names := []any{"a", "b", "c", "d", "e", "f", "g", "h", nil}
	labels := []any{"x", "y", "z", nil}
	arrays := []any{nil, "{}", "{1}", "{1,2,3}", "{-5,7}"}
	someID := func(max int64) any {
		if rng.Intn(8) == 0 {
			return nil
		}
		return rng.Int63n(max+3) + 0 // 0 and max+1, max+2 never exist
	}
	notNilID := func(max int64) int64 { return rng.Int63n(max + 3) }
	pickIDs := func(max int64) []int64 {
		ids := make([]int64, rng.Intn(4))
		for i := range ids {
			ids[i] = notNilID(max)
		}
		return ids
	}
	idSet := func(ids []int64) map[int64]bool {
		out := map[int64]bool{}
		for _, id := range ids {
			out[id] = true
		}
		return out
	}

	var (
		db      queryer = sqlDB
		tx      *sql.Tx
		saved   *model
		counts  = map[string]int{}
		classes = map[string]int{}
	)
	expect := func(op string, gotRows [][]driver.Value, gotClass string, wantRows [][]driver.Value, wantClass string) {
		t.Helper()
		counts[op]++
		classes[wantClass]++
		if gotClass != wantClass {
			t.Fatalf("seed %d, %s: got class %q, want %q", seed, op, gotClass, wantClass)
		}
		if wantClass == "" && wantRows != nil {
			if gotRows == nil {
				gotRows = [][]driver.Value{}
			}
			if !reflect.DeepEqual(gotRows, wantRows) {
				t.Fatalf("seed %d, %s: got rows\n%v\nwant\n%v", seed, op, gotRows, wantRows)
			}
		}
	}

	for step := 0; step < steps; step++ {
		switch op := rng.Intn(16); op {
		case 0: // begin / commit / rollback
			switch {
			case tx == nil:
				if tx, err = sqlDB.Begin(); err != nil {
					t.Fatal(err)
				}
				db, saved = tx, m.clone()
				// sequences are not transactional
			case rng.Intn(2) == 0:
				if err := tx.Commit(); err != nil {
					t.Fatal(err)
				}
				tx, db, saved = nil, sqlDB, nil
			default:
				if err := tx.Rollback(); err != nil {
					t.Fatal(err)
				}
				saved.seqParents, saved.seqChilds = m.seqParents, m.seqChilds
				m, tx, db, saved = saved, nil, sqlDB, nil
			}
		case 1, 2: // insert parent
			p := mParent{name: names[rng.Intn(len(names))], kind: rng.Int63n(4), opt: someID(5)}
			m.seqParents++
			p.id = m.seqParents
			want := m.checkParent(p, -1)
			rows, class := runQuery(t, db, `INSERT INTO parents (
				name, kind, opt
				) VALUES (
				$1, $2, $3
				) RETURNING id, name, kind, opt;`, p.name, p.kind, p.opt)
			if want == "" {
				m.parents = append(m.parents, p)
			}
			expect("insert parent", rows, class, [][]driver.Value{p.row()}, want)
		case 3, 4: // insert child
			c := mChild{idParent: someID(m.seqParents), maybe: someID(m.seqParents), label: labels[rng.Intn(len(labels))], vals: arrays[rng.Intn(len(arrays))]}
			m.seqChilds++
			c.id = m.seqChilds
			want := m.checkChild(c, -1)
			rows, class := runQuery(t, db, "INSERT INTO children (idparent, maybe, label, vals) VALUES ($1, $2, $3, $4) RETURNING id, idparent, maybe, label, vals", c.idParent, c.maybe, c.label, c.vals)
			if want == "" {
				m.children = append(m.children, c)
			}
			expect("insert child", rows, class, [][]driver.Value{c.row()}, want)
		case 5: // insert link
			l := mLink{idParent: someID(m.seqParents), idChild: someID(m.seqChilds), weight: someID(9)}
			want := m.checkLink(l, -1)
			_, err := db.Exec("INSERT INTO links (idparent, idchild, weight) VALUES ($1, $2, $3);", l.idParent, l.idChild, l.weight)
			if want == "" {
				m.links = append(m.links, l)
			}
			expect("insert link", nil, classOf(err), nil, want)
		case 6: // COPY links (needs a transaction)
			if tx == nil {
				continue
			}
			stmt, err := tx.Prepare(`COPY "links" ("idparent", "idchild", "weight") FROM STDIN`)
			if err != nil {
				t.Fatal(err)
			}
			w := m.clone()
			want := ""
			for i, n := 0, rng.Intn(4); i < n; i++ {
				l := mLink{idParent: notNilID(m.seqParents), idChild: someID(m.seqChilds), weight: rng.Int63n(10)}
				if _, err := stmt.Exec(l.idParent, l.idChild, l.weight); err != nil {
					t.Fatal(err)
				}
				w.links = append(w.links, l)
			}
			// PostgreSQL order for a multi-row insert: NOT NULL/CHECK of every row, then UNIQUE, then FOREIGN KEY
			for _, class := range []string{"not_null", "unique", "foreign_key"} {
				for i := len(m.links); i < len(w.links) && want == ""; i++ {
					if c := w.checkLink(w.links[i], i); c == class {
						want = c
					}
				}
			}
			_, err = stmt.Exec()
			if want == "" {
				m = w
			}
			expect("copy links", nil, classOf(err), nil, want)
			stmt.Close()
		case 7: // select parents by ids
			ids := pickIDs(m.seqParents)
			set := idSet(ids)
			want := [][]driver.Value{}
			for _, p := range m.parents {
				if set[p.id] {
					want = append(want, p.row())
				}
			}
			rows, class := runQuery(t, db, "SELECT id, name, kind, opt FROM parents WHERE id = ANY($1)", pgInts(ids))
			expect("select parents", rows, class, want, "")
		case 8: // select children by parent and label / by maybe
			idp, label := notNilID(m.seqParents), labels[rng.Intn(3)]
			want := [][]driver.Value{}
			for _, c := range m.children {
				if c.idParent == any(idp) && c.label == label {
					want = append(want, c.row())
				}
			}
			rows, class := runQuery(t, db, "SELECT id, idparent, maybe, label, vals FROM children WHERE IdParent = $1 AND Label = $2", idp, label)
			expect("select children", rows, class, want, "")
			ids := pickIDs(m.seqParents)
			set := idSet(ids)
			want = [][]driver.Value{}
			for _, c := range m.children {
				if id, ok := c.maybe.(int64); ok && set[id] {
					want = append(want, c.row())
				}
			}
			rows, class = runQuery(t, db, "SELECT id, idparent, maybe, label, vals FROM children WHERE maybe = ANY($1)", pgInts(ids))
			expect("select children by maybe", rows, class, want, "")
		case 9: // select links, NULL safe
			idp, idc := notNilID(m.seqParents), someID(m.seqChilds)
			want := [][]driver.Value{}
			for _, l := range m.links {
				if l.idParent == any(idp) && l.idChild == idc {
					want = append(want, l.row())
				}
			}
			rows, class := runQuery(t, db, "SELECT idparent, idchild, weight FROM links WHERE IdParent = $1 AND ((IdChild IS NULL AND $2 IS NULL) OR IdChild = $2)", idp, idc)
			expect("select links", rows, class, want, "")
		case 10: // update parent
			id := notNilID(m.seqParents)
			p := mParent{id: id, name: names[rng.Intn(len(names))], kind: rng.Int63n(4), opt: someID(5)}
			self := -1
			for i, o := range m.parents {
				if o.id == id {
					self = i
				}
			}
			want, wantRows := "", [][]driver.Value{}
			if self >= 0 {
				want = m.checkParent(p, self)
				wantRows = [][]driver.Value{p.row()}
			}
			rows, class := runQuery(t, db, "UPDATE parents SET (name, kind, opt) = ($1, $2, $3) WHERE id = $4 RETURNING id, name, kind, opt;", p.name, p.kind, p.opt, id)
			if want == "" && self >= 0 {
				m.parents = append([]mParent(nil), m.parents...)
				m.parents[self] = p
			}
			expect("update parent", rows, class, wantRows, want)
		case 11: // update child
			id := notNilID(m.seqChilds)
			c := mChild{id: id, idParent: someID(m.seqParents), maybe: someID(m.seqParents), label: labels[rng.Intn(len(labels))], vals: arrays[rng.Intn(len(arrays))]}
			self := -1
			for i, o := range m.children {
				if o.id == id {
					self = i
				}
			}
			want, wantRows := "", [][]driver.Value{}
			if self >= 0 {
				want = m.checkChild(c, self)
				wantRows = [][]driver.Value{c.row()}
			}
			rows, class := runQuery(t, db, "UPDATE children SET (idparent, maybe, label, vals) = ($1, $2, $3, $4) WHERE id = $5 RETURNING id, idparent, maybe, label, vals", c.idParent, c.maybe, c.label, c.vals, id)
			if want == "" && self >= 0 {
				m.children = append([]mChild(nil), m.children...)
				m.children[self] = c
			}
			expect("update child", rows, class, wantRows, want)
		case 12: // update links weight (many rows)
			idp, w := notNilID(m.seqParents), rng.Int63n(10)
			n := 0
			links := append([]mLink(nil), m.links...)
			for i, l := range links {
				if l.idParent == any(idp) {
					links[i].weight = w
					n++
				}
			}
			res, err := db.Exec("UPDATE links SET Weight = $1 WHERE IdParent = $2 ;", w, idp)
			expect("update links", nil, classOf(err), nil, "")
			if got, _ := res.RowsAffected(); got != int64(n) {
				t.Fatalf("seed %d: update links affected %d rows, want %d", seed, got, n)
			}
			m.links = links
		case 13: // delete parents
			ids := pickIDs(m.seqParents)
			deleted, want := m.deleteParents(idSet(ids))
			wantRows := [][]driver.Value{}
			for _, p := range deleted {
				wantRows = append(wantRows, []driver.Value{p.id})
			}
			rows, class := runQuery(t, db, "DELETE FROM parents WHERE id = ANY($1) RETURNING id", pgInts(ids))
			expect("delete parents", rows, class, wantRows, want)
		case 14: // delete children
			ids := pickIDs(m.seqChilds)
			set := idSet(ids)
			deleted := m.deleteChildren(func(c mChild) bool { return set[c.id] })
			wantRows := [][]driver.Value{}
			for _, c := range deleted {
				wantRows = append(wantRows, c.row())
			}
			rows, class := runQuery(t, db, "DELETE FROM children WHERE id = ANY($1) RETURNING id, idparent, maybe, label, vals", pgInts(ids))
			expect("delete children", rows, class, wantRows, "")
		case 15: // delete links
			idp, idc := notNilID(m.seqParents), someID(m.seqChilds)
			var kept []mLink
			n := 0
			for _, l := range m.links {
				if l.idParent == any(idp) && l.idChild == idc {
					n++
					continue
				}
				kept = append(kept, l)
			}
			m.links = kept
			res, err := db.Exec("DELETE FROM links WHERE IdParent = $1 AND ((IdChild IS NULL AND $2 IS NULL) OR IdChild = $2);", idp, idc)
			expect("delete links", nil, classOf(err), nil, "")
			if got, _ := res.RowsAffected(); got != int64(n) {
				t.Fatalf("seed %d: delete links affected %d rows, want %d", seed, got, n)
			}
		}
		if step%10 == 0 || step == steps-1 {
			if got, want := engineTables(e), m.tables(); !reflect.DeepEqual(got, want) {
				t.Fatalf("seed %d, step %d: state diverged\nengine %v\nmodel  %v", seed, step, got, want)
			}
		}
	}
	if tx != nil {
		tx.Rollback()
	}
	// every interesting outcome was exercised
	for _, class := range []string{"", "not_null", "check", "unique", "foreign_key"} {
		if classes[class] == 0 && !testing.Short() {
			t.Errorf("seed %d: class %q never expected (%v)", seed, class, classes)
		}
	}
	if len(counts) < 14 {
		t.Errorf("seed %d: only %d kinds of operations ran: %v", seed, len(counts), counts)
	}
}
