// Package minipg is a tiny in-memory relational engine which understands the
// PostgreSQL schema emitted by gomacro's SQL generator and the statements sent
// by the CRUD code gomacro generates, exposed as a database/sql driver.
//
// It is a schema-enforcing stand-in for PostgreSQL + lib/pq in a sandbox where
// neither is available: every statement is parsed strictly and validated
// against the schema (tables, columns, placeholders, arity, types, NOT NULL,
// CHECK, UNIQUE / PRIMARY KEY and FOREIGN KEY constraints with their
// referential actions); every executed statement is recorded in a log.
//
// Result encoding (what lib/pq hands to Scan): integer kinds and serial give
// int64; real and double precision float64; boolean bool; text string; bytea,
// json and jsonb []byte; arrays []byte in the PostgreSQL array text format
// ({1,2}, booleans as t/f, strings quoted when needed, NULL elements as NULL);
// composites []byte in record text format ((1,2,3)); timestamps and dates
// time.Time in UTC; SQL NULL nil.
//
// Deliberate differences with a real server, all on the strict side unless
// noted: an argument is converted to the column type only from a short list
// of Go types (integer kinds: int64 or a string of digits; real: float64,
// int64 or numeric text; boolean: bool or boolean text; text: string or
// []byte; bytea: []byte or hex/escape text; json: valid JSON text; arrays and
// composites: their text format; date and timestamp: time.Time or ISO text),
// so that e.g. an int64 is refused for a text column although PostgreSQL would
// accept its text form; jsonb values are kept as given (PostgreSQL normalises
// spacing, key order and duplicate keys); transactions are snapshots of the
// whole database taken by Begin (no isolation between connections: a
// Rollback restores every table to its state at Begin); RESTRICT is checked
// like NO ACTION, at the end of the statement; uniqueness is checked against
// the final state of an UPDATE rather than row by row. Like PostgreSQL,
// sequence values consumed by serial columns are never given back, neither by
// a failing statement nor by Rollback. See Options for more faithful (but off
// by default) behaviours.
//
// The package only depends on the standard library.
package minipg

import (
	"database/sql"
	"database/sql/driver"
	"sort"
	"strings"
	"sync"
)

// Options tune the fidelity of the engine. The zero value is the behaviour
// documented for Open.
type Options struct {
	// Lenient makes schema problems (foreign key to an unknown table, unknown
	// column type, ...) non fatal: they are recorded in SchemaProblems() and
	// the offending constraint is dropped.
	Lenient bool

	// RoundTimestamps rounds timestamps to the precision of the column like
	// PostgreSQL does (half away from 2000-01-01), instead of truncating them.
	RoundTimestamps bool

	// LocalDates converts a time.Time to a date using the calendar day in the
	// time's own location (what PostgreSQL does with the text sent by lib/pq)
	// instead of the calendar day in UTC.
	LocalDates bool

	// Float4 stores "real" values with float32 precision, as PostgreSQL does,
	// and rejects values overflowing float32 (class "type"). By default a real
	// column keeps the full float64.
	Float4 bool

	// ReservedWords rejects (class "syntax") the reserved key words of
	// PostgreSQL used as unquoted table or column names, both in the DDL (where
	// it is a schema problem) and in statements. By default they are accepted
	// wherever the grammar is unambiguous, because gomacro's own fixtures use a
	// column named "Order".
	ReservedWords bool

	// EnforceUniqueIndexes turns "CREATE UNIQUE INDEX [name] ON t (cols)"
	// statements into UNIQUE constraints instead of keeping them in Ignored().
	EnforceUniqueIndexes bool

	// AbortTxOnError reproduces the PostgreSQL rule that a failed statement
	// aborts the enclosing transaction: later statements fail with class
	// "aborted_tx" and Commit rolls back and returns an error.
	AbortTxOnError bool
}

// Stmt is one executed statement, as recorded in the log.
type Stmt struct {
	SQL   string
	Args  []driver.Value // after database/sql's Valuer conversion: int64, float64, bool, []byte, string, time.Time, nil
	Err   error          // error returned to the caller, if any
	Kind  string         // "insert","select","update","delete","copy","other"
	Table string         // folded table name, "" when unknown
	InTx  bool           // executed inside a transaction
}

// ColumnInfo describes a column of a table.
type ColumnInfo struct {
	Name string // folded to lower case unless it was quoted in the DDL
	// Type is the normalised lower-case type: "integer", "smallint", "bigint",
	// "boolean", "real", "double precision", "text", "jsonb", "json", "bytea",
	// "date", "timestamp (0) with time zone", "serial", "bigserial", the same
	// followed by "[]" for arrays, or the (folded) name of a composite type.
	Type       string
	NotNull    bool   // NOT NULL, PRIMARY KEY or serial
	PrimaryKey bool   // member of the primary key
	HasDefault bool   // has an explicit DEFAULT clause (serial columns are recognised by Type)
	Default    string // text of the DEFAULT literal, "" when HasDefault is false
}

// Engine is one in-memory database.
type Engine struct {
	mu sync.Mutex

	opt  Options
	vopt valueOptions
	dsn  string

	tables     map[string]*table
	tableOrder []string
	types      map[string]*compositeType
	funcs      map[string]string
	funcOrder  []string
	ignored    []string
	problems   []string

	checkFn func(fn string, jsonText []byte) (bool, error)
	log     []Stmt
}

func newEngine(opt Options) *Engine {
	return &Engine{
		opt:    opt,
		vopt:   valueOptions{roundTimestamps: opt.RoundTimestamps, localDates: opt.LocalDates, float4: opt.Float4},
		tables: map[string]*table{},
		types:  map[string]*compositeType{},
		funcs:  map[string]string{},
	}
}

// Open parses the DDL script emitted by gomacro's SQL generator and returns a
// fresh, isolated in-memory database served through database/sql, plus a
// handle to inspect it. Each call creates an independent database.
//
// Loading is lenient for what the engine does not model: statements it does not
// understand (CREATE UNIQUE INDEX, CREATE EXTENSION, ...) and CHECK expressions
// it cannot evaluate are kept in Ignored(). But CREATE TABLE, CREATE TYPE ... AS
// (...), ALTER TABLE ... ADD FOREIGN KEY | UNIQUE | PRIMARY KEY | CHECK and
// ALTER COLUMN ... SET DEFAULT must be understood and consistent (known tables,
// columns, types and functions, a unique key behind every foreign key, ...):
// otherwise Open fails with a *Error of class "syntax" (script which cannot be
// tokenised or with unbalanced parentheses) or "schema" (every problem found,
// one per line).
func Open(ddl string) (*sql.DB, *Engine, error) { return OpenWith(ddl, Options{}) }

// OpenLenient is like Open but records the schema problems in
// SchemaProblems() instead of failing; the offending constraints are dropped
// and columns of unknown type accept any text.
func OpenLenient(ddl string) (*sql.DB, *Engine, error) {
	return OpenWith(ddl, Options{Lenient: true})
}

// OpenWith is Open with explicit options.
func OpenWith(ddl string, opt Options) (*sql.DB, *Engine, error) {
	e := newEngine(opt)
	l := &loader{e: e}
	if err := l.load(ddl); err != nil {
		return nil, nil, err
	}
	e.problems = l.problems
	if len(e.problems) > 0 && !opt.Lenient {
		return nil, nil, &Error{Class: "schema", Msg: strings.Join(e.problems, "\n")}
	}
	e.dsn = register(e)
	db, err := sql.Open(driverName, e.dsn)
	if err != nil {
		unregister(e.dsn)
		return nil, nil, err
	}
	return db, e, nil
}

// Options returns the options the database was opened with.
func (e *Engine) Options() Options { return e.opt }

// Log returns a copy of the statements executed so far, in execution order.
func (e *Engine) Log() []Stmt {
	e.mu.Lock()
	defer e.mu.Unlock()
	return append([]Stmt(nil), e.log...)
}

// ResetLog empties the log.
func (e *Engine) ResetLog() {
	e.mu.Lock()
	defer e.mu.Unlock()
	e.log = nil
}

// Ignored returns the DDL statements (and CHECK constraints) which were not
// understood and are therefore not enforced, in script order.
func (e *Engine) Ignored() []string { return append([]string(nil), e.ignored...) }

// SchemaProblems returns the inconsistencies found while loading the DDL (only
// non empty for databases opened with Options.Lenient).
func (e *Engine) SchemaProblems() []string { return append([]string(nil), e.problems...) }

// SetCheckFunc installs the callback evaluating CHECK constraints of the form
// <fn>(<column>) where <fn> is not a builtin (the jsonb validators). It
// receives the function name as written in the DDL and the column's JSON text
// (nil for SQL NULL) and returns whether the check passes; a non nil error
// makes the statement fail with class "check". When nil such checks are
// skipped.
func (e *Engine) SetCheckFunc(f func(fn string, jsonText []byte) (bool, error)) {
	e.mu.Lock()
	defer e.mu.Unlock()
	e.checkFn = f
}

// TableNames returns the (folded) table names, in creation order.
func (e *Engine) TableNames() []string { return append([]string(nil), e.tableOrder...) }

// Columns returns the columns of a table in declaration order, nil for an
// unknown table. The lookup folds the name to lower case.
func (e *Engine) Columns(tableName string) []ColumnInfo {
	t := e.lookup(tableName)
	if t == nil {
		return nil
	}
	out := make([]ColumnInfo, len(t.cols))
	for i, c := range t.cols {
		out[i] = ColumnInfo{Name: c.name, Type: c.typ.name, NotNull: c.notNull, HasDefault: c.hasDefault, Default: c.defText}
	}
	for _, i := range t.pk {
		out[i].PrimaryKey = true
	}
	return out
}

func (e *Engine) lookup(tableName string) *table {
	if t, ok := e.tables[tableName]; ok {
		return t
	}
	return e.tables[foldIdent(tableName)]
}

// RowCount returns the number of rows of a table (-1 for an unknown table).
func (e *Engine) RowCount(tableName string) int {
	e.mu.Lock()
	defer e.mu.Unlock()
	t := e.lookup(tableName)
	if t == nil {
		return -1
	}
	return len(t.rows)
}

// Rows returns the current content of a table, in insertion order, encoded
// like query results (see the package documentation), without touching the
// log. It returns nil for an unknown table.
func (e *Engine) Rows(tableName string) [][]driver.Value {
	e.mu.Lock()
	defer e.mu.Unlock()
	t := e.lookup(tableName)
	if t == nil {
		return nil
	}
	out := make([][]driver.Value, len(t.rows))
	for i, r := range t.rows {
		row := make([]driver.Value, len(r))
		for j, v := range r {
			row[j] = encode(t.cols[j].typ, v)
		}
		out[i] = row
	}
	return out
}

// ConstraintInfo describes a table constraint understood by the engine.
type ConstraintInfo struct {
	Kind       string   // "primary_key", "unique", "check", "foreign_key"
	Columns    []string // constrained columns (empty for checks)
	Check      string   // CHECK expression text
	RefTable   string   // foreign keys: referenced table
	RefColumns []string // foreign keys: referenced columns
	OnDelete   string   // foreign keys: "NO ACTION", "RESTRICT", "CASCADE", "SET NULL", "SET DEFAULT"
	OnUpdate   string
}

// Constraints returns the enforced constraints of a table: primary key,
// uniques, checks then foreign keys, each group in declaration order.
func (e *Engine) Constraints(tableName string) []ConstraintInfo {
	t := e.lookup(tableName)
	if t == nil {
		return nil
	}
	var out []ConstraintInfo
	if t.pk != nil {
		out = append(out, ConstraintInfo{Kind: "primary_key", Columns: t.colNames(t.pk)})
	}
	for _, u := range t.uniques {
		out = append(out, ConstraintInfo{Kind: "unique", Columns: t.colNames(u)})
	}
	for _, c := range t.checks {
		out = append(out, ConstraintInfo{Kind: "check", Check: c.src})
	}
	for _, fk := range t.fks {
		out = append(out, ConstraintInfo{
			Kind: "foreign_key", Columns: t.colNames(fk.cols),
			RefTable: fk.parent.name, RefColumns: fk.parent.colNames(fk.refCols),
			OnDelete: fk.onDelete.String(), OnUpdate: fk.onUpdate.String(),
		})
	}
	return out
}

// Functions returns the (folded) names of the functions defined by the DDL, in
// lexical order.
func (e *Engine) Functions() []string {
	out := append([]string(nil), e.funcOrder...)
	sort.Strings(out)
	return out
}

// FunctionBody returns the body (text between the dollar quotes) of a function
// defined by the DDL.
func (e *Engine) FunctionBody(name string) (string, bool) {
	body, ok := e.funcs[name]
	if !ok {
		body, ok = e.funcs[foldIdent(name)]
	}
	return body, ok
}

// CompositeTypes returns, for each composite type defined by the DDL (folded
// name), the normalised types of its fields.
func (e *Engine) CompositeTypes() map[string][]string {
	out := make(map[string][]string, len(e.types))
	for name, ct := range e.types {
		fields := make([]string, len(ct.fields))
		for i, f := range ct.fields {
			fields[i] = f.typ.name
		}
		out[name] = fields
	}
	return out
}

// record appends a statement to the log. The engine lock must be held.
func (e *Engine) record(sqlText string, args []driver.Value, st *statement, err *Error, inTx bool) {
	entry := Stmt{SQL: sqlText, Kind: "other", InTx: inTx}
	if len(args) > 0 {
		entry.Args = append([]driver.Value(nil), args...)
	}
	if st != nil {
		entry.Kind = st.kind
		entry.Table = st.table
	}
	if err != nil {
		entry.Err = err
	}
	e.log = append(e.log, entry)
}
