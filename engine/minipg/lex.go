package minipg

import (
	"fmt"
	"strings"
)

// tokKind enumerates the lexical classes of the SQL subset.
type tokKind int

const (
	tEOF    tokKind = iota
	tIdent          // unquoted identifier or keyword; text is folded to lower case
	tQIdent         // "quoted identifier"; text is the literal name
	tNumber         // 12, 1.5, .5, 1e3 (no sign)
	tString         // 'string'; text is the unescaped content
	tParam          // $n; num holds n
	tDollar         // $tag$ ... $tag$; text is the body
	tOp             // punctuation and operators: ( ) , ; = <> != < > <= >= . * [ ] :: + - / || ->  ->> etc.
)

type token struct {
	kind tokKind
	text string // see tokKind
	raw  string // text as written (for identifiers: original case)
	num  int    // for tParam
	pos  int    // byte offset in the source
}

func (t token) String() string {
	switch t.kind {
	case tEOF:
		return "end of input"
	case tString:
		return "'" + t.text + "'"
	case tParam:
		return fmt.Sprintf("$%d", t.num)
	case tDollar:
		return "$$...$$"
	case tQIdent:
		return `"` + t.text + `"`
	}
	return t.raw
}

// is reports whether the token is the unquoted keyword kw (lower case).
func (t token) is(kw string) bool { return t.kind == tIdent && t.text == kw }

// isOp reports whether the token is the operator op.
func (t token) isOp(op string) bool { return t.kind == tOp && t.text == op }

func isIdentStart(c byte) bool {
	return c == '_' || (c >= 'a' && c <= 'z') || (c >= 'A' && c <= 'Z') || c >= 0x80
}

func isIdentPart(c byte) bool {
	return isIdentStart(c) || (c >= '0' && c <= '9') || c == '$'
}

func isDigit(c byte) bool { return c >= '0' && c <= '9' }

func isSpace(c byte) bool {
	return c == ' ' || c == '\t' || c == '\n' || c == '\r' || c == '\f' || c == '\v'
}

// foldIdent folds an unquoted identifier like PostgreSQL does (ASCII only;
// PostgreSQL also folds some non ASCII letters depending on the locale, which
// is not reproduced).
func foldIdent(s string) string {
	for i := 0; i < len(s); i++ {
		if c := s[i]; c >= 'A' && c <= 'Z' {
			return asciiLower(s)
		}
	}
	return s
}

func asciiLower(s string) string {
	b := []byte(s)
	for i, c := range b {
		if c >= 'A' && c <= 'Z' {
			b[i] = c + ('a' - 'A')
		}
	}
	return string(b)
}

// multi-character operators, longest first
var multiOps = []string{"->>", "<>", "!=", "<=", ">=", "::", "||", "->", ":="}

// lex splits src into tokens. Comments ("-- ..." and nested "/* ... */") are
// skipped. It returns a *Error of class "syntax" on unterminated constructs or
// unexpected characters.
func lex(src string) ([]token, *Error) {
	var out []token
	i := 0
	n := len(src)
	for i < n {
		c := src[i]
		switch {
		case isSpace(c):
			i++
		case c == '-' && i+1 < n && src[i+1] == '-':
			for i < n && src[i] != '\n' {
				i++
			}
		case c == '/' && i+1 < n && src[i+1] == '*':
			start := i
			depth := 0
			for i < n {
				if src[i] == '/' && i+1 < n && src[i+1] == '*' {
					depth++
					i += 2
				} else if src[i] == '*' && i+1 < n && src[i+1] == '/' {
					depth--
					i += 2
					if depth == 0 {
						break
					}
				} else {
					i++
				}
			}
			if depth != 0 {
				return nil, errf("syntax", "unterminated /* comment at offset %d", start)
			}
		case isIdentStart(c):
			start := i
			for i < n && isIdentPart(src[i]) {
				i++
			}
			raw := src[start:i]
			if i < n && src[i] == '\'' && len(raw) == 1 {
				if raw == "e" || raw == "E" {
					text, end, err := lexEscapeString(src, i)
					if err != nil {
						return nil, err
					}
					out = append(out, token{kind: tString, text: text, raw: src[start:end], pos: start})
					i = end
					continue
				}
				// bit strings and national character strings are not supported
				if strings.ContainsAny(raw, "bBxXnN") {
					return nil, errf("unsupported", "string literal with prefix %q at offset %d", raw, start)
				}
			}
			out = append(out, token{kind: tIdent, text: foldIdent(raw), raw: raw, pos: start})
		case c == '"':
			start := i
			i++
			var sb strings.Builder
			closed := false
			for i < n {
				if src[i] == '"' {
					if i+1 < n && src[i+1] == '"' {
						sb.WriteByte('"')
						i += 2
						continue
					}
					i++
					closed = true
					break
				}
				sb.WriteByte(src[i])
				i++
			}
			if !closed {
				return nil, errf("syntax", "unterminated quoted identifier at offset %d", start)
			}
			if sb.Len() == 0 {
				return nil, errf("syntax", "zero-length delimited identifier at offset %d", start)
			}
			out = append(out, token{kind: tQIdent, text: sb.String(), raw: src[start:i], pos: start})
		case c == '\'':
			start := i
			i++
			var sb strings.Builder
			closed := false
			for i < n {
				if src[i] == '\'' {
					if i+1 < n && src[i+1] == '\'' {
						sb.WriteByte('\'')
						i += 2
						continue
					}
					i++
					closed = true
					break
				}
				sb.WriteByte(src[i])
				i++
			}
			if !closed {
				return nil, errf("syntax", "unterminated quoted string at offset %d", start)
			}
			out = append(out, token{kind: tString, text: sb.String(), raw: src[start:i], pos: start})
		case c == '$':
			start := i
			// $n placeholder
			if i+1 < n && isDigit(src[i+1]) {
				j := i + 1
				num := 0
				for j < n && isDigit(src[j]) {
					if num < 1<<24 {
						num = num*10 + int(src[j]-'0')
					}
					j++
				}
				if j < n && isIdentStart(src[j]) {
					return nil, errf("syntax", "trailing junk after parameter at offset %d", start)
				}
				out = append(out, token{kind: tParam, num: num, raw: src[start:j], pos: start})
				i = j
				continue
			}
			// $tag$ ... $tag$ dollar quoted string
			j := i + 1
			for j < n && isIdentPart(src[j]) && src[j] != '$' {
				j++
			}
			if j >= n || src[j] != '$' {
				return nil, errf("syntax", "unexpected character %q at offset %d", c, start)
			}
			tag := src[i : j+1]
			end := strings.Index(src[j+1:], tag)
			if end < 0 {
				return nil, errf("syntax", "unterminated dollar-quoted string at offset %d", start)
			}
			body := src[j+1 : j+1+end]
			i = j + 1 + end + len(tag)
			out = append(out, token{kind: tDollar, text: body, raw: src[start:i], pos: start})
		case isDigit(c) || (c == '.' && i+1 < n && isDigit(src[i+1])):
			start := i
			for i < n && isDigit(src[i]) {
				i++
			}
			if i < n && src[i] == '.' {
				i++
				for i < n && isDigit(src[i]) {
					i++
				}
			}
			if i < n && (src[i] == 'e' || src[i] == 'E') {
				j := i + 1
				if j < n && (src[j] == '+' || src[j] == '-') {
					j++
				}
				if j < n && isDigit(src[j]) {
					for j < n && isDigit(src[j]) {
						j++
					}
					i = j
				}
			}
			if i < n && isIdentStart(src[i]) {
				return nil, errf("syntax", "trailing junk after numeric literal at offset %d", start)
			}
			out = append(out, token{kind: tNumber, text: src[start:i], raw: src[start:i], pos: start})
		default:
			matched := false
			for _, op := range multiOps {
				if strings.HasPrefix(src[i:], op) {
					out = append(out, token{kind: tOp, text: op, raw: op, pos: i})
					i += len(op)
					matched = true
					break
				}
			}
			if matched {
				continue
			}
			if strings.IndexByte("(),;=<>.*[]+-/%:!@#&|^~?", c) >= 0 {
				out = append(out, token{kind: tOp, text: string(c), raw: string(c), pos: i})
				i++
				continue
			}
			return nil, errf("syntax", "unexpected character %q at offset %d", c, i)
		}
	}
	out = append(out, token{kind: tEOF, pos: n})
	return out, nil
}

// lexEscapeString reads an E'...' string whose opening quote is at src[i]; it
// returns the unescaped text and the offset after the closing quote.
func lexEscapeString(src string, i int) (string, int, *Error) {
	start := i
	i++
	var sb strings.Builder
	n := len(src)
	for i < n {
		c := src[i]
		switch {
		case c == '\'':
			if i+1 < n && src[i+1] == '\'' {
				sb.WriteByte('\'')
				i += 2
				continue
			}
			return sb.String(), i + 1, nil
		case c == '\\':
			if i+1 >= n {
				return "", 0, errf("syntax", "unterminated quoted string at offset %d", start)
			}
			e := src[i+1]
			i += 2
			switch {
			case e == 'b':
				sb.WriteByte('\b')
			case e == 'f':
				sb.WriteByte('\f')
			case e == 'n':
				sb.WriteByte('\n')
			case e == 'r':
				sb.WriteByte('\r')
			case e == 't':
				sb.WriteByte('\t')
			case e >= '0' && e <= '7':
				v := int(e - '0')
				for k := 0; k < 2 && i < n && src[i] >= '0' && src[i] <= '7'; k++ {
					v = v*8 + int(src[i]-'0')
					i++
				}
				sb.WriteByte(byte(v))
			case e == 'x':
				v, digits := 0, 0
				for digits < 2 && i < n && isHexDigit(src[i]) {
					v = v*16 + hexVal(src[i])
					i++
					digits++
				}
				if digits == 0 {
					sb.WriteByte('x')
				} else {
					sb.WriteByte(byte(v))
				}
			case e == 'u' || e == 'U':
				want := 4
				if e == 'U' {
					want = 8
				}
				if i+want > n {
					return "", 0, errf("syntax", "invalid Unicode escape at offset %d", i-2)
				}
				v := 0
				for k := 0; k < want; k++ {
					if !isHexDigit(src[i+k]) {
						return "", 0, errf("syntax", "invalid Unicode escape at offset %d", i-2)
					}
					v = v*16 + hexVal(src[i+k])
				}
				if v > 0x10FFFF || (v >= 0xD800 && v <= 0xDFFF) {
					return "", 0, errf("unsupported", "Unicode escape out of range or surrogate at offset %d", i-2)
				}
				i += want
				sb.WriteRune(rune(v))
			default:
				sb.WriteByte(e)
			}
		default:
			sb.WriteByte(c)
			i++
		}
	}
	return "", 0, errf("syntax", "unterminated quoted string at offset %d", start)
}

func isHexDigit(c byte) bool {
	return isDigit(c) || (c >= 'a' && c <= 'f') || (c >= 'A' && c <= 'F')
}

func hexVal(c byte) int {
	switch {
	case isDigit(c):
		return int(c - '0')
	case c >= 'a':
		return int(c-'a') + 10
	}
	return int(c-'A') + 10
}

// splitStatements cuts a token stream (as produced by lex) into statements at
// top level ';' tokens. Empty statements are dropped. It reports unbalanced
// parentheses or brackets as a syntax error.
func splitStatements(src string, toks []token) ([][]token, []string, *Error) {
	var (
		stmts [][]token
		texts []string
		cur   []token
		stack []token
	)
	flush := func(endPos int) {
		if len(cur) == 0 {
			return
		}
		start := cur[0].pos
		texts = append(texts, strings.TrimSpace(src[start:endPos]))
		cur = append(cur, token{kind: tEOF, pos: endPos})
		stmts = append(stmts, cur)
		cur = nil
	}
	for _, t := range toks {
		if t.kind == tEOF {
			break
		}
		if t.kind == tOp {
			switch t.text {
			case "(", "[":
				stack = append(stack, t)
			case ")", "]":
				if len(stack) == 0 {
					return nil, nil, errf("syntax", "unbalanced %q at offset %d", t.text, t.pos)
				}
				open := stack[len(stack)-1]
				if (open.text == "(") != (t.text == ")") {
					return nil, nil, errf("syntax", "mismatched %q at offset %d (opened by %q at offset %d)", t.text, t.pos, open.text, open.pos)
				}
				stack = stack[:len(stack)-1]
			case ";":
				if len(stack) == 0 {
					flush(t.pos)
					continue
				}
			}
		}
		cur = append(cur, t)
	}
	if len(stack) != 0 {
		open := stack[len(stack)-1]
		return nil, nil, errf("syntax", "unbalanced %q at offset %d", open.text, open.pos)
	}
	flush(len(src))
	return stmts, texts, nil
}
