package minipg

import (
	"sort"
	"strings"
)

// statement is a parsed data manipulation statement.
type statement struct {
	kind  string // "insert", "select", "update", "delete", "copy", "other"
	table string // folded table name ("" when parsing failed before it)

	cols    []string // INSERT/COPY target columns, UPDATE SET columns; nil for COPY without list
	values  []expr   // INSERT values, UPDATE SET values
	tuple   bool     // UPDATE t SET (...) = (...)
	where   expr     // nil when absent
	out     []string // SELECT list or RETURNING list; "*" stands for all columns
	hasOut  bool
	params  []int // distinct placeholder numbers, sorted
	allCols bool  // COPY without column list
}

// sniffKind classifies a statement by its first key word, without requiring
// the text to be lexically valid.
func sniffKind(sql string) string {
	toks, err := lex(sql)
	var first string
	if err == nil {
		if len(toks) > 0 && toks[0].kind == tIdent {
			first = toks[0].text
		}
	} else {
		fields := strings.Fields(sql)
		if len(fields) > 0 {
			first = asciiLower(fields[0])
		}
	}
	switch first {
	case "insert", "select", "update", "delete", "copy":
		return first
	}
	return "other"
}

// parseStatement parses one statement of the supported subset. On error the
// returned statement is still non nil and carries what was recognised (kind,
// and table when known), for logging purposes.
func parseStatement(sql string, reserved bool) (*statement, *Error) {
	st := &statement{kind: "other"}
	toks, err := lex(sql)
	if err != nil {
		st.kind = sniffKind(sql)
		return st, err
	}
	// trailing semicolons
	end := len(toks) - 1 // index of EOF
	for end > 0 && toks[end-1].isOp(";") {
		end--
	}
	body := append(append([]token{}, toks[:end]...), token{kind: tEOF, pos: toks[end].pos})
	if len(body) == 1 {
		return st, errf("syntax", "empty statement")
	}
	depth := 0
	for _, t := range body {
		switch {
		case t.isOp("(") || t.isOp("["):
			depth++
		case t.isOp(")") || t.isOp("]"):
			depth--
			if depth < 0 {
				return st, errf("syntax", "syntax error at or near %q (offset %d): unbalanced parenthesis", t.text, t.pos)
			}
		case t.isOp(";") && depth == 0:
			st.kind = sniffKind(sql)
			return st, errf("syntax", "cannot insert multiple commands into a prepared statement (offset %d)", t.pos)
		}
	}
	seen := map[int]bool{}
	for _, t := range body {
		if t.kind == tParam && !seen[t.num] {
			seen[t.num] = true
			st.params = append(st.params, t.num)
		}
	}
	sort.Ints(st.params)

	p := &parser{toks: body, reserved: reserved}
	first := p.peek()
	if first.kind != tIdent {
		return st, errf("syntax", "syntax error at or near %q (offset %d)", first.String(), first.pos)
	}
	switch first.text {
	case "insert":
		st.kind = "insert"
		p.i++
		err = p.parseInsert(st)
	case "select":
		st.kind = "select"
		p.i++
		err = p.parseSelect(st)
	case "update":
		st.kind = "update"
		p.i++
		err = p.parseUpdate(st)
	case "delete":
		st.kind = "delete"
		p.i++
		err = p.parseDelete(st)
	case "copy":
		st.kind = "copy"
		p.i++
		err = p.parseCopy(st)
	default:
		return st, errf("unsupported", "%s statements are not supported", strings.ToUpper(first.text))
	}
	if err != nil {
		return st, err
	}
	if p.peek().kind != tEOF {
		return st, p.unexpected("after the end of the statement")
	}
	return st, nil
}

func (p *parser) tableName(st *statement) *Error {
	if p.acceptKw("only") {
		return errf("unsupported", "ONLY is not supported")
	}
	name, err := p.ident("table name")
	if err != nil {
		return err
	}
	if p.peek().isOp(".") {
		return errf("unsupported", "schema qualified table names are not supported (offset %d)", p.peek().pos)
	}
	st.table = name
	if t := p.peek(); t.is("as") || (t.kind == tIdent && !t.is("set") && !t.is("where") && !t.is("returning") &&
		!t.is("values") && !t.is("from") && !t.is("using") && !t.is("default") && !t.is("select") && !unsupportedKeywords[t.text]) {
		return errf("unsupported", "table aliases are not supported (offset %d)", t.pos)
	}
	return nil
}

// operandList parses "( operand, ... )"; an empty list is a syntax error.
func (p *parser) operandList(what string) ([]expr, *Error) {
	if err := p.expectOp("(", "before "+what+" list"); err != nil {
		return nil, err
	}
	if p.peek().isOp(")") {
		return nil, errf("syntax", "syntax error at or near \")\" (offset %d): empty %s list", p.peek().pos, what)
	}
	if p.peek().is("select") || p.peek().is("with") {
		return nil, errf("unsupported", "sub-queries are not supported (offset %d)", p.peek().pos)
	}
	var out []expr
	for {
		e, err := p.operand()
		if err != nil {
			return nil, err
		}
		out = append(out, e)
		if p.acceptOp(",") {
			continue
		}
		if err := p.expectOp(")", "after "+what+" list"); err != nil {
			return nil, err
		}
		return out, nil
	}
}

// operand parses a single value: placeholder, literal, column or DEFAULT.
func (p *parser) operand() (expr, *Error) {
	e, err := p.parsePrimary()
	if err != nil {
		return nil, err
	}
	if t := p.peek(); t.kind == tOp && cmpOps[t.text] || t.is("is") || t.is("in") || t.is("and") || t.is("or") {
		return nil, errf("unsupported", "boolean expressions are not supported as values (offset %d)", t.pos)
	}
	return p.checkTrailingOperator(e)
}

func (p *parser) outputList(st *statement) *Error {
	st.hasOut = true
	for {
		t := p.peek()
		switch {
		case t.isOp("*"):
			p.i++
			st.out = append(st.out, "*")
		case t.kind == tIdent || t.kind == tQIdent:
			if t.kind == tIdent && (p.peekAt(1).isOp("(") || p.peekAt(1).isOp(".")) {
				return errf("unsupported", "only plain column names are supported in output lists (offset %d)", t.pos)
			}
			if t.kind == tIdent && (t.is("from") || t.is("where") || t.is("distinct") || t.is("all") || t.is("case") || t.is("cast") || t.is("not") || t.is("null") || t.is("true") || t.is("false") || t.is("exists") || t.is("array")) {
				return p.unexpected("expected a column name")
			}
			name, err := p.ident("column name")
			if err != nil {
				return err
			}
			st.out = append(st.out, name)
		case t.kind == tNumber || t.kind == tString || t.kind == tParam || t.isOp("(") || t.isOp("-") || t.isOp("+"):
			return errf("unsupported", "only plain column names are supported in output lists (offset %d)", t.pos)
		default:
			return p.unexpected("expected a column name")
		}
		if n := p.peek(); n.is("as") || n.kind == tOp && (cmpOps[n.text] || n.text == "::" || n.text == "||" || n.text == "+" || n.text == "-" || n.text == "*" || n.text == "/" || n.text == "->" || n.text == "->>" || n.text == "[") {
			return errf("unsupported", "only plain column names are supported in output lists (offset %d)", n.pos)
		}
		if p.acceptOp(",") {
			continue
		}
		return nil
	}
}

func (p *parser) parseInsert(st *statement) *Error {
	if err := p.expectKw("into", "after INSERT"); err != nil {
		return err
	}
	if err := p.tableName(st); err != nil {
		return err
	}
	if !p.peek().isOp("(") {
		if t := p.peek(); t.is("values") || t.is("default") || t.is("select") {
			return errf("unsupported", "INSERT without a column list is not supported")
		}
		return p.unexpected("expected a column list")
	}
	cols, err := p.identList("column")
	if err != nil {
		return err
	}
	st.cols = cols
	if t := p.peek(); t.is("select") || t.is("default") {
		return errf("unsupported", "INSERT ... %s is not supported", strings.ToUpper(t.text))
	}
	if err := p.expectKw("values", "in INSERT"); err != nil {
		return err
	}
	vals, err := p.operandList("value")
	if err != nil {
		return err
	}
	st.values = vals
	if p.peek().isOp(",") {
		return errf("unsupported", "multi-row VALUES are not supported (offset %d)", p.peek().pos)
	}
	if p.acceptKw("returning") {
		return p.outputList(st)
	}
	return nil
}

func (p *parser) parseSelect(st *statement) *Error {
	if err := p.outputList(st); err != nil {
		return err
	}
	if !p.acceptKw("from") {
		if p.peek().kind == tEOF {
			return errf("unsupported", "SELECT without FROM is not supported")
		}
		return p.unexpected("expected FROM")
	}
	if p.peek().isOp("(") {
		return errf("unsupported", "sub-queries are not supported (offset %d)", p.peek().pos)
	}
	if err := p.tableName(st); err != nil {
		return err
	}
	if p.peek().isOp(",") {
		return errf("unsupported", "joins are not supported (offset %d)", p.peek().pos)
	}
	return p.whereClause(st)
}

func (p *parser) whereClause(st *statement) *Error {
	if p.acceptKw("where") {
		if p.peek().is("current") {
			return errf("unsupported", "WHERE CURRENT OF is not supported")
		}
		e, err := p.parseExpr()
		if err != nil {
			return err
		}
		st.where = e
	}
	return nil
}

func (p *parser) parseUpdate(st *statement) *Error {
	if err := p.tableName(st); err != nil {
		return err
	}
	if err := p.expectKw("set", "in UPDATE"); err != nil {
		return err
	}
	if p.peek().isOp("(") {
		cols, err := p.identList("column")
		if err != nil {
			return err
		}
		if err := p.expectOp("=", "after the column list"); err != nil {
			return err
		}
		if p.peek().is("row") {
			return errf("unsupported", "ROW(...) constructors are not supported")
		}
		vals, err := p.operandList("value")
		if err != nil {
			return err
		}
		st.cols, st.values, st.tuple = cols, vals, true
		if p.peek().isOp(",") {
			return errf("unsupported", "several SET items after a tuple assignment are not supported")
		}
	} else {
		for {
			if p.peek().isOp("(") {
				return errf("unsupported", "mixing plain and tuple assignments is not supported")
			}
			name, err := p.ident("column name")
			if err != nil {
				return err
			}
			if p.peek().isOp(".") || p.peek().isOp("[") {
				return errf("unsupported", "field or element assignment is not supported")
			}
			if err := p.expectOp("=", "in SET"); err != nil {
				return err
			}
			e, err := p.operand()
			if err != nil {
				return err
			}
			st.cols = append(st.cols, name)
			st.values = append(st.values, e)
			if p.acceptOp(",") {
				continue
			}
			break
		}
	}
	if p.peek().is("from") {
		return errf("unsupported", "UPDATE ... FROM is not supported")
	}
	if err := p.whereClause(st); err != nil {
		return err
	}
	if p.acceptKw("returning") {
		return p.outputList(st)
	}
	return nil
}

func (p *parser) parseDelete(st *statement) *Error {
	if err := p.expectKw("from", "after DELETE"); err != nil {
		return err
	}
	if err := p.tableName(st); err != nil {
		return err
	}
	if err := p.whereClause(st); err != nil {
		return err
	}
	if p.acceptKw("returning") {
		return p.outputList(st)
	}
	return nil
}

func (p *parser) parseCopy(st *statement) *Error {
	if p.peek().isOp("(") {
		return errf("unsupported", "COPY (query) is not supported")
	}
	name, err := p.ident("table name")
	if err != nil {
		return err
	}
	if p.peek().isOp(".") {
		return errf("unsupported", "schema qualified table names are not supported")
	}
	st.table = name
	if p.peek().isOp("(") {
		cols, err := p.identList("column")
		if err != nil {
			return err
		}
		st.cols = cols
	} else {
		st.allCols = true
	}
	if p.acceptKw("to") {
		return errf("unsupported", "COPY ... TO is not supported")
	}
	if err := p.expectKw("from", "in COPY"); err != nil {
		return err
	}
	if !p.acceptKw("stdin") {
		if p.peek().kind == tString || p.peek().is("program") {
			return errf("unsupported", "COPY FROM a file or a program is not supported")
		}
		return p.unexpected("expected STDIN")
	}
	if p.peek().kind != tEOF {
		t := p.peek()
		if t.is("with") || t.is("binary") || t.is("csv") || t.is("delimiter") || t.is("null") || t.isOp("(") || t.is("where") {
			return errf("unsupported", "COPY options are not supported (offset %d)", t.pos)
		}
	}
	return nil
}
