package minipg

import (
	_ "embed"
	"reflect"
	"strings"
	"testing"
)

// modelsDDL is the exact output of gomacro's sql generator for
// /repo/analysis/sql/test/models.go (identical to the committed fixture
// generator/sql/test/create.sql).
//
//go:embed testdata/models.sql
var modelsDDL string

func wantClass(t *testing.T, err error, class string) *Error {
	t.Helper()
	if err == nil {
		t.Fatalf("expected an error of class %q, got nil", class)
	}
	e, ok := err.(*Error)
	if !ok {
		// database/sql may wrap? it does not, but be explicit
		t.Fatalf("expected *minipg.Error of class %q, got %T: %v", class, err, err)
	}
	if e.Class != class {
		t.Fatalf("expected class %q, got %q: %s", class, e.Class, e.Msg)
	}
	return e
}

func TestLoadRealDDLStrict(t *testing.T) {
	_, _, err := Open(modelsDDL)
	e := wantClass(t, err, "schema")
	// the user written constraints name tables which do not exist (sic), a table
	// without primary key is referenced, and the composite type of an imported
	// package is never created
	for _, want := range []string{
		`references unknown table "exercice_questionss"`,
		`references unknown table "progressionss"`,
		`there is no primary key for referenced table "links"`,
		`type "comp" does not exist`,
	} {
		if !strings.Contains(e.Msg, want) {
			t.Errorf("missing problem %q in:\n%s", want, e.Msg)
		}
	}
	if n := len(strings.Split(e.Msg, "\n")); n != 4 {
		t.Errorf("expected 4 problems, got %d:\n%s", n, e.Msg)
	}
}

func TestLoadRealDDLLenient(t *testing.T) {
	db, e, err := OpenLenient(modelsDDL)
	if err != nil {
		t.Fatal(err)
	}
	defer db.Close()

	if got := e.SchemaProblems(); len(got) != 4 {
		t.Errorf("expected 4 schema problems, got %d:\n%s", len(got), strings.Join(got, "\n"))
	}
	if got, want := e.Ignored(), []string{"CREATE UNIQUE INDEX index_name ON question_tags (Tag)"}; !reflect.DeepEqual(got, want) {
		t.Errorf("Ignored() = %q, want %q", got, want)
	}
	wantTables := []string{
		"exercices", "exercice_questions", "links", "progressions", "progression_questions", "questions",
		"question_tags", "repass", "table1s", "with_optional_times",
	}
	if got := e.TableNames(); !reflect.DeepEqual(got, wantTables) {
		t.Errorf("TableNames() = %q", got)
	}
	if got := len(e.Functions()); got != 17 {
		t.Errorf("expected 17 functions, got %d: %q", got, e.Functions())
	}
	if body, ok := e.FunctionBody("gomacro_validate_json_test_EnumInt"); !ok || !strings.Contains(body, "IN (0, 1, 2, 4)") {
		t.Errorf("unexpected function body %q", body)
	}
	if got, want := e.CompositeTypes(), map[string][]string{"composite": {"integer", "smallint", "integer"}}; !reflect.DeepEqual(got, want) {
		t.Errorf("CompositeTypes() = %v", got)
	}

	wantCols := []ColumnInfo{
		{Name: "id", Type: "serial", NotNull: true, PrimaryKey: true},
		{Name: "ex1", Type: "integer", NotNull: true},
		{Name: "ex2", Type: "integer", NotNull: true},
		{Name: "l", Type: "integer"},
		{Name: "other", Type: "integer"},
		{Name: "f", Type: "integer[]", NotNull: true},
		{Name: "strings", Type: "text[]"},
		{Name: "cp", Type: "composite", NotNull: true},
		{Name: "external", Type: "comp", NotNull: true},
		{Name: "boolarray", Type: "boolean[]", NotNull: true},
		{Name: "guard", Type: "smallint", NotNull: true, HasDefault: true, Default: "0"},
		{Name: "optkey", Type: "integer"},
	}
	if got := e.Columns("Table1s"); !reflect.DeepEqual(got, wantCols) {
		t.Errorf("Columns(table1s) =\n%+v\nwant\n%+v", got, wantCols)
	}
	wantCols = []ColumnInfo{
		{Name: "id", Type: "serial", NotNull: true, PrimaryKey: true},
		{Name: "deadine", Type: "timestamp (0) with time zone", NotNull: true},
		{Name: "deadineopt", Type: "timestamp (0) with time zone"},
	}
	if got := e.Columns("with_optional_times"); !reflect.DeepEqual(got, wantCols) {
		t.Errorf("Columns(with_optional_times) = %+v", got)
	}
	if e.Columns("nope") != nil || e.RowCount("nope") != -1 || e.Rows("nope") != nil {
		t.Errorf("unknown tables must be reported")
	}

	wantCons := []ConstraintInfo{
		{Kind: "primary_key", Columns: []string{"idexercice", "index"}},
		{Kind: "foreign_key", Columns: []string{"idexercice"}, RefTable: "exercices", RefColumns: []string{"id"}, OnDelete: "CASCADE", OnUpdate: "NO ACTION"},
		{Kind: "foreign_key", Columns: []string{"idquestion"}, RefTable: "questions", RefColumns: []string{"id"}, OnDelete: "NO ACTION", OnUpdate: "NO ACTION"},
	}
	if got := e.Constraints("exercice_questions"); !reflect.DeepEqual(got, wantCons) {
		t.Errorf("Constraints(exercice_questions) = %+v", got)
	}
	wantCons = []ConstraintInfo{
		{Kind: "primary_key", Columns: []string{"id"}},
		{Kind: "check", Check: "V IN ( 0 , 1 , 2 )"},
		{Kind: "check", Check: "V = 0 OR V = 1"},
	}
	if got := e.Constraints("repass"); !reflect.DeepEqual(got, wantCons) {
		t.Errorf("Constraints(repass) = %+v", got)
	}
	var kinds []string
	for _, c := range e.Constraints("table1s") {
		kinds = append(kinds, c.Kind)
	}
	// the foreign key to links (no primary key) is dropped
	if want := "primary_key check check check check foreign_key foreign_key foreign_key foreign_key"; strings.Join(kinds, " ") != want {
		t.Errorf("constraints of table1s: %q", kinds)
	}
	// the jsonb validators are understood as <fn>(<col>) checks
	if got := e.Constraints("questions"); len(got) != 3 || got[1].Check != "gomacro_validate_json_test_ComplexStruct ( Page )" {
		t.Errorf("Constraints(questions) = %+v", got)
	}
}

// a corrected version of the real DDL loads in strict mode
func fixedModelsDDL() string {
	ddl := strings.ReplaceAll(modelsDDL, "exercice_questionss", "exercice_questions")
	ddl = strings.ReplaceAll(ddl, "progressionss", "progressions")
	ddl = strings.ReplaceAll(ddl, "ALTER TABLE table1s ADD FOREIGN KEY(L) REFERENCES links ;", "")
	ddl = strings.Replace(ddl, "CREATE TYPE Composite", "CREATE TYPE Comp AS (A integer, B integer);\nCREATE TYPE Composite", 1)
	return ddl
}

func TestLoadFixedDDLStrict(t *testing.T) {
	db, e, err := Open(fixedModelsDDL())
	if err != nil {
		t.Fatal(err)
	}
	defer db.Close()
	if len(e.SchemaProblems()) != 0 {
		t.Errorf("unexpected problems %q", e.SchemaProblems())
	}
	cons := e.Constraints("progression_questions")
	var fks []ConstraintInfo
	for _, c := range cons {
		if c.Kind == "foreign_key" {
			fks = append(fks, c)
		}
	}
	want := []ConstraintInfo{
		// without column list: the primary key of the referenced table
		{Kind: "foreign_key", Columns: []string{"idexercice", "index"}, RefTable: "exercice_questions", RefColumns: []string{"idexercice", "index"}, OnDelete: "CASCADE", OnUpdate: "NO ACTION"},
		{Kind: "foreign_key", Columns: []string{"idprogression", "idexercice"}, RefTable: "progressions", RefColumns: []string{"id", "idexercice"}, OnDelete: "CASCADE", OnUpdate: "NO ACTION"},
		{Kind: "foreign_key", Columns: []string{"idprogression"}, RefTable: "progressions", RefColumns: []string{"id"}, OnDelete: "CASCADE", OnUpdate: "NO ACTION"},
		{Kind: "foreign_key", Columns: []string{"idexercice"}, RefTable: "exercices", RefColumns: []string{"id"}, OnDelete: "CASCADE", OnUpdate: "NO ACTION"},
	}
	if !reflect.DeepEqual(fks, want) {
		t.Errorf("foreign keys of progression_questions:\n%+v", fks)
	}
}

func TestDDLErrors(t *testing.T) {
	cases := []struct {
		name, ddl, class, contains string
	}{
		{"unbalanced paren", "CREATE TABLE t (a integer;", "syntax", "unbalanced"},
		{"unbalanced quote", "CREATE TABLE t (a text DEFAULT 'x);", "syntax", "unterminated"},
		{"unterminated dollar", "CREATE FUNCTION f() RETURNS int AS $$ body", "syntax", "dollar"},
		{"unterminated comment", "CREATE TABLE t (a integer); /* oops", "syntax", "comment"},
		{"bad create table", "CREATE TABLE t (a integer NOT);", "schema", "syntax error"},
		{"duplicate table", "CREATE TABLE t (a integer); CREATE TABLE T (b integer);", "schema", "already exists"},
		{"duplicate column", "CREATE TABLE t (a integer, A text);", "schema", "more than once"},
		{"unknown type", "CREATE TABLE t (a whatever);", "schema", `type "whatever" does not exist`},
		{"fk unknown table", "CREATE TABLE t (a integer); ALTER TABLE t ADD FOREIGN KEY (a) REFERENCES nope;", "schema", `unknown table "nope"`},
		{"fk unknown column", "CREATE TABLE p (id serial PRIMARY KEY); CREATE TABLE t (a integer); ALTER TABLE t ADD FOREIGN KEY (b) REFERENCES p;", "schema", `column "b"`},
		{"fk unknown ref column", "CREATE TABLE p (id serial PRIMARY KEY); CREATE TABLE t (a integer); ALTER TABLE t ADD FOREIGN KEY (a) REFERENCES p (x);", "schema", `column "x"`},
		{"fk not unique", "CREATE TABLE p (id serial PRIMARY KEY, x integer); CREATE TABLE t (a integer); ALTER TABLE t ADD FOREIGN KEY (a) REFERENCES p (x);", "schema", "no unique constraint"},
		{"fk no pk", "CREATE TABLE p (x integer); CREATE TABLE t (a integer); ALTER TABLE t ADD FOREIGN KEY (a) REFERENCES p;", "schema", "no primary key"},
		{"fk arity", "CREATE TABLE p (id serial PRIMARY KEY); CREATE TABLE t (a integer, b integer); ALTER TABLE t ADD FOREIGN KEY (a, b) REFERENCES p;", "schema", "disagree"},
		{"fk types", "CREATE TABLE p (id serial PRIMARY KEY); CREATE TABLE t (a text); ALTER TABLE t ADD FOREIGN KEY (a) REFERENCES p;", "schema", "incompatible types"},
		{"fk before table", "CREATE TABLE t (a integer REFERENCES p); CREATE TABLE p (id serial PRIMARY KEY);", "schema", `unknown table "p"`},
		{"alter unknown table", "ALTER TABLE nope ADD UNIQUE (a);", "schema", `relation "nope" does not exist`},
		{"unique unknown column", "CREATE TABLE t (a integer); ALTER TABLE t ADD UNIQUE (a, z);", "schema", `column "z"`},
		{"two primary keys", "CREATE TABLE t (id serial PRIMARY KEY, b integer); ALTER TABLE t ADD PRIMARY KEY (b);", "schema", "multiple primary keys"},
		{"default unknown column", "CREATE TABLE t (a integer); ALTER TABLE t ALTER COLUMN z SET DEFAULT 1;", "schema", `column "z"`},
		{"default wrong type", "CREATE TABLE t (a integer); ALTER TABLE t ALTER COLUMN a SET DEFAULT 'x';", "schema", "DEFAULT"},
		{"default expression", "CREATE TABLE t (a integer); ALTER TABLE t ALTER COLUMN a SET DEFAULT 1 + 1;", "schema", "not supported"},
		{"default function", "CREATE TABLE t (a timestamp); ALTER TABLE t ALTER COLUMN a SET DEFAULT now();", "schema", "literal"},
		{"check unknown column", "CREATE TABLE t (a integer); ALTER TABLE t ADD CHECK (z = 1);", "schema", `column "z"`},
		{"check unknown function", "CREATE TABLE t (a jsonb); ALTER TABLE t ADD CHECK (validate(a));", "schema", "function validate(...) does not exist"},
		{"check function defined later", "CREATE TABLE t (a jsonb); ALTER TABLE t ADD CHECK (validate(a)); CREATE FUNCTION validate(data jsonb) RETURNS boolean AS $$ BEGIN RETURN TRUE; END; $$ LANGUAGE 'plpgsql';", "schema", "does not exist"},
		{"check wrong type", "CREATE TABLE t (a text); ALTER TABLE t ADD CHECK (a IN (1, 2));", "schema", "numeric literal"},
		{"malformed fk", "CREATE TABLE t (a integer); ALTER TABLE t ADD FOREIGN KEY a REFERENCES t;", "schema", "syntax error"},
		{"composite unknown field type", "CREATE TYPE c AS (a integer, b);", "schema", "type name"},
	}
	for _, c := range cases {
		_, _, err := Open(c.ddl)
		if err == nil {
			t.Errorf("%s: expected an error", c.name)
			continue
		}
		e, ok := err.(*Error)
		if !ok || e.Class != c.class || !strings.Contains(e.Msg, c.contains) {
			t.Errorf("%s: expected class %q containing %q, got %v", c.name, c.class, c.contains, err)
		}
		// the lenient mode only fails on scripts it cannot split
		db, eng, lerr := OpenLenient(c.ddl)
		if c.class == "syntax" {
			if lerr == nil {
				t.Errorf("%s: lenient mode must fail too", c.name)
			}
			continue
		}
		if lerr != nil {
			t.Errorf("%s: lenient mode failed: %v", c.name, lerr)
			continue
		}
		if len(eng.SchemaProblems()) == 0 {
			t.Errorf("%s: lenient mode recorded no problem", c.name)
		}
		db.Close()
	}
}

func TestDDLIgnored(t *testing.T) {
	ddl := `
	-- comment with a quote ' and a paren (
	CREATE EXTENSION IF NOT EXISTS "uuid-ossp";
	CREATE TYPE mood AS ENUM ('sad', 'ok');
	CREATE TABLE t (a integer, b text, c integer[]);
	CREATE UNIQUE INDEX idx ON t (a);
	CREATE INDEX idx2 ON t (b);
	ALTER TABLE t ADD CHECK (char_length(b) > 3);
	ALTER TABLE t ADD CHECK (a + 1 > 3);
	ALTER TABLE t ADD CONSTRAINT c1 CHECK (a > 0 AND a < 10);
	ALTER TABLE t ADD COLUMN d integer;
	ALTER TABLE t OWNER TO someone;
	COMMENT ON TABLE t IS 'it''s a table; really';
	BEGIN; COMMIT;
	`
	db, e, err := Open(ddl)
	if err != nil {
		t.Fatal(err)
	}
	defer db.Close()
	want := []string{
		`CREATE EXTENSION IF NOT EXISTS "uuid-ossp"`,
		`CREATE TYPE mood AS ENUM ('sad', 'ok')`,
		`CREATE UNIQUE INDEX idx ON t (a)`,
		`CREATE INDEX idx2 ON t (b)`,
		`ALTER TABLE t ADD CHECK (char_length(b) > 3)`,
		`ALTER TABLE t ADD CHECK (a + 1 > 3)`,
		`ALTER TABLE t ADD COLUMN d integer`,
		`ALTER TABLE t OWNER TO someone`,
		`COMMENT ON TABLE t IS 'it''s a table; really'`,
		`BEGIN`,
		`COMMIT`,
	}
	if got := e.Ignored(); !reflect.DeepEqual(got, want) {
		t.Errorf("Ignored() =\n%q\nwant\n%q", got, want)
	}
	if got := e.Constraints("t"); len(got) != 1 || got[0].Kind != "check" {
		t.Errorf("Constraints = %+v", got)
	}
	// ignored checks never fail at run time, understood ones do
	if _, err := db.Exec("INSERT INTO t (a, b) VALUES ($1, $2)", 5, "x"); err != nil {
		t.Fatal(err)
	}
	_, err = db.Exec("INSERT INTO t (a, b) VALUES ($1, $2)", 50, "long enough")
	wantClass(t, err, "check")
}

func TestDDLTypesAndInlineConstraints(t *testing.T) {
	ddl := `
	CREATE TABLE parent (
		id bigserial PRIMARY KEY,
		code text NOT NULL UNIQUE,
		a int DEFAULT 3,
		b int2 DEFAULT -1 CHECK (b < 5),
		c double precision,
		d float4,
		e varchar(10) DEFAULT 'it''s',
		f timestamptz,
		g timestamp (3) without time zone,
		h json,
		i bool DEFAULT true,
		"Quoted" integer,
		j integer ARRAY,
		k text[] NULL,
		CONSTRAINT positive CHECK (a > 0),
		UNIQUE (a, b)
	);
	CREATE TABLE child (
		pid bigint REFERENCES parent ON DELETE SET NULL ON UPDATE CASCADE,
		code text REFERENCES parent (code) ON DELETE RESTRICT,
		FOREIGN KEY (pid) REFERENCES parent (id) MATCH SIMPLE ON DELETE NO ACTION DEFERRABLE INITIALLY DEFERRED
	);
	ALTER TABLE ONLY child ALTER pid SET NOT NULL;
	ALTER TABLE child ALTER COLUMN pid DROP NOT NULL;
	ALTER TABLE parent ALTER COLUMN a DROP DEFAULT;
	`
	db, e, err := Open(ddl)
	if err != nil {
		t.Fatal(err)
	}
	defer db.Close()
	want := []ColumnInfo{
		{Name: "id", Type: "bigserial", NotNull: true, PrimaryKey: true},
		{Name: "code", Type: "text", NotNull: true},
		{Name: "a", Type: "integer"},
		{Name: "b", Type: "smallint", HasDefault: true, Default: "-1"},
		{Name: "c", Type: "double precision"},
		{Name: "d", Type: "real"},
		{Name: "e", Type: "text", HasDefault: true, Default: "'it''s'"},
		{Name: "f", Type: "timestamp with time zone"},
		{Name: "g", Type: "timestamp (3) without time zone"},
		{Name: "h", Type: "json"},
		{Name: "i", Type: "boolean", HasDefault: true, Default: "true"},
		{Name: "Quoted", Type: "integer"},
		{Name: "j", Type: "integer[]"},
		{Name: "k", Type: "text[]"},
	}
	if got := e.Columns("parent"); !reflect.DeepEqual(got, want) {
		t.Errorf("Columns(parent) =\n%+v\nwant\n%+v", got, want)
	}
	wantCons := []ConstraintInfo{
		{Kind: "foreign_key", Columns: []string{"pid"}, RefTable: "parent", RefColumns: []string{"id"}, OnDelete: "SET NULL", OnUpdate: "CASCADE"},
		{Kind: "foreign_key", Columns: []string{"code"}, RefTable: "parent", RefColumns: []string{"code"}, OnDelete: "RESTRICT", OnUpdate: "NO ACTION"},
		{Kind: "foreign_key", Columns: []string{"pid"}, RefTable: "parent", RefColumns: []string{"id"}, OnDelete: "NO ACTION", OnUpdate: "NO ACTION"},
	}
	if got := e.Constraints("child"); !reflect.DeepEqual(got, wantCons) {
		t.Errorf("Constraints(child) =\n%+v", got)
	}
	if got := e.Constraints("parent"); len(got) != 5 {
		t.Errorf("Constraints(parent) = %+v", got)
	}
}
