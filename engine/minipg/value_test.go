package minipg

import (
	"math/rand"
	"reflect"
	"strings"
	"testing"
)

func strs(vals ...any) []*string {
	out := make([]*string, len(vals))
	for i, v := range vals {
		if v != nil {
			s := v.(string)
			out[i] = &s
		}
	}
	return out
}

func derefs(in []*string) []any {
	out := make([]any, len(in))
	for i, p := range in {
		if p != nil {
			out[i] = *p
		}
	}
	return out
}

func TestParseArrayText(t *testing.T) {
	good := []struct {
		in   string
		want []*string
	}{
		{"{}", strs()},
		{" { } ", strs()},
		{"{1,2,3}", strs("1", "2", "3")},
		{"{ 1 , 2 }", strs("1", "2")},
		{"{a b, c}", strs("a b", "c")},
		{`{"a b","c\"d","e\\f",""}`, strs("a b", `c"d`, `e\f`, "")},
		{`{a\,b,\"}`, strs("a,b", `"`)},
		{"{NULL,null,\"NULL\",N\\ULL}", strs(nil, nil, "NULL", "NULL")},
		{`{"{}", "x,y"}`, strs("{}", "x,y")},
		{"{é,☃}", strs("é", "☃")},
	}
	for _, c := range good {
		got, err := parseArrayText(c.in)
		if err != nil || !reflect.DeepEqual(derefs(got), derefs(c.want)) || len(got) != len(c.want) {
			t.Errorf("parseArrayText(%q) = %v, %v; want %v", c.in, derefs(got), err, derefs(c.want))
		}
	}
	for _, in := range []string{"", "1", "{", "}", "{1", "{1,}", "{,1}", "{1,,2}", "{1}x", "{{1}}", `{"a}`, `{a"b}`, "[1:2]={1,2}", "{1}{2}", `{"a"b}`, `{a\`} {
		if got, err := parseArrayText(in); err == nil {
			t.Errorf("parseArrayText(%q) = %v, expected an error", in, derefs(got))
		}
	}
}

func TestArrayTextRoundTrip(t *testing.T) {
	rng := rand.New(rand.NewSource(3))
	alphabet := []rune(`ab ,"\{}NULnul` + "\n\té")
	at := arrayOf(typeText)
	for i := 0; i < 5000; i++ {
		arr := make(arrayVal, rng.Intn(5))
		for j := range arr {
			if rng.Intn(6) == 0 {
				continue // NULL
			}
			rs := make([]rune, rng.Intn(6))
			for k := range rs {
				rs[k] = alphabet[rng.Intn(len(alphabet))]
			}
			arr[j] = string(rs)
		}
		text := textOf(at, arr)
		back, err := coerceArrayText(at, text, valueOptions{})
		if err != nil {
			t.Fatalf("%q: %v", text, err)
		}
		if !reflect.DeepEqual(back, any(arr)) {
			t.Fatalf("round trip of %#v through %q gave %#v", arr, text, back)
		}
	}
}

func TestParseRecordText(t *testing.T) {
	good := []struct {
		in   string
		want []*string
	}{
		{"(1,2)", strs("1", "2")},
		{"(1, 2, 3)", strs("1", " 2", " 3")},
		{" (1,2) ", strs("1", "2")},
		{"(,)", strs(nil, nil)},
		{"()", strs(nil)},
		{`("a,b","c""d",e\)f,"")`, strs("a,b", `c"d`, "e)f", "")},
	}
	for _, c := range good {
		got, err := parseRecordText(c.in)
		if err != nil || !reflect.DeepEqual(derefs(got), derefs(c.want)) {
			t.Errorf("parseRecordText(%q) = %v, %v; want %v", c.in, derefs(got), err, derefs(c.want))
		}
	}
	for _, in := range []string{"", "1,2", "(1,2", "(1,2)x", `("a)`, `(a\`} {
		if got, err := parseRecordText(in); err == nil {
			t.Errorf("parseRecordText(%q) = %v, expected an error", in, derefs(got))
		}
	}
}

func TestScalarInput(t *testing.T) {
	for in, want := range map[string]any{"t": true, "TRUE": true, "yes": true, "on": true, "1": true, " f ": false, "no": false, "off": false, "0": false, "fal": false} {
		if got, ok := parseBoolText(in); !ok || got != want {
			t.Errorf("parseBoolText(%q) = %v, %v", in, got, ok)
		}
	}
	for _, in := range []string{"", "o", "2", "maybe", "truee"} {
		if _, ok := parseBoolText(in); ok {
			t.Errorf("parseBoolText(%q) accepted", in)
		}
	}
	for in, want := range map[string]string{`\x`: "", `\xDEad`: "\xde\xad", "abc": "abc", `a\\b`: `a\b`, `\001\377`: "\x01\xff", `\x 01 02`: "\x01\x02"} {
		if got, err := parseByteaText(in); err != nil || string(got) != want {
			t.Errorf("parseByteaText(%q) = %q, %v", in, got, err)
		}
	}
	for _, in := range []string{`\xz`, `\x123`, `\`, `\9`, `\400`, `a\b`} {
		if got, err := parseByteaText(in); err == nil {
			t.Errorf("parseByteaText(%q) = %q, expected an error", in, got)
		}
	}
	if !hasNulEscape(`{"a":"x\u0000"}`) || hasNulEscape(`{"a":"x\\u0000"}`) || hasNulEscape(`{"a\"":"\\\\u0000"}`) || !hasNulEscape(`["\\\u0000"]`) {
		t.Error("hasNulEscape")
	}
	for in, want := range map[string]int64{"12": 12, " -3 ": -3, "+4": 4} {
		if got, err := coerceText(typeInt4, in, valueOptions{}); err != nil || got != want {
			t.Errorf("int %q: %v %v", in, got, err)
		}
	}
	for _, in := range []string{"", "1.0", "1e3", "0x10", "1_0", "2147483648", "--1", "1 2"} {
		if got, err := coerceText(typeInt4, in, valueOptions{}); err == nil {
			t.Errorf("int %q accepted as %v", in, got)
		}
	}
}

func TestLexer(t *testing.T) {
	toks, err := lex(`SELECT "Mixed""Case", b2$ FROM t -- c
	WHERE x>=$12 AND y<>'it''s' /* a /* nested */ comment */ OR z != .5e-3;`)
	if err != nil {
		t.Fatal(err)
	}
	var parts []string
	for _, tk := range toks {
		switch tk.kind {
		case tParam:
			parts = append(parts, "$"+strings.Repeat("#", tk.num))
		case tEOF:
			parts = append(parts, "EOF")
		default:
			parts = append(parts, tk.text)
		}
	}
	want := `select Mixed"Case , b2$ from t where x >= $############ and y <> it's or z != .5e-3 ; EOF`
	if got := strings.Join(parts, " "); got != want {
		t.Errorf("got  %s\nwant %s", got, want)
	}
	toks, err = lex(`E'a\n\t\\\'\x41\101\u00e9''z' e'\q'`)
	if err != nil || len(toks) != 3 || toks[0].text != "a\n\t\\'AA\u00e9'z" || toks[1].text != "q" {
		t.Errorf("escape strings: %q %v", toks, err)
	}
	for _, bad := range []string{`E'abc`, `E'\`, `E'\u12'`, `E'\ud800'`, `'abc`, `"abc`, `""`, `/* x`, `$a`, `$$ x`, "a ` b", `1abc`, `$1x`, "{"} {
		if _, err := lex(bad); err == nil {
			t.Errorf("lex(%q) succeeded", bad)
		}
	}
}
