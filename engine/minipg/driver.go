package minipg

import (
	"context"
	"database/sql"
	"database/sql/driver"
	"errors"
	"fmt"
	"io"
	"strings"
	"sync"
)

const driverName = "minipg"

var (
	registryMu  sync.Mutex
	registry    = map[string]*Engine{}
	registrySeq uint64
)

func init() { sql.Register(driverName, drv{}) }

func register(e *Engine) string {
	registryMu.Lock()
	defer registryMu.Unlock()
	registrySeq++
	dsn := fmt.Sprintf("minipg-%d", registrySeq)
	registry[dsn] = e
	return dsn
}

func unregister(dsn string) {
	registryMu.Lock()
	defer registryMu.Unlock()
	delete(registry, dsn)
}

func lookupEngine(dsn string) (*Engine, error) {
	registryMu.Lock()
	defer registryMu.Unlock()
	e, ok := registry[dsn]
	if !ok {
		return nil, fmt.Errorf("minipg: unknown database %q (databases are created with minipg.Open)", dsn)
	}
	return e, nil
}

// drv is the database/sql driver registered under the name "minipg". Its data
// source names are the private identifiers allocated by Open.
type drv struct{}

func (drv) Open(dsn string) (driver.Conn, error) {
	e, err := lookupEngine(dsn)
	if err != nil {
		return nil, err
	}
	return &conn{e: e}, nil
}

func (drv) OpenConnector(dsn string) (driver.Connector, error) {
	e, err := lookupEngine(dsn)
	if err != nil {
		return nil, err
	}
	return &connector{e: e}, nil
}

type connector struct{ e *Engine }

func (c *connector) Connect(context.Context) (driver.Conn, error) { return &conn{e: c.e}, nil }
func (c *connector) Driver() driver.Driver                        { return drv{} }

// Close is called by (*sql.DB).Close: the database is forgotten by the driver
// registry (the Engine handle stays usable for inspection).
func (c *connector) Close() error {
	unregister(c.e.dsn)
	return nil
}

var (
	_ driver.DriverContext      = drv{}
	_ io.Closer                 = (*connector)(nil)
	_ driver.ConnBeginTx        = (*conn)(nil)
	_ driver.ConnPrepareContext = (*conn)(nil)
	_ driver.ExecerContext      = (*conn)(nil)
	_ driver.QueryerContext     = (*conn)(nil)
	_ driver.Pinger             = (*conn)(nil)
	_ driver.SessionResetter    = (*conn)(nil)
	_ driver.Validator          = (*conn)(nil)
	_ driver.StmtExecContext    = (*prepared)(nil)
	_ driver.StmtQueryContext   = (*prepared)(nil)
)

// conn is one connection. All its state is protected by the engine lock.
type conn struct {
	e      *Engine
	closed bool
	inTx   bool
	failed bool // transaction aborted by an error (Options.AbortTxOnError)
	snap   map[*table][][]any
}

var errAbortedTx = "current transaction is aborted, commands ignored until end of transaction block"

// ErrInFailedTransaction is returned by Commit (which then rolls back) when a
// statement of the transaction failed and Options.AbortTxOnError is set, like
// lib/pq does.
var ErrInFailedTransaction = errors.New("minipg: could not complete operation in a failed transaction")

func (c *conn) Ping(context.Context) error {
	if c.closed {
		return driver.ErrBadConn
	}
	return nil
}

func (c *conn) ResetSession(context.Context) error {
	if c.closed {
		return driver.ErrBadConn
	}
	return nil
}

func (c *conn) IsValid() bool { return !c.closed }

func (c *conn) Close() error {
	c.e.mu.Lock()
	defer c.e.mu.Unlock()
	if c.inTx {
		c.e.restore(c.snap)
		c.inTx, c.snap, c.failed = false, nil, false
	}
	c.closed = true
	return nil
}

func (c *conn) Begin() (driver.Tx, error) { return c.BeginTx(context.Background(), driver.TxOptions{}) }

func (c *conn) BeginTx(_ context.Context, _ driver.TxOptions) (driver.Tx, error) {
	c.e.mu.Lock()
	defer c.e.mu.Unlock()
	if c.closed {
		return nil, driver.ErrBadConn
	}
	if c.inTx {
		return nil, errors.New("minipg: a transaction is already open on this connection")
	}
	c.inTx, c.failed = true, false
	c.snap = c.e.snapshot()
	return &tx{c: c}, nil
}

type tx struct{ c *conn }

func (t *tx) Commit() error {
	c := t.c
	c.e.mu.Lock()
	defer c.e.mu.Unlock()
	if !c.inTx {
		return errors.New("minipg: no transaction in progress")
	}
	failed := c.failed
	if failed {
		c.e.restore(c.snap)
	}
	c.inTx, c.snap, c.failed = false, nil, false
	if failed {
		return ErrInFailedTransaction
	}
	return nil
}

func (t *tx) Rollback() error {
	c := t.c
	c.e.mu.Lock()
	defer c.e.mu.Unlock()
	if !c.inTx {
		return errors.New("minipg: no transaction in progress")
	}
	c.e.restore(c.snap)
	c.inTx, c.snap, c.failed = false, nil, false
	return nil
}

// fail finalises an error: it is recorded in the log and may abort the current
// transaction. The engine lock must be held.
func (c *conn) fail(sqlText string, args []driver.Value, st *statement, err *Error) error {
	c.e.record(sqlText, args, st, err, c.inTx)
	if c.inTx && c.e.opt.AbortTxOnError {
		c.failed = true
	}
	return err
}

func fromNamed(named []driver.NamedValue) ([]driver.Value, *Error) {
	args := make([]driver.Value, len(named))
	for i, nv := range named {
		if nv.Name != "" {
			return nil, errf("unsupported", "named parameter %q: named parameters are not supported", nv.Name)
		}
		args[i] = nv.Value
	}
	return args, nil
}

// checkArgs verifies that the arguments are driver values and deep copies the
// byte slices.
func checkArgs(args []driver.Value) ([]driver.Value, *Error) {
	out := make([]driver.Value, len(args))
	for i, a := range args {
		switch v := a.(type) {
		case []byte:
			if v == nil {
				out[i] = nil // database/sql documents a nil []byte as NULL
			} else {
				out[i] = append([]byte{}, v...)
			}
		default:
			if !driver.IsValue(a) {
				return nil, errf("type", "argument $%d has unsupported Go type %T", i+1, a)
			}
			out[i] = a
		}
	}
	return out, nil
}

func toAny(args []driver.Value) []any {
	out := make([]any, len(args))
	for i, a := range args {
		out[i] = a
	}
	return out
}

// execute parses and runs a statement in one step. The engine lock must NOT be
// held.
func (c *conn) execute(sqlText string, rawArgs []driver.Value, st *statement, perr *Error) (*result, error) {
	e := c.e
	e.mu.Lock()
	defer e.mu.Unlock()
	if c.closed {
		return nil, driver.ErrBadConn
	}
	args, aerr := checkArgs(rawArgs)
	if aerr != nil {
		return nil, c.fail(sqlText, rawArgs, st, aerr)
	}
	if c.inTx && c.failed {
		if st == nil {
			st = &statement{kind: sniffKind(sqlText)}
		}
		return nil, c.fail(sqlText, args, st, errf("aborted_tx", "%s", errAbortedTx))
	}
	if st == nil && perr == nil {
		st, perr = parseStatement(sqlText, e.opt.ReservedWords)
	}
	if perr != nil {
		return nil, c.fail(sqlText, args, st, perr)
	}
	if st.kind == "copy" {
		return nil, c.fail(sqlText, args, st, errf("unsupported", "COPY must be prepared (Prepare) and fed through the statement's Exec"))
	}
	res, err := e.run(st, toAny(args))
	if err != nil {
		return nil, c.fail(sqlText, args, st, err)
	}
	e.record(sqlText, args, st, nil, c.inTx)
	return res, nil
}

func (c *conn) ExecContext(_ context.Context, query string, named []driver.NamedValue) (driver.Result, error) {
	args, nerr := fromNamed(named)
	if nerr != nil {
		c.e.mu.Lock()
		defer c.e.mu.Unlock()
		return nil, c.fail(query, nil, &statement{kind: sniffKind(query)}, nerr)
	}
	res, err := c.execute(query, args, nil, nil)
	if err != nil {
		return nil, err
	}
	return execResult{affected: res.affected}, nil
}

func (c *conn) QueryContext(_ context.Context, query string, named []driver.NamedValue) (driver.Rows, error) {
	args, nerr := fromNamed(named)
	if nerr != nil {
		c.e.mu.Lock()
		defer c.e.mu.Unlock()
		return nil, c.fail(query, nil, &statement{kind: sniffKind(query)}, nerr)
	}
	res, err := c.execute(query, args, nil, nil)
	if err != nil {
		return nil, err
	}
	return &rows{res: res}, nil
}

func (c *conn) Prepare(query string) (driver.Stmt, error) {
	return c.PrepareContext(context.Background(), query)
}

// PrepareContext parses the statement and checks its table and columns, like
// the Parse message of the PostgreSQL protocol does. Errors are recorded in the
// log; successful preparations are not (each execution is).
func (c *conn) PrepareContext(_ context.Context, query string) (driver.Stmt, error) {
	e := c.e
	e.mu.Lock()
	defer e.mu.Unlock()
	if c.closed {
		return nil, driver.ErrBadConn
	}
	if c.inTx && c.failed {
		return nil, c.fail(query, nil, &statement{kind: sniffKind(query)}, errf("aborted_tx", "%s", errAbortedTx))
	}
	st, perr := parseStatement(query, e.opt.ReservedWords)
	if perr != nil {
		return nil, c.fail(query, nil, st, perr)
	}
	t, rerr := e.resolve(st)
	if rerr != nil {
		return nil, c.fail(query, nil, st, rerr)
	}
	p := &prepared{c: c, sql: query, st: st}
	if st.kind == "copy" {
		if len(st.params) > 0 {
			return nil, c.fail(query, nil, st, errf("placeholder", "COPY does not take placeholders"))
		}
		if !c.inTx {
			return nil, c.fail(query, nil, st, errf("unsupported", "COPY is only supported inside a transaction (like lib/pq)"))
		}
		p.copyTable = t
		p.copyCols = t.copyColumns(st)
	}
	return p, nil
}

// prepared is a prepared statement.
type prepared struct {
	c   *conn
	sql string
	st  *statement

	// COPY state
	copyTable *table
	copyCols  []int
	copyRows  [][]any
	copyDone  bool
	closed    bool
}

// NumInput returns -1: the engine checks the number of arguments itself, so
// that mismatches are recorded in the log with class "placeholder".
func (p *prepared) NumInput() int { return -1 }

func (p *prepared) Close() error {
	if p.closed {
		return nil
	}
	p.closed = true
	if p.st.kind == "copy" && !p.copyDone {
		// like lib/pq, closing an unfinished COPY sends the buffered rows;
		// when the transaction is already over (database/sql closes the
		// statements of a Tx after Commit/Rollback) they are dropped
		p.c.e.mu.Lock()
		inTx := p.c.inTx
		p.c.e.mu.Unlock()
		if !inTx {
			p.copyDone = true
			return nil
		}
		_, err := p.copyExec(nil)
		return err
	}
	return nil
}

func (p *prepared) Exec(args []driver.Value) (driver.Result, error) {
	if p.closed {
		return nil, errors.New("minipg: statement is closed")
	}
	if p.st.kind == "copy" {
		return p.copyExec(args)
	}
	res, err := p.c.execute(p.sql, args, p.st, nil)
	if err != nil {
		return nil, err
	}
	return execResult{affected: res.affected}, nil
}

func (p *prepared) Query(args []driver.Value) (driver.Rows, error) {
	if p.closed {
		return nil, errors.New("minipg: statement is closed")
	}
	if p.st.kind == "copy" {
		return nil, p.copyFail(args, errf("unsupported", "COPY statements must be run with Exec"))
	}
	res, err := p.c.execute(p.sql, args, p.st, nil)
	if err != nil {
		return nil, err
	}
	return &rows{res: res}, nil
}

func (p *prepared) ExecContext(_ context.Context, named []driver.NamedValue) (driver.Result, error) {
	args, nerr := fromNamed(named)
	if nerr != nil {
		return nil, p.copyFail(nil, nerr)
	}
	return p.Exec(args)
}

func (p *prepared) QueryContext(_ context.Context, named []driver.NamedValue) (driver.Rows, error) {
	args, nerr := fromNamed(named)
	if nerr != nil {
		return nil, p.copyFail(nil, nerr)
	}
	return p.Query(args)
}

// copyFail records an error of a prepared statement.
func (p *prepared) copyFail(args []driver.Value, err *Error) error {
	p.c.e.mu.Lock()
	defer p.c.e.mu.Unlock()
	return p.c.fail(p.sql, args, p.st, err)
}

// copyExec buffers one row (len(args) > 0) or flushes the buffered rows
// (len(args) == 0).
func (p *prepared) copyExec(rawArgs []driver.Value) (driver.Result, error) {
	c := p.c
	e := c.e
	e.mu.Lock()
	defer e.mu.Unlock()
	if c.closed {
		return nil, driver.ErrBadConn
	}
	if p.copyDone {
		return nil, c.fail(p.sql, rawArgs, p.st, errf("unsupported", "copyin statement has already been closed"))
	}
	args, aerr := checkArgs(rawArgs)
	if aerr != nil {
		return nil, c.fail(p.sql, rawArgs, p.st, aerr)
	}
	if c.inTx && c.failed {
		return nil, c.fail(p.sql, args, p.st, errf("aborted_tx", "%s", errAbortedTx))
	}
	if !c.inTx {
		p.copyDone = true
		return nil, c.fail(p.sql, args, p.st, errf("unsupported", "COPY statement used after the end of its transaction"))
	}
	if len(args) > 0 {
		row, err := e.copyRow(p.copyTable, p.copyCols, toAny(args))
		if err != nil {
			return nil, c.fail(p.sql, args, p.st, err)
		}
		p.copyRows = append(p.copyRows, row)
		e.record(p.sql, args, p.st, nil, c.inTx)
		return execResult{affected: 0}, nil
	}
	// flush
	p.copyDone = true
	rows := p.copyRows
	p.copyRows = nil
	if err := e.copyFlush(p.copyTable, rows); err != nil {
		return nil, c.fail(p.sql, nil, p.st, err)
	}
	e.record(p.sql, nil, p.st, nil, c.inTx)
	return execResult{affected: int64(len(rows))}, nil
}

// execResult implements driver.Result.
type execResult struct{ affected int64 }

func (execResult) LastInsertId() (int64, error) {
	return 0, errors.New("minipg: LastInsertId is not supported (use RETURNING), like lib/pq")
}

func (r execResult) RowsAffected() (int64, error) { return r.affected, nil }

// rows implements driver.Rows over a materialised result.
type rows struct {
	res *result
	i   int
}

func (r *rows) Columns() []string { return append([]string(nil), r.res.cols...) }
func (r *rows) Close() error      { r.i = len(r.res.rows); return nil }

func (r *rows) Next(dest []driver.Value) error {
	if r.i >= len(r.res.rows) {
		return io.EOF
	}
	copy(dest, r.res.rows[r.i])
	r.i++
	return nil
}

// ColumnTypeDatabaseTypeName implements driver.RowsColumnTypeDatabaseTypeName
// with the normalised type names of ColumnInfo.Type, upper-cased.
func (r *rows) ColumnTypeDatabaseTypeName(index int) string {
	if index < 0 || index >= len(r.res.types) {
		return ""
	}
	return strings.ToUpper(r.res.types[index].name)
}
