package minipg

import (
	"strconv"
	"strings"
)

// ---------------------------------------------------------------- AST

type expr interface{ exprNode() }

type (
	colRef   struct{ name string } // folded (or literal when quoted) column name
	paramRef struct{ n int }       // $n
	numLit   struct{ text string } // with optional leading sign
	strLit   struct{ s string }    // '...'
	boolLit  struct{ b bool }      // TRUE / FALSE
	nullLit  struct{}              // NULL
	defLit   struct{}              // DEFAULT
	cmpExpr  struct {              // l op r
		op   string
		l, r expr
	}
	anyExpr struct { // l op ANY (arr)
		op     string
		l, arr expr
	}
	isNullExpr struct {
		e   expr
		not bool
	}
	inExpr struct {
		e    expr
		list []expr
		not  bool
	}
	logicExpr struct { // and / or
		op   string
		l, r expr
	}
	notExpr  struct{ e expr }
	callExpr struct {
		fn   string // folded
		raw  string // as written
		args []expr
	}
)

func (colRef) exprNode()     {}
func (paramRef) exprNode()   {}
func (numLit) exprNode()     {}
func (strLit) exprNode()     {}
func (boolLit) exprNode()    {}
func (nullLit) exprNode()    {}
func (defLit) exprNode()     {}
func (cmpExpr) exprNode()    {}
func (anyExpr) exprNode()    {}
func (isNullExpr) exprNode() {}
func (inExpr) exprNode()     {}
func (logicExpr) exprNode()  {}
func (notExpr) exprNode()    {}
func (callExpr) exprNode()   {}

// ---------------------------------------------------------------- parser

// reservedWords is the list of fully reserved key words of PostgreSQL 16
// (they cannot be used as table or column names without quoting).
var reservedWords = map[string]bool{
	"all": true, "analyse": true, "analyze": true, "and": true, "any": true, "array": true, "as": true,
	"asc": true, "asymmetric": true, "both": true, "case": true, "cast": true, "check": true,
	"collate": true, "column": true, "constraint": true, "create": true, "current_catalog": true,
	"current_date": true, "current_role": true, "current_time": true, "current_timestamp": true,
	"current_user": true, "default": true, "deferrable": true, "desc": true, "distinct": true, "do": true,
	"else": true, "end": true, "except": true, "false": true, "fetch": true, "for": true, "foreign": true,
	"from": true, "grant": true, "group": true, "having": true, "in": true, "initially": true,
	"intersect": true, "into": true, "lateral": true, "leading": true, "limit": true, "localtime": true,
	"localtimestamp": true, "not": true, "null": true, "offset": true, "on": true, "only": true, "or": true,
	"order": true, "placing": true, "primary": true, "references": true, "returning": true, "select": true,
	"session_user": true, "some": true, "symmetric": true, "system_user": true, "table": true, "then": true,
	"to": true, "trailing": true, "true": true, "union": true, "unique": true, "user": true, "using": true,
	"variadic": true, "when": true, "where": true, "window": true, "with": true,
}

// IsReservedWord reports whether name (case-insensitive) is a fully reserved
// PostgreSQL key word, i.e. an identifier that a real server rejects as an
// unquoted table or column name.
func IsReservedWord(name string) bool { return reservedWords[asciiLower(name)] }

// unsupportedKeywords are key words introducing valid SQL outside of the
// supported subset; meeting one of them gives an "unsupported" error rather
// than a "syntax" one.
var unsupportedKeywords = map[string]bool{
	"join": true, "inner": true, "left": true, "right": true, "full": true, "cross": true, "natural": true,
	"order": true, "group": true, "having": true, "limit": true, "offset": true, "union": true,
	"intersect": true, "except": true, "fetch": true, "for": true, "window": true, "using": true,
	"on": true, "as": true, "like": true, "ilike": true, "between": true, "similar": true, "distinct": true,
	"case": true, "cast": true, "exists": true, "array": true, "all": true, "select": true, "with": true,
	"collate": true, "overlaps": true, "isnull": true, "notnull": true, "only": true, "overriding": true,
}

type parser struct {
	toks     []token
	i        int
	reserved bool // reject reserved words used as identifiers
}

func (p *parser) peek() token { return p.toks[p.i] }

func (p *parser) peekAt(k int) token {
	if p.i+k < len(p.toks) {
		return p.toks[p.i+k]
	}
	return p.toks[len(p.toks)-1]
}

func (p *parser) next() token {
	t := p.toks[p.i]
	if t.kind != tEOF {
		p.i++
	}
	return t
}

func (p *parser) acceptKw(kw string) bool {
	if p.peek().is(kw) {
		p.i++
		return true
	}
	return false
}

func (p *parser) acceptOp(op string) bool {
	if p.peek().isOp(op) {
		p.i++
		return true
	}
	return false
}

// unexpected builds the error for the current token.
func (p *parser) unexpected(context string) *Error {
	t := p.peek()
	if t.kind == tIdent && unsupportedKeywords[t.text] {
		return errf("unsupported", "%s is not supported (at offset %d, %s)", strings.ToUpper(t.text), t.pos, context)
	}
	if t.kind == tOp {
		switch t.text {
		case "+", "-", "/", "%", "||", "::", "->", "->>", "[", "^", "~", "&", "|", "#", "@", "?", "!", ":":
			return errf("unsupported", "operator %q is not supported (at offset %d, %s)", t.text, t.pos, context)
		}
	}
	return errf("syntax", "syntax error at or near %q (offset %d): %s", t.String(), t.pos, context)
}

func (p *parser) expectKw(kw, context string) *Error {
	if !p.acceptKw(kw) {
		return p.unexpected("expected " + strings.ToUpper(kw) + " " + context)
	}
	return nil
}

func (p *parser) expectOp(op, context string) *Error {
	if !p.acceptOp(op) {
		return p.unexpected("expected " + strconv.Quote(op) + " " + context)
	}
	return nil
}

// ident parses a table or column name.
func (p *parser) ident(what string) (string, *Error) {
	t := p.peek()
	switch t.kind {
	case tQIdent:
		p.i++
		return t.text, nil
	case tIdent:
		if p.reserved && reservedWords[t.text] {
			return "", errf("syntax", "syntax error at or near %q (offset %d): reserved key word used as %s", t.raw, t.pos, what)
		}
		p.i++
		return t.text, nil
	}
	return "", p.unexpected("expected " + what)
}

// identList parses "( name, name, ... )". An empty list is a syntax error, as
// in PostgreSQL.
func (p *parser) identList(what string) ([]string, *Error) {
	if err := p.expectOp("(", "before "+what+" list"); err != nil {
		return nil, err
	}
	var out []string
	if p.peek().isOp(")") {
		return nil, errf("syntax", "syntax error at or near \")\" (offset %d): empty %s list", p.peek().pos, what)
	}
	for {
		name, err := p.ident(what)
		if err != nil {
			return nil, err
		}
		out = append(out, name)
		if p.acceptOp(",") {
			continue
		}
		if err := p.expectOp(")", "after "+what+" list"); err != nil {
			return nil, err
		}
		return out, nil
	}
}

func (p *parser) parseExpr() (expr, *Error) { return p.parseOr() }

func (p *parser) parseOr() (expr, *Error) {
	l, err := p.parseAnd()
	if err != nil {
		return nil, err
	}
	for p.acceptKw("or") {
		r, err := p.parseAnd()
		if err != nil {
			return nil, err
		}
		l = logicExpr{op: "or", l: l, r: r}
	}
	return l, nil
}

func (p *parser) parseAnd() (expr, *Error) {
	l, err := p.parseNot()
	if err != nil {
		return nil, err
	}
	for p.acceptKw("and") {
		r, err := p.parseNot()
		if err != nil {
			return nil, err
		}
		l = logicExpr{op: "and", l: l, r: r}
	}
	return l, nil
}

func (p *parser) parseNot() (expr, *Error) {
	if p.acceptKw("not") {
		e, err := p.parseNot()
		if err != nil {
			return nil, err
		}
		return notExpr{e: e}, nil
	}
	return p.parseCmp()
}

var cmpOps = map[string]bool{"=": true, "<>": true, "!=": true, "<": true, ">": true, "<=": true, ">=": true}

func (p *parser) parseCmp() (expr, *Error) {
	l, err := p.parsePrimary()
	if err != nil {
		return nil, err
	}
	t := p.peek()
	switch {
	case t.kind == tOp && cmpOps[t.text]:
		p.i++
		op := t.text
		if op == "!=" {
			op = "<>"
		}
		var out expr
		if n := p.peek(); (n.is("any") || n.is("some")) && p.peekAt(1).isOp("(") {
			p.i += 2
			if p.peek().is("select") || p.peek().is("with") || p.peek().is("values") {
				return nil, errf("unsupported", "sub-queries are not supported (at offset %d)", p.peek().pos)
			}
			arr, err := p.parseExpr()
			if err != nil {
				return nil, err
			}
			if err := p.expectOp(")", "after ANY argument"); err != nil {
				return nil, err
			}
			out = anyExpr{op: op, l: l, arr: arr}
		} else {
			r, err := p.parsePrimary()
			if err != nil {
				return nil, err
			}
			out = cmpExpr{op: op, l: l, r: r}
		}
		if n := p.peek(); n.kind == tOp && cmpOps[n.text] {
			return nil, errf("syntax", "syntax error at or near %q (offset %d): comparison operators do not chain", n.text, n.pos)
		}
		return p.checkTrailingOperator(out)
	case t.is("is"):
		p.i++
		not := p.acceptKw("not")
		if p.acceptKw("null") {
			return p.checkTrailingOperator(isNullExpr{e: l, not: not})
		}
		n := p.peek()
		if n.is("true") || n.is("false") || n.is("unknown") || n.is("distinct") {
			return nil, errf("unsupported", "IS %s is not supported (at offset %d)", strings.ToUpper(n.text), n.pos)
		}
		return nil, p.unexpected("expected NULL after IS")
	case t.is("in") || (t.is("not") && p.peekAt(1).is("in")):
		not := false
		if t.is("not") {
			not = true
			p.i++
		}
		p.i++
		if err := p.expectOp("(", "after IN"); err != nil {
			return nil, err
		}
		if p.peek().is("select") || p.peek().is("with") || p.peek().is("values") {
			return nil, errf("unsupported", "sub-queries are not supported (at offset %d)", p.peek().pos)
		}
		var list []expr
		for {
			item, err := p.parsePrimary()
			if err != nil {
				return nil, err
			}
			list = append(list, item)
			if p.acceptOp(",") {
				continue
			}
			if err := p.expectOp(")", "after IN list"); err != nil {
				return nil, err
			}
			break
		}
		return p.checkTrailingOperator(inExpr{e: l, list: list, not: not})
	case t.is("not") && (p.peekAt(1).is("like") || p.peekAt(1).is("ilike") || p.peekAt(1).is("between") || p.peekAt(1).is("similar")):
		return nil, errf("unsupported", "NOT %s is not supported (at offset %d)", strings.ToUpper(p.peekAt(1).text), t.pos)
	}
	return p.checkTrailingOperator(l)
}

// checkTrailingOperator rejects an expression followed by an operator (or
// key word operator) of the unsupported kind, so that "a + 1" is reported as
// unsupported instead of being cut after "a".
func (p *parser) checkTrailingOperator(e expr) (expr, *Error) {
	t := p.peek()
	if t.kind == tOp {
		switch t.text {
		case "+", "-", "/", "%", "||", "::", "->", "->>", "[", "^", "~", "&", "|", "#", "@", "?", "!", "*":
			return nil, errf("unsupported", "operator %q is not supported (at offset %d)", t.text, t.pos)
		}
	}
	if t.kind == tIdent {
		switch t.text {
		case "like", "ilike", "between", "similar", "collate", "overlaps", "isnull", "notnull":
			return nil, errf("unsupported", "%s is not supported (at offset %d)", strings.ToUpper(t.text), t.pos)
		}
	}
	return e, nil
}

func (p *parser) parsePrimary() (expr, *Error) {
	t := p.peek()
	switch t.kind {
	case tParam:
		p.i++
		return paramRef{n: t.num}, nil
	case tNumber:
		p.i++
		return numLit{text: t.text}, nil
	case tString:
		p.i++
		return strLit{s: t.text}, nil
	case tQIdent:
		p.i++
		if p.peek().isOp(".") {
			return nil, errf("unsupported", "qualified names are not supported (at offset %d)", t.pos)
		}
		return colRef{name: t.text}, nil
	case tOp:
		switch t.text {
		case "(":
			p.i++
			if p.peek().is("select") || p.peek().is("with") || p.peek().is("values") {
				return nil, errf("unsupported", "sub-queries are not supported (at offset %d)", p.peek().pos)
			}
			e, err := p.parseExpr()
			if err != nil {
				return nil, err
			}
			if p.peek().isOp(",") {
				return nil, errf("unsupported", "row constructors are not supported (at offset %d)", p.peek().pos)
			}
			if err := p.expectOp(")", "to close the parenthesis"); err != nil {
				return nil, err
			}
			return e, nil
		case "-", "+":
			if n := p.peekAt(1); n.kind == tNumber {
				p.i += 2
				if t.text == "-" {
					return numLit{text: "-" + n.text}, nil
				}
				return numLit{text: n.text}, nil
			}
			return nil, errf("unsupported", "operator %q is not supported (at offset %d)", t.text, t.pos)
		}
	case tIdent:
		switch t.text {
		case "true":
			p.i++
			return boolLit{b: true}, nil
		case "false":
			p.i++
			return boolLit{b: false}, nil
		case "null":
			p.i++
			return nullLit{}, nil
		case "default":
			p.i++
			return defLit{}, nil
		case "not", "and", "or", "is", "in", "from", "where", "returning", "set", "values", "into", "any", "some":
			return nil, p.unexpected("expected an expression")
		}
		if unsupportedKeywords[t.text] && !p.columnUseFollows() {
			return nil, p.unexpected("expected an expression")
		}
		if p.peekAt(1).isOp("(") {
			// function call
			p.i += 2
			call := callExpr{fn: t.text, raw: t.raw}
			if p.acceptOp(")") {
				return call, nil
			}
			if p.peek().isOp("*") || p.peek().is("distinct") || p.peek().is("select") {
				return nil, errf("unsupported", "aggregates and sub-queries are not supported (at offset %d)", p.peek().pos)
			}
			for {
				arg, err := p.parseExpr()
				if err != nil {
					return nil, err
				}
				call.args = append(call.args, arg)
				if p.acceptOp(",") {
					continue
				}
				if err := p.expectOp(")", "after function arguments"); err != nil {
					return nil, err
				}
				return call, nil
			}
		}
		if p.peekAt(1).isOp(".") {
			return nil, errf("unsupported", "qualified names are not supported (at offset %d)", t.pos)
		}
		name, err := p.ident("column name")
		if err != nil {
			return nil, err
		}
		return colRef{name: name}, nil
	case tDollar:
		return nil, errf("unsupported", "dollar-quoted strings are not supported in statements (at offset %d)", t.pos)
	}
	return nil, p.unexpected("expected an expression")
}

// columnUseFollows reports whether the token after the current one continues
// an expression whose current token is a plain column reference. It lets
// non reserved-word checking mode accept columns named like key words
// (e.g. "order") while still reporting "ORDER BY" as unsupported.
func (p *parser) columnUseFollows() bool {
	n := p.peekAt(1)
	switch n.kind {
	case tEOF:
		return true
	case tOp:
		return cmpOps[n.text] || n.text == ")" || n.text == "," || n.text == ";"
	case tIdent:
		switch n.text {
		case "is", "in", "not", "and", "or", "returning", "where", "from":
			return true
		}
	}
	return false
}

// walkExpr calls f on every node of e.
func walkExpr(e expr, f func(expr)) {
	if e == nil {
		return
	}
	f(e)
	switch e := e.(type) {
	case cmpExpr:
		walkExpr(e.l, f)
		walkExpr(e.r, f)
	case anyExpr:
		walkExpr(e.l, f)
		walkExpr(e.arr, f)
	case isNullExpr:
		walkExpr(e.e, f)
	case inExpr:
		walkExpr(e.e, f)
		for _, x := range e.list {
			walkExpr(x, f)
		}
	case logicExpr:
		walkExpr(e.l, f)
		walkExpr(e.r, f)
	case notExpr:
		walkExpr(e.e, f)
	case callExpr:
		for _, x := range e.args {
			walkExpr(x, f)
		}
	}
}

// ---------------------------------------------------------------- bound expressions

// evalCtx carries what evaluation needs besides the row.
type evalCtx struct {
	checkFn func(fn string, jsonText []byte) (bool, error)
}

// bexpr is an expression bound to a table and to the statement arguments.
// Boolean results are bool or nil (unknown).
type bexpr interface {
	eval(ev *evalCtx, row []any) (any, *Error)
}

type (
	bCol   struct{ idx int }
	bConst struct{ v any }
	bCmp   struct {
		op   string
		l, r bexpr
	}
	bAny struct {
		op     string
		l, arr bexpr
	}
	bIsNull struct {
		e   bexpr
		not bool
	}
	bIn struct {
		e    bexpr
		list []bexpr
		not  bool
	}
	bLogic struct {
		and  bool
		l, r bexpr
	}
	bNot    struct{ e bexpr }
	bArrLen struct{ e bexpr }
	bCheck  struct {
		fn string
		e  bexpr
	}
)

func (b bCol) eval(_ *evalCtx, row []any) (any, *Error) { return row[b.idx], nil }
func (b bConst) eval(_ *evalCtx, _ []any) (any, *Error) { return b.v, nil }
func (b bArrLen) eval(ev *evalCtx, row []any) (any, *Error) {
	v, err := b.e.eval(ev, row)
	if err != nil {
		return nil, err
	}
	arr, ok := v.(arrayVal)
	if !ok || len(arr) == 0 {
		return nil, nil // NULL for NULL and for empty arrays
	}
	return int64(len(arr)), nil
}

func applyCmp(op string, a, b any) (any, *Error) {
	if a == nil || b == nil {
		return nil, nil
	}
	c, ok := compareValues(a, b)
	if !ok {
		return nil, errf("type", "cannot compare %s with %s", describeValue(a), describeValue(b))
	}
	switch op {
	case "=":
		return c == 0, nil
	case "<>":
		return c != 0, nil
	case "<":
		return c < 0, nil
	case ">":
		return c > 0, nil
	case "<=":
		return c <= 0, nil
	case ">=":
		return c >= 0, nil
	}
	return nil, errf("unsupported", "operator %q", op)
}

func (b bCmp) eval(ev *evalCtx, row []any) (any, *Error) {
	l, err := b.l.eval(ev, row)
	if err != nil {
		return nil, err
	}
	r, err := b.r.eval(ev, row)
	if err != nil {
		return nil, err
	}
	return applyCmp(b.op, l, r)
}

func (b bAny) eval(ev *evalCtx, row []any) (any, *Error) {
	l, err := b.l.eval(ev, row)
	if err != nil {
		return nil, err
	}
	av, err := b.arr.eval(ev, row)
	if err != nil {
		return nil, err
	}
	if av == nil {
		return nil, nil
	}
	arr, ok := av.(arrayVal)
	if !ok {
		return nil, errf("type", "ANY requires an array, got %s", describeValue(av))
	}
	if len(arr) == 0 {
		return false, nil
	}
	unknown := l == nil
	for _, e := range arr {
		r, err := applyCmp(b.op, l, e)
		if err != nil {
			return nil, err
		}
		switch r {
		case true:
			return true, nil
		case nil:
			unknown = true
		}
	}
	if unknown {
		return nil, nil
	}
	return false, nil
}

func (b bIsNull) eval(ev *evalCtx, row []any) (any, *Error) {
	v, err := b.e.eval(ev, row)
	if err != nil {
		return nil, err
	}
	return (v == nil) != b.not, nil
}

func (b bIn) eval(ev *evalCtx, row []any) (any, *Error) {
	l, err := b.e.eval(ev, row)
	if err != nil {
		return nil, err
	}
	unknown := l == nil
	found := false
	for _, item := range b.list {
		r, err := item.eval(ev, row)
		if err != nil {
			return nil, err
		}
		c, err := applyCmp("=", l, r)
		if err != nil {
			return nil, err
		}
		switch c {
		case true:
			found = true
		case nil:
			unknown = true
		}
	}
	var out any
	switch {
	case found:
		out = true
	case unknown:
		return nil, nil
	default:
		out = false
	}
	if b.not {
		return !out.(bool), nil
	}
	return out, nil
}

func (b bLogic) eval(ev *evalCtx, row []any) (any, *Error) {
	l, err := b.l.eval(ev, row)
	if err != nil {
		return nil, err
	}
	r, err := b.r.eval(ev, row)
	if err != nil {
		return nil, err
	}
	if b.and {
		switch {
		case l == false || r == false:
			return false, nil
		case l == nil || r == nil:
			return nil, nil
		}
		return true, nil
	}
	switch {
	case l == true || r == true:
		return true, nil
	case l == nil || r == nil:
		return nil, nil
	}
	return false, nil
}

func (b bNot) eval(ev *evalCtx, row []any) (any, *Error) {
	v, err := b.e.eval(ev, row)
	if err != nil || v == nil {
		return nil, err
	}
	return !v.(bool), nil
}

func (b bCheck) eval(ev *evalCtx, row []any) (any, *Error) {
	if ev == nil || ev.checkFn == nil {
		return true, nil // skipped
	}
	v, err := b.e.eval(ev, row)
	if err != nil {
		return nil, err
	}
	var text []byte
	switch v := v.(type) {
	case nil:
	case jsonVal:
		text = append([]byte{}, v...)
	case string:
		text = []byte(v)
	case []byte:
		text = append([]byte{}, v...)
	default:
		text = []byte(textOf(nil, v))
	}
	ok, ferr := ev.checkFn(b.fn, text)
	if ferr != nil {
		return nil, errf("check", "check function %s failed: %v", b.fn, ferr)
	}
	return ok, nil
}

// ---------------------------------------------------------------- binder

// binder resolves column references and placeholders of a statement.
type binder struct {
	tbl        *table
	args       []any // statement arguments (nil in check mode)
	checkMode  bool  // CHECK constraint: no placeholders, function calls allowed
	opt        valueOptions
	paramTyped map[int]bool // placeholders that received a type from their context
	paramSeen  map[int]bool
}

func (b *binder) column(name string) (int, *Error) {
	idx, ok := b.tbl.byName[name]
	if !ok {
		return 0, errf("undefined_column", "column %q of relation %q does not exist", name, b.tbl.name)
	}
	return idx, nil
}

func (b *binder) arg(n int) (any, *Error) {
	if b.checkMode {
		return nil, errf("unsupported", "placeholder $%d in a CHECK constraint", n)
	}
	if n < 1 || n > len(b.args) {
		return nil, errf("placeholder", "there is no parameter $%d (%d arguments)", n, len(b.args))
	}
	if b.paramSeen != nil {
		b.paramSeen[n] = true
	}
	return b.args[n-1], nil
}

func (b *binder) markTyped(n int) {
	if b.paramTyped != nil {
		b.paramTyped[n] = true
	}
}

var (
	typeInt8   = &sqlType{kind: kInt8, name: "bigint", precision: -1}
	typeInt4   = &sqlType{kind: kInt4, name: "integer", precision: -1}
	typeFloat8 = &sqlType{kind: kFloat8, name: "double precision", precision: -1}
	typeText   = &sqlType{kind: kText, name: "text", precision: -1}
	typeBool   = &sqlType{kind: kBool, name: "boolean", precision: -1}
)

// arrayOf returns the array type whose elements have type t.
func arrayOf(t *sqlType) *sqlType {
	a := *t
	a.array = true
	a.serial = false
	base := t.name
	switch base {
	case "serial":
		base = "integer"
	case "bigserial":
		base = "bigint"
	case "smallserial":
		base = "smallint"
	}
	a.name = base + "[]"
	return &a
}

// typedOperand binds operands which carry their own type: columns and
// array_length(col, n). ok is false for the other kinds of operands.
func (b *binder) typedOperand(e expr) (be bexpr, t *sqlType, ok bool, err *Error) {
	switch e := e.(type) {
	case colRef:
		idx, err := b.column(e.name)
		if err != nil {
			return nil, nil, false, err
		}
		return bCol{idx: idx}, b.tbl.cols[idx].typ, true, nil
	case callExpr:
		if e.fn == "array_length" || e.fn == "cardinality" {
			if !b.checkMode {
				return nil, nil, false, errf("unsupported", "function %s() outside of a CHECK constraint", e.raw)
			}
			wantArgs := 2
			if e.fn == "cardinality" {
				return nil, nil, false, errf("unsupported", "function %s()", e.raw)
			}
			if len(e.args) != wantArgs {
				return nil, nil, false, errf("unsupported", "function %s() with %d arguments", e.raw, len(e.args))
			}
			col, isCol := e.args[0].(colRef)
			dim, isNum := e.args[1].(numLit)
			if !isCol || !isNum || dim.text != "1" {
				return nil, nil, false, errf("unsupported", "only array_length(<column>, 1) is supported")
			}
			idx, err := b.column(col.name)
			if err != nil {
				return nil, nil, false, err
			}
			if !b.tbl.cols[idx].typ.array {
				return nil, nil, false, errf("type", "array_length() applied to column %q of type %s", col.name, b.tbl.cols[idx].typ.name)
			}
			return bArrLen{e: bCol{idx: idx}}, typeInt4, true, nil
		}
		return nil, nil, false, errf("unsupported", "function %s() in this context", e.raw)
	}
	return nil, nil, false, nil
}

// bindTo binds an untyped operand (placeholder or literal), or a column, as a
// value of type t.
func (b *binder) bindTo(e expr, t *sqlType) (bexpr, *Error) {
	switch e := e.(type) {
	case colRef, callExpr:
		be, et, ok, err := b.typedOperand(e)
		if err != nil {
			return nil, err
		}
		if !ok {
			break
		}
		if !t.comparableWith(et) {
			return nil, errf("type", "operator does not exist: %s vs %s", t.name, et.name)
		}
		return be, nil
	case paramRef:
		v, err := b.arg(e.n)
		if err != nil {
			return nil, err
		}
		b.markTyped(e.n)
		cv, err := coerce(t, v, b.opt)
		if err != nil {
			err.Msg = "parameter $" + strconv.Itoa(e.n) + ": " + err.Msg
			return nil, err
		}
		return bConst{v: cv}, nil
	case numLit:
		switch {
		case t.isInteger():
			x, perr := strconv.ParseInt(e.text, 10, 64)
			if perr != nil {
				return nil, errf("type", "numeric literal %s is not an integer (%s expected)", e.text, t.name)
			}
			v, err := checkIntRange(t, x)
			if err != nil {
				return nil, err
			}
			return bConst{v: v}, nil
		case t.isNumeric():
			x, perr := strconv.ParseFloat(e.text, 64)
			if perr != nil {
				return nil, errf("type", "invalid numeric literal %s", e.text)
			}
			v, err := checkFloat(t, x, b.opt)
			if err != nil {
				return nil, err
			}
			return bConst{v: v}, nil
		}
		return nil, errf("type", "numeric literal %s used where %s is expected", e.text, t.name)
	case strLit:
		v, err := coerceText(t, e.s, b.opt)
		if err != nil {
			return nil, err
		}
		return bConst{v: v}, nil
	case boolLit:
		if t.array || t.kind != kBool {
			return nil, errf("type", "boolean literal used where %s is expected", t.name)
		}
		return bConst{v: e.b}, nil
	case nullLit:
		return bConst{v: nil}, nil
	}
	return nil, errf("unsupported", "expression of this shape is not supported as an operand")
}

// literalType returns the natural type of a literal, nil for other nodes.
func literalType(e expr) *sqlType {
	switch e := e.(type) {
	case numLit:
		if _, err := strconv.ParseInt(e.text, 10, 64); err == nil {
			return typeInt8
		}
		return typeFloat8
	case strLit:
		return typeText
	case boolLit:
		return typeBool
	}
	return nil
}

// bindPair binds both sides of a comparison.
func (b *binder) bindPair(l, r expr) (bexpr, bexpr, *sqlType, *Error) {
	bl, lt, lok, err := b.typedOperand(l)
	if err != nil {
		return nil, nil, nil, err
	}
	if lok {
		br, err := b.bindTo(r, lt)
		return bl, br, lt, err
	}
	br, rt, rok, err := b.typedOperand(r)
	if err != nil {
		return nil, nil, nil, err
	}
	if rok {
		bl, err := b.bindTo(l, rt)
		return bl, br, rt, err
	}
	// no column on either side
	_, lNull := l.(nullLit)
	_, rNull := r.(nullLit)
	if lNull || rNull {
		// comparison with a NULL literal is NULL whatever the other side is,
		// but the other side must still be valid
		other := l
		if lNull {
			other = r
		}
		t := literalType(other)
		if t == nil {
			if _, isNull := other.(nullLit); !isNull {
				return nil, nil, nil, errf("unsupported", "could not determine the type of an operand compared with NULL")
			}
			t = typeText
		}
		bo, err := b.bindTo(other, t)
		if err != nil {
			return nil, nil, nil, err
		}
		return bo, bConst{v: nil}, t, nil
	}
	if t := literalType(l); t != nil {
		bl, err := b.bindTo(l, t)
		if err != nil {
			return nil, nil, nil, err
		}
		br, err := b.bindTo(r, t)
		return bl, br, t, err
	}
	if t := literalType(r); t != nil {
		br, err := b.bindTo(r, t)
		if err != nil {
			return nil, nil, nil, err
		}
		bl, err := b.bindTo(l, t)
		return bl, br, t, err
	}
	_, lp := l.(paramRef)
	_, rp := r.(paramRef)
	if lp && rp {
		// PostgreSQL resolves both to text; the generator never emits this
		return nil, nil, nil, errf("unsupported", "comparison between two placeholders")
	}
	return nil, nil, nil, errf("unsupported", "comparison between expressions of this shape is not supported")
}

// bindBool binds an expression used as a condition.
func (b *binder) bindBool(e expr) (bexpr, *Error) {
	switch e := e.(type) {
	case logicExpr:
		l, err := b.bindBool(e.l)
		if err != nil {
			return nil, err
		}
		r, err := b.bindBool(e.r)
		if err != nil {
			return nil, err
		}
		return bLogic{and: e.op == "and", l: l, r: r}, nil
	case notExpr:
		x, err := b.bindBool(e.e)
		if err != nil {
			return nil, err
		}
		return bNot{e: x}, nil
	case cmpExpr:
		l, r, t, err := b.bindPair(e.l, e.r)
		if err != nil {
			return nil, err
		}
		if e.op != "=" && e.op != "<>" && !t.array && (t.kind == kJSON || t.kind == kUnknown) {
			return nil, errf("unsupported", "operator %s on type %s", e.op, t.name)
		}
		return bCmp{op: e.op, l: l, r: r}, nil
	case anyExpr:
		return b.bindAny(e)
	case isNullExpr:
		switch x := e.e.(type) {
		case paramRef:
			v, err := b.arg(x.n)
			if err != nil {
				return nil, err
			}
			return bConst{v: (v == nil) != e.not}, nil
		case nullLit:
			return bConst{v: !e.not}, nil
		case numLit, strLit, boolLit:
			return bConst{v: e.not}, nil
		}
		be, _, ok, err := b.typedOperand(e.e)
		if err != nil {
			return nil, err
		}
		if !ok {
			return nil, errf("unsupported", "IS NULL applied to an expression of this shape")
		}
		return bIsNull{e: be, not: e.not}, nil
	case inExpr:
		be, t, ok, err := b.typedOperand(e.e)
		if err != nil {
			return nil, err
		}
		if !ok {
			return nil, errf("unsupported", "IN applied to an expression which is not a column")
		}
		if t.array {
			return nil, errf("unsupported", "IN applied to an array column")
		}
		out := bIn{e: be, not: e.not}
		for _, item := range e.list {
			bi, err := b.bindTo(item, t)
			if err != nil {
				return nil, err
			}
			out.list = append(out.list, bi)
		}
		return out, nil
	case colRef:
		idx, err := b.column(e.name)
		if err != nil {
			return nil, err
		}
		if t := b.tbl.cols[idx].typ; t.array || t.kind != kBool {
			return nil, errf("type", "column %q of type %s used as a condition (boolean expected)", e.name, t.name)
		}
		return bCol{idx: idx}, nil
	case paramRef:
		return b.bindTo(e, typeBool)
	case boolLit:
		return bConst{v: e.b}, nil
	case nullLit:
		return bConst{v: nil}, nil
	case callExpr:
		if !b.checkMode {
			return nil, errf("unsupported", "function %s() outside of a CHECK constraint", e.raw)
		}
		if e.fn == "array_length" || e.fn == "cardinality" {
			return nil, errf("type", "%s() used as a condition (boolean expected)", e.raw)
		}
		if len(e.args) != 1 {
			return nil, errf("unsupported", "function %s() with %d arguments", e.raw, len(e.args))
		}
		col, isCol := e.args[0].(colRef)
		if !isCol {
			return nil, errf("unsupported", "function %s() applied to something else than a column", e.raw)
		}
		idx, err := b.column(col.name)
		if err != nil {
			return nil, err
		}
		return bCheck{fn: e.raw, e: bCol{idx: idx}}, nil
	case numLit, strLit:
		return nil, errf("type", "literal used as a condition (boolean expected)")
	case defLit:
		return nil, errf("syntax", "DEFAULT is not allowed in this context")
	}
	return nil, errf("unsupported", "condition of this shape is not supported")
}

func (b *binder) bindAny(e anyExpr) (bexpr, *Error) {
	bl, lt, lok, err := b.typedOperand(e.l)
	if err != nil {
		return nil, err
	}
	if lok {
		if lt.array {
			return nil, errf("unsupported", "ANY with an array column on the left side")
		}
		at := arrayOf(lt)
		switch arr := e.arr.(type) {
		case paramRef, strLit, nullLit:
			ba, err := b.bindTo(arr, at)
			if err != nil {
				return nil, err
			}
			return bAny{op: e.op, l: bl, arr: ba}, nil
		case colRef:
			ba, rt, _, err := b.typedOperand(arr)
			if err != nil {
				return nil, err
			}
			if !rt.array || !rt.elem().comparableWith(lt) {
				return nil, errf("type", "op ANY/ALL (array) requires a compatible array on the right side, got %s", rt.name)
			}
			return bAny{op: e.op, l: bl, arr: ba}, nil
		}
		return nil, errf("unsupported", "ANY argument of this shape is not supported")
	}
	// value = ANY(array column)
	if col, isCol := e.arr.(colRef); isCol {
		ba, rt, _, err := b.typedOperand(col)
		if err != nil {
			return nil, err
		}
		if !rt.array {
			return nil, errf("type", "op ANY/ALL (array) requires array on right side, got %s", rt.name)
		}
		bl, err := b.bindTo(e.l, rt.elem())
		if err != nil {
			return nil, err
		}
		return bAny{op: e.op, l: bl, arr: ba}, nil
	}
	return nil, errf("unsupported", "ANY without a column on either side")
}
