module github.com/lib/pq

go 1.23.0
