package pq

import (
	"database/sql/driver"
	"fmt"
	"strings"
	"time"
)

// NullTime represents a time.Time that may be null. NullTime implements the
// sql.Scanner interface so it can be used as a scan destination, similar to
// sql.NullString.
type NullTime struct {
	Time  time.Time
	Valid bool // Valid is true if Time is not NULL
}

// timeFormats are the text layouts accepted by NullTime.Scan when the driver
// hands back a textual timestamp or date.
var timeFormats = []string{
	time.RFC3339Nano,
	"2006-01-02 15:04:05.999999999Z07:00",
	"2006-01-02 15:04:05.999999999Z07",
	"2006-01-02 15:04:05.999999999",
	"2006-01-02",
}

// Scan implements the Scanner interface.
//
// It accepts a time.Time, nil (SQL NULL) and, as a convenience for drivers
// returning text, a []byte or string in RFC3339, "2006-01-02 15:04:05Z07" or
// "2006-01-02" format. Unlike the real lib/pq (which silently yields an
// invalid NullTime), any other source type is reported as an error.
func (nt *NullTime) Scan(value interface{}) error {
	switch v := value.(type) {
	case nil:
		nt.Time, nt.Valid = time.Time{}, false
		return nil
	case time.Time:
		nt.Time, nt.Valid = v, true
		return nil
	case []byte:
		return nt.scanText(string(v))
	case string:
		return nt.scanText(v)
	}
	nt.Time, nt.Valid = time.Time{}, false
	return fmt.Errorf("pq: cannot convert %T to NullTime", value)
}

func (nt *NullTime) scanText(s string) error {
	s = strings.TrimSpace(s)
	for _, layout := range timeFormats {
		if t, err := time.Parse(layout, s); err == nil {
			nt.Time, nt.Valid = t, true
			return nil
		}
	}
	nt.Time, nt.Valid = time.Time{}, false
	return fmt.Errorf("pq: cannot parse %q as a time", s)
}

// Value implements the driver Valuer interface.
func (nt NullTime) Value() (driver.Value, error) {
	if !nt.Valid {
		return nil, nil
	}
	return nt.Time, nil
}

// QuoteIdentifier quotes an "identifier" (e.g. a table or a column name) to be
// used as part of an SQL statement.
//
// Any double quotes in name will be escaped. The quoted identifier will be
// case sensitive when used in a query. If the input string contains a zero
// byte, the result will be truncated immediately before it.
func QuoteIdentifier(name string) string {
	end := strings.IndexRune(name, 0)
	if end > -1 {
		name = name[:end]
	}
	return `"` + strings.Replace(name, `"`, `""`, -1) + `"`
}

// QuoteLiteral quotes a 'literal' (e.g. a parameter, often used to pass literal
// to DDL and other statements that do not accept parameters) to be used as part
// of an SQL statement.
func QuoteLiteral(literal string) string {
	// This follows the PostgreSQL internal algorithm for handling quoted
	// literals from libpq: double the single quotes and the backslashes, and
	// prepend " E" when a backslash is present.
	literal = strings.Replace(literal, `'`, `''`, -1)
	if strings.Contains(literal, `\`) {
		literal = strings.Replace(literal, `\`, `\\`, -1)
		literal = ` E'` + literal + `'`
	} else {
		literal = `'` + literal + `'`
	}
	return literal
}

// CopyIn creates a COPY FROM statement which can be prepared with Tx.Prepare().
// The target table should be visible in search_path.
//
// The result is exactly the text produced by lib/pq:
//
//	COPY "table" ("col1", "col2") FROM STDIN
func CopyIn(table string, columns ...string) string {
	var b strings.Builder
	b.WriteString("COPY ")
	b.WriteString(QuoteIdentifier(table))
	b.WriteString(" (")
	writeColumns(&b, columns)
	return b.String()
}

// CopyInSchema creates a COPY FROM statement which can be prepared with
// Tx.Prepare().
func CopyInSchema(schema, table string, columns ...string) string {
	var b strings.Builder
	b.WriteString("COPY ")
	b.WriteString(QuoteIdentifier(schema))
	b.WriteByte('.')
	b.WriteString(QuoteIdentifier(table))
	b.WriteString(" (")
	writeColumns(&b, columns)
	return b.String()
}

func writeColumns(b *strings.Builder, columns []string) {
	for i, col := range columns {
		if i != 0 {
			b.WriteString(", ")
		}
		b.WriteString(QuoteIdentifier(col))
	}
	b.WriteString(") FROM STDIN")
}

// Error represents an error communicated by a PostgreSQL server. The minipg
// engine returns its own error type; this one exists so that code written
// against lib/pq (errors.As(err, &pqErr)) keeps compiling.
type Error struct {
	Code    string // SQLSTATE, e.g. "23505"
	Message string
}

// Error implements the error interface, with the same "pq: " prefix as lib/pq.
func (err *Error) Error() string {
	return "pq: " + err.Message
}
