package pq

import (
	"database/sql"
	"database/sql/driver"
	"math"
	"math/rand"
	"reflect"
	"testing"
	"time"
)

// compile-time interface checks
var (
	_ sql.Scanner   = (*Int64Array)(nil)
	_ driver.Valuer = Int64Array(nil)
	_ sql.Scanner   = (*Int32Array)(nil)
	_ driver.Valuer = Int32Array(nil)
	_ sql.Scanner   = (*Float64Array)(nil)
	_ driver.Valuer = Float64Array(nil)
	_ sql.Scanner   = (*Float32Array)(nil)
	_ driver.Valuer = Float32Array(nil)
	_ sql.Scanner   = (*StringArray)(nil)
	_ driver.Valuer = StringArray(nil)
	_ sql.Scanner   = (*BoolArray)(nil)
	_ driver.Valuer = BoolArray(nil)
	_ sql.Scanner   = (*ByteaArray)(nil)
	_ driver.Valuer = ByteaArray(nil)
	_ sql.Scanner   = (*NullTime)(nil)
	_ driver.Valuer = NullTime{}
	_ error         = (*Error)(nil)
)

func mustValue(t *testing.T, v driver.Valuer) driver.Value {
	t.Helper()
	out, err := v.Value()
	if err != nil {
		t.Fatalf("Value(%v): %v", v, err)
	}
	return out
}

func TestValueFormats(t *testing.T) {
	cases := []struct {
		in   driver.Valuer
		want driver.Value
	}{
		{Int64Array(nil), nil},
		{Int64Array{}, "{}"},
		{Int64Array{1, -2, math.MaxInt64, math.MinInt64}, "{1,-2,9223372036854775807,-9223372036854775808}"},
		{Int32Array(nil), nil},
		{Int32Array{}, "{}"},
		{Int32Array{7}, "{7}"},
		{Int32Array{1, 2, -3}, "{1,2,-3}"},
		{Float64Array(nil), nil},
		{Float64Array{}, "{}"},
		{Float64Array{1, 0.5, -2.25, 1e21}, "{1,0.5,-2.25,1000000000000000000000}"},
		{Float32Array(nil), nil},
		{Float32Array{}, "{}"},
		{Float32Array{0.1, 3}, "{0.1,3}"},
		{BoolArray(nil), nil},
		{BoolArray{}, "{}"},
		{BoolArray{true}, "{t}"},
		{BoolArray{true, false, true}, "{t,f,t}"},
		{StringArray(nil), nil},
		{StringArray{}, "{}"},
		{StringArray{""}, `{""}`},
		{StringArray{"a", "b c"}, `{"a","b c"}`},
		{StringArray{`c"d`, `e\f`, "NULL", "{x,y}", "é☃"}, `{"c\"d","e\\f","NULL","{x,y}","é☃"}`},
		{ByteaArray(nil), nil},
		{ByteaArray{}, "{}"},
		{ByteaArray{{0xde, 0xad}, {}}, `{"\\xdead","\\x"}`},
	}
	for _, c := range cases {
		got := mustValue(t, c.in)
		if !reflect.DeepEqual(got, c.want) {
			t.Errorf("%T(%v).Value() = %#v, want %#v", c.in, c.in, got, c.want)
		}
	}
}

// roundTrip sends the Value() of in through Scan (as string and as []byte)
// into fresh, a pointer to a zero array of the same type.
func roundTrip(t *testing.T, in driver.Valuer, fresh func() sql.Scanner, deref func(sql.Scanner) any) {
	t.Helper()
	v := mustValue(t, in)
	var srcs []any
	if v == nil {
		srcs = []any{nil}
	} else {
		s := v.(string)
		srcs = []any{s, []byte(s)}
	}
	for _, src := range srcs {
		out := fresh()
		if err := out.Scan(src); err != nil {
			t.Fatalf("Scan(%#v) into %T: %v", src, out, err)
		}
		got := deref(out)
		if !reflect.DeepEqual(got, any(in)) {
			t.Errorf("round trip of %#v through %#v gave %#v", in, src, got)
		}
	}
}

func TestRoundTrips(t *testing.T) {
	for _, a := range []Int64Array{nil, {}, {0}, {1, 2, 3}, {math.MinInt64, math.MaxInt64, -1}} {
		roundTrip(t, a, func() sql.Scanner { return new(Int64Array) }, func(s sql.Scanner) any { return *s.(*Int64Array) })
	}
	for _, a := range []Int32Array{nil, {}, {0}, {math.MinInt32, math.MaxInt32}} {
		roundTrip(t, a, func() sql.Scanner { return new(Int32Array) }, func(s sql.Scanner) any { return *s.(*Int32Array) })
	}
	for _, a := range []Float64Array{nil, {}, {0}, {0.1, -1e300, 1e-300, math.MaxFloat64, math.SmallestNonzeroFloat64, math.Inf(1), math.Inf(-1)}} {
		roundTrip(t, a, func() sql.Scanner { return new(Float64Array) }, func(s sql.Scanner) any { return *s.(*Float64Array) })
	}
	for _, a := range []Float32Array{nil, {}, {0}, {0.1, -1e30, math.MaxFloat32, math.SmallestNonzeroFloat32}} {
		roundTrip(t, a, func() sql.Scanner { return new(Float32Array) }, func(s sql.Scanner) any { return *s.(*Float32Array) })
	}
	for _, a := range []BoolArray{nil, {}, {true}, {false}, {true, false, false, true}} {
		roundTrip(t, a, func() sql.Scanner { return new(BoolArray) }, func(s sql.Scanner) any { return *s.(*BoolArray) })
	}
	for _, a := range []StringArray{
		nil, {}, {""}, {"", ""}, {"a"}, {"a b", `c"d`}, {`\`, `\\`, `"`, `""`, `\"`}, {",", "a,b", ",,"},
		{"{", "}", "{}", "{a,b}", `{"a"}`}, {"NULL", "null", "Null"}, {" ", " lead", "trail ", "\t", "\n", "a\nb"},
		{"é", "☃", "日本語", "\U0001F600", "á"}, {"'", "''", "$1", "--", "/* x */", ";"},
		{"\x00", "\xff\xfe"}, // not valid PostgreSQL text, but the codec itself is byte transparent
	} {
		roundTrip(t, a, func() sql.Scanner { return new(StringArray) }, func(s sql.Scanner) any { return *s.(*StringArray) })
	}
	for _, a := range []ByteaArray{nil, {}, {{}}, {{0}, {1, 2, 3}, {0xff, '\\', '"'}}} {
		roundTrip(t, a, func() sql.Scanner { return new(ByteaArray) }, func(s sql.Scanner) any { return *s.(*ByteaArray) })
	}
}

func TestRoundTripsRandom(t *testing.T) {
	rng := rand.New(rand.NewSource(42))
	alphabet := []rune(`ab ,"\{}'NUL` + "\n\té☃")
	for i := 0; i < 2000; i++ {
		n := rng.Intn(5)
		sa := make(StringArray, n)
		ia := make(Int64Array, n)
		fa := make(Float64Array, n)
		ba := make(BoolArray, n)
		for j := range sa {
			rs := make([]rune, rng.Intn(6))
			for k := range rs {
				rs[k] = alphabet[rng.Intn(len(alphabet))]
			}
			sa[j] = string(rs)
			ia[j] = rng.Int63() - rng.Int63()
			fa[j] = rng.NormFloat64() * math.Pow(10, float64(rng.Intn(40)-20))
			ba[j] = rng.Intn(2) == 0
		}
		roundTrip(t, sa, func() sql.Scanner { return new(StringArray) }, func(s sql.Scanner) any { return *s.(*StringArray) })
		roundTrip(t, ia, func() sql.Scanner { return new(Int64Array) }, func(s sql.Scanner) any { return *s.(*Int64Array) })
		roundTrip(t, fa, func() sql.Scanner { return new(Float64Array) }, func(s sql.Scanner) any { return *s.(*Float64Array) })
		roundTrip(t, ba, func() sql.Scanner { return new(BoolArray) }, func(s sql.Scanner) any { return *s.(*BoolArray) })
	}
}

func TestScanServerFormats(t *testing.T) {
	// unquoted strings, as emitted by the server when no quoting is required
	var sa StringArray
	if err := sa.Scan(`{abc,"d e",f\g,"h\"i"}`); err != nil {
		t.Fatal(err)
	}
	if want := (StringArray{"abc", "d e", `f\g`, `h"i`}); !reflect.DeepEqual(sa, want) {
		t.Errorf("got %#v want %#v", sa, want)
	}

	// scanning an empty array into a non-nil destination keeps it non-nil
	ia := Int64Array{1, 2}
	if err := ia.Scan("{}"); err != nil || ia == nil || len(ia) != 0 {
		t.Errorf("got %#v, %v", ia, err)
	}
	// scanning an empty array into a nil destination gives an empty non-nil array
	var ib Int64Array
	if err := ib.Scan([]byte("{}")); err != nil || ib == nil || len(ib) != 0 {
		t.Errorf("got %#v, %v", ib, err)
	}
	// nil resets
	ic := Int64Array{1}
	if err := ic.Scan(nil); err != nil || ic != nil {
		t.Errorf("got %#v, %v", ic, err)
	}
}

func TestScanErrors(t *testing.T) {
	type scanCase struct {
		dst sql.Scanner
		src any
	}
	cases := []scanCase{
		// NULL elements are rejected
		{new(Int64Array), "{1,NULL}"},
		{new(Int32Array), "{NULL}"},
		{new(Float64Array), "{NULL,1}"},
		{new(Float32Array), "{NULL}"},
		{new(StringArray), "{a,NULL}"},
		{new(BoolArray), "{t,NULL}"},
		// wrong source types
		{new(Int64Array), int64(1)},
		{new(Int32Array), 1.5},
		{new(Float64Array), true},
		{new(Float32Array), time.Now()},
		{new(StringArray), 3},
		{new(BoolArray), []int{1}},
		{new(ByteaArray), 12},
		// malformed text
		{new(Int64Array), ""},
		{new(Int64Array), "1,2"},
		{new(Int64Array), "{1,2"},
		{new(Int64Array), "{1,,2}"},
		{new(Int64Array), "{1,2}}"},
		{new(Int64Array), "{a}"},
		{new(Int64Array), "{1.5}"},
		{new(Int64Array), "{ 1}"},
		{new(Int64Array), "{9223372036854775808}"},
		{new(Int32Array), "{2147483648}"},
		{new(Float64Array), "{x}"},
		{new(BoolArray), "{true}"},
		{new(BoolArray), "{x}"},
		{new(BoolArray), "{1}"},
		{new(StringArray), `{"a}`},
		{new(ByteaArray), `{"\\xzz"}`},
		// multi-dimensional
		{new(Int64Array), "{{1,2},{3,4}}"},
		{new(StringArray), "{{a},{b}}"},
	}
	for _, c := range cases {
		if err := c.dst.Scan(c.src); err == nil {
			t.Errorf("Scan(%#v) into %T: expected an error", c.src, c.dst)
		}
	}
}

func TestParseArrayNeverPanics(t *testing.T) {
	rng := rand.New(rand.NewSource(7))
	alphabet := []byte(`{},"\aN1 `)
	for i := 0; i < 200000; i++ {
		b := make([]byte, rng.Intn(12))
		for j := range b {
			b[j] = alphabet[rng.Intn(len(alphabet))]
		}
		var (
			sa StringArray
			ia Int64Array
			ba BoolArray
		)
		_ = sa.Scan(b)
		_ = ia.Scan(b)
		_ = ba.Scan(b)
	}
}

func TestNullTime(t *testing.T) {
	now := time.Date(2024, 2, 29, 13, 14, 15, 0, time.UTC)

	var nt NullTime
	if err := nt.Scan(now); err != nil || !nt.Valid || !nt.Time.Equal(now) {
		t.Errorf("got %v %v", nt, err)
	}
	if v, err := nt.Value(); err != nil || v != driver.Value(now) {
		t.Errorf("got %v %v", v, err)
	}
	if err := nt.Scan(nil); err != nil || nt.Valid || !nt.Time.IsZero() {
		t.Errorf("got %v %v", nt, err)
	}
	if v, err := nt.Value(); err != nil || v != nil {
		t.Errorf("got %v %v", v, err)
	}

	for _, src := range []any{
		"2024-02-29T13:14:15Z",
		[]byte("2024-02-29T13:14:15+00:00"),
		"2024-02-29 13:14:15+00",
		"2024-02-29 13:14:15Z",
		"2024-02-29 15:14:15+02",
		"2024-02-29 13:14:15.000+00:00",
	} {
		var nt NullTime
		if err := nt.Scan(src); err != nil || !nt.Valid || !nt.Time.Equal(now) {
			t.Errorf("Scan(%q): got %v %v", src, nt, err)
		}
	}
	var d NullTime
	if err := d.Scan("2024-02-29"); err != nil || !d.Valid || !d.Time.Equal(time.Date(2024, 2, 29, 0, 0, 0, 0, time.UTC)) {
		t.Errorf("got %v %v", d, err)
	}
	for _, src := range []any{"yesterday", []byte("2024-13-01"), int64(3), 1.5, true} {
		var nt NullTime
		if err := nt.Scan(src); err == nil || nt.Valid {
			t.Errorf("Scan(%#v): expected an error, got %v", src, nt)
		}
	}
}

func TestCopyInAndQuoting(t *testing.T) {
	if got, want := CopyIn("question_tags", "tag", "idquestion"), `COPY "question_tags" ("tag", "idquestion") FROM STDIN`; got != want {
		t.Errorf("got %q want %q", got, want)
	}
	if got, want := CopyIn("t"), `COPY "t" () FROM STDIN`; got != want {
		t.Errorf("got %q want %q", got, want)
	}
	if got, want := CopyIn(`we"ird`, `a"b`), `COPY "we""ird" ("a""b") FROM STDIN`; got != want {
		t.Errorf("got %q want %q", got, want)
	}
	if got, want := CopyInSchema("public", "t", "a"), `COPY "public"."t" ("a") FROM STDIN`; got != want {
		t.Errorf("got %q want %q", got, want)
	}
	if got, want := QuoteIdentifier("Col"), `"Col"`; got != want {
		t.Errorf("got %q want %q", got, want)
	}
	if got, want := QuoteIdentifier("a\x00b"), `"a"`; got != want {
		t.Errorf("got %q want %q", got, want)
	}
	if got, want := QuoteLiteral(`it's`), `'it''s'`; got != want {
		t.Errorf("got %q want %q", got, want)
	}
	if got, want := QuoteLiteral(`a\b`), ` E'a\\b'`; got != want {
		t.Errorf("got %q want %q", got, want)
	}
	e := &Error{Code: "23505", Message: "duplicate key"}
	if e.Error() != "pq: duplicate key" {
		t.Errorf("got %q", e.Error())
	}
}
