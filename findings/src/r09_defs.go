package p1

type U interface{ isU() }

type M struct{ A int }

func (M) isU() {}

type H struct{ V U }
