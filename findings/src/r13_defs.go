package p1

type K int

const (
	A_ K = iota
	B_
)

type H struct{ V K }
