package sb

type E string
