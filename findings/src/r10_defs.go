package p1

import "verif.test/org/proj/p1/sb"

type Holder struct {
	Sub sb.E
}
