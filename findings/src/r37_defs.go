package p1

type Union interface{ isU() }

type M struct{ A int }

func (M) isU() {}

type Pair [2]Union

type H struct {
	P Pair
}
