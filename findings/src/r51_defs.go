package model

import "time"

type Holder struct {
	Left  map[string]time.Time
	Times []time.Time
}
