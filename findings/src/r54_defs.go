package p1

type H struct {
	Index int `json:"index,string"`
}
