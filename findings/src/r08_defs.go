package p1

type Shape interface{ isShape() }
type Shade interface{ isShade() }

type Circle struct{ R int }

func (Circle) isShape() {}
func (Circle) isShade() {}

type Holder struct {
	S Shape
	D Shade
}
