package p1

type M struct{ A int }

type P *M
