package models

type Ints []int

type Fixed [3]int

type T struct {
	Id int64
	A  Ints
}

type V struct {
	Id int64
	F  Fixed
}
