package p1

type Box[T ~int64] struct{ Id T }
