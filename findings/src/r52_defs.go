package p1

type Shape interface{ isShape() }

type Circle struct{ R int }

func (Circle) isShape() {}

type Holder struct {
	S Shape `gomacro:"ignore"`
	N int
}
