package p1

type Multi int

const MA, MB Multi = 1, 2

type H struct{ V Multi }
