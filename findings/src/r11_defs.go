package p1

type H struct{ B Box[int64] }
