// Package h is the shared harness of every property check: configuration
// from the environment, counters for the evidence file, replay files,
// known-findings handling, and the glue around rapid.Check.
//
// A property is described by a Prop[C]: a rapid generator of cases C (plain
// JSON-serialisable data describing the *complete* generated input) and a
// check function deciding one case. Everything random is drawn through rapid,
// so shrinking and replay work.
package h

import (
	"crypto/sha256"
	"encoding/hex"
	"encoding/json"
	"fmt"
	"os"
	"path/filepath"
	"sort"
	"strconv"
	"strings"
	"sync"
	"testing"
	"time"

	"pgregory.net/rapid"
)

// Config is read from the environment set by cmd/vcheck.
type Config struct {
	Tier    string // quick | thorough
	Seed    int64  // VERIF_SEED
	Shard   int
	Shards  int
	OutDir  string // where shard reports, replays and write-ahead files go
	Replay  string // when set: run the check on this replay file only
	RootDir string // /verif
}

func envInt(name string, def int64) int64 {
	if v := os.Getenv(name); v != "" {
		if n, err := strconv.ParseInt(v, 10, 64); err == nil {
			return n
		}
	}
	return def
}

func LoadConfig() Config {
	c := Config{
		Tier:    os.Getenv("VERIF_TIER"),
		Seed:    envInt("VERIF_SEED", 1),
		Shard:   int(envInt("VERIF_SHARD", 0)),
		Shards:  int(envInt("VERIF_SHARDS", 1)),
		OutDir:  os.Getenv("VERIF_OUT"),
		Replay:  os.Getenv("VERIF_REPLAY"),
		RootDir: os.Getenv("VERIF_ROOT"),
	}
	if c.Tier == "" {
		c.Tier = "quick"
	}
	if c.OutDir == "" {
		c.OutDir = os.TempDir()
	}
	if c.RootDir == "" {
		c.RootDir = "/verif"
	}
	return c
}

// Verdict kinds returned by a check.
type Violation struct{ Msg string }

func (v *Violation) Error() string { return v.Msg }

// Inconclusive means the harness could not decide the case (a limitation of
// the machinery, never a defect of the code under test). It maps to exit 2.
type Inconclusive struct{ Msg string }

func (v *Inconclusive) Error() string { return "inconclusive: " + v.Msg }

func Violf(format string, a ...any) error { return &Violation{Msg: fmt.Sprintf(format, a...)} }
func Inconcf(format string, a ...any) error {
	return &Inconclusive{Msg: fmt.Sprintf(format, a...)}
}

// Rec collects what a run actually covered.
type Rec struct {
	mu          sync.Mutex
	Generated   int            // property-function executions (incl. shrink steps)
	NonTrivial  map[string]int // hash prefix -> count
	Classes     map[string]int // class histogram
	Excluded    map[string]int // excluded_by_construction
	Samples     []any
	Refused     int // inputs refused with a diagnostic (not cases)
	Extra       map[string]int
	MaxSamples  int
	Confirm     bool // set when a failing case is re-run for confirmation
	sampleEvery int
}

func NewRec() *Rec {
	return &Rec{NonTrivial: map[string]int{}, Classes: map[string]int{}, Excluded: map[string]int{}, Extra: map[string]int{}, MaxSamples: 4}
}

func (r *Rec) Class(name string) {
	r.mu.Lock()
	r.Classes[name]++
	r.mu.Unlock()
}

func (r *Rec) Add(name string, n int) {
	r.mu.Lock()
	r.Extra[name] += n
	r.mu.Unlock()
}

func (r *Rec) Exclude(finding string) {
	r.mu.Lock()
	r.Excluded[finding]++
	r.mu.Unlock()
}

// NonTriv records one non-trivial case identified by the canonical bytes key.
// sample (optional) is kept for the evidence file for the first few.
func (r *Rec) NonTriv(key []byte, sample func() any) {
	sum := sha256.Sum256(key)
	k := hex.EncodeToString(sum[:8])
	r.mu.Lock()
	defer r.mu.Unlock()
	if _, seen := r.NonTrivial[k]; !seen && len(r.Samples) < r.MaxSamples && sample != nil {
		r.Samples = append(r.Samples, sample())
	}
	r.NonTrivial[k]++
}

// Failure is what a shard reports about a violated / inconclusive case.
type Failure struct {
	Kind   string `json:"kind"` // violation | inconclusive
	Msg    string `json:"msg"`
	Replay string `json:"replay"`
}

// ShardReport is written by every shard process and merged by vcheck.
type ShardReport struct {
	Property   string         `json:"property"`
	Shard      int            `json:"shard"`
	Generated  int            `json:"generated"`
	Hashes     []string       `json:"hashes"`
	Classes    map[string]int `json:"classes"`
	Excluded   map[string]int `json:"excluded"`
	Extra      map[string]int `json:"extra"`
	Samples    []any          `json:"samples"`
	Refused    int            `json:"refused"`
	Failures   []Failure      `json:"failures"`
	Known      []string       `json:"known"`      // KNOWN-FINDING lines
	KnownGone  []string       `json:"known_gone"` // open findings whose repro no longer fails
	FixedOK    []string       `json:"fixed_ok"`   // regression replays of fixed findings that pass
	RapidOK    bool           `json:"rapid_ok"`   // rapid.Check returned without failure
	Completed  bool           `json:"completed"`  // the test function ran to its end
	Rule       string         `json:"rule"`
	Assumes    []string       `json:"assumptions"`
	WallS      float64        `json:"wall_s"`
	Exhaustive bool           `json:"exhaustive"`
}

// ReplayFile is the on-disk form of one case.
type ReplayFile struct {
	Property string          `json:"property"`
	Msg      string          `json:"msg,omitempty"`
	Case     json.RawMessage `json:"case"`
}

// Prop describes one property check.
type Prop[C any] struct {
	ID      string
	Rule    string   // how cases are generated and what makes one non-trivial
	Assumes []string // trusted base / assumptions
	Gen     func(t *rapid.T, r *Rec) C
	// Check decides one case: nil = held; *Violation; *Inconclusive.
	Check func(c C, r *Rec) error
	// WriteAhead: write every case to disk before running it, so that a fatal
	// error of the process (stack overflow) still leaves a replayable case.
	WriteAhead bool
	// ConfirmTries: how many times a failing case is re-run before it is declared unconfirmed (default 1; more for
	// properties about run-to-run variation, where the failure itself depends on map iteration order)
	ConfirmTries int
	// Extra runs after the rapid campaign (exhaustive enumerations etc.); it
	// reports failures through the returned error and a case to save.
	Extra func(r *Rec, cfg Config) (*C, error)
	// Exhaustive is reported in the evidence when Extra enumerates a finite space completely.
	Exhaustive bool
}

func writeJSON(path string, v any) error {
	b, err := json.MarshalIndent(v, "", " ")
	if err != nil {
		return err
	}
	tmp := path + ".tmp"
	if err := os.WriteFile(tmp, b, 0o644); err != nil {
		return err
	}
	return os.Rename(tmp, path)
}

func saveReplay[C any](cfg Config, id string, c C, msg string, tag string) string {
	raw, _ := json.Marshal(c)
	sum := sha256.Sum256(raw)
	dir := filepath.Join(cfg.RootDir, "replays")
	os.MkdirAll(dir, 0o755)
	path := filepath.Join(dir, fmt.Sprintf("%s-%s%s.json", id, hex.EncodeToString(sum[:6]), tag))
	writeJSON(path, ReplayFile{Property: id, Msg: msg, Case: raw})
	return path
}

func loadReplay[C any](path string) (C, error) {
	var c C
	b, err := os.ReadFile(path)
	if err != nil {
		return c, err
	}
	var rf ReplayFile
	if err := json.Unmarshal(b, &rf); err != nil {
		return c, err
	}
	err = json.Unmarshal(rf.Case, &c)
	return c, err
}

// safeCheck runs p.Check, turning a panic of the *harness* into Inconclusive
// (checks recover panics of the code under test themselves and classify them).
func safeCheck[C any](p Prop[C], c C, r *Rec) (err error) {
	defer func() {
		if rec := recover(); rec != nil {
			err = Inconcf("harness panic: %v", rec)
		}
	}()
	return p.Check(c, r)
}

// Main is the body of every TestCxx function.
func Main[C any](t *testing.T, p Prop[C]) {
	currentProp = p.ID
	cfg := LoadConfig()
	start := time.Now()
	rec := NewRec()
	rep := &ShardReport{Property: p.ID, Shard: cfg.Shard, Rule: p.Rule, Assumes: p.Assumes}
	reportPath := filepath.Join(cfg.OutDir, fmt.Sprintf("shard-%d.json", cfg.Shard))
	flush := func() {
		rec.mu.Lock()
		rep.Generated = rec.Generated
		rep.Hashes = rep.Hashes[:0]
		for k := range rec.NonTrivial {
			rep.Hashes = append(rep.Hashes, k)
		}
		sort.Strings(rep.Hashes)
		rep.Classes, rep.Excluded, rep.Extra, rep.Samples, rep.Refused = rec.Classes, rec.Excluded, rec.Extra, rec.Samples, rec.Refused
		rec.mu.Unlock()
		rep.WallS = time.Since(start).Seconds()
		writeJSON(reportPath, rep)
	}
	defer flush()

	// --- replay mode -------------------------------------------------------
	if cfg.Replay != "" {
		c, err := loadReplay[C](cfg.Replay)
		if err != nil {
			rep.Failures = append(rep.Failures, Failure{Kind: "inconclusive", Msg: "cannot read replay: " + err.Error(), Replay: cfg.Replay})
			rep.Completed = true
			return
		}
		rec.Confirm = true
		err = safeCheck(p, c, rec)
		for try := 1; err == nil && try < p.ConfirmTries; try++ {
			err = safeCheck(p, c, rec)
		}
		if err != nil {
			kind := "violation"
			if _, ok := err.(*Inconclusive); ok {
				kind = "inconclusive"
			}
			rep.Failures = append(rep.Failures, Failure{Kind: kind, Msg: err.Error(), Replay: cfg.Replay})
			fmt.Printf("REPLAY %s: %s\n", kind, err.Error())
		} else {
			fmt.Println("REPLAY ok: property held on the replayed case")
		}
		rep.RapidOK, rep.Completed = true, true
		return
	}

	// --- known findings (shard 0 only) ------------------------------------
	if cfg.Shard == 0 {
		for _, f := range Findings(cfg.RootDir) {
			if f.Property != p.ID || f.Repro == "" {
				continue
			}
			c, err := loadReplay[C](filepath.Join(cfg.RootDir, f.Repro))
			if err != nil {
				rep.Failures = append(rep.Failures, Failure{Kind: "inconclusive", Msg: "cannot read finding repro " + f.Repro + ": " + err.Error()})
				continue
			}
			r2 := NewRec()
			r2.Confirm = true
			err = safeCheck(p, c, r2)
			switch {
			case f.Fixed && err == nil:
				rep.FixedOK = append(rep.FixedOK, f.ID)
			case f.Fixed && err != nil:
				kind := "violation"
				if _, ok := err.(*Inconclusive); ok {
					kind = "inconclusive"
				}
				rep.Failures = append(rep.Failures, Failure{Kind: kind, Msg: "regression of fixed finding " + f.ID + ": " + err.Error(), Replay: filepath.Join(cfg.RootDir, f.Repro)})
			case !f.Fixed && err != nil:
				if _, ok := err.(*Inconclusive); ok {
					rep.Failures = append(rep.Failures, Failure{Kind: "inconclusive", Msg: "finding repro " + f.ID + ": " + err.Error(), Replay: filepath.Join(cfg.RootDir, f.Repro)})
				} else {
					rep.Known = append(rep.Known, fmt.Sprintf("KNOWN-FINDING: property=%s %s :: %s", p.ID, f.ID, f.What))
				}
			default:
				rep.KnownGone = append(rep.KnownGone, f.ID)
			}
		}
	}

	// --- generated search ---------------------------------------------------
	var (
		lastFail    *C
		lastFailMsg string
		inconc      []Failure
	)
	currentPath := filepath.Join(cfg.OutDir, fmt.Sprintf("current-%d.json", cfg.Shard))
	if p.Gen != nil {
		// rapid.Check calls t.Fatalf on failure (runtime.Goexit): handle the
		// outcome in a deferred function.
		func() {
			done := false
			defer func() {
				if !done && lastFail != nil {
					// confirm in a clean recorder
					r2 := NewRec()
					r2.Confirm = true
					err := safeCheck(p, *lastFail, r2)
					for try := 1; err == nil && try < p.ConfirmTries; try++ {
						// the property is about run-to-run variation: one silent re-run does not refute the failure
						err = safeCheck(p, *lastFail, r2)
					}
					switch e := err.(type) {
					case nil:
						path := saveReplay(cfg, p.ID, *lastFail, lastFailMsg, "-unconfirmed")
						rep.Failures = append(rep.Failures, Failure{Kind: "inconclusive", Msg: "failure did not reproduce on confirmation: " + lastFailMsg, Replay: path})
					case *Inconclusive:
						path := saveReplay(cfg, p.ID, *lastFail, e.Error(), "-inconclusive")
						rep.Failures = append(rep.Failures, Failure{Kind: "inconclusive", Msg: e.Error(), Replay: path})
					default:
						path := saveReplay(cfg, p.ID, *lastFail, err.Error(), "")
						rep.Failures = append(rep.Failures, Failure{Kind: "violation", Msg: err.Error(), Replay: path})
					}
				} else if !done {
					rep.Failures = append(rep.Failures, Failure{Kind: "inconclusive", Msg: "rapid failed without a recorded case (generator problem?)"})
				}
				rep.Failures = append(rep.Failures, inconc...)
				flush()
			}()
			rapid.Check(t, func(rt *rapid.T) {
				c := p.Gen(rt, rec)
				rec.mu.Lock()
				rec.Generated++
				rec.mu.Unlock()
				if p.WriteAhead {
					raw, _ := json.Marshal(c)
					b, _ := json.Marshal(ReplayFile{Property: p.ID, Case: raw})
					os.WriteFile(currentPath, b, 0o644)
				}
				err := safeCheck(p, c, rec)
				switch e := err.(type) {
				case nil:
				case *Inconclusive:
					if len(inconc) < 3 {
						path := saveReplay(cfg, p.ID, c, e.Error(), "-inconclusive")
						inconc = append(inconc, Failure{Kind: "inconclusive", Msg: e.Error(), Replay: path})
					}
				default:
					cc := c
					lastFail, lastFailMsg = &cc, err.Error()
					rt.Fatalf("%s", err.Error())
				}
			})
			done = true
			rep.RapidOK = true
			rep.Failures = append(rep.Failures, inconc...)
		}()
	} else {
		rep.RapidOK = true
	}
	if p.WriteAhead {
		os.Remove(currentPath)
	}

	// --- extra (exhaustive) part -------------------------------------------
	if p.Extra != nil && rep.RapidOK {
		c, err := p.Extra(rec, cfg)
		if err != nil {
			kind, tag := "violation", ""
			if _, ok := err.(*Inconclusive); ok {
				kind, tag = "inconclusive", "-inconclusive"
			}
			path := ""
			if c != nil {
				path = saveReplay(cfg, p.ID, *c, err.Error(), tag)
			}
			rep.Failures = append(rep.Failures, Failure{Kind: kind, Msg: err.Error(), Replay: path})
		} else {
			rep.Exhaustive = p.Exhaustive
		}
	}
	rep.Completed = true
}

// ---------------------------------------------------------------------------
// Known findings file

type Finding struct {
	Fixed    bool
	Property string
	ID       string
	Repro    string // path relative to /verif
	Avoid    []string
	Also     []string // other properties whose generators avoid the trigger too (they would observe the same root cause)
	Commit   string
	What     string
}

var (
	findingsOnce sync.Once
	findingsAll  []Finding
)

// Findings parses KNOWN_FINDINGS.txt. Lines:
//
//	finding: property=C15 id=R29 repro=findings/C15-R29.json avoid=recursive_value :: text
//	fixed: property=C09 id=R1 commit=3f2a1bc repro=findings/C09-R1.json :: text
func Findings(root string) []Finding {
	findingsOnce.Do(func() {
		b, err := os.ReadFile(filepath.Join(root, "KNOWN_FINDINGS.txt"))
		if err != nil {
			return
		}
		for _, line := range strings.Split(string(b), "\n") {
			line = strings.TrimSpace(line)
			if line == "" || strings.HasPrefix(line, "#") {
				continue
			}
			var f Finding
			switch {
			case strings.HasPrefix(line, "finding:"):
				line = strings.TrimPrefix(line, "finding:")
			case strings.HasPrefix(line, "fixed:"):
				f.Fixed = true
				line = strings.TrimPrefix(line, "fixed:")
			default:
				continue
			}
			head, what, _ := strings.Cut(line, "::")
			f.What = strings.TrimSpace(what)
			for _, tok := range strings.Fields(head) {
				k, v, ok := strings.Cut(tok, "=")
				if !ok {
					if f.Fixed && f.Commit == "" {
						f.Commit = tok
					}
					continue
				}
				switch k {
				case "property":
					f.Property = v
				case "id":
					f.ID = v
				case "repro":
					f.Repro = v
				case "avoid":
					f.Avoid = strings.Split(v, ",")
				case "also":
					f.Also = strings.Split(v, ",")
				case "commit":
					f.Commit = v
				}
			}
			findingsAll = append(findingsAll, f)
		}
	})
	return findingsAll
}

// currentProp is the property being checked by this process (set by Main).
var currentProp string

// Avoided returns the generator features gated by the *open* findings that the current property can
// observe. A finding without `also=` gates its feature for every property (several oracles usually see one
// defect); a finding with an `also=` list gates it only for its own property and the listed ones, the
// other properties keep the feature in their domain.
func Avoided(root string) map[string]string {
	out := map[string]string{}
	for _, f := range Findings(root) {
		if f.Fixed {
			continue
		}
		applies := f.Property == currentProp || currentProp == "" || len(f.Also) == 0
		for _, a := range f.Also {
			if a == currentProp {
				applies = true
			}
		}
		if !applies {
			continue
		}
		for _, a := range f.Avoid {
			if a != "" {
				out[a] = f.ID
			}
		}
	}
	return out
}
