package child

// CrudHarnessStatic is the generic part of the C05 child harness: a rapid state
// machine driving the generated CRUD functions (bound through the rendered
// table `vcTables`) against the mini engine loaded with the generated DDL, and
// comparing every result with a map model. It relies on the helpers of the
// generic harness (vhGen, vhEqual, vhEnums …) compiled in the same package.
const CrudHarnessStatic = `
import (
	vcsql "database/sql"
	vcerrors "errors"
	vcfmt "fmt"
	vcos "os"
	vcreflect "reflect"
	vcsort "sort"
	vcstrings "strings"
	vctesting "testing"
	vctime "time"
	vcjson "encoding/json"

	vcrapid "pgregory.net/rapid"
	vcminipg "verif/engine/minipg"
	vcpgcheck "verif/engine/pgcheck"
)

var _ = vcsort.Strings
var _ = vctime.Now
var _ = vcstrings.Join

type vcCol struct {
	Field    string
	SQLType  string
	Kind     string // bool int float string time date bytes array enum composite json nullint nullstring nulltime nullbool
	ElemKind string
	FK       int // index into FKs, -1 = none
}

type vcFK struct {
	Field    string
	Target   string // Go name of the target table
	Nullable bool
	Unique   bool
	OnDelete string
	SelectBy    func(db DB, keys []int64) ([]any, error)
	DeleteBy    func(db DB, keys []int64) ([]any, []int64, error) // link tables: deleted rows; primary tables: deleted ids
	SelectOneBy func(db DB, key int64) (any, bool, error)          // only when Unique
	// pure Go helpers of the collection type (only for non nullable keys)
	KeysOf func(rows []any) []int64           // (Ts).<F>s()
	ByKey  func(rows []any) map[int64][]any   // (Ts).By<F>()
}

type vcKey struct {
	Fields    []string
	Unique    bool // UNIQUE / PRIMARY KEY constraint (enforced); false = plain select key
	SelectOne func(db DB, args []any) (any, bool, error)
	SelectBy  func(db DB, args []any) ([]any, error)
	DeleteBy  func(db DB, args []any) ([]any, error)
}

// vcQuery is a custom query of the model file: UPDATE <table> SET <Set> = $1 WHERE <Where> = $2, or (Set == "") DELETE FROM <table> WHERE <Where> = $1.
type vcQuery struct {
	Name, Set, Where string
	Exec             func(db DB, set, where any) error
}

type vcTable struct {
	Go, SQL string
	Type    vcreflect.Type
	Primary bool
	IDField string
	Cols    []vcCol
	FKs     []vcFK
	Keys    []vcKey
	Queries []vcQuery

	Insert     func(db DB, row any) (any, error)
	SelectAll  func(db DB) ([]any, error)
	Select     func(db DB, id int64) (any, error)
	SelectMany func(db DB, ids []int64) ([]any, error)
	Update     func(db DB, row any) (any, error)
	Delete     func(db DB, id int64) (any, error)
	DeleteMany func(db DB, ids []int64) ([]int64, error)
	LinkDelete func(db DB, row any) error
	InsertMany func(tx *vcsql.Tx, rows []any) error
	IDsOf      func(rows []any) []int64 // (Ts).IDs() of primary tables
	ArrayToPQ  func(ids []int64) []int64 // <ID>ArrayToPQ
	// New<ID>SetFrom(ids): size, Has(probe), Keys(); then Add(probe): Has(probe), Keys()
	SetOps func(ids []int64, probe int64) (int, bool, []int64, bool, []int64)
}

func vcTableByName(name string) *vcTable {
	for _, t := range vcTables {
		if t.Go == name {
			return t
		}
	}
	return nil
}

// ---------------------------------------------------------------------------
// rows through reflection

func vcField(row any, name string) vcreflect.Value {
	return vcreflect.ValueOf(row).FieldByName(name)
}

func vcSetField(row any, name string, set func(f vcreflect.Value)) any {
	v := vcreflect.New(vcreflect.TypeOf(row)).Elem()
	v.Set(vcreflect.ValueOf(row))
	set(v.FieldByName(name))
	return v.Interface()
}

func vcID(t *vcTable, row any) int64 { return vcField(row, t.IDField).Int() }

// vcFKGet reads a foreign-key field: plain int64-kind, sql.NullInt64 or a {Valid, <ID>} wrapper.
func vcFKGet(row any, field string) (int64, bool) { return vcFKVal(vcField(row, field)) }

func vcFKVal(f vcreflect.Value) (int64, bool) {
	if f.Kind() == vcreflect.Struct {
		valid := f.FieldByName("Valid").Bool()
		for i := 0; i < f.NumField(); i++ {
			if f.Type().Field(i).Name != "Valid" {
				return f.Field(i).Int(), valid
			}
		}
		return 0, valid
	}
	return f.Int(), true
}

func vcFKSet(f vcreflect.Value, key int64, valid bool) {
	if f.Kind() == vcreflect.Struct {
		f.Set(vcreflect.Zero(f.Type()))
		if !valid {
			return
		}
		f.FieldByName("Valid").SetBool(true)
		for i := 0; i < f.NumField(); i++ {
			if f.Type().Field(i).Name != "Valid" {
				f.Field(i).SetInt(key)
			}
		}
		return
	}
	f.SetInt(key)
}

func vcRowsEqual(a, b any) bool {
	va := vcreflect.New(vcreflect.TypeOf(a)).Elem()
	va.Set(vcreflect.ValueOf(a))
	vb := vcreflect.New(vcreflect.TypeOf(b)).Elem()
	vb.Set(vcreflect.ValueOf(b))
	return vhEqual(va, vb)
}

func vcSameMultiset(got, want []any) string {
	if len(got) != len(want) {
		return vcfmt.Sprintf("%d rows returned, the model has %d", len(got), len(want))
	}
	used := make([]bool, len(want))
	for _, g := range got {
		found := false
		for i, w := range want {
			if !used[i] && vcRowsEqual(g, w) {
				used[i], found = true, true
				break
			}
		}
		if !found {
			return vcfmt.Sprintf("returned row %+v is not in the model %+v", g, want)
		}
	}
	return ""
}

// ---------------------------------------------------------------------------
// value generation for one row, respecting the SQL ranges of the columns

func vcIntRange(sqlType string, k vcreflect.Kind) (int64, int64) {
	lo, hi := int64(-2147483648), int64(2147483647)
	if vcstrings.HasPrefix(sqlType, "smallint") {
		lo, hi = -32768, 32767
	}
	switch k {
	case vcreflect.Int8:
		lo, hi = max(lo, -128), min(hi, 127)
	case vcreflect.Int16:
		lo, hi = max(lo, -32768), min(hi, 32767)
	case vcreflect.Uint8:
		lo, hi = 0, min(hi, 255)
	case vcreflect.Uint16:
		lo, hi = 0, min(hi, 65535)
	case vcreflect.Uint, vcreflect.Uint32, vcreflect.Uint64:
		lo = 0
	}
	return lo, hi
}

func vcFillScalar(g *vhGen, v vcreflect.Value, sqlType string) {
	if consts, ok := vhEnums[v.Type()]; ok && len(consts) > 0 {
		v.Set(consts[vcrapid.IntRange(0, len(consts)-1).Draw(g.t, "enum")])
		return
	}
	switch v.Kind() {
	case vcreflect.Bool:
		v.SetBool(vcrapid.Bool().Draw(g.t, "bool"))
	case vcreflect.Int, vcreflect.Int8, vcreflect.Int16, vcreflect.Int32, vcreflect.Int64:
		lo, hi := vcIntRange(sqlType, v.Kind())
		v.SetInt(g.intIn(lo, hi, "int"))
	case vcreflect.Uint, vcreflect.Uint8, vcreflect.Uint16, vcreflect.Uint32, vcreflect.Uint64:
		lo, hi := vcIntRange(sqlType, v.Kind())
		v.SetUint(uint64(g.intIn(lo, hi, "uint")))
	case vcreflect.Float32, vcreflect.Float64:
		fs := []float64{1.5, 0, -2.25, 1000000, 0.125, 3, -0.5, 65504}
		v.SetFloat(fs[vcrapid.IntRange(0, len(fs)-1).Draw(g.t, "float")])
	case vcreflect.String:
		v.SetString(vhStrings[vcrapid.IntRange(0, len(vhStrings)-1).Draw(g.t, "string")])
	}
}

func vcFillCol(g *vhGen, v vcreflect.Value, c vcCol) {
	switch c.Kind {
	case "bool", "int", "float", "string", "enum":
		vcFillScalar(g, v, c.SQLType)
	case "time", "date":
		g.fill(v, 0)
	case "bytes":
		n := vcrapid.IntRange(0, 4).Draw(g.t, "bytesLen")
		b := make([]byte, n)
		for i := range b {
			b[i] = byte(vcrapid.IntRange(0, 255).Draw(g.t, "byte"))
		}
		v.SetBytes(b) // never nil: a nil []byte is sent as NULL
	case "array":
		elemSQL := vcstrings.TrimSuffix(c.SQLType, "[]")
		if v.Kind() == vcreflect.Array {
			for i := 0; i < v.Len(); i++ {
				vcFillScalar(g, v.Index(i), elemSQL)
			}
			return
		}
		switch vcrapid.IntRange(0, 4).Draw(g.t, "arrShape") {
		case 0:
			return // nil -> NULL
		case 1:
			v.Set(vcreflect.MakeSlice(v.Type(), 0, 0))
			return
		}
		n := vcrapid.IntRange(1, 3).Draw(g.t, "arrLen")
		s := vcreflect.MakeSlice(v.Type(), n, n)
		for i := 0; i < n; i++ {
			vcFillScalar(g, s.Index(i), elemSQL)
		}
		v.Set(s)
	case "composite":
		for i := 0; i < v.NumField(); i++ {
			if !v.Field(i).CanSet() {
				continue // an unexported attribute keeps its zero value (it is still written and read)
			}
			vcFillScalar(g, v.Field(i), "smallint")
		}
	case "json":
		g.fill(v, 0)
	case "nullstring":
		if vcrapid.Bool().Draw(g.t, "valid") {
			v.FieldByName("Valid").SetBool(true)
			vcFillScalar(g, v.FieldByName("String"), "text")
		}
	case "nullbool":
		if vcrapid.Bool().Draw(g.t, "valid") {
			v.FieldByName("Valid").SetBool(true)
			v.FieldByName("Bool").SetBool(vcrapid.Bool().Draw(g.t, "b"))
		}
	case "nulltime":
		if vcrapid.Bool().Draw(g.t, "valid") {
			v.FieldByName("Valid").SetBool(true)
			g.fill(v.FieldByName("Time"), 0)
		}
	case "nullint":
		if vcrapid.Bool().Draw(g.t, "valid") {
			vcFKSet(v, g.intIn(-1000, 1000, "nullint"), true)
		}
	}
}

// ---------------------------------------------------------------------------
// the map model

type vcModel struct {
	rows map[string][]any
}

func (m *vcModel) clone() *vcModel {
	out := &vcModel{rows: map[string][]any{}}
	for k, v := range m.rows {
		out.rows[k] = append([]any(nil), v...)
	}
	return out
}

func (m *vcModel) liveIDs(t *vcTable) []int64 {
	var out []int64
	for _, r := range m.rows[t.Go] {
		out = append(out, vcID(t, r))
	}
	return out
}

func (m *vcModel) byID(t *vcTable, id int64) (any, int) {
	for i, r := range m.rows[t.Go] {
		if vcID(t, r) == id {
			return r, i
		}
	}
	return nil, -1
}

// uniqueConflict: would row (ignoring the row at index skip) violate a unique constraint?
func (m *vcModel) uniqueConflict(t *vcTable, row any, skip int) bool {
	for _, k := range t.Keys {
		if !k.Unique {
			continue
		}
	next:
		for i, other := range m.rows[t.Go] {
			if i == skip {
				continue
			}
			for _, f := range k.Fields {
				if vcIsFK(t, f) {
					a, av := vcFKGet(row, f)
					b, bv := vcFKGet(other, f)
					if !av || !bv || a != b {
						continue next
					}
					continue
				}
				if !vcreflect.DeepEqual(vcField(row, f).Interface(), vcField(other, f).Interface()) {
					continue next
				}
			}
			return true
		}
	}
	return false
}

func vcIsFK(t *vcTable, field string) bool {
	for _, fk := range t.FKs {
		if fk.Field == field {
			return true
		}
	}
	return false
}

// deleteIDs removes the rows of t with the given ids, applying the ON DELETE actions of the
// referencing foreign keys. It reports false (model unchanged) when a reference without action forbids it.
func (m *vcModel) deleteWhere(t *vcTable, match func(row any) bool) (*vcModel, []any, bool) {
	next := m.clone()
	var removed []any
	var removedIDs []int64
	var keep []any
	for _, r := range next.rows[t.Go] {
		if match(r) {
			removed = append(removed, r)
			if t.Primary {
				removedIDs = append(removedIDs, vcID(t, r))
			}
		} else {
			keep = append(keep, r)
		}
	}
	next.rows[t.Go] = keep
	deleted := map[string]map[int64]bool{}
	next.cascade(t, removedIDs, deleted, 0)
	// NO ACTION / RESTRICT references are checked at the end of the statement, after the cascades:
	// the delete is refused when a surviving row still references a deleted row
	for _, t2 := range vcTables {
		for _, fk := range t2.FKs {
			act := vcstrings.ToUpper(fk.OnDelete)
			if act == "CASCADE" || act == "SET NULL" {
				continue
			}
			for _, r := range next.rows[t2.Go] {
				if key, valid := vcFKGet(r, fk.Field); valid && deleted[fk.Target][key] {
					return m, nil, false
				}
			}
		}
	}
	return next, removed, true
}

// cascade applies the ON DELETE CASCADE / SET NULL actions for the deleted ids of target (recursively),
// recording every deleted id per table.
func (m *vcModel) cascade(target *vcTable, ids []int64, deleted map[string]map[int64]bool, depth int) {
	if len(ids) == 0 || depth > 20 {
		return
	}
	if deleted[target.Go] == nil {
		deleted[target.Go] = map[int64]bool{}
	}
	for _, id := range ids {
		deleted[target.Go][id] = true
	}
	isDel := deleted[target.Go]
	for _, t2 := range vcTables {
		for _, fk := range t2.FKs {
			if fk.Target != target.Go {
				continue
			}
			act := vcstrings.ToUpper(fk.OnDelete)
			if act != "CASCADE" && act != "SET NULL" {
				continue
			}
			var keep []any
			var gone []int64
			for _, r := range m.rows[t2.Go] {
				key, valid := vcFKGet(r, fk.Field)
				if !valid || !isDel[key] {
					keep = append(keep, r)
					continue
				}
				if act == "CASCADE" {
					if t2.Primary {
						gone = append(gone, vcID(t2, r))
					}
					continue
				}
				field := fk.Field
				keep = append(keep, vcSetField(r, field, func(f vcreflect.Value) { vcFKSet(f, 0, false) }))
			}
			m.rows[t2.Go] = keep
			m.cascade(t2, gone, deleted, depth+1)
		}
	}
}

// ---------------------------------------------------------------------------

var vcOut *vcos.File

func vcEmit(rec map[string]any) {
	b, _ := vcjson.Marshal(rec)
	vcOut.Write(append(b, '\n'))
}

func vcErrClass(err error) string {
	var e *vcminipg.Error
	if vcerrors.As(err, &e) {
		return e.Class
	}
	if err == vcsql.ErrNoRows {
		return "no_rows"
	}
	if err == nil {
		return ""
	}
	return "other:" + err.Error()
}

func TestVerifCRUD(t *vctesting.T) {
	var err error
	vcOut, err = vcos.Create(vcos.Getenv("VH_OUT"))
	if err != nil {
		t.Fatal(err)
	}
	defer vcOut.Close()
	checkFn, err := vcpgcheck.New(vcDDL)
	if err != nil {
		vcEmit(map[string]any{"inconc": "cannot parse the DDL for the validators: " + err.Error()})
		checkFn = nil
	}
	histories := 0
	vcrapid.Check(t, func(rt *vcrapid.T) {
		db, eng, err := vcminipg.Open(vcDDL)
		if err != nil {
			vcEmit(map[string]any{"schema_error": err.Error()})
			rt.Fatalf("schema: %v", err)
		}
		defer db.Close()
		if checkFn != nil {
			eng.SetCheckFunc(checkFn)
		}
		model := &vcModel{rows: map[string][]any{}}
		var history []string
		stats := map[string]int{}
		fail := func(format string, a ...any) {
			msg := vcfmt.Sprintf(format, a...)
			last := ""
			if log := eng.Log(); len(log) > 0 {
				l := log[len(log)-1]
				last = vcfmt.Sprintf("%s  args=%v", vcstrings.Join(vcstrings.Fields(l.SQL), " "), l.Args)
			}
			vcEmit(map[string]any{"viol": msg, "history": history, "last_statement": last})
			rt.Fatalf("%s", msg)
		}
		gen := func() *vhGen { return &vhGen{t: rt} }
		pickTable := func(pred func(*vcTable) bool) *vcTable {
			var cands []*vcTable
			for _, tb := range vcTables {
				if pred(tb) {
					cands = append(cands, tb)
				}
			}
			if len(cands) == 0 {
				rt.Skip("no such table")
			}
			return cands[vcrapid.IntRange(0, len(cands)-1).Draw(rt, "table")]
		}
		// newRow draws a valid row (foreign keys among live ids, or NULL when nullable)
		newRow := func(tb *vcTable) any {
			v := vcreflect.New(tb.Type).Elem()
			g := gen()
			for _, c := range tb.Cols {
				f := v.FieldByName(c.Field)
				if c.Field == tb.IDField && tb.Primary {
					continue
				}
				if c.FK >= 0 {
					fk := tb.FKs[c.FK]
					live := model.liveIDs(vcTableByName(fk.Target))
					if fk.Nullable && (len(live) == 0 || vcrapid.IntRange(0, 3).Draw(rt, "nullFK") == 0) {
						vcFKSet(f, 0, false)
						continue
					}
					if len(live) == 0 {
						rt.Skip("no live target row for a mandatory foreign key")
					}
					vcFKSet(f, live[vcrapid.IntRange(0, len(live)-1).Draw(rt, "fkTarget")], true)
					continue
				}
				vcFillCol(g, f, c)
			}
			return v.Interface()
		}
		someID := func(tb *vcTable) int64 {
			live := model.liveIDs(tb)
			if len(live) > 0 && vcrapid.IntRange(0, 4).Draw(rt, "liveID") != 0 {
				return live[vcrapid.IntRange(0, len(live)-1).Draw(rt, "idIdx")]
			}
			return int64(vcrapid.IntRange(1, 40).Draw(rt, "anyID"))
		}
		someIDs := func(tb *vcTable) []int64 {
			n := vcrapid.IntRange(0, 3).Draw(rt, "nIDs")
			var out []int64
			for i := 0; i < n; i++ {
				out = append(out, someID(tb))
			}
			return out
		}
		inIDs := func(ids []int64, id int64) bool {
			for _, x := range ids {
				if x == id {
					return true
				}
			}
			return false
		}
		keyArgs := func(tb *vcTable, k vcKey) []any {
			// from an existing row most of the time, else from a fresh random row
			var src any
			if rows := model.rows[tb.Go]; len(rows) > 0 && vcrapid.IntRange(0, 3).Draw(rt, "keyFromRow") != 0 {
				src = rows[vcrapid.IntRange(0, len(rows)-1).Draw(rt, "keyRow")]
			} else {
				v := vcreflect.New(tb.Type).Elem()
				g := gen()
				for _, c := range tb.Cols {
					if c.FK >= 0 {
						vcFKSet(v.FieldByName(c.Field), int64(vcrapid.IntRange(1, 20).Draw(rt, "fkAny")), true)
					} else if !(c.Field == tb.IDField && tb.Primary) {
						vcFillCol(g, v.FieldByName(c.Field), c)
					}
				}
				src = v.Interface()
			}
			args := make([]any, len(k.Fields))
			for i, f := range k.Fields {
				args[i] = vcField(src, f).Interface()
			}
			return args
		}
		matchKey := func(tb *vcTable, k vcKey, args []any) func(row any) bool {
			return func(row any) bool {
				for i, f := range k.Fields {
					if vcIsFK(tb, f) {
						a, av := vcFKGet(row, f)
						b, bv := vcFKVal(vcreflect.ValueOf(args[i]))
						if !av || !bv || a != b {
							return false
						}
						continue
					}
					if !vcreflect.DeepEqual(vcField(row, f).Interface(), args[i]) {
						return false
					}
				}
				return true
			}
		}

		actions := map[string]func(*vcrapid.T){
			"insert": func(_ *vcrapid.T) {
				tb := pickTable(func(*vcTable) bool { return true })
				row := newRow(tb)
				conflict := model.uniqueConflict(tb, row, -1)
				history = append(history, vcfmt.Sprintf("insert %s %+v (unique conflict expected: %v)", tb.Go, row, conflict))
				ret, err := tb.Insert(db, row)
				if conflict {
					if vcErrClass(err) != "unique" {
						fail("insert into %s of a row violating a UNIQUE / PRIMARY KEY constraint: expected a unique violation, got %v", tb.SQL, err)
					}
					stats["unique_violation"]++
					return
				}
				if err != nil {
					fail("insert into %s failed: %v", tb.SQL, err)
				}
				if tb.Primary {
					id := vcID(tb, ret)
					if _, idx := model.byID(tb, id); idx >= 0 || id <= 0 {
						fail("insert into %s returned id %d which is invalid or already used", tb.SQL, id)
					}
					row = vcSetField(row, tb.IDField, func(f vcreflect.Value) { f.SetInt(id) })
					if !vcRowsEqual(ret, row) {
						fail("insert into %s returned %+v, inserted %+v", tb.SQL, ret, row)
					}
				}
				model.rows[tb.Go] = append(model.rows[tb.Go], row)
				stats["insert"]++
			},
			"selectAll": func(_ *vcrapid.T) {
				tb := pickTable(func(*vcTable) bool { return true })
				history = append(history, "selectAll "+tb.Go)
				got, err := tb.SelectAll(db)
				if err != nil {
					fail("SelectAll%ss failed: %v", tb.Go, err)
				}
				if d := vcSameMultiset(got, model.rows[tb.Go]); d != "" {
					fail("SelectAll%ss: %s", tb.Go, d)
				}
				if len(got) > 0 {
					stats["read"]++
				}
			},
			"select": func(_ *vcrapid.T) {
				tb := pickTable(func(t *vcTable) bool { return t.Primary })
				id := someID(tb)
				history = append(history, vcfmt.Sprintf("select %s id=%d", tb.Go, id))
				got, err := tb.Select(db, id)
				want, idx := model.byID(tb, id)
				if idx < 0 {
					if err != vcsql.ErrNoRows {
						fail("Select%s(%d): no such row in the model, expected sql.ErrNoRows, got %+v, %v", tb.Go, id, got, err)
					}
					return
				}
				if err != nil {
					fail("Select%s(%d) failed: %v", tb.Go, id, err)
				}
				if !vcRowsEqual(got, want) {
					fail("Select%s(%d) returned %+v, the model has %+v", tb.Go, id, got, want)
				}
				stats["read"]++
			},
			"selectMany": func(_ *vcrapid.T) {
				tb := pickTable(func(t *vcTable) bool { return t.Primary })
				ids := someIDs(tb)
				history = append(history, vcfmt.Sprintf("selectMany %s ids=%v", tb.Go, ids))
				got, err := tb.SelectMany(db, ids)
				if err != nil {
					fail("Select%ss(%v) failed: %v", tb.Go, ids, err)
				}
				var want []any
				for _, r := range model.rows[tb.Go] {
					if inIDs(ids, vcID(tb, r)) {
						want = append(want, r)
					}
				}
				if d := vcSameMultiset(got, want); d != "" {
					fail("Select%ss(%v): %s", tb.Go, ids, d)
				}
			},
			"update": func(_ *vcrapid.T) {
				tb := pickTable(func(t *vcTable) bool { return t.Primary })
				id := someID(tb)
				row := newRow(tb)
				row = vcSetField(row, tb.IDField, func(f vcreflect.Value) { f.SetInt(id) })
				_, idx := model.byID(tb, id)
				conflict := idx >= 0 && model.uniqueConflict(tb, row, idx)
				history = append(history, vcfmt.Sprintf("update %s %+v (exists: %v, unique conflict expected: %v)", tb.Go, row, idx >= 0, conflict))
				got, err := tb.Update(db, row)
				if idx < 0 {
					if err != vcsql.ErrNoRows {
						fail("Update of the missing %s id %d: expected sql.ErrNoRows, got %+v, %v", tb.Go, id, got, err)
					}
					return
				}
				if conflict {
					if vcErrClass(err) != "unique" {
						fail("update of %s violating a UNIQUE constraint: expected a unique violation, got %v", tb.SQL, err)
					}
					return
				}
				if err != nil {
					fail("update of %s failed: %v", tb.SQL, err)
				}
				if !vcRowsEqual(got, row) {
					fail("update of %s returned %+v, sent %+v", tb.SQL, got, row)
				}
				model.rows[tb.Go][idx] = row
				stats["write"]++
			},
			"delete": func(_ *vcrapid.T) {
				tb := pickTable(func(t *vcTable) bool { return t.Primary })
				id := someID(tb)
				want, idx := model.byID(tb, id)
				next, _, allowed := model.deleteWhere(tb, func(r any) bool { return vcID(tb, r) == id })
				history = append(history, vcfmt.Sprintf("delete %s id=%d (exists: %v, allowed by references: %v)", tb.Go, id, idx >= 0, allowed))
				got, err := tb.Delete(db, id)
				if idx < 0 {
					if err != vcsql.ErrNoRows {
						fail("Delete%sById(%d): missing row, expected sql.ErrNoRows, got %+v, %v", tb.Go, id, got, err)
					}
					return
				}
				if !allowed {
					if vcErrClass(err) != "foreign_key" {
						fail("Delete%sById(%d) of a row referenced without ON DELETE action: expected a foreign key violation, got %v", tb.Go, id, err)
					}
					return
				}
				if err != nil {
					fail("Delete%sById(%d) failed: %v", tb.Go, id, err)
				}
				if !vcRowsEqual(got, want) {
					fail("Delete%sById(%d) returned %+v, the model had %+v", tb.Go, id, got, want)
				}
				model = next
				stats["write"]++
			},
			"deleteMany": func(_ *vcrapid.T) {
				tb := pickTable(func(t *vcTable) bool { return t.Primary })
				ids := someIDs(tb)
				next, removed, allowed := model.deleteWhere(tb, func(r any) bool { return inIDs(ids, vcID(tb, r)) })
				history = append(history, vcfmt.Sprintf("deleteMany %s ids=%v (allowed: %v)", tb.Go, ids, allowed))
				got, err := tb.DeleteMany(db, ids)
				if !allowed {
					if vcErrClass(err) != "foreign_key" {
						fail("Delete%ssByIDs(%v) with referenced rows: expected a foreign key violation, got %v", tb.Go, ids, err)
					}
					return
				}
				if err != nil {
					fail("Delete%ssByIDs(%v) failed: %v", tb.Go, ids, err)
				}
				var want []int64
				for _, r := range removed {
					want = append(want, vcID(tb, r))
				}
				vcsort.Slice(got, func(i, j int) bool { return got[i] < got[j] })
				vcsort.Slice(want, func(i, j int) bool { return want[i] < want[j] })
				if vcfmt.Sprint(got) != vcfmt.Sprint(want) {
					fail("Delete%ssByIDs(%v) returned ids %v, the model removed %v", tb.Go, ids, got, want)
				}
				model = next
			},
			"linkDelete": func(_ *vcrapid.T) {
				tb := pickTable(func(t *vcTable) bool { return !t.Primary && len(t.FKs) > 0 })
				var item any
				if rows := model.rows[tb.Go]; len(rows) > 0 && vcrapid.IntRange(0, 3).Draw(rt, "fromRow") != 0 {
					item = rows[vcrapid.IntRange(0, len(rows)-1).Draw(rt, "row")]
				} else {
					item = newRow(tb)
				}
				history = append(history, vcfmt.Sprintf("linkDelete %s %+v", tb.Go, item))
				next, _, _ := model.deleteWhere(tb, func(r any) bool {
					for _, fk := range tb.FKs {
						a, av := vcFKGet(r, fk.Field)
						b, bv := vcFKGet(item, fk.Field)
						if av != bv || (av && a != b) {
							return false
						}
					}
					return true
				})
				if err := tb.LinkDelete(db, item); err != nil {
					fail("(%s).Delete failed: %v", tb.Go, err)
				}
				model = next
				got, err := tb.SelectAll(db)
				if err != nil {
					fail("SelectAll%ss failed: %v", tb.Go, err)
				}
				if d := vcSameMultiset(got, model.rows[tb.Go]); d != "" {
					fail("after (%s).Delete: %s", tb.Go, d)
				}
				stats["write"]++
			},
			"insertMany": func(_ *vcrapid.T) {
				tb := pickTable(func(t *vcTable) bool { return !t.Primary && t.InsertMany != nil })
				n := vcrapid.IntRange(0, 3).Draw(rt, "nRows")
				var rows []any
				tmp := model.clone()
				conflict := false
				for i := 0; i < n; i++ {
					r := newRow(tb)
					if tmp.uniqueConflict(tb, r, -1) {
						conflict = true
					}
					tmp.rows[tb.Go] = append(tmp.rows[tb.Go], r)
					rows = append(rows, r)
				}
				history = append(history, vcfmt.Sprintf("insertMany %s %+v (unique conflict expected: %v)", tb.Go, rows, conflict))
				tx, err := db.Begin()
				if err != nil {
					fail("begin: %v", err)
				}
				err = tb.InsertMany(tx, rows)
				if conflict {
					tx.Rollback()
					if vcErrClass(err) != "unique" {
						fail("InsertMany%ss with a duplicate key: expected a unique violation, got %v", tb.Go, err)
					}
					return
				}
				if err != nil {
					tx.Rollback()
					fail("InsertMany%ss failed: %v", tb.Go, err)
				}
				if err := tx.Commit(); err != nil {
					fail("commit: %v", err)
				}
				model = tmp
				stats["insert"] += n
			},
			"byForeignKey": func(_ *vcrapid.T) {
				tb := pickTable(func(t *vcTable) bool { return len(t.FKs) > 0 })
				fk := tb.FKs[vcrapid.IntRange(0, len(tb.FKs)-1).Draw(rt, "fk")]
				keys := someIDs(vcTableByName(fk.Target))
				match := func(r any) bool {
					k, valid := vcFKGet(r, fk.Field)
					return valid && inIDs(keys, k)
				}
				switch vcrapid.IntRange(0, 2).Draw(rt, "fkOp") {
				case 0:
					history = append(history, vcfmt.Sprintf("select %s by %s in %v", tb.Go, fk.Field, keys))
					got, err := fk.SelectBy(db, keys)
					if err != nil {
						fail("Select%ssBy%ss(%v) failed: %v", tb.Go, fk.Field, keys, err)
					}
					var want []any
					for _, r := range model.rows[tb.Go] {
						if match(r) {
							want = append(want, r)
						}
					}
					if d := vcSameMultiset(got, want); d != "" {
						fail("Select%ssBy%ss(%v): %s", tb.Go, fk.Field, keys, d)
					}
				case 1:
					next, removed, allowed := model.deleteWhere(tb, match)
					history = append(history, vcfmt.Sprintf("delete %s by %s in %v (allowed: %v)", tb.Go, fk.Field, keys, allowed))
					gotRows, gotIDs, err := fk.DeleteBy(db, keys)
					if !allowed {
						if vcErrClass(err) != "foreign_key" {
							fail("Delete%ssBy%ss(%v) with referenced rows: expected a foreign key violation, got %v", tb.Go, fk.Field, keys, err)
						}
						return
					}
					if err != nil {
						fail("Delete%ssBy%ss(%v) failed: %v", tb.Go, fk.Field, keys, err)
					}
					if tb.Primary {
						var want []int64
						for _, r := range removed {
							want = append(want, vcID(tb, r))
						}
						vcsort.Slice(gotIDs, func(i, j int) bool { return gotIDs[i] < gotIDs[j] })
						vcsort.Slice(want, func(i, j int) bool { return want[i] < want[j] })
						if vcfmt.Sprint(gotIDs) != vcfmt.Sprint(want) {
							fail("Delete%ssBy%ss(%v) returned ids %v, the model removed %v", tb.Go, fk.Field, keys, gotIDs, want)
						}
					} else if d := vcSameMultiset(gotRows, removed); d != "" {
						fail("Delete%ssBy%ss(%v): %s", tb.Go, fk.Field, keys, d)
					}
					model = next
					stats["write"]++
				default:
					if !fk.Unique || fk.SelectOneBy == nil {
						rt.Skip("not a unique foreign key")
					}
					key := someID(vcTableByName(fk.Target))
					history = append(history, vcfmt.Sprintf("selectOne %s by %s = %d", tb.Go, fk.Field, key))
					got, found, err := fk.SelectOneBy(db, key)
					if err != nil {
						fail("Select%sBy%s(%d) failed: %v", tb.Go, fk.Field, key, err)
					}
					var want any
					for _, r := range model.rows[tb.Go] {
						if k, valid := vcFKGet(r, fk.Field); valid && k == key {
							want = r
						}
					}
					if (want != nil) != found || (found && !vcRowsEqual(got, want)) {
						fail("Select%sBy%s(%d) returned %+v found=%v, the model has %+v", tb.Go, fk.Field, key, got, found, want)
					}
				}
			},
			"helpers": func(_ *vcrapid.T) {
				// the pure Go helpers of the collection types, on the current content of a table
				tb := pickTable(func(t *vcTable) bool { return t.IDsOf != nil || len(t.FKs) > 0 })
				rows := model.rows[tb.Go]
				history = append(history, "helpers "+tb.Go)
				sortInts := func(x []int64) []int64 {
					out := append([]int64(nil), x...)
					vcsort.Slice(out, func(i, j int) bool { return out[i] < out[j] })
					return out
				}
				if tb.IDsOf != nil {
					var want []int64
					for _, r := range rows {
						want = append(want, vcID(tb, r))
					}
					if got := tb.IDsOf(rows); vcfmt.Sprint(sortInts(got)) != vcfmt.Sprint(sortInts(want)) {
						fail("(%ss).IDs() returned %v for the ids %v", tb.Go, got, want)
					}
				}
				if tb.ArrayToPQ != nil || tb.SetOps != nil {
					// a list of ids with repetitions (live and foreign ones) and a probe
					n := vcrapid.IntRange(0, 6).Draw(rt, "setLen")
					ids := make([]int64, n)
					for i := range ids {
						ids[i] = int64(vcrapid.IntRange(-3, 12).Draw(rt, "setID"))
					}
					probe := int64(vcrapid.IntRange(-3, 12).Draw(rt, "setProbe"))
					if tb.ArrayToPQ != nil {
						if got := tb.ArrayToPQ(ids); len(got) != len(ids) || vcfmt.Sprint(got) != vcfmt.Sprint(ids) {
							fail("%s: <ID>ArrayToPQ(%v) = %v", tb.Go, ids, got)
						}
					}
					if tb.SetOps != nil {
						distinct := map[int64]bool{}
						for _, id := range ids {
							distinct[id] = true
						}
						keysOf := func(m map[int64]bool) []int64 {
							var out []int64
							for k := range m {
								out = append(out, k)
							}
							return sortInts(out)
						}
						size, has, keys, hasAfter, keysAfter := tb.SetOps(ids, probe)
						if size != len(distinct) || has != distinct[probe] || vcfmt.Sprint(sortInts(keys)) != vcfmt.Sprint(keysOf(distinct)) {
							fail("%s: New<ID>SetFrom(%v): size %d, Has(%d) = %v, Keys() = %v", tb.Go, ids, size, probe, has, keys)
						}
						distinct[probe] = true
						if !hasAfter || vcfmt.Sprint(sortInts(keysAfter)) != vcfmt.Sprint(keysOf(distinct)) {
							fail("%s: set of %v after Add(%d): Has = %v, Keys() = %v", tb.Go, ids, probe, hasAfter, keysAfter)
						}
					}
				}
				for _, fk := range tb.FKs {
					if fk.KeysOf != nil {
						var want []int64
						for _, r := range rows {
							k, _ := vcFKGet(r, fk.Field)
							want = append(want, k)
						}
						if got := fk.KeysOf(rows); vcfmt.Sprint(sortInts(got)) != vcfmt.Sprint(sortInts(want)) {
							fail("(%ss).%ss() returned %v, expected %v", tb.Go, fk.Field, got, want)
						}
					}
					if fk.ByKey != nil && !fk.Unique {
						got := fk.ByKey(rows)
						want := map[int64][]any{}
						for _, r := range rows {
							k, _ := vcFKGet(r, fk.Field)
							want[k] = append(want[k], r)
						}
						if len(got) != len(want) {
							fail("(%ss).By%s() has %d keys, expected %d", tb.Go, fk.Field, len(got), len(want))
						}
						for k, w := range want {
							if d := vcSameMultiset(got[k], w); d != "" {
								fail("(%ss).By%s()[%d]: %s", tb.Go, fk.Field, k, d)
							}
						}
					}
				}
			},
			"customQuery": func(_ *vcrapid.T) {
				tb := pickTable(func(t *vcTable) bool { return len(t.Queries) > 0 })
				q := tb.Queries[vcrapid.IntRange(0, len(tb.Queries)-1).Draw(rt, "query")]
				whereKey := vcKey{Fields: []string{q.Where}}
				where := keyArgs(tb, whereKey)
				match := matchKey(tb, whereKey, where)
				if q.Set == "" {
					next, _, allowed := model.deleteWhere(tb, match)
					history = append(history, vcfmt.Sprintf("%s(%v) (delete, allowed: %v)", q.Name, where[0], allowed))
					err := q.Exec(db, nil, where[0])
					if !allowed {
						if vcErrClass(err) != "foreign_key" {
							fail("%s(%v) with referenced rows: expected a foreign key violation, got %v", q.Name, where[0], err)
						}
						return
					}
					if err != nil {
						fail("%s(%v) failed: %v", q.Name, where[0], err)
					}
					model = next
				} else {
					set := keyArgs(tb, vcKey{Fields: []string{q.Set}})
					history = append(history, vcfmt.Sprintf("%s(%v, %v) (update)", q.Name, set[0], where[0]))
					if err := q.Exec(db, set[0], where[0]); err != nil {
						fail("%s(%v, %v) failed: %v", q.Name, set[0], where[0], err)
					}
					next := model.clone()
					rows := next.rows[tb.Go]
					for i, r := range rows {
						if match(r) {
							rows[i] = vcSetField(r, q.Set, func(f vcreflect.Value) { f.Set(vcreflect.ValueOf(set[0])) })
						}
					}
					model = next
				}
				got, err := tb.SelectAll(db)
				if err != nil {
					fail("SelectAll%ss after %s failed: %v", tb.Go, q.Name, err)
				}
				if d := vcSameMultiset(got, model.rows[tb.Go]); d != "" {
					fail("content of %s after %s: %s", tb.SQL, q.Name, d)
				}
				stats["write"]++
			},
			"byKey": func(_ *vcrapid.T) {
				tb := pickTable(func(t *vcTable) bool { return len(t.Keys) > 0 })
				k := tb.Keys[vcrapid.IntRange(0, len(tb.Keys)-1).Draw(rt, "key")]
				args := keyArgs(tb, k)
				match := matchKey(tb, k, args)
				var want []any
				for _, r := range model.rows[tb.Go] {
					if match(r) {
						want = append(want, r)
					}
				}
				switch {
				case k.SelectOne != nil:
					history = append(history, vcfmt.Sprintf("selectOne %s by %v = %v", tb.Go, k.Fields, args))
					got, found, err := k.SelectOne(db, args)
					if err != nil {
						fail("Select%sBy%s(%v) failed: %v", tb.Go, vcstrings.Join(k.Fields, "And"), args, err)
					}
					if found != (len(want) > 0) || (found && !vcRowsEqual(got, want[0])) {
						fail("Select%sBy%s(%v) returned %+v found=%v, the model has %+v", tb.Go, vcstrings.Join(k.Fields, "And"), args, got, found, want)
					}
				case k.SelectBy != nil && vcrapid.Bool().Draw(rt, "keySelect"):
					history = append(history, vcfmt.Sprintf("select %s by key %v = %v", tb.Go, k.Fields, args))
					got, err := k.SelectBy(db, args)
					if err != nil {
						fail("Select%ssBy%s(%v) failed: %v", tb.Go, vcstrings.Join(k.Fields, "And"), args, err)
					}
					if d := vcSameMultiset(got, want); d != "" {
						fail("Select%ssBy%s(%v): %s", tb.Go, vcstrings.Join(k.Fields, "And"), args, d)
					}
				case k.DeleteBy != nil:
					next, removed, allowed := model.deleteWhere(tb, match)
					history = append(history, vcfmt.Sprintf("delete %s by key %v = %v (allowed: %v)", tb.Go, k.Fields, args, allowed))
					got, err := k.DeleteBy(db, args)
					if !allowed {
						if vcErrClass(err) != "foreign_key" {
							fail("Delete%ssBy%s(%v) with referenced rows: expected a foreign key violation, got %v", tb.Go, vcstrings.Join(k.Fields, "And"), args, err)
						}
						return
					}
					if err != nil {
						fail("Delete%ssBy%s(%v) failed: %v", tb.Go, vcstrings.Join(k.Fields, "And"), args, err)
					}
					if d := vcSameMultiset(got, removed); d != "" {
						fail("Delete%ssBy%s(%v): %s", tb.Go, vcstrings.Join(k.Fields, "And"), args, d)
					}
					model = next
					stats["write"]++
				default:
					rt.Skip("no function for this key")
				}
			},
		}
		rt.Repeat(actions)
		// final full scan
		for _, tb := range vcTables {
			got, err := tb.SelectAll(db)
			if err != nil {
				fail("final SelectAll%ss failed: %v", tb.Go, err)
			}
			if d := vcSameMultiset(got, model.rows[tb.Go]); d != "" {
				fail("final scan of %s: %s", tb.SQL, d)
			}
		}
		histories++
		vcEmit(map[string]any{"history_ok": len(history), "stats": stats, "nontrivial": stats["insert"] > 0 && stats["read"] > 0 && stats["write"] > 0, "sample": history})
	})
	vcEmit(map[string]any{"done": true, "histories": histories})
}
`
