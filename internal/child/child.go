// Package child builds and runs the synthesised package together with gomacro's
// Go output and a generic reflection harness (harness_tmpl.go) in a scratch
// module, and hands the harness' JSONL report back.
package child

import (
	"bufio"
	"bytes"
	"context"
	"encoding/json"
	"fmt"
	"os"
	"os/exec"
	"path/filepath"
	"regexp"
	"sort"
	"strings"
	"text/template"
	"time"

	"verif/internal/synth"
)

type typeEntry struct {
	Name, Expr string
	Wrapper    bool
}
type unionEntry struct {
	Expr    string
	Members []string
}
type enumEntry struct {
	Expr          string
	All, Exported []string
}
type tmplData struct {
	Pkg      string
	Imports  []string
	Types    []typeEntry
	Unions   []unionEntry
	Enums    []enumEntry
	UserJSON []string
	Rand     []string
}

var reRand = regexp.MustCompile(`(?m)^\s*func rand(\w+)\(\)`)

// Options of one child run.
type Options struct {
	Extra     map[string]string // extra files of the root package (generated code), name -> content
	Mode      string            // "docs", "rand", "docs rand"
	Seed      int64
	Checks    int
	RandFile  string // content of the randdata output (to list the functions), "" = none
	UnionsOut string // content of the gounions output (to know which wrappers exist)
	Timeout   time.Duration
	NeedPQ    bool
	TypeNames []string // when set: exactly these root-package types are exercised (instead of the analysed file's declarations)
	// ExtraTests: additional _test.go files of the root package
	ExtraTests map[string]string
	TestRun    string // -test.run pattern, default TestVerifHarness
	ExtraEnv   []string
	ExtraArgs  []string
}

// Result of a child run.
type Result struct {
	BuildErr string // non-empty: the child did not compile
	ExitCode int
	TimedOut bool
	Output   string // combined stdout/stderr (tail)
	Records  []map[string]any
	Dir      string
}

func isExported(name string) bool { return name != "" && name[0] >= 'A' && name[0] <= 'Z' }

// Harness renders the harness test file for the spec.
func Harness(spec *synth.Spec, o Options) (string, error) {
	root := spec.Root()
	d := tmplData{Pkg: root.Name}
	imports := map[string]bool{}
	qual := func(p *synth.Pkg, name string) string {
		if p == root {
			return name
		}
		imports[fmt.Sprintf("%s %q", p.Name, p.Path)] = true
		return p.Name + "." + name
	}
	unions := spec.Unions()
	// only the declarations of the analysed file are exercised directly (generated code exists for
	// what is reachable from them; other types of the package are reached through fields)
	for _, tn := range o.TypeNames {
		d.Types = append(d.Types, typeEntry{Name: tn, Expr: tn})
	}
	for _, f := range root.Files[:1] {
		if f.Src != "" || o.TypeNames != nil {
			continue
		}
		for _, dcl := range f.Decls {
			switch dcl.Kind {
			case synth.KStruct, synth.KNamed, synth.KEnum:
				d.Types = append(d.Types, typeEntry{Name: dcl.Name, Expr: dcl.Name})
			case synth.KUnion:
				if strings.Contains(o.UnionsOut, "type "+dcl.Name+"Wrapper struct") {
					d.Types = append(d.Types, typeEntry{Name: dcl.Name, Expr: dcl.Name + "Wrapper", Wrapper: true})
				}
			}
		}
	}
	for _, p := range spec.Pkgs {
		for _, f := range p.Files {
			for _, dcl := range f.Decls {
				if p != root && !isExported(dcl.Name) {
					continue
				}
				switch dcl.Kind {
				case synth.KUnion:
					u := unions[p.Path][dcl.Name]
					if u == nil || len(u.Members) == 0 {
						continue
					}
					ue := unionEntry{Expr: qual(p, dcl.Name)}
					ok := true
					for _, m := range u.Members {
						if p != root && !isExported(m) {
							ok = false
						}
						ue.Members = append(ue.Members, qual(p, m))
					}
					if ok {
						d.Unions = append(d.Unions, ue)
					}
				case synth.KNamed:
					if dcl.TimeLike {
						d.UserJSON = append(d.UserJSON, qual(p, dcl.Name))
					}
				}
			}
		}
		enums := spec.Enums()[p.Path]
		var names []string
		for n := range enums {
			names = append(names, n)
		}
		sort.Strings(names)
		for _, n := range names {
			e := enums[n]
			if len(e.Members) == 0 || (p != root && !isExported(n)) {
				continue
			}
			ee := enumEntry{Expr: qual(p, n)}
			for _, m := range e.Members {
				if p == root {
					ee.All = append(ee.All, m.Name)
				} else if isExported(m.Name) {
					ee.All = append(ee.All, p.Name+"."+m.Name)
				}
				if isExported(m.Name) {
					ee.Exported = append(ee.Exported, qual(p, m.Name))
				}
			}
			if len(ee.All) > 0 {
				d.Enums = append(d.Enums, ee)
			}
		}
	}
	if o.RandFile != "" {
		for _, m := range reRand.FindAllStringSubmatch(o.RandFile, -1) {
			d.Rand = append(d.Rand, m[1])
		}
	}
	for imp := range imports {
		d.Imports = append(d.Imports, imp)
	}
	sort.Strings(d.Imports)
	tmpl, err := template.New("h").Parse(harnessTmpl)
	if err != nil {
		return "", err
	}
	var buf bytes.Buffer
	if err := tmpl.Execute(&buf, d); err != nil {
		return "", err
	}
	return buf.String(), nil
}

// GoCache is the dedicated build cache of child programs.
func GoCache() string {
	home, _ := os.UserHomeDir()
	return filepath.Join(home, ".cache", "verif-gocache")
}

func childEnv(extra ...string) []string {
	env := []string{}
	for _, e := range os.Environ() {
		if strings.HasPrefix(e, "GOFLAGS=") || strings.HasPrefix(e, "GOCACHE=") || strings.HasPrefix(e, "GOPROXY=") {
			continue
		}
		env = append(env, e)
	}
	env = append(env, "GOFLAGS=-mod=mod", "GOPROXY=off", "GOSUMDB=off", "GOTOOLCHAIN=local", "GOCACHE="+GoCache())
	return append(env, extra...)
}

// WriteModule writes the spec + extra files as a buildable module under dir.
func WriteModule(spec *synth.Spec, dir string, o Options) error {
	rs, err := spec.Render()
	if err != nil {
		return err
	}
	gomod := "module " + spec.ModulePath() + "\n\ngo 1.23.0\n\nrequire pgregory.net/rapid v1.3.0\n"
	if o.NeedPQ {
		gomod += "\nrequire github.com/lib/pq v0.0.0\nrequire verif v0.0.0\nreplace verif => /verif\nreplace github.com/lib/pq => /verif/engine/pq\nreplace github.com/benoitkugler/gomacro => /repo\n"
	}
	if err := os.MkdirAll(dir, 0o755); err != nil {
		return err
	}
	if err := os.WriteFile(filepath.Join(dir, "go.mod"), []byte(gomod), 0o644); err != nil {
		return err
	}
	sum, _ := os.ReadFile("/verif/go.sum")
	os.WriteFile(filepath.Join(dir, "go.sum"), sum, 0o644)
	for _, r := range rs {
		d := filepath.Join(dir, r.Dir)
		os.MkdirAll(d, 0o755)
		if err := os.WriteFile(filepath.Join(d, r.Name), []byte(r.Src), 0o644); err != nil {
			return err
		}
	}
	rootDir := filepath.Join(dir, spec.Root().Dir())
	for n, c := range o.Extra {
		if err := os.WriteFile(filepath.Join(rootDir, n), []byte(c), 0o644); err != nil {
			return err
		}
	}
	for n, c := range o.ExtraTests {
		if err := os.WriteFile(filepath.Join(rootDir, n), []byte(c), 0o644); err != nil {
			return err
		}
	}
	return nil
}

// Run builds and runs the child in a fresh scratch directory under base (removed afterwards).
func Run(spec *synth.Spec, base string, o Options) (*Result, error) {
	dir, err := os.MkdirTemp(base, "child-")
	if err != nil {
		return nil, err
	}
	defer os.RemoveAll(dir)
	if o.ExtraTests == nil {
		o.ExtraTests = map[string]string{}
	}
	if _, has := o.ExtraTests["zz_verif_harness_test.go"]; !has && o.TestRun == "" {
		hs, err := Harness(spec, o)
		if err != nil {
			return nil, err
		}
		o.ExtraTests["zz_verif_harness_test.go"] = hs
	}
	if err := WriteModule(spec, dir, o); err != nil {
		return nil, err
	}
	res := &Result{Dir: dir}
	bin := filepath.Join(dir, "child.test")
	build := exec.Command("go", "test", "-c", "-vet=off", "-o", bin, "./"+spec.Root().Dir())
	build.Dir = dir
	build.Env = childEnv()
	if out, err := build.CombinedOutput(); err != nil {
		res.BuildErr = strings.ReplaceAll(string(out), dir+"/", "")
		if res.BuildErr == "" {
			res.BuildErr = err.Error()
		}
		return res, nil
	}
	if o.Timeout == 0 {
		o.Timeout = 120 * time.Second
	}
	if o.Checks == 0 {
		o.Checks = 30
	}
	outFile := filepath.Join(dir, "report.jsonl")
	ctx, cancel := context.WithTimeout(context.Background(), o.Timeout)
	defer cancel()
	run := o.TestRun
	if run == "" {
		run = "TestVerifHarness"
	}
	args := []string{"-test.run", "^" + run + "$", "-test.timeout", "0", "-rapid.checks", fmt.Sprint(o.Checks), "-rapid.seed", fmt.Sprint(o.Seed), "-rapid.nofailfile", "-rapid.shrinktime", "5s"}
	args = append(args, o.ExtraArgs...)
	cmd := exec.CommandContext(ctx, bin, args...)
	cmd.Dir = filepath.Join(dir, spec.Root().Dir())
	cmd.Env = childEnv(append([]string{"VH_OUT=" + outFile, "VH_MODE=" + o.Mode}, o.ExtraEnv...)...)
	var ob bytes.Buffer
	cmd.Stdout, cmd.Stderr = &ob, &ob
	err = cmd.Run()
	if ctx.Err() != nil {
		res.TimedOut = true
	}
	if err != nil {
		if ee, ok := err.(*exec.ExitError); ok {
			res.ExitCode = ee.ExitCode()
		} else {
			res.ExitCode = -1
		}
	}
	outS := ob.String()
	if len(outS) > 6000 {
		outS = outS[:3000] + "\n…\n" + outS[len(outS)-3000:]
	}
	res.Output = outS
	if f, err := os.Open(outFile); err == nil {
		sc := bufio.NewScanner(f)
		sc.Buffer(make([]byte, 1<<20), 64<<20)
		for sc.Scan() {
			var rec map[string]any
			dec := json.NewDecoder(bytes.NewReader(sc.Bytes()))
			dec.UseNumber()
			if dec.Decode(&rec) == nil {
				res.Records = append(res.Records, rec)
			}
		}
		f.Close()
	}
	return res, nil
}
