package child

// harnessTmpl is the test file added to the synthesised package *after* gomacro
// ran. It is generic (reflection + tables rendered from the Spec).
const harnessTmpl = `package {{.Pkg}}

import (
	vhbytes "bytes"
	vhbase64 "encoding/base64"
	vhjson "encoding/json"
	vhfmt "fmt"
	vhmath "math"
	vhos "os"
	vhreflect "reflect"
	vhdebug "runtime/debug"
	vhsort "sort"
	vhstrconv "strconv"
	vhstrings "strings"
	vhtesting "testing"
	vhtime "time"
	vhunsafe "unsafe"

	vhrapid "pgregory.net/rapid"
{{range .Imports}}	{{.}}
{{end}})

var _ = vhmath.Abs
var _ = vhtime.Now
var _ = vhbase64.StdEncoding
var _ = vhstrconv.Itoa
var _ = vhstrings.Join
var _ = vhsort.Strings

type vhTypeEntry struct {
	Name    string
	T       vhreflect.Type
	Wrapper bool // a union exercised through its generated <U>Wrapper
}

var vhTypes = []vhTypeEntry{
{{range .Types}}	{Name: {{printf "%q" .Name}}, T: vhreflect.TypeOf((*{{.Expr}})(nil)).Elem(), Wrapper: {{.Wrapper}}},
{{end}}}

// union interface type -> member types
var vhUnions = map[vhreflect.Type][]vhreflect.Type{
{{range .Unions}}	vhreflect.TypeOf((*{{.Expr}})(nil)).Elem(): {
{{range .Members}}		vhreflect.TypeOf((*{{.}})(nil)).Elem(),
{{end}}	},
{{end}}}

// enum type -> declared constants (all members) and exported ones
var vhEnums = map[vhreflect.Type][]vhreflect.Value{
{{range .Enums}}	vhreflect.TypeOf((*{{.Expr}})(nil)).Elem(): { {{range .All}}vhreflect.ValueOf({{.}}), {{end}} },
{{end}}}

var vhEnumsExported = map[vhreflect.Type][]vhreflect.Value{
{{range .Enums}}	vhreflect.TypeOf((*{{.Expr}})(nil)).Elem(): { {{range .Exported}}vhreflect.ValueOf({{.}}), {{end}} },
{{end}}}

// types with user-written JSON methods emitting a string (time-like types)
var vhUserJSON = map[vhreflect.Type]bool{
{{range .UserJSON}}	vhreflect.TypeOf((*{{.}})(nil)).Elem(): true,
{{end}}}

// generated random-data functions
var vhRand = []struct {
	Name string
	F    func() any
}{
{{range .Rand}}	{ {{printf "%q" .}}, func() any { return rand{{.}}() } },
{{end}}}

var vhTimeType = vhreflect.TypeOf(vhtime.Time{})

// ---------------------------------------------------------------------------
// output

var vhOut *vhos.File

const vhHangAfter = 45 * vhtime.Second

func vhEmit(rec map[string]any) {
	b, err := vhjson.Marshal(rec)
	if err != nil {
		b, _ = vhjson.Marshal(map[string]any{"inconc": "cannot encode record: " + err.Error()})
	}
	vhOut.Write(append(b, '\n'))
}

// ---------------------------------------------------------------------------
// value generator

var vhStrings = []string{"", "a", "hello world", "héllo wörld", "<b>&amp;</b>", "quote\"s and 'single'", "日本語", "line\nbreak", "tab\t", "back\\slash", "😀"}

type vhGen struct {
	t    *vhrapid.T
	full bool // every component non-zero / non-empty (used for the key-set ground truth)
	// statistics of the generated value
	unions, nilCont, enums int
	abort                  bool // a union nested too deep could not be closed with a union-free member: the value is discarded
}

func (g *vhGen) value(typ vhreflect.Type, depth int) vhreflect.Value {
	v := vhreflect.New(typ).Elem()
	g.fill(v, depth)
	return v
}

func (g *vhGen) intIn(lo, hi int64, label string) int64 {
	if g.full {
		return 7
	}
	switch vhrapid.IntRange(0, 5).Draw(g.t, label+"Sel") {
	case 0:
		return 0
	case 1:
		return hi
	case 2:
		return lo
	}
	if hi > 1000 {
		hi = 1000
	}
	if lo < -1000 {
		lo = -1000
	}
	return int64(vhrapid.IntRange(int(lo), int(hi)).Draw(g.t, label))
}

func (g *vhGen) fill(v vhreflect.Value, depth int) {
	typ := v.Type()
	if consts, ok := vhEnums[typ]; ok && len(consts) > 0 {
		g.enums++
		if !g.full {
			v.Set(consts[vhrapid.IntRange(0, len(consts)-1).Draw(g.t, "enum")])
			return
		}
		// full mode only serves as ground truth for key sets: any non-zero value will do
		for _, c := range consts {
			if !c.IsZero() {
				v.Set(c)
				return
			}
		}
	}
	if typ == vhTimeType || (typ.Kind() == vhreflect.Struct && typ.ConvertibleTo(vhTimeType) && vhUserJSON[typ]) {
		secs := int64(1700000000)
		if !g.full {
			secs = int64(vhrapid.IntRange(0, 2000000000).Draw(g.t, "unix"))
		}
		tt := vhtime.Unix(secs, 0).UTC()
		if vhstrings.Contains(vhstrings.ToLower(typ.Name()), "date") {
			y, m, d := tt.Date()
			tt = vhtime.Date(y, m, d, 0, 0, 0, 0, vhtime.UTC)
		}
		v.Set(vhreflect.ValueOf(tt).Convert(typ))
		return
	}
	switch typ.Kind() {
	case vhreflect.Bool:
		if g.full {
			v.SetBool(true)
		} else {
			v.SetBool(vhrapid.Bool().Draw(g.t, "bool"))
		}
	case vhreflect.Int:
		v.SetInt(g.intIn(vhmath.MinInt32, vhmath.MaxInt32, "int"))
	case vhreflect.Int8:
		v.SetInt(g.intIn(vhmath.MinInt8, vhmath.MaxInt8, "int8"))
	case vhreflect.Int16:
		v.SetInt(g.intIn(vhmath.MinInt16, vhmath.MaxInt16, "int16"))
	case vhreflect.Int32:
		v.SetInt(g.intIn(vhmath.MinInt32, vhmath.MaxInt32, "int32"))
	case vhreflect.Int64:
		v.SetInt(g.intIn(vhmath.MinInt64, vhmath.MaxInt64, "int64"))
	case vhreflect.Uint, vhreflect.Uint32:
		v.SetUint(uint64(g.intIn(0, vhmath.MaxUint32, "uint")))
	case vhreflect.Uint8:
		v.SetUint(uint64(g.intIn(0, vhmath.MaxUint8, "uint8")))
	case vhreflect.Uint16:
		v.SetUint(uint64(g.intIn(0, vhmath.MaxUint16, "uint16")))
	case vhreflect.Uint64:
		v.SetUint(uint64(g.intIn(0, vhmath.MaxInt64, "uint64")))
	case vhreflect.Float32, vhreflect.Float64:
		fs := []float64{1.5, 0, -2.25, 1000000, 0.125, 3, -0.5, 65504}
		i := 0
		if !g.full {
			i = vhrapid.IntRange(0, len(fs)-1).Draw(g.t, "float")
		}
		v.SetFloat(fs[i])
	case vhreflect.String:
		i := 1
		if !g.full {
			i = vhrapid.IntRange(0, len(vhStrings)-1).Draw(g.t, "string")
		}
		v.SetString(vhStrings[i])
	case vhreflect.Interface:
		members := vhUnions[typ]
		if len(members) == 0 {
			return // not a known union: leave nil
		}
		i := 0
		if !g.full {
			i = vhrapid.IntRange(0, len(members)-1).Draw(g.t, "member")
		}
		if depth > 6 {
			// recursive unions: close the value with a member that holds no union
			i = -1
			for k, m := range members {
				if !vhHasUnion(m, map[vhreflect.Type]bool{}) {
					i = k
					break
				}
			}
			if i < 0 {
				g.abort = true
				return
			}
		}
		g.unions++
		v.Set(g.value(members[i], depth+1))
	case vhreflect.Struct:
		for i := 0; i < typ.NumField(); i++ {
			f := typ.Field(i)
			if f.Anonymous && !f.IsExported() && f.Type.Kind() == vhreflect.Struct && v.Field(i).CanAddr() {
				// exported fields of an unexported embedded struct are visible to encoding/json
				g.fill(vhreflect.NewAt(f.Type, vhunsafe.Pointer(v.Field(i).UnsafeAddr())).Elem(), depth+1)
				continue
			}
			if !v.Field(i).CanSet() {
				continue // unexported: stays zero
			}
			if name, _, _ := vhstrings.Cut(f.Tag.Get("json"), ","); name == "-" && f.Tag.Get("json") == "-" {
				continue // invisible to encoding/json: stays zero
			}
			g.fill(v.Field(i), depth+1)
		}
	case vhreflect.Slice:
		n := 1
		if !g.full {
			switch vhrapid.IntRange(0, 5).Draw(g.t, "sliceShape") {
			case 0:
				g.nilCont++
				return // nil
			case 1:
				v.Set(vhreflect.MakeSlice(typ, 0, 0))
				g.nilCont++
				return
			}
			n = vhrapid.IntRange(1, 3).Draw(g.t, "sliceLen")
		}
		if depth > 5 {
			n = 0
		}
		s := vhreflect.MakeSlice(typ, n, n)
		for i := 0; i < n; i++ {
			g.fill(s.Index(i), depth+1)
		}
		v.Set(s)
	case vhreflect.Array:
		for i := 0; i < typ.Len(); i++ {
			g.fill(v.Index(i), depth+1)
		}
	case vhreflect.Map:
		n := 1
		if !g.full {
			switch vhrapid.IntRange(0, 5).Draw(g.t, "mapShape") {
			case 0:
				g.nilCont++
				return
			case 1:
				v.Set(vhreflect.MakeMap(typ))
				g.nilCont++
				return
			}
			n = vhrapid.IntRange(1, 3).Draw(g.t, "mapLen")
		}
		if depth > 5 {
			n = 0
		}
		m := vhreflect.MakeMap(typ)
		for i := 0; i < n; i++ {
			k := vhreflect.New(typ.Key()).Elem()
			g.fill(k, depth+1)
			e := vhreflect.New(typ.Elem()).Elem()
			g.fill(e, depth+1)
			m.SetMapIndex(k, e)
		}
		v.Set(m)
	case vhreflect.Ptr:
		if !g.full && vhrapid.Bool().Draw(g.t, "nilPtr") || depth > 5 {
			return
		}
		p := vhreflect.New(typ.Elem())
		g.fill(p.Elem(), depth+1)
		v.Set(p)
	}
}

// ---------------------------------------------------------------------------
// equality modulo nil/empty containers

// vhIgnoreJSONDash is set while values of the random-data functions are compared after a JSON round trip:
// those functions also fill fields tagged json:"-", which cannot come back.
var vhIgnoreJSONDash bool

func vhEqual(a, b vhreflect.Value) bool {
	if a.Type() != b.Type() {
		return false
	}
	typ := a.Type()
	if typ == vhTimeType || (typ.Kind() == vhreflect.Struct && typ.ConvertibleTo(vhTimeType) && vhUserJSON[typ]) {
		return a.Convert(vhTimeType).Interface().(vhtime.Time).Equal(b.Convert(vhTimeType).Interface().(vhtime.Time))
	}
	switch typ.Kind() {
	case vhreflect.Interface:
		if a.IsNil() || b.IsNil() {
			return a.IsNil() == b.IsNil()
		}
		return vhEqual(a.Elem(), b.Elem())
	case vhreflect.Ptr:
		if a.IsNil() || b.IsNil() {
			return a.IsNil() == b.IsNil()
		}
		return vhEqual(a.Elem(), b.Elem())
	case vhreflect.Struct:
		for i := 0; i < typ.NumField(); i++ {
			f := typ.Field(i)
			af, bf := a.Field(i), b.Field(i)
			if !f.IsExported() {
				if !f.Anonymous || f.Type.Kind() != vhreflect.Struct || !af.CanAddr() || !bf.CanAddr() {
					continue // invisible to encoding/json and never set by the generator
				}
				af = vhreflect.NewAt(f.Type, vhunsafe.Pointer(af.UnsafeAddr())).Elem()
				bf = vhreflect.NewAt(f.Type, vhunsafe.Pointer(bf.UnsafeAddr())).Elem()
			}
			if vhIgnoreJSONDash && f.Tag.Get("json") == "-" {
				continue // not on the wire: nothing to compare after a JSON round trip
			}
			if !vhEqual(af, bf) {
				return false
			}
		}
		return true
	case vhreflect.Slice:
		if a.Len() != b.Len() {
			return false
		}
		for i := 0; i < a.Len(); i++ {
			if !vhEqual(a.Index(i), b.Index(i)) {
				return false
			}
		}
		return true
	case vhreflect.Array:
		for i := 0; i < a.Len(); i++ {
			if !vhEqual(a.Index(i), b.Index(i)) {
				return false
			}
		}
		return true
	case vhreflect.Map:
		if a.Len() != b.Len() {
			return false
		}
		it := a.MapRange()
		for it.Next() {
			bv := b.MapIndex(it.Key())
			if !bv.IsValid() || !vhEqual(it.Value(), bv) {
				return false
			}
		}
		return true
	case vhreflect.Bool:
		return a.Bool() == b.Bool()
	case vhreflect.String:
		return a.String() == b.String()
	case vhreflect.Float32, vhreflect.Float64:
		return a.Float() == b.Float()
	case vhreflect.Int, vhreflect.Int8, vhreflect.Int16, vhreflect.Int32, vhreflect.Int64:
		return a.Int() == b.Int()
	case vhreflect.Uint, vhreflect.Uint8, vhreflect.Uint16, vhreflect.Uint32, vhreflect.Uint64:
		return a.Uint() == b.Uint()
	}
	return vhreflect.DeepEqual(a.Interface(), b.Interface())
}

// ---------------------------------------------------------------------------
// reference encoder: the documented encoding/json rules on the *original* types,
// plus {"Kind": <member type name>, "Data": <member's JSON>} for union components.
// It never calls the generated MarshalJSON methods.

type vhObj struct {
	Keys []string
	Vals map[string]any
}

func vhIsEmpty(v vhreflect.Value) bool {
	switch v.Kind() {
	case vhreflect.Array, vhreflect.Map, vhreflect.Slice, vhreflect.String:
		return v.Len() == 0
	case vhreflect.Bool:
		return !v.Bool()
	case vhreflect.Int, vhreflect.Int8, vhreflect.Int16, vhreflect.Int32, vhreflect.Int64:
		return v.Int() == 0
	case vhreflect.Uint, vhreflect.Uint8, vhreflect.Uint16, vhreflect.Uint32, vhreflect.Uint64:
		return v.Uint() == 0
	case vhreflect.Float32, vhreflect.Float64:
		return v.Float() == 0
	case vhreflect.Interface, vhreflect.Ptr:
		return v.IsNil()
	}
	return false
}

func vhValidTagName(name string) bool {
	if name == "" {
		return false
	}
	for _, c := range name {
		switch {
		case vhstrings.ContainsRune("!#$%&()*+-./:;<=>?@[]^_{|}~ ", c):
		case c >= '0' && c <= '9' || c >= 'a' && c <= 'z' || c >= 'A' && c <= 'Z' || c > 127:
		default:
			return false
		}
	}
	return true
}

// vhFields lists the JSON-visible fields of a struct value following encoding/json:
// promoted fields of untagged embedded structs, and Go's dominance rule for equal names
// (the shallowest wins; at equal depth a single tagged field wins, otherwise all are dropped).
func vhFields(v vhreflect.Value, out *[]vhField) {
	var all []vhField
	vhCollect(v, 0, &all)
	byName := map[string][]vhField{}
	var order []string
	for _, f := range all {
		if _, ok := byName[f.Name]; !ok {
			order = append(order, f.Name)
		}
		byName[f.Name] = append(byName[f.Name], f)
	}
	for _, name := range order {
		fs := byName[name]
		min := fs[0].Depth
		for _, f := range fs {
			if f.Depth < min {
				min = f.Depth
			}
		}
		var top, tagged []vhField
		for _, f := range fs {
			if f.Depth == min {
				top = append(top, f)
				if f.Tagged {
					tagged = append(tagged, f)
				}
			}
		}
		switch {
		case len(top) == 1:
			*out = append(*out, top[0])
		case len(tagged) == 1:
			*out = append(*out, tagged[0])
		}
	}
}

func vhCollect(v vhreflect.Value, depth int, out *[]vhField) {
	typ := v.Type()
	for i := 0; i < typ.NumField(); i++ {
		f := typ.Field(i)
		tag := f.Tag.Get("json")
		if tag == "-" {
			continue
		}
		name, opts, _ := vhstrings.Cut(tag, ",")
		if !vhValidTagName(name) {
			name = ""
		}
		if f.Anonymous {
			ft := f.Type
			if ft.Kind() == vhreflect.Ptr {
				ft = ft.Elem()
			}
			if !f.IsExported() && ft.Kind() != vhreflect.Struct {
				continue
			}
			if name == "" && ft.Kind() == vhreflect.Struct && !vhUserJSON[ft] && ft != vhTimeType && (f.Type.Kind() == vhreflect.Struct || f.IsExported()) {
				fv := v.Field(i)
				if f.Type.Kind() == vhreflect.Ptr {
					// an embedded pointer to a struct: promoted like the struct itself, nothing at all when nil
					if fv.IsNil() {
						continue
					}
					fv = fv.Elem()
				}
				vhCollect(fv, depth+1, out) // promoted
				continue
			}
		} else if !f.IsExported() {
			continue
		}
		tagged := name != ""
		if name == "" {
			name = f.Name
		}
		optList := "," + opts + ","
		*out = append(*out, vhField{Name: name, V: v.Field(i), Depth: depth, Tagged: tagged,
			Omit: vhstrings.Contains(optList, ",omitempty,"), Quoted: vhstrings.Contains(optList, ",string,")})
	}
}

type vhField struct {
	Name         string
	V            vhreflect.Value
	Omit, Quoted bool
	Depth        int
	Tagged       bool
}

func vhRef(v vhreflect.Value) any {
	typ := v.Type()
	if typ == vhTimeType || vhUserJSON[typ] {
		b, err := vhjson.Marshal(v.Interface())
		if err != nil {
			panic("reference: user JSON method failed: " + err.Error())
		}
		var out any
		dec := vhjson.NewDecoder(vhbytes.NewReader(b))
		dec.UseNumber()
		dec.Decode(&out)
		return out
	}
	switch typ.Kind() {
	case vhreflect.Interface:
		if v.IsNil() {
			return nil
		}
		return map[string]any{"Kind": v.Elem().Type().Name(), "Data": vhRef(v.Elem())}
	case vhreflect.Ptr:
		if v.IsNil() {
			return nil
		}
		return vhRef(v.Elem())
	case vhreflect.Struct:
		var fs []vhField
		vhFields(v, &fs)
		out := map[string]any{}
		for _, f := range fs {
			if f.Omit && vhIsEmpty(f.V) {
				continue
			}
			val := vhRef(f.V)
			if f.Quoted {
				switch f.V.Kind() {
				case vhreflect.Bool, vhreflect.Int, vhreflect.Int8, vhreflect.Int16, vhreflect.Int32, vhreflect.Int64,
					vhreflect.Uint, vhreflect.Uint8, vhreflect.Uint16, vhreflect.Uint32, vhreflect.Uint64, vhreflect.Float32, vhreflect.Float64, vhreflect.String:
					b, _ := vhjson.Marshal(f.V.Interface())
					val = string(b)
				}
			}
			out[f.Name] = val
		}
		return out
	case vhreflect.Map:
		if v.IsNil() {
			return nil
		}
		out := map[string]any{}
		it := v.MapRange()
		for it.Next() {
			k := it.Key()
			var ks string
			switch k.Kind() {
			case vhreflect.String:
				ks = k.String()
			case vhreflect.Int, vhreflect.Int8, vhreflect.Int16, vhreflect.Int32, vhreflect.Int64:
				ks = vhstrconv.FormatInt(k.Int(), 10)
			case vhreflect.Uint, vhreflect.Uint8, vhreflect.Uint16, vhreflect.Uint32, vhreflect.Uint64:
				ks = vhstrconv.FormatUint(k.Uint(), 10)
			default:
				panic("reference: unsupported map key kind " + k.Kind().String())
			}
			out[ks] = vhRef(it.Value())
		}
		return out
	case vhreflect.Slice:
		if v.IsNil() {
			return nil
		}
		if typ.Elem().Kind() == vhreflect.Uint8 {
			return vhbase64.StdEncoding.EncodeToString(v.Bytes())
		}
		out := make([]any, v.Len())
		for i := range out {
			out[i] = vhRef(v.Index(i))
		}
		return out
	case vhreflect.Array:
		out := make([]any, v.Len())
		for i := range out {
			out[i] = vhRef(v.Index(i))
		}
		return out
	case vhreflect.Bool:
		return v.Bool()
	case vhreflect.String:
		return v.String()
	case vhreflect.Int, vhreflect.Int8, vhreflect.Int16, vhreflect.Int32, vhreflect.Int64:
		return vhjson.Number(vhstrconv.FormatInt(v.Int(), 10))
	case vhreflect.Uint, vhreflect.Uint8, vhreflect.Uint16, vhreflect.Uint32, vhreflect.Uint64:
		return vhjson.Number(vhstrconv.FormatUint(v.Uint(), 10))
	case vhreflect.Float32:
		return vhjson.Number(vhstrconv.FormatFloat(v.Float(), 'g', -1, 32))
	case vhreflect.Float64:
		return vhjson.Number(vhstrconv.FormatFloat(v.Float(), 'g', -1, 64))
	}
	panic("reference: unsupported kind " + typ.Kind().String())
}

// vhDecodeStrict decodes JSON bytes into a tree, rejecting duplicate object keys.
func vhDecodeStrict(b []byte) (any, error) {
	dec := vhjson.NewDecoder(vhbytes.NewReader(b))
	dec.UseNumber()
	var parse func() (any, error)
	parse = func() (any, error) {
		tok, err := dec.Token()
		if err != nil {
			return nil, err
		}
		switch t := tok.(type) {
		case vhjson.Delim:
			switch t {
			case '{':
				out := map[string]any{}
				for dec.More() {
					kt, err := dec.Token()
					if err != nil {
						return nil, err
					}
					k := kt.(string)
					if _, dup := out[k]; dup {
						return nil, vhfmt.Errorf("duplicate key %q", k)
					}
					v, err := parse()
					if err != nil {
						return nil, err
					}
					out[k] = v
				}
				_, err := dec.Token()
				return out, err
			case '[':
				out := []any{}
				for dec.More() {
					v, err := parse()
					if err != nil {
						return nil, err
					}
					out = append(out, v)
				}
				_, err := dec.Token()
				return out, err
			}
		}
		return tok, nil
	}
	return parse()
}

func vhSameTree(a, b any, path string) string {
	switch x := a.(type) {
	case map[string]any:
		y, ok := b.(map[string]any)
		if !ok {
			return vhfmt.Sprintf("%s: object vs %T", path, b)
		}
		var keys []string
		for k := range x {
			keys = append(keys, k)
		}
		for k := range y {
			if _, ok := x[k]; !ok {
				keys = append(keys, k)
			}
		}
		vhsort.Strings(keys)
		for _, k := range keys {
			xv, xok := x[k]
			yv, yok := y[k]
			if !xok {
				return vhfmt.Sprintf("%s: key %q only on the wire", path, k)
			}
			if !yok {
				return vhfmt.Sprintf("%s: key %q missing on the wire", path, k)
			}
			if d := vhSameTree(xv, yv, path+"."+k); d != "" {
				return d
			}
		}
		return ""
	case []any:
		y, ok := b.([]any)
		if !ok || len(x) != len(y) {
			return vhfmt.Sprintf("%s: array of %d vs %v", path, len(x), b)
		}
		for i := range x {
			if d := vhSameTree(x[i], y[i], vhfmt.Sprintf("%s[%d]", path, i)); d != "" {
				return d
			}
		}
		return ""
	case vhjson.Number:
		y, ok := b.(vhjson.Number)
		if !ok {
			return vhfmt.Sprintf("%s: number %s vs %v", path, x, b)
		}
		if x.String() == y.String() {
			return ""
		}
		xf, _ := x.Float64()
		yf, _ := y.Float64()
		if xf != yf {
			return vhfmt.Sprintf("%s: number %s vs %s", path, x, y)
		}
		return ""
	default:
		if a == nil {
			// a nil slice / map and an empty one count as equal (the statement's own equivalence)
			if y, ok := b.([]any); ok && len(y) == 0 {
				return ""
			}
			if y, ok := b.(map[string]any); ok && len(y) == 0 {
				return ""
			}
			if b == nil {
				return ""
			}
			return vhfmt.Sprintf("%s: null vs %v", path, b)
		}
		switch b.(type) {
		case []any, map[string]any:
			return vhfmt.Sprintf("%s: %v vs %v", path, a, b)
		}
		if a != b {
			return vhfmt.Sprintf("%s: %v vs %v", path, a, b)
		}
		return ""
	}
}

// vhHasUnion reports whether the type (transitively) contains a union component.
func vhHasUnion(t vhreflect.Type, seen map[vhreflect.Type]bool) bool {
	if seen[t] {
		return false
	}
	seen[t] = true
	switch t.Kind() {
	case vhreflect.Interface:
		return len(vhUnions[t]) > 0
	case vhreflect.Struct:
		if t == vhTimeType || vhUserJSON[t] {
			return false
		}
		for i := 0; i < t.NumField(); i++ {
			if vhHasUnion(t.Field(i).Type, seen) {
				return true
			}
		}
	case vhreflect.Slice, vhreflect.Array, vhreflect.Ptr:
		return vhHasUnion(t.Elem(), seen)
	case vhreflect.Map:
		return vhHasUnion(t.Elem(), seen)
	}
	return false
}

// vhHasNilUnion reports whether v holds a nil union value (a union field skipped for data generation):
// such values are outside the JSON round trip's domain.
func vhHasNilUnion(v vhreflect.Value, depth int) bool {
	if depth > 12 {
		return false
	}
	switch v.Kind() {
	case vhreflect.Interface:
		if v.IsNil() {
			return len(vhUnions[v.Type()]) > 0
		}
		return vhHasNilUnion(v.Elem(), depth+1)
	case vhreflect.Struct:
		if v.Type() == vhTimeType || vhUserJSON[v.Type()] {
			return false
		}
		for i := 0; i < v.NumField(); i++ {
			if vhHasNilUnion(v.Field(i), depth+1) {
				return true
			}
		}
	case vhreflect.Slice, vhreflect.Array:
		for i := 0; i < v.Len(); i++ {
			if vhHasNilUnion(v.Index(i), depth+1) {
				return true
			}
		}
	case vhreflect.Ptr:
		if !v.IsNil() {
			return vhHasNilUnion(v.Elem(), depth+1)
		}
	case vhreflect.Map:
		it := v.MapRange()
		for it.Next() {
			if vhHasNilUnion(it.Value(), depth+1) {
				return true
			}
		}
	}
	return false
}

// ---------------------------------------------------------------------------

func TestVerifHarness(t *vhtesting.T) {
	var err error
	vhOut, err = vhos.Create(vhos.Getenv("VH_OUT"))
	if err != nil {
		t.Fatal(err)
	}
	defer vhOut.Close()
	vhdebug.SetMaxStack(64 << 20)
	mode := vhos.Getenv("VH_MODE")

	if vhstrings.Contains(mode, "docs") {
		for _, te := range vhTypes {
			te := te
			// 1. the all-non-zero value (ground truth for key sets); draws nothing from rapid
			func() {
				defer func() {
					if r := recover(); r != nil {
						vhEmit(map[string]any{"type": te.Name, "panic": vhfmt.Sprint(r), "stage": "full"})
					}
				}()
				g := &vhGen{full: true}
				v := g.value(te.T, 0)
				if g.abort {
					return
				}
				b, err := vhjson.Marshal(v.Interface())
				if err != nil {
					vhEmit(map[string]any{"type": te.Name, "marshal_error": err.Error(), "stage": "full"})
					return
				}
				vhEmit(map[string]any{"type": te.Name, "full": vhjson.RawMessage(b)})
			}()
			// 2. random values: round trip + wire format
			hasUnion := vhHasUnion(te.T, map[vhreflect.Type]bool{})
			n := 0
			func() {
				defer func() {
					if r := recover(); r != nil {
						vhEmit(map[string]any{"type": te.Name, "panic": vhfmt.Sprint(r), "stage": "values"})
					}
				}()
				vhrapid.Check(t, func(rt *vhrapid.T) {
					g := &vhGen{t: rt}
					v := g.value(te.T, 0)
					if g.abort {
						return
					}
					b, err := vhjson.Marshal(v.Interface())
					if err != nil {
						vhEmit(map[string]any{"type": te.Name, "marshal_error": err.Error(), "go": vhfmt.Sprintf("%#v", v.Interface())})
						rt.Fatalf("marshal error")
					}
					n++
					rec := map[string]any{"type": te.Name, "doc": vhjson.RawMessage(b), "unions": g.unions, "nilcont": g.nilCont, "enums": g.enums, "has_union": hasUnion}
					// (a) round trip
					back := vhreflect.New(te.T)
					if err := vhjson.Unmarshal(b, back.Interface()); err != nil {
						rec["roundtrip"] = "unmarshal error: " + err.Error()
					} else if !vhEqual(v, back.Elem()) {
						rec["roundtrip"] = vhfmt.Sprintf("value changed: %#v -> %#v", v.Interface(), back.Elem().Interface())
					}
					// (b) wire format against the reference encoder
					var wire any
					wire, err = vhDecodeStrict(b)
					if err != nil {
						rec["wire"] = "wire bytes are not clean JSON: " + err.Error()
					} else {
						var ref any
						if te.Wrapper {
							ref = vhRef(v.Field(0))
						} else {
							ref = vhRef(v)
						}
						if d := vhSameTree(ref, wire, "$"); d != "" {
							if hasUnion {
								rec["wire"] = d
							} else {
								rec["refbug"] = d // union-free type: the generated code is not involved, the reference is wrong
							}
						}
					}
					vhEmit(rec)
					if rec["roundtrip"] != nil || rec["wire"] != nil {
						rt.Fatalf("failed")
					}
				})
			}()
		}
	}

	if vhstrings.Contains(mode, "rand") {
		for _, rf := range vhRand {
			rf := rf
			calls := 40
			var docs []string
			func() {
				defer func() {
					if r := recover(); r != nil {
						vhEmit(map[string]any{"rand": rf.Name, "panic": vhfmt.Sprint(r)})
					}
				}()
				for i := 0; i < calls; i++ {
					// termination: the generated functions only build small finite values (micro- to milliseconds);
					// a call still running after vhHangAfter is reported as non-terminating
					var v any
					panicked := false
					returned := make(chan struct{})
					go func() {
						defer func() {
							if r := recover(); r != nil {
								vhEmit(map[string]any{"rand": rf.Name, "panic": vhfmt.Sprint(r)})
								panicked = true
							}
							close(returned)
						}()
						v = rf.F()
					}()
					select {
					case <-returned:
					case <-vhtime.After(vhHangAfter):
						vhEmit(map[string]any{"rand": rf.Name, "bad": vhfmt.Sprintf("the call did not return within %s (the other generated functions return within milliseconds): non-termination", vhHangAfter)})
						vhEmit(map[string]any{"done": true})
						vhOut.Close()
						vhos.Exit(0) // the runaway goroutine cannot be stopped
					}
					if panicked {
						return
					}
					rv := vhreflect.ValueOf(v)
					if !rv.IsValid() {
						vhEmit(map[string]any{"rand": rf.Name, "bad": "returned nil interface"})
						return
					}
					if msg := vhWellFormed(rv, "$"); msg != "" {
						vhEmit(map[string]any{"rand": rf.Name, "bad": msg, "go": vhfmt.Sprintf("%#v", v)})
						return
					}
					docs = append(docs, vhfmt.Sprintf("%#v", v))
					// every value survives the JSON round trip (anonymous containers of unions have no
					// generated wrapper: encoding/json cannot read them back, which is not randdata's business)
					if i < 5 && !(rv.Type().Name() == "" && vhHasUnion(rv.Type(), map[vhreflect.Type]bool{})) && !vhHasNilUnion(rv, 0) {
						b, err := vhjson.Marshal(v)
						if err != nil {
							vhEmit(map[string]any{"rand": rf.Name, "bad": "marshal error: " + err.Error()})
							return
						}
						back := vhreflect.New(rv.Type())
						if err := vhjson.Unmarshal(b, back.Interface()); err != nil {
							vhEmit(map[string]any{"rand": rf.Name, "bad": "unmarshal error: " + err.Error(), "doc": string(b)})
							return
						}
						vhIgnoreJSONDash = true
						same := vhEqual(rv, back.Elem())
						vhIgnoreJSONDash = false
						if !same {
							vhEmit(map[string]any{"rand": rf.Name, "bad": "JSON round trip changed the value", "doc": string(b)})
							return
						}
					}
				}
				distinct := map[string]bool{}
				for _, d := range docs {
					distinct[d] = true
				}
				rt := vhreflect.TypeOf(rf.F())
				vhEmit(map[string]any{"rand": rf.Name, "calls": calls, "distinct": len(distinct), "multi": vhMulti(rt, 0), "type": rt.String(), "sample": docs[0]})
			}()
		}
	}
	vhEmit(map[string]any{"done": true})
}

// vhMulti reports whether a type certainly admits more than one value reachable by the generated functions.
func vhMulti(t vhreflect.Type, depth int) bool {
	if depth > 6 {
		return false
	}
	if consts, ok := vhEnumsExported[t]; ok {
		if _, isEnum := vhEnums[t]; isEnum {
			seen := map[string]bool{}
			for _, c := range consts {
				seen[vhfmt.Sprint(c.Interface())] = true
			}
			return len(seen) >= 2
		}
	}
	if t == vhTimeType || vhUserJSON[t] {
		return true
	}
	switch t.Kind() {
	case vhreflect.Bool, vhreflect.String, vhreflect.Int, vhreflect.Int8, vhreflect.Int16, vhreflect.Int32, vhreflect.Int64,
		vhreflect.Uint, vhreflect.Uint8, vhreflect.Uint16, vhreflect.Uint32, vhreflect.Uint64, vhreflect.Float32, vhreflect.Float64:
		return true
	case vhreflect.Slice:
		return true // the length varies
	case vhreflect.Array:
		return t.Len() > 0 && vhMulti(t.Elem(), depth+1)
	case vhreflect.Map:
		// 40+ insertions saturate a small key space (enum keys): then only the elements vary
		if _, isEnum := vhEnums[t.Key()]; isEnum || t.Key().Kind() == vhreflect.Bool {
			return vhMulti(t.Elem(), depth+1)
		}
		return vhMulti(t.Key(), depth+1) || vhMulti(t.Elem(), depth+1)
	case vhreflect.Ptr:
		return vhMulti(t.Elem(), depth+1)
	case vhreflect.Interface:
		ms := vhUnions[t]
		if len(ms) >= 2 {
			return true
		}
		return len(ms) == 1 && vhMulti(ms[0], depth+1)
	case vhreflect.Struct:
		for i := 0; i < t.NumField(); i++ {
			f := t.Field(i)
			if (f.IsExported() || f.Anonymous) && f.Tag.Get("gomacro-data") != "ignore" && vhMulti(f.Type, depth+1) {
				return true
			}
		}
	}
	return false
}

// vhWellFormed checks a value returned by a generated random function.
func vhWellFormed(v vhreflect.Value, path string) string {
	typ := v.Type()
	if consts, ok := vhEnumsExported[typ]; ok {
		if _, isEnum := vhEnums[typ]; isEnum {
			for _, c := range consts {
				if vhreflect.DeepEqual(c.Interface(), v.Interface()) {
					return ""
				}
			}
			return vhfmt.Sprintf("%s: %v is not one of the exported constants of %s", path, v.Interface(), typ)
		}
	}
	if typ == vhTimeType || vhUserJSON[typ] {
		return ""
	}
	switch typ.Kind() {
	case vhreflect.Float32, vhreflect.Float64:
		if f := v.Float(); vhmath.IsNaN(f) || vhmath.IsInf(f, 0) {
			return vhfmt.Sprintf("%s: %v is not a finite number (it has no JSON form)", path, f)
		}
	case vhreflect.Interface:
		if v.IsNil() {
			return path + ": nil union value"
		}
		ok := false
		for _, m := range vhUnions[typ] {
			if v.Elem().Type() == m {
				ok = true
			}
		}
		if !ok {
			return vhfmt.Sprintf("%s: dynamic type %s is not a member of %s", path, v.Elem().Type(), typ)
		}
		return vhWellFormed(v.Elem(), path)
	case vhreflect.Struct:
		for i := 0; i < typ.NumField(); i++ {
			f := typ.Field(i)
			if f.Anonymous && f.Type.Kind() == vhreflect.Struct && f.Tag.Get("gomacro-data") != "ignore" {
				// embedded structs are flattened: their exported fields are filled
				if msg := vhWellFormed(v.Field(i), path+"."+f.Name); msg != "" {
					return msg
				}
				continue
			}
			if !f.IsExported() || f.Tag.Get("gomacro-data") == "ignore" {
				if !v.Field(i).IsZero() {
					return vhfmt.Sprintf("%s.%s: skipped field is not zero", path, f.Name)
				}
				continue
			}
			if msg := vhWellFormed(v.Field(i), path+"."+f.Name); msg != "" {
				return msg
			}
		}
	case vhreflect.Slice, vhreflect.Array:
		if typ.Kind() == vhreflect.Slice && v.Len() == 0 {
			return path + ": empty slice"
		}
		for i := 0; i < v.Len(); i++ {
			if msg := vhWellFormed(v.Index(i), vhfmt.Sprintf("%s[%d]", path, i)); msg != "" {
				return msg
			}
		}
	case vhreflect.Map:
		if v.Len() == 0 {
			return path + ": empty map"
		}
		it := v.MapRange()
		for it.Next() {
			if msg := vhWellFormed(it.Key(), path+"{key}"); msg != "" {
				return msg
			}
			if msg := vhWellFormed(it.Value(), path+"{value}"); msg != "" {
				return msg
			}
		}
	case vhreflect.Ptr:
		if v.IsNil() {
			return path + ": nil pointer"
		}
		return vhWellFormed(v.Elem(), path)
	}
	return ""
}
`
