package tsx

import (
	"encoding/json"
	"os"
	"os/exec"
	"path/filepath"
	"reflect"
	"strings"
	"testing"
)

const nodePath = "/usr/bin/node"

const jsPrelude = `
const calls = [];
const record = (verb, hasBody) => async (...a) => {
	const call = { verb, url: a[0] };
	if (hasBody) { call.body = a[1] instanceof FormData ? { form: a[1].entries } : a[1]; call.config = a[2]; } else { call.config = a[1]; }
	call.nargs = a.length;
	calls.push(call);
	return { data: { echoed: verb }, headers: { "content-disposition": "attachment; filename=my%20file.txt" } };
};
const Axios = { get: record("get", false), delete: record("delete", false), post: record("post", true), put: record("put", true) };
class FormData {
	constructor() { this.entries = []; }
	append(...a) { this.entries.push(a); }
}
`

const jsDriver = `
class API extends AbstractAPI {
	handleError(error) { calls.push({ error: String(error) }); }
	startRequest() { calls.push("start"); }
}
(async () => {
	const api = new API("http://host", "tok");
	const out = [];
	out.push(await api.M1([true, false, true, false, true]));
	out.push(await api.M2({ arg1: "s", arg2: 2, arg2bis: 2.5, arg3: true }));
	out.push(await api.M3({ a: "va", "b-c": "vbc" }, { name: "f.txt" }, { k: 1 }));
	out.push(await api.M4());
	out.push(await api.M5());
	console.log(JSON.stringify({ out, calls }));
})().catch((e) => { console.error(e); process.exit(1); });
`

func runNode(t *testing.T, js string) []byte {
	t.Helper()
	if _, err := os.Stat(nodePath); err != nil {
		t.Skip("node not available:", err)
	}
	file := filepath.Join(t.TempDir(), "client.js")
	if err := os.WriteFile(file, []byte(js), 0o644); err != nil {
		t.Fatal(err)
	}
	cmd := exec.Command(nodePath, file)
	cmd.Env = []string{"PATH=/usr/bin:/bin", "HOME=" + t.TempDir()}
	out, err := cmd.CombinedOutput()
	if err != nil {
		t.Fatalf("node: %v\n%s\n--- script ---\n%s", err, out, js)
	}
	return out
}

func TestEraseRunsUnderNode(t *testing.T) {
	_, axios := loadReal(t)
	js, err := EraseToJS(axios)
	if err != nil {
		t.Fatal(err)
	}
	for _, banned := range []string{"export", "import", "abstract", "protected", "AxiosResponse", ": string", "Ar5_boolean", "__opaque__"} {
		if strings.Contains(js, banned) {
			t.Errorf("erased output still contains %q:\n%s", banned, js)
		}
	}
	if !strings.Contains(js, "class AbstractAPI {") || !strings.Contains(js, "this.baseUrl = baseUrl;") || !strings.Contains(js, "this.authToken = authToken;") {
		t.Errorf("class header or parameter properties missing:\n%s", js)
	}
	if !strings.Contains(js, "const rep =  await Axios.post(fullUrl, params, { headers: this.getHeaders() });") {
		t.Errorf("annotation not erased:\n%s", js)
	}

	out := runNode(t, jsPrelude+js+jsDriver)
	var got struct {
		Out   []any
		Calls []any
	}
	if err := json.Unmarshal(out, &got); err != nil {
		t.Fatalf("%v\n%s", err, out)
	}
	auth := map[string]any{"Authorization": "Bearer tok"}
	wantCalls := []any{
		"start",
		map[string]any{"verb": "post", "url": "http://host/samlskm/", "body": []any{true, false, true, false, true}, "config": map[string]any{"headers": auth}, "nargs": 3.0},
		"start",
		map[string]any{"verb": "get", "url": "http://host/samlskm/:param1", "nargs": 2.0, "config": map[string]any{
			"headers": auth, "params": map[string]any{"arg1": "s", "arg2": "2", "arg2bis": "2.5", "arg3": "ok"},
		}},
		"start",
		map[string]any{"verb": "put", "url": "http://host/form", "nargs": 3.0, "config": map[string]any{"headers": auth}, "body": map[string]any{"form": []any{
			[]any{"the-file", map[string]any{"name": "f.txt"}, "f.txt"}, []any{"a", "va"}, []any{"b-c", "vbc"}, []any{"js", `{"k":1}`},
		}}},
		"start",
		map[string]any{"verb": "get", "url": "http://host/blob", "nargs": 2.0, "config": map[string]any{"headers": auth, "responseType": "arraybuffer"}},
		"start",
		map[string]any{"verb": "post", "url": "http://host/nobody", "nargs": 3.0, "body": nil, "config": map[string]any{"headers": auth}},
	}
	if !reflect.DeepEqual(got.Calls, wantCalls) {
		t.Errorf("calls:\n got %v\nwant %v", got.Calls, wantCalls)
	}
	wantOut := []any{
		map[string]any{"echoed": "post"}, true, map[string]any{"echoed": "put"},
		map[string]any{"blob": map[string]any{"echoed": "get"}, "filename": "my file.txt"}, true,
	}
	if !reflect.DeepEqual(got.Out, wantOut) {
		t.Errorf("results:\n got %v\nwant %v", got.Out, wantOut)
	}
}

func TestEraseDeclarations(t *testing.T) {
	types, _ := loadReal(t)
	js, err := EraseToJS(types)
	if err != nil {
		t.Fatal(err)
	}
	if strings.Contains(js, "export") || strings.Contains(js, "interface") || strings.Contains(js, "as const") || strings.Contains(js, "Record<") {
		t.Errorf("type-level text survives:\n%s", js)
	}
	// the const objects are usable values, computed keys included
	out := runNode(t, js+"\nconsole.log(JSON.stringify({ e: EnumInt, l: EnumIntLabels, k: ItfTypeKind }));")
	var got map[string]map[string]any
	if err := json.Unmarshal(out, &got); err != nil {
		t.Fatalf("%v\n%s", err, out)
	}
	want := map[string]map[string]any{
		"e": {"Ai": 0.0, "Bi": 1.0, "Ci": 2.0, "Di": 4.0},
		"l": {"0": "sdsd", "1": "sdsdB", "2": "sdsdC", "4": "sdsdD"},
		"k": {"ConcretType1": "ConcretType1", "ConcretType2": "ConcretType2"},
	}
	if !reflect.DeepEqual(got, want) {
		t.Errorf("got %v", got)
	}
}

func TestEraseForms(t *testing.T) {
	src := `import type { X } from "x";
export const K = { A: 1 } as const;
export type K = (typeof K)[keyof typeof K];
export abstract class C {
	constructor(private readonly a: string, b?: number, public c: K[],) { this.b = b; }
	static async make(x: K): Promise<C> { const c:C = new C("}", 1, [x]); return c }
	abstract gone(): void
	public over(a: string): void;
	public over(a: any): void { try { let n: number | null = null; this.n = n } catch (e: unknown) { throw e } }
}`
	js, err := EraseToJS(src)
	if err != nil {
		t.Fatal(err)
	}
	want := `const K = { A: 1 };

class C {
	constructor(a, b, c) { this.a = a; this.c = c; this.b = b; }

	static async make(x) { const c = new C("}", 1, [x]); return c }

	over(a) { try { let n = null; this.n = n } catch (e) { throw e } }

}
`
	if js != want {
		t.Errorf("got:\n%s\nwant:\n%s", js, want)
	}
	out := runNode(t, js+`C.make(K.A).then((c) => { c.over(1); console.log(JSON.stringify(c)); });`)
	if strings.TrimSpace(string(out)) != `{"a":"}","c":[1],"b":1,"n":null}` {
		t.Errorf("node printed %s", out)
	}

	if _, err := EraseToJS("export interface A { a-b: number }"); err == nil {
		t.Error("EraseToJS must report parse errors")
	}
}
