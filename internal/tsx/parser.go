package tsx

import (
	"encoding/json"
	"strings"
)

// maxDepth bounds the nesting of type expressions so that hostile input
// cannot exhaust the stack.
const maxDepth = 200

type parser struct {
	lx      *lexer
	tok     token
	prevEnd int // end offset of the previously consumed token
	depth   int
}

// Parse parses a source text. The error, if any, is a *SyntaxError or an
// *Unsupported.
func Parse(src string) (f *File, err error) {
	defer func() {
		if r := recover(); r != nil {
			f = nil
			switch e := r.(type) {
			case *SyntaxError:
				err = e
			case *Unsupported:
				err = e
			default:
				panic(r)
			}
		}
	}()
	p := &parser{lx: newLexer(src)}
	p.advance()
	return p.parseFile(), nil
}

func (p *parser) advance() {
	p.prevEnd = p.tok.end
	p.tok = p.lx.next()
}

// peek returns the token after the current one.
func (p *parser) peek() token {
	save := p.lx.pos
	t := p.lx.next()
	p.lx.pos = save
	return t
}

func (p *parser) syntax(format string, args ...any) {
	p.lx.syntax(p.tok.pos, format, args...)
}

func (p *parser) unsupported(format string, args ...any) {
	p.lx.unsupported(p.tok.pos, format, args...)
}

func (p *parser) expectPunct(s, context string) {
	if !p.tok.is(s) {
		p.syntax("expected `%s` %s, found %s", s, context, p.tok.describe())
	}
	p.advance()
}

// hardReserved lists the reserved words that can neither name a declaration
// nor be used as a type reference.
var hardReserved = map[string]bool{
	"break": true, "case": true, "catch": true, "class": true, "const": true, "continue": true,
	"debugger": true, "default": true, "delete": true, "do": true, "else": true, "enum": true,
	"export": true, "extends": true, "finally": true, "for": true, "function": true, "if": true,
	"import": true, "in": true, "instanceof": true, "return": true, "super": true, "switch": true,
	"throw": true, "try": true, "var": true, "while": true, "with": true,
}

// valueWords are reserved words with a meaning of their own in type position.
var valueWords = map[string]bool{
	"null": true, "true": true, "false": true, "typeof": true, "void": true, "new": true, "this": true,
}

func (p *parser) declName(what string) string {
	if p.tok.kind != tIdent {
		p.syntax("expected %s name, found %s", what, p.tok.describe())
	}
	name := p.tok.text
	if hardReserved[name] || valueWords[name] {
		p.syntax("reserved word `%s` used as %s name", name, what)
	}
	p.advance()
	return name
}

// endStatement consumes an optional `;`. Without it the next token must be
// separated by a line break (automatic semicolon insertion).
func (p *parser) endStatement(what string) {
	switch {
	case p.tok.is(";"):
		p.advance()
	case p.tok.kind == tEOF, p.tok.nl:
	default:
		p.syntax("expected `;` or a line break after %s, found %s", what, p.tok.describe())
	}
}

func (p *parser) parseFile() *File {
	f := &File{}
	for {
		t := p.tok
		switch {
		case t.kind == tEOF:
			return f
		case t.is(";"):
			p.advance()
		case t.isIdent("import"):
			f.Decls = append(f.Decls, p.parseImport())
		case t.isIdent("export"):
			f.Decls = append(f.Decls, p.parseExport())
		case t.kind == tIdent:
			switch t.text {
			case "extends", "in", "instanceof", "case", "catch", "default", "else", "finally":
				p.syntax("`%s` cannot start a statement", t.text)
			}
			p.unsupported("top-level statement starting with `%s` (only import and export declarations are modelled)", t.text)
		case t.kind == tString || t.kind == tNumber:
			p.unsupported("top-level expression statement")
		case t.is("{"), t.is("("), t.is("["), t.is("-"), t.is("+"), t.is("!"), t.is("~"), t.is("<"), t.is("/"):
			p.unsupported("top-level statement starting with `%s`", t.text)
		default:
			p.syntax("unexpected %s at top level", t.describe())
		}
	}
}

func (p *parser) parseImport() Decl {
	d := Decl{Kind: "import", Pos: p.tok.pos, Line: p.lx.line(p.tok.pos)}
	p.advance() // import
	if p.tok.isIdent("type") {
		if pk := p.peek(); pk.is("{") || pk.is("*") || (pk.kind == tIdent && !pk.isIdent("from")) {
			d.ImportType = true
			p.advance()
		}
	}
	switch {
	case p.tok.is("{"):
		p.advance()
		for !p.tok.is("}") {
			if p.tok.kind != tIdent {
				if p.tok.kind == tString {
					p.unsupported("string import name")
				}
				p.syntax("expected imported name, found %s", p.tok.describe())
			}
			name := p.tok.text
			p.advance()
			if p.tok.kind == tIdent {
				if p.tok.text == "as" || name == "type" {
					p.unsupported("import specifier `%s %s`", name, p.tok.text)
				}
				p.syntax("expected `,` or `}` in import list, found %s", p.tok.describe())
			}
			d.Imports = append(d.Imports, name)
			if p.tok.is(",") {
				p.advance()
			} else if !p.tok.is("}") {
				p.syntax("expected `,` or `}` in import list, found %s", p.tok.describe())
			}
		}
		p.advance()
	case p.tok.kind == tIdent:
		if hardReserved[p.tok.text] {
			p.syntax("reserved word `%s` used as import name", p.tok.text)
		}
		d.Imports = append(d.Imports, p.tok.text)
		p.advance()
		if p.tok.is(",") {
			p.unsupported("combined default and named import")
		}
		if p.tok.is("=") {
			p.unsupported("import = require")
		}
	case p.tok.is("*"), p.tok.kind == tString, p.tok.is("("), p.tok.is("."):
		p.unsupported("import form starting with %s", p.tok.describe())
	default:
		p.syntax("malformed import: unexpected %s", p.tok.describe())
	}
	if !p.tok.isIdent("from") {
		p.syntax("expected `from` in import, found %s", p.tok.describe())
	}
	p.advance()
	if p.tok.kind != tString {
		p.syntax("expected module specifier string, found %s", p.tok.describe())
	}
	d.From = p.tok.str
	p.advance()
	if (p.tok.isIdent("with") || p.tok.isIdent("assert")) && !p.tok.nl {
		p.unsupported("import attributes")
	}
	p.endStatement("import")
	if len(d.Imports) > 0 {
		d.Name = d.Imports[0]
	}
	return d
}

func (p *parser) parseExport() Decl {
	pos := p.tok.pos
	p.advance() // export
	var d Decl
	t := p.tok
	switch {
	case t.isIdent("type"):
		d = p.parseTypeAlias()
	case t.isIdent("interface"):
		d = p.parseInterface()
	case t.isIdent("const"):
		d = p.parseConst()
	case t.isIdent("class"):
		d = p.parseClass(false)
	case t.isIdent("abstract"):
		p.advance()
		if !p.tok.isIdent("class") {
			p.syntax("expected `class` after `abstract`, found %s", p.tok.describe())
		}
		d = p.parseClass(true)
	case t.kind == tIdent:
		p.unsupported("`export %s` declaration", t.text)
	case t.is("*"), t.is("{"), t.is("="):
		p.unsupported("`export %s` form", t.text)
	default:
		p.syntax("unexpected %s after `export`", t.describe())
	}
	d.Exported = true
	d.Pos = pos
	d.Line = p.lx.line(pos)
	return d
}

func (p *parser) parseTypeAlias() Decl {
	p.advance() // type
	if p.tok.is("{") || p.tok.is("*") {
		p.unsupported("`export type %s` re-export", p.tok.text)
	}
	d := Decl{Kind: "type"}
	d.Name = p.declName("type alias")
	if p.tok.is("<") {
		p.unsupported("generic type alias %s", d.Name)
	}
	p.expectPunct("=", "in type alias "+d.Name)
	if p.tok.kind == tEOF {
		p.syntax("missing type after `=` in type alias %s", d.Name)
	}
	d.Type = p.parseType()
	p.endStatement("type alias " + d.Name)
	return d
}

func (p *parser) parseInterface() Decl {
	p.advance() // interface
	d := Decl{Kind: "interface"}
	d.Name = p.declName("interface")
	if p.tok.is("<") {
		p.unsupported("generic interface %s", d.Name)
	}
	if p.tok.isIdent("extends") {
		p.unsupported("interface %s with an extends clause", d.Name)
	}
	if !p.tok.is("{") {
		p.syntax("expected `{` after interface name %s, found %s", d.Name, p.tok.describe())
	}
	d.Type = p.parseObject()
	return d
}

func (p *parser) parseConst() Decl {
	p.advance() // const
	d := Decl{Kind: "const"}
	if p.tok.is("{") || p.tok.is("[") {
		p.unsupported("destructuring const declaration")
	}
	if p.tok.isIdent("enum") {
		p.unsupported("const enum")
	}
	d.Name = p.declName("const")
	if p.tok.is(":") {
		p.advance()
		if p.tok.is("=") || p.tok.kind == tEOF {
			p.syntax("missing type after `:` in const %s", d.Name)
		}
		d.Type = p.parseType()
	}
	if p.tok.is(",") {
		p.unsupported("const declaration with several declarators")
	}
	p.expectPunct("=", "in const "+d.Name)
	if !p.tok.is("{") {
		p.exprStart("initialiser of const " + d.Name)
	}
	start := p.tok.pos
	d.Const = p.parseObjLit()
	d.ObjText = p.lx.src[start:p.prevEnd]
	switch {
	case p.tok.isIdent("as"):
		p.advance()
		if !p.tok.isIdent("const") {
			p.unsupported("`as` assertion other than `as const`")
		}
		p.advance()
		d.AsConst = true
	case p.tok.isIdent("satisfies"):
		p.unsupported("`satisfies` expression")
	}
	if p.tok.is(",") {
		p.unsupported("const declaration with several declarators")
	}
	if !p.tok.is(";") && p.tok.kind != tEOF && !p.tok.nl {
		p.exprContinuation("const " + d.Name)
	}
	p.endStatement("const " + d.Name)
	return d
}

// exprStart is called where an expression outside the modelled subset may
// start: it raises Unsupported if the current token can start a JavaScript
// expression and a SyntaxError otherwise.
func (p *parser) exprStart(context string) {
	t := p.tok
	switch {
	case t.kind == tString, t.kind == tNumber:
		p.unsupported("%s: expression starting with %s", context, t.describe())
	case t.kind == tIdent:
		if hardReserved[t.text] && t.text != "class" && t.text != "function" && t.text != "delete" && t.text != "super" && t.text != "import" {
			p.syntax("%s: unexpected reserved word `%s`", context, t.text)
		}
		p.unsupported("%s: expression starting with `%s`", context, t.text)
	case t.is("{"), t.is("["), t.is("("), t.is("-"), t.is("+"), t.is("!"), t.is("~"), t.is("<"), t.is("/"), t.is("..."):
		p.unsupported("%s: expression starting with `%s`", context, t.text)
	}
	p.syntax("%s: expected an expression, found %s", context, t.describe())
}

// exprContinuation is called where a modelled expression has ended but the
// statement has not: it raises Unsupported if the current token can continue
// an expression and a SyntaxError otherwise.
func (p *parser) exprContinuation(context string) {
	t := p.tok
	switch {
	case t.kind == tPunct && strings.Contains(".[(+-*/%|&^<>?=!", t.text):
		p.unsupported("%s: expression continued with `%s`", context, t.text)
	case t.isIdent("as"), t.isIdent("satisfies"), t.isIdent("in"), t.isIdent("instanceof"):
		p.unsupported("%s: expression continued with `%s`", context, t.text)
	}
	p.syntax("%s: unexpected %s", context, t.describe())
}

// parseObjLit parses `{ key: literal, ... }`; the current token is `{`.
func (p *parser) parseObjLit() []ConstEntry {
	p.advance() // {
	var out []ConstEntry
	for {
		t := p.tok
		var e ConstEntry
		switch {
		case t.is("}"):
			p.advance()
			return out
		case t.kind == tEOF:
			p.syntax("unbalanced `{` in object literal")
		case t.is(","):
			p.syntax("empty element in object literal")
		case t.kind == tIdent:
			e.Key = t.text
			p.advance()
			if e.Key == "get" || e.Key == "set" || e.Key == "async" {
				if p.tok.kind == tIdent || p.tok.kind == tString || p.tok.is("[") || p.tok.is("*") {
					p.unsupported("accessor or async method in object literal")
				}
			}
		case t.kind == tString:
			e.Key, e.Quoted = t.str, true
			p.advance()
		case t.kind == tNumber:
			p.unsupported("numeric key in object literal")
		case t.is("["):
			p.advance()
			if p.tok.kind != tIdent {
				p.exprStart("computed key")
			}
			e.Obj = p.tok.text
			p.advance()
			if !p.tok.is(".") {
				if p.tok.is("]") {
					p.unsupported("computed key that is not of the form [X.Y]")
				}
				p.exprContinuation("computed key")
			}
			p.advance()
			if p.tok.kind != tIdent {
				p.syntax("expected member name after `.` in computed key, found %s", p.tok.describe())
			}
			e.Member = p.tok.text
			p.advance()
			if !p.tok.is("]") {
				if p.tok.kind == tEOF {
					p.syntax("unbalanced `[` in computed key")
				}
				p.exprContinuation("computed key")
			}
			p.advance()
			e.Computed = true
			e.Key = "[" + e.Obj + "." + e.Member + "]"
		case t.is("..."), t.is("*"):
			p.unsupported("`%s` in object literal", t.text)
		default:
			p.syntax("unexpected %s in object literal", t.describe())
		}
		switch {
		case p.tok.is(":"):
			p.advance()
		case p.tok.is("("):
			p.unsupported("method in object literal")
		case (p.tok.is(",") || p.tok.is("}")) && !e.Computed && !e.Quoted:
			p.unsupported("shorthand property in object literal")
		default:
			p.syntax("expected `:` after key %s in object literal, found %s", e.Key, p.tok.describe())
		}
		e.Value = p.parseLiteralValue()
		out = append(out, e)
		switch {
		case p.tok.is(","):
			p.advance()
		case p.tok.is("}"):
		case p.tok.kind == tEOF:
			p.syntax("unbalanced `{` in object literal")
		default:
			p.exprContinuation("value of key " + e.Key)
		}
	}
}

func (p *parser) parseLiteralValue() any {
	t := p.tok
	switch {
	case t.kind == tString:
		p.advance()
		return t.str
	case t.kind == tNumber:
		p.advance()
		return json.Number(normalizeNumber(t.text))
	case t.is("-"):
		p.advance()
		if p.tok.kind != tNumber {
			p.exprStart("operand of unary minus")
		}
		n := p.tok.text
		p.advance()
		return json.Number("-" + normalizeNumber(n))
	case t.isIdent("true"):
		p.advance()
		return true
	case t.isIdent("false"):
		p.advance()
		return false
	}
	p.exprStart("property value")
	return nil
}

// ---------------------------------------------------------------- types

func (p *parser) parseType() Type {
	p.depth++
	if p.depth > maxDepth {
		p.unsupported("type nested deeper than %d levels", maxDepth)
	}
	defer func() { p.depth-- }()

	if p.tok.is("|") {
		p.advance()
	}
	first := p.parseIntersection()
	var out Type = first
	if p.tok.is("|") {
		u := &Union{Alts: []Type{first}}
		for p.tok.is("|") {
			p.advance()
			u.Alts = append(u.Alts, p.parseIntersection())
		}
		out = u
	}
	if p.tok.isIdent("extends") {
		p.unsupported("conditional type")
	}
	return out
}

func (p *parser) parseIntersection() Type {
	if p.tok.is("&") {
		p.advance()
	}
	first := p.parseOperator()
	if !p.tok.is("&") {
		return first
	}
	it := &Intersection{Parts: []Type{first}}
	for p.tok.is("&") {
		p.advance()
		it.Parts = append(it.Parts, p.parseOperator())
	}
	return it
}

func (p *parser) parseOperator() Type {
	if p.tok.isIdent("keyof") {
		p.depth++
		if p.depth > maxDepth {
			p.unsupported("type nested deeper than %d levels", maxDepth)
		}
		defer func() { p.depth-- }()
		p.advance()
		return &KeyOf{T: p.parseOperator()}
	}
	return p.parsePostfix()
}

func (p *parser) parsePostfix() Type {
	t := p.parsePrimary()
	for p.tok.is("[") {
		p.advance()
		if p.tok.is("]") {
			p.advance()
			t = &ArrayOf{Elem: t}
			continue
		}
		if p.tok.kind == tEOF {
			p.syntax("unbalanced `[`")
		}
		idx := p.parseType()
		p.expectPunct("]", "closing an indexed access type")
		t = &Indexed{Obj: t, Index: idx}
	}
	return t
}

func (p *parser) parsePrimary() Type {
	t := p.tok
	switch t.kind {
	case tEOF:
		p.syntax("expected a type, found end of input")
	case tString:
		p.advance()
		return &StringLit{Value: t.str}
	case tNumber:
		p.advance()
		return &NumberLit{Value: json.Number(normalizeNumber(t.text))}
	case tIdent:
		return p.parseNamed()
	}
	switch t.text {
	case "-":
		p.advance()
		if p.tok.kind != tNumber {
			p.syntax("expected a number after `-` in a type, found %s", p.tok.describe())
		}
		n := p.tok.text
		p.advance()
		return &NumberLit{Value: json.Number("-" + normalizeNumber(n))}
	case "(":
		return p.parseParen()
	case "[":
		return p.parseTuple()
	case "{":
		return p.parseObject()
	case "<":
		p.unsupported("generic function type")
	case "...":
		p.unsupported("rest type")
	}
	p.syntax("expected a type, found %s", t.describe())
	return nil
}

func (p *parser) parseNamed() Type {
	t := p.tok
	name := t.text
	switch name {
	case "null":
		p.advance()
		return &Null{}
	case "unknown":
		p.advance()
		return &Unknown{}
	case "never":
		p.advance()
		return &Never{}
	case "any":
		p.advance()
		return &Any{}
	case "undefined":
		p.advance()
		return &Undefined{}
	case "true", "false":
		p.advance()
		return &BoolLit{Value: name == "true"}
	case "typeof":
		p.advance()
		if p.tok.kind != tIdent {
			p.syntax("expected an identifier after `typeof`, found %s", p.tok.describe())
		}
		if p.tok.isIdent("import") {
			p.unsupported("typeof import(...)")
		}
		if hardReserved[p.tok.text] {
			p.syntax("reserved word `%s` after `typeof`", p.tok.text)
		}
		q := &TypeOf{Name: p.tok.text}
		p.advance()
		if p.tok.is(".") {
			p.unsupported("qualified name in type query")
		}
		if p.tok.is("<") {
			p.unsupported("instantiation expression in type query")
		}
		return q
	case "new", "this", "readonly", "unique", "infer", "asserts", "abstract":
		if name == "new" || name == "this" || p.peekStartsType() {
			p.unsupported("`%s` type operator", name)
		}
	case "import":
		p.unsupported("import type")
	}
	if hardReserved[name] {
		p.syntax("reserved word `%s` used as a type", name)
	}
	p.advance()
	if p.tok.is(".") {
		p.unsupported("qualified type name %s.…", name)
	}
	ref := &Ref{Name: name}
	if p.tok.is("<") {
		p.advance()
		if p.tok.is(">") {
			p.syntax("empty type argument list for %s", name)
		}
		for {
			if p.tok.is(",") {
				p.syntax("empty type argument for %s", name)
			}
			ref.Args = append(ref.Args, p.parseType())
			if p.tok.is(",") {
				p.advance()
				if p.tok.is(">") {
					p.unsupported("trailing comma in type argument list")
				}
				continue
			}
			if p.tok.is(">") {
				p.advance()
				break
			}
			p.syntax("expected `,` or `>` in type arguments of %s, found %s", name, p.tok.describe())
		}
	}
	if (name == "asserts" || p.tok.isIdent("is")) && p.tok.kind == tIdent && !p.tok.nl {
		p.unsupported("type predicate")
	}
	return ref
}

// peekStartsType reports whether the token after the current one can start a
// type on the same line (used to tell the operator `readonly T` from a type
// named readonly).
func (p *parser) peekStartsType() bool {
	pk := p.peek()
	if pk.nl {
		return false
	}
	switch pk.kind {
	case tIdent:
		return !pk.isIdent("extends") && !pk.isIdent("is")
	case tString, tNumber:
		return true
	case tPunct:
		return pk.text == "(" || pk.text == "{" || (pk.text == "[" && p.tok.text != "abstract")
	}
	return false
}

func (p *parser) parseParen() Type {
	p.advance() // (
	switch {
	case p.tok.is(")"):
		p.advance()
		if p.tok.is("=>") {
			p.unsupported("function type")
		}
		p.lx.syntax(p.prevEnd-1, "empty parentheses in a type")
	case p.tok.is("..."):
		p.unsupported("function type with a rest parameter")
	case p.tok.kind == tEOF:
		p.syntax("unbalanced `(`")
	case p.tok.kind == tIdent:
		if pk := p.peek(); pk.is(":") || pk.is("?") || pk.is(",") || pk.is("=") {
			p.unsupported("function type")
		}
	}
	inner := p.parseType()
	switch {
	case p.tok.is(","), p.tok.is(":"), p.tok.is("?"), p.tok.is("="):
		p.unsupported("function type")
	case p.tok.kind == tEOF:
		p.syntax("unbalanced `(`")
	}
	p.expectPunct(")", "closing a parenthesised type")
	if p.tok.is("=>") {
		p.unsupported("function type")
	}
	return inner
}

func (p *parser) parseTuple() Type {
	p.advance() // [
	tu := &Tuple{}
	if p.tok.is("]") {
		p.advance()
		return tu
	}
	for {
		switch {
		case p.tok.is(","):
			p.syntax("empty tuple element")
		case p.tok.kind == tEOF:
			p.syntax("unbalanced `[`")
		case p.tok.is("..."):
			p.unsupported("rest element in tuple type")
		case p.tok.kind == tIdent:
			if pk := p.peek(); pk.is(":") {
				p.unsupported("named tuple member")
			} else if pk.is("?") {
				p.unsupported("optional tuple member")
			}
		}
		tu.Elems = append(tu.Elems, p.parseType())
		switch {
		case p.tok.is("?"):
			p.unsupported("optional tuple member")
		case p.tok.is(","):
			p.advance()
			if p.tok.is("]") {
				p.advance()
				return tu
			}
		case p.tok.is("]"):
			p.advance()
			return tu
		case p.tok.kind == tEOF:
			p.syntax("unbalanced `[`")
		default:
			p.syntax("expected `,` or `]` in tuple type, found %s", p.tok.describe())
		}
	}
}

// parseObject parses an object type literal or interface body; the current
// token is `{`.
func (p *parser) parseObject() *Object {
	p.depth++
	if p.depth > maxDepth {
		p.unsupported("type nested deeper than %d levels", maxDepth)
	}
	defer func() { p.depth-- }()

	p.advance() // {
	obj := &Object{}
	for {
		t := p.tok
		var prop Prop
		switch {
		case t.is("}"):
			p.advance()
			return obj
		case t.kind == tEOF:
			p.syntax("unbalanced `{`")
		case t.is(","), t.is(";"):
			p.syntax("empty member in object type")
		case t.is("["):
			p.unsupported("index signature, computed property or mapped type")
		case t.is("("), t.is("<"):
			p.unsupported("call signature in object type")
		case t.is("-"), t.is("+"):
			p.unsupported("mapped type modifier")
		case t.kind == tNumber:
			p.unsupported("numeric property name")
		case t.kind == tString:
			prop.Name, prop.Quoted = t.str, true
			p.advance()
		case t.kind == tIdent:
			prop.Name = t.text
			p.advance()
			switch prop.Name {
			case "readonly", "get", "set", "new":
				n := p.tok
				if !n.nl && (n.kind == tIdent || n.kind == tString || n.kind == tNumber || n.is("[")) {
					p.unsupported("`%s` member in object type", prop.Name)
				}
			}
		default:
			p.syntax("unexpected %s in object type", t.describe())
		}
		if p.tok.is("?") {
			prop.Optional = true
			p.advance()
		}
		switch {
		case p.tok.is("("), p.tok.is("<"):
			p.unsupported("method signature %s in object type", prop.Name)
		case p.tok.is(":"):
			p.advance()
		default:
			p.syntax("expected `:` after property name %q, found %s (property names that are not identifiers must be quoted)", prop.Name, p.tok.describe())
		}
		if p.tok.is("}") || p.tok.is(",") || p.tok.is(";") || p.tok.kind == tEOF {
			p.syntax("missing type after `:` for property %q", prop.Name)
		}
		prop.Type = p.parseType()
		obj.Props = append(obj.Props, prop)
		switch {
		case p.tok.is(","), p.tok.is(";"):
			p.advance()
		case p.tok.is("}"), p.tok.nl:
		case p.tok.kind == tEOF:
			p.syntax("unbalanced `{`")
		default:
			p.syntax("expected `,`, `;` or `}` after property %q, found %s", prop.Name, p.tok.describe())
		}
	}
}

// ---------------------------------------------------------------- classes

var memberModifiers = map[string]bool{
	"abstract": true, "protected": true, "public": true, "private": true, "async": true, "static": true,
}

var unmodelledMemberModifiers = map[string]bool{
	"readonly": true, "declare": true, "override": true, "get": true, "set": true, "accessor": true,
}

var paramModifiers = map[string]bool{
	"protected": true, "public": true, "private": true, "readonly": true, "override": true,
}

// parseClass parses a class; the current token is `class`.
func (p *parser) parseClass(abstract bool) Decl {
	p.advance() // class
	cl := &Class{Abstract: abstract}
	cl.Name = p.declName("class")
	if p.tok.is("<") {
		p.unsupported("generic class %s", cl.Name)
	}
	if p.tok.isIdent("extends") || p.tok.isIdent("implements") {
		p.unsupported("class %s with an `%s` clause", cl.Name, p.tok.text)
	}
	if !p.tok.is("{") {
		p.syntax("expected `{` after class name %s, found %s", cl.Name, p.tok.describe())
	}
	p.advance()
	for {
		switch {
		case p.tok.is("}"):
			p.advance()
			return Decl{Kind: "class", Name: cl.Name, Class: cl}
		case p.tok.kind == tEOF:
			p.syntax("unbalanced `{` in class %s", cl.Name)
		case p.tok.is(";"):
			p.advance()
		default:
			cl.Members = append(cl.Members, p.parseMember(cl.Name))
		}
	}
}

func (p *parser) parseMember(class string) Member {
	m := Member{Line: p.lx.line(p.tok.pos)}
	for p.tok.kind == tIdent && (memberModifiers[p.tok.text] || unmodelledMemberModifiers[p.tok.text]) {
		pk := p.peek()
		if !(pk.kind == tIdent || pk.kind == tString || pk.kind == tNumber || pk.is("[") || pk.is("*")) {
			break // the word is the member name itself
		}
		if unmodelledMemberModifiers[p.tok.text] {
			p.unsupported("class member modifier `%s`", p.tok.text)
		}
		m.Modifiers = append(m.Modifiers, p.tok.text)
		p.advance()
	}
	switch {
	case p.tok.kind == tIdent:
		m.Name = p.tok.text
	case p.tok.kind == tString, p.tok.kind == tNumber, p.tok.is("["), p.tok.is("*"):
		p.unsupported("class member named by %s", p.tok.describe())
	default:
		p.syntax("unexpected %s in body of class %s", p.tok.describe(), class)
	}
	p.advance()
	switch {
	case p.tok.is("("):
	case p.tok.is("?"), p.tok.is("!"), p.tok.is("<"), p.tok.is(":"), p.tok.is("="), p.tok.is(";"), p.tok.is("}"), p.tok.nl:
		p.unsupported("class member %s.%s is not a method (properties, optional and generic members are not modelled)", class, m.Name)
	default:
		p.syntax("expected `(` after member name %s.%s, found %s", class, m.Name, p.tok.describe())
	}
	m.IsConstructor = m.Name == "constructor"
	m.Params = p.parseParams()
	if p.tok.is(":") {
		p.advance()
		if p.tok.is(";") || p.tok.is("}") || p.tok.kind == tEOF {
			p.syntax("missing return type after `:` for %s.%s", class, m.Name)
		}
		m.Return = p.parseType()
	}
	switch {
	case p.tok.is("{"):
		start := p.tok.pos
		end := p.lx.scanBlock(start)
		m.Body = p.lx.src[start:end]
		m.BodyAnnotations, m.annots = p.lx.scanAnnotations(start, end)
		p.lx.pos = end
		p.advance()
	case p.tok.is(";"):
		p.advance()
	case p.tok.is("}"), p.tok.nl:
	case p.tok.kind == tEOF:
		p.syntax("unbalanced `{` in class %s", class)
	default:
		p.syntax("expected a body or `;` after the signature of %s.%s, found %s", class, m.Name, p.tok.describe())
	}
	if m.IsConstructor && m.Body == "" {
		p.lx.unsupported(p.prevEnd, "constructor overload signature")
	}
	return m
}

// parseParams parses a parenthesised parameter list; the current token is `(`.
func (p *parser) parseParams() []Param {
	p.advance() // (
	var out []Param
	for {
		switch {
		case p.tok.is(")"):
			p.advance()
			return out
		case p.tok.kind == tEOF:
			p.syntax("unbalanced `(` in parameter list")
		case p.tok.is(","):
			p.syntax("empty parameter")
		case p.tok.is("..."):
			p.unsupported("rest parameter")
		case p.tok.is("{"), p.tok.is("["):
			p.unsupported("destructuring parameter")
		}
		var prm Param
		for p.tok.kind == tIdent && paramModifiers[p.tok.text] && p.peek().kind == tIdent {
			if p.tok.text == "override" {
				p.unsupported("parameter modifier `override`")
			}
			prm.Modifiers = append(prm.Modifiers, p.tok.text)
			p.advance()
		}
		if p.tok.kind != tIdent {
			p.syntax("expected a parameter name, found %s", p.tok.describe())
		}
		if hardReserved[p.tok.text] || (valueWords[p.tok.text] && p.tok.text != "this") {
			p.syntax("reserved word `%s` used as parameter name", p.tok.text)
		}
		prm.Name = p.tok.text
		p.advance()
		if p.tok.is("?") {
			prm.Optional = true
			p.advance()
		}
		if p.tok.is(":") {
			p.advance()
			if p.tok.is(",") || p.tok.is(")") || p.tok.kind == tEOF {
				p.syntax("missing type after `:` for parameter %s", prm.Name)
			}
			prm.Type = p.parseType()
		}
		if p.tok.is("=") {
			p.unsupported("parameter default value")
		}
		out = append(out, prm)
		switch {
		case p.tok.is(","):
			p.advance()
		case p.tok.is(")"):
		case p.tok.kind == tEOF:
			p.syntax("unbalanced `(` in parameter list")
		default:
			p.syntax("expected `,` or `)` after parameter %s, found %s", prm.Name, p.tok.describe())
		}
	}
}
