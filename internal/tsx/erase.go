package tsx

import "strings"

// EraseToJS parses src and renders it as plain JavaScript: imports and
// type-level declarations are dropped, `export` is removed, const object
// literals are kept, and classes are rewritten without TypeScript-only syntax
// (see File.ToJS). The error, if any, comes from Parse.
func EraseToJS(src string) (string, error) {
	f, err := Parse(src)
	if err != nil {
		return "", err
	}
	return f.ToJS(), nil
}

// ToJS renders the value-level declarations of the file as JavaScript.
//
//   - `export const X[: T] = {...} [as const]` becomes `const X = {...};`
//   - `export [abstract] class C {...}` becomes `class C {...}`: abstract and
//     body-less members are dropped, as are access modifiers, parameter and
//     return types and `?` markers; constructor parameter properties become
//     `this.x = x;` assignments at the start of the constructor body;
//   - in method bodies the annotations of `const|let|var x: T` and
//     `catch (e: T)` are removed; all other body text is kept verbatim.
//
// Declarations keep their source order.
func (f *File) ToJS() string {
	var sb strings.Builder
	for i := range f.Decls {
		d := &f.Decls[i]
		switch d.Kind {
		case "const":
			sb.WriteString("const " + d.Name + " = " + d.ObjText + ";\n\n")
		case "class":
			writeClass(&sb, d.Class)
		}
	}
	return sb.String()
}

func writeClass(sb *strings.Builder, c *Class) {
	sb.WriteString("class " + c.Name + " {\n")
	for i := range c.Members {
		m := &c.Members[i]
		if m.Body == "" || m.HasModifier("abstract") {
			continue
		}
		sb.WriteString("\t")
		for _, mod := range m.Modifiers {
			if mod == "static" || mod == "async" {
				sb.WriteString(mod + " ")
			}
		}
		names := make([]string, len(m.Params))
		for j, p := range m.Params {
			names[j] = p.Name
		}
		sb.WriteString(m.Name + "(" + strings.Join(names, ", ") + ") ")
		body := m.erasedBody()
		if m.IsConstructor {
			var assign strings.Builder
			for _, p := range m.Params {
				if len(p.Modifiers) > 0 {
					assign.WriteString(" this." + p.Name + " = " + p.Name + ";")
				}
			}
			body = "{" + assign.String() + body[1:]
		}
		sb.WriteString(body + "\n\n")
	}
	sb.WriteString("}\n")
}

// erasedBody returns the body without the annotations recorded by the parser.
func (m *Member) erasedBody() string {
	var sb strings.Builder
	at := 0
	for _, s := range m.annots {
		if s.start < at || s.end > len(m.Body) {
			continue // cannot happen: spans are increasing and within the body
		}
		sb.WriteString(m.Body[at:s.start])
		at = s.end
	}
	sb.WriteString(m.Body[at:])
	return sb.String()
}
