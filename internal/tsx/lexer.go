package tsx

import (
	"fmt"
	"sort"
	"strings"
	"unicode"
	"unicode/utf8"
)

type tokKind int

const (
	tEOF tokKind = iota
	tIdent
	tString
	tNumber
	tPunct
)

type token struct {
	kind tokKind
	text string // identifier name, punctuation, or raw number text
	str  string // decoded value of a string literal
	pos  int    // offset of the first byte
	end  int    // offset after the last byte
	nl   bool   // a line terminator precedes the token
}

func (t token) is(p string) bool      { return t.kind == tPunct && t.text == p }
func (t token) isIdent(s string) bool { return t.kind == tIdent && t.text == s }

func (t token) describe() string {
	switch t.kind {
	case tEOF:
		return "end of input"
	case tString:
		return "string " + t.text
	case tNumber:
		return "number " + t.text
	case tIdent:
		return "`" + t.text + "`"
	}
	return "`" + t.text + "`"
}

// lexer produces tokens on demand; the position can be moved freely, which the
// parser uses for look-ahead and for skipping verbatim method bodies.
//
// Errors are raised by panicking with *SyntaxError or *Unsupported; Parse
// recovers them.
type lexer struct {
	src        string
	pos        int
	lineStarts []int
}

func newLexer(src string) *lexer {
	lx := &lexer{src: src, lineStarts: []int{0}}
	for i := 0; i < len(src); i++ {
		if src[i] == '\n' {
			lx.lineStarts = append(lx.lineStarts, i+1)
		}
	}
	return lx
}

func (lx *lexer) line(pos int) int {
	// number of line starts <= pos
	return sort.Search(len(lx.lineStarts), func(i int) bool { return lx.lineStarts[i] > pos })
}

func (lx *lexer) syntax(pos int, format string, args ...any) {
	panic(&SyntaxError{Pos: pos, Line: lx.line(pos), Msg: fmt.Sprintf(format, args...)})
}

func (lx *lexer) unsupported(pos int, format string, args ...any) {
	panic(&Unsupported{Pos: pos, Line: lx.line(pos), Msg: fmt.Sprintf(format, args...)})
}

func isIdentRune(r rune, first bool) bool {
	switch {
	case r == '_' || r == '$':
		return true
	case r >= 'a' && r <= 'z', r >= 'A' && r <= 'Z':
		return true
	case r >= '0' && r <= '9':
		return !first
	case r >= utf8.RuneSelf:
		if unicode.IsLetter(r) {
			return true
		}
		return !first && (unicode.IsDigit(r) || unicode.Is(unicode.Mn, r) || unicode.Is(unicode.Mc, r) || unicode.Is(unicode.Pc, r))
	}
	return false
}

// skipSpace skips white space and comments; it reports whether a line
// terminator was crossed.
func (lx *lexer) skipSpace() (nl bool) {
	src := lx.src
	for lx.pos < len(src) {
		c := src[lx.pos]
		switch {
		case c == '\n' || c == '\r':
			nl = true
			lx.pos++
		case c == ' ' || c == '\t' || c == '\v' || c == '\f':
			lx.pos++
		case c == '/' && lx.pos+1 < len(src) && src[lx.pos+1] == '/':
			for lx.pos < len(src) && src[lx.pos] != '\n' {
				lx.pos++
			}
		case c == '/' && lx.pos+1 < len(src) && src[lx.pos+1] == '*':
			end := strings.Index(src[lx.pos+2:], "*/")
			if end < 0 {
				lx.syntax(lx.pos, "unterminated block comment")
			}
			if strings.ContainsAny(src[lx.pos:lx.pos+2+end], "\n\r") {
				nl = true
			}
			lx.pos += 2 + end + 2
		case c >= utf8.RuneSelf:
			r, size := utf8.DecodeRuneInString(src[lx.pos:])
			switch {
			case r == '\u2028' || r == '\u2029':
				nl = true
				lx.pos += size
			case r == '\ufeff' || r == '\u00a0' || (r != utf8.RuneError && unicode.Is(unicode.Zs, r)):
				lx.pos += size
			default:
				return nl
			}
		default:
			return nl
		}
	}
	return nl
}

// next returns the token starting at the current position and advances.
func (lx *lexer) next() token {
	nl := lx.skipSpace()
	src := lx.src
	start := lx.pos
	if start >= len(src) {
		return token{kind: tEOF, pos: start, end: start, nl: nl}
	}
	c := src[start]
	switch {
	case c == '"' || c == '\'':
		val, end := lx.scanString(start)
		lx.pos = end
		return token{kind: tString, text: src[start:end], str: val, pos: start, end: end, nl: nl}
	case c >= '0' && c <= '9', c == '.' && start+1 < len(src) && src[start+1] >= '0' && src[start+1] <= '9':
		end := lx.scanNumber(start)
		lx.pos = end
		return token{kind: tNumber, text: src[start:end], pos: start, end: end, nl: nl}
	case c == '`':
		lx.unsupported(start, "template literal")
	case c == '@':
		lx.unsupported(start, "decorator")
	case c == '#':
		lx.unsupported(start, "private name or hashbang")
	case c == '\\':
		lx.unsupported(start, "unicode escape in identifier")
	}
	r, size := utf8.DecodeRuneInString(src[start:])
	if r == utf8.RuneError && size <= 1 {
		lx.syntax(start, "invalid UTF-8 byte 0x%02x", c)
	}
	if isIdentRune(r, true) {
		end := start + size
		for end < len(src) {
			r, size = utf8.DecodeRuneInString(src[end:])
			if !isIdentRune(r, false) {
				break
			}
			end += size
		}
		lx.pos = end
		return token{kind: tIdent, text: src[start:end], pos: start, end: end, nl: nl}
	}
	if c < utf8.RuneSelf && strings.IndexByte("{}()[]<>,;:?=|&.-+*/!~%^", c) >= 0 {
		end := start + 1
		switch {
		case strings.HasPrefix(src[start:], "..."):
			end = start + 3
		case strings.HasPrefix(src[start:], "=>"):
			end = start + 2
		}
		lx.pos = end
		return token{kind: tPunct, text: src[start:end], pos: start, end: end, nl: nl}
	}
	lx.syntax(start, "unexpected character %q", r)
	panic("unreachable")
}

// scanString decodes the string literal starting at start (a quote) and
// returns its value and the offset after the closing quote.
func (lx *lexer) scanString(start int) (string, int) {
	src := lx.src
	quote := src[start]
	var sb strings.Builder
	i := start + 1
	for {
		if i >= len(src) {
			lx.syntax(start, "unterminated string literal")
		}
		c := src[i]
		switch {
		case c == quote:
			return sb.String(), i + 1
		case c == '\n' || c == '\r':
			lx.syntax(start, "unterminated string literal (line break)")
		case c == '\\':
			i++
			if i >= len(src) {
				lx.syntax(start, "unterminated string literal")
			}
			e := src[i]
			i++
			switch e {
			case 'n':
				sb.WriteByte('\n')
			case 't':
				sb.WriteByte('\t')
			case 'r':
				sb.WriteByte('\r')
			case 'b':
				sb.WriteByte('\b')
			case 'f':
				sb.WriteByte('\f')
			case 'v':
				sb.WriteByte('\v')
			case '0':
				if i < len(src) && src[i] >= '0' && src[i] <= '9' {
					lx.unsupported(i-2, "octal escape sequence")
				}
				sb.WriteByte(0)
			case '1', '2', '3', '4', '5', '6', '7', '8', '9':
				lx.unsupported(i-2, "octal escape sequence")
			case 'x':
				v, ok := hexValue(src, i, 2)
				if !ok {
					lx.syntax(i-2, "malformed \\x escape")
				}
				sb.WriteRune(rune(v))
				i += 2
			case 'u':
				if i < len(src) && src[i] == '{' {
					close := strings.IndexByte(src[i:], '}')
					if close < 2 || close > 7 {
						lx.syntax(i-2, "malformed \\u{} escape")
					}
					v, ok := hexValue(src, i+1, close-1)
					if !ok || v > unicode.MaxRune {
						lx.syntax(i-2, "malformed \\u{} escape")
					}
					sb.WriteRune(rune(v))
					i += close + 1
				} else {
					v, ok := hexValue(src, i, 4)
					if !ok {
						lx.syntax(i-2, "malformed \\u escape")
					}
					i += 4
					// surrogate pair
					if v >= 0xD800 && v < 0xDC00 && strings.HasPrefix(src[i:], "\\u") {
						if lo, ok := hexValue(src, i+2, 4); ok && lo >= 0xDC00 && lo < 0xE000 {
							v = 0x10000 + (v-0xD800)<<10 + (lo - 0xDC00)
							i += 6
						}
					}
					sb.WriteRune(rune(v))
				}
			case '\r':
				if i < len(src) && src[i] == '\n' {
					i++
				}
			case '\n':
				// line continuation
			default:
				// identity escape (also for multi-byte runes)
				r, size := utf8.DecodeRuneInString(src[i-1:])
				if r == utf8.RuneError && size <= 1 {
					lx.syntax(i-1, "invalid UTF-8 in string literal")
				}
				if r == '\u2028' || r == '\u2029' {
					// line continuation
				} else {
					sb.WriteRune(r)
				}
				i += size - 1
			}
		default:
			if c < utf8.RuneSelf {
				sb.WriteByte(c)
				i++
			} else {
				r, size := utf8.DecodeRuneInString(src[i:])
				if r == utf8.RuneError && size <= 1 {
					lx.syntax(i, "invalid UTF-8 in string literal")
				}
				sb.WriteRune(r)
				i += size
			}
		}
	}
}

func hexValue(src string, at, n int) (int, bool) {
	if n <= 0 || at+n > len(src) {
		return 0, false
	}
	v := 0
	for _, c := range []byte(src[at : at+n]) {
		switch {
		case c >= '0' && c <= '9':
			v = v<<4 | int(c-'0')
		case c >= 'a' && c <= 'f':
			v = v<<4 | int(c-'a'+10)
		case c >= 'A' && c <= 'F':
			v = v<<4 | int(c-'A'+10)
		default:
			return 0, false
		}
	}
	return v, true
}

// scanNumber scans a decimal literal; other numeric notations that TypeScript
// knows are reported as unsupported.
func (lx *lexer) scanNumber(start int) int {
	src := lx.src
	i := start
	digits := func() int {
		n := 0
		for i < len(src) && src[i] >= '0' && src[i] <= '9' {
			i++
			n++
		}
		return n
	}
	if src[i] == '0' && i+1 < len(src) && strings.IndexByte("xXoObB", src[i+1]) >= 0 {
		lx.unsupported(start, "non-decimal numeric literal")
	}
	intDigits := digits()
	if intDigits > 1 && src[start] == '0' {
		lx.unsupported(start, "numeric literal with leading zero")
	}
	if i < len(src) && src[i] == '.' {
		i++
		digits()
	}
	if i < len(src) && (src[i] == 'e' || src[i] == 'E') {
		j := i
		i++
		if i < len(src) && (src[i] == '+' || src[i] == '-') {
			i++
		}
		if digits() == 0 {
			lx.syntax(j, "malformed exponent in numeric literal")
		}
	}
	if i < len(src) {
		if src[i] == '_' || src[i] == 'n' {
			lx.unsupported(start, "numeric separator or bigint literal")
		}
		r, _ := utf8.DecodeRuneInString(src[i:])
		if isIdentRune(r, false) {
			lx.syntax(i, "identifier directly after numeric literal")
		}
	}
	return i
}

// normalizeNumber turns the source text of a decimal literal into a form
// accepted by encoding/json ("1." -> "1", ".5" -> "0.5").
func normalizeNumber(text string) string {
	mant, exp := text, ""
	if k := strings.IndexAny(text, "eE"); k >= 0 {
		mant, exp = text[:k], text[k:]
	}
	if strings.HasPrefix(mant, ".") {
		mant = "0" + mant
	}
	mant = strings.TrimSuffix(mant, ".")
	return mant + exp
}
