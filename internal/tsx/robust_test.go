package tsx

import (
	"errors"
	"math/rand"
	"strings"
	"testing"
)

// parseNoPanic fails the test if Parse panics or returns something other
// than a file, a *SyntaxError or an *Unsupported.
func parseNoPanic(t *testing.T, src string) (outcome string) {
	t.Helper()
	defer func() {
		if r := recover(); r != nil {
			t.Fatalf("Parse panicked: %v\n--- source ---\n%s", r, src)
		}
	}()
	f, err := Parse(src)
	var se *SyntaxError
	var ue *Unsupported
	switch {
	case err == nil && f != nil:
		// a parsed file can be indexed, rendered and erased without panic
		env := NewEnv(f)
		for _, name := range env.TypeNames() {
			if tt, ok := env.Lookup(name); ok {
				_ = tt.String()
				_ = env.Inhabits(map[string]any{"Kind": "x"}, tt)
			}
		}
		_ = f.ReferencedTypeNames()
		_ = f.ReferencedValueNames()
		_ = f.ToJS()
		return "ok"
	case errors.As(err, &se):
		if f != nil || se.Line < 1 || se.Pos < 0 || se.Pos > len(src) {
			t.Fatalf("malformed result %v %+v", f, se)
		}
		return "syntax"
	case errors.As(err, &ue):
		if f != nil || ue.Line < 1 || ue.Pos < 0 || ue.Pos > len(src) {
			t.Fatalf("malformed result %v %+v", f, ue)
		}
		return "unsupported"
	}
	t.Fatalf("Parse returned (%v, %T %v)\n--- source ---\n%s", f, err, err, src)
	return ""
}

func TestParseNeverPanics(t *testing.T) {
	types, axios := loadReal(t)
	rng := rand.New(rand.NewSource(20260926))
	alphabet := []byte("{}()[]<>,;:?=|&.-+*/!\"'` \n\tabcXYZ019_$\\@#\x00\xff\xc3")
	words := []string{"export", "type", "interface", "const", "class", "abstract", "import", "from", "as", "keyof", "typeof",
		"extends", "readonly", "null", "async", "constructor", "=>", "...", "/*", "*/", "//", "${", "Record<", "[]", "| null"}
	counts := map[string]int{}
	for _, base := range []string{types, axios} {
		for i := 0; i < 4000; i++ {
			b := []byte(base)
			for n := 1 + rng.Intn(4); n > 0; n-- {
				at := rng.Intn(len(b) + 1)
				switch rng.Intn(5) {
				case 0: // delete one byte
					if at < len(b) {
						b = append(b[:at], b[at+1:]...)
					}
				case 1: // delete a run
					end := at + rng.Intn(40)
					if end > len(b) {
						end = len(b)
					}
					b = append(b[:at], b[end:]...)
				case 2: // insert a byte
					b = append(b[:at], append([]byte{alphabet[rng.Intn(len(alphabet))]}, b[at:]...)...)
				case 3: // insert a word
					b = append(b[:at], append([]byte(" "+words[rng.Intn(len(words))]+" "), b[at:]...)...)
				case 4: // truncate
					if rng.Intn(4) == 0 {
						b = b[:at]
					}
				}
			}
			counts[parseNoPanic(t, string(b))]++
		}
	}
	t.Logf("outcomes over mutated real outputs: %v", counts)
	if counts["ok"] == 0 || counts["syntax"] == 0 || counts["unsupported"] == 0 {
		t.Errorf("the mutation loop is expected to reach all three outcomes: %v", counts)
	}

	// purely random token soup
	for i := 0; i < 4000; i++ {
		var sb strings.Builder
		for n := rng.Intn(30); n > 0; n-- {
			if rng.Intn(2) == 0 {
				sb.WriteString(words[rng.Intn(len(words))])
			} else {
				sb.WriteByte(alphabet[rng.Intn(len(alphabet))])
			}
			if rng.Intn(3) == 0 {
				sb.WriteByte(' ')
			}
		}
		parseNoPanic(t, sb.String())
	}

	// pathological nesting must not exhaust the stack
	for _, src := range []string{
		"export type T = " + strings.Repeat("(", 100000),
		"export type T = " + strings.Repeat("[", 100000),
		"export type T = " + strings.Repeat("{a:", 100000),
		"export type T = " + strings.Repeat("keyof ", 100000) + "A",
		"export type T = " + strings.Repeat("A<", 100000),
		"export type T = A" + strings.Repeat("[]", 100000),
		"export class A { foo() " + strings.Repeat("{", 100000),
		"export class A { foo() { `" + strings.Repeat("${`", 50000),
	} {
		parseNoPanic(t, src)
	}
}
