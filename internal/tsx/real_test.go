package tsx

import (
	"net/http"
	"os"
	"sync"
	"testing"

	"github.com/benoitkugler/gomacro/analysis"
	"github.com/benoitkugler/gomacro/analysis/httpapi"
	"github.com/benoitkugler/gomacro/generator"
	"github.com/benoitkugler/gomacro/generator/typescript"
)

const defsSource = "/repo/testutils/testsource/defs.go"

var realOutputs struct {
	once  sync.Once
	types string
	axios string
	err   error
}

// loadReal returns the output of typescript.Generate on the repository's main
// fixture and the output of GenerateAxios on hand-built endpoints covering
// every template branch.
func loadReal(t testing.TB) (types, axios string) {
	realOutputs.once.Do(func() {
		// analysis.LoadSource runs `go list` inside /repo; with the harness's
		// GOFLAGS=-mod=mod inherited, that would rewrite /repo/go.sum.
		if old, ok := os.LookupEnv("GOFLAGS"); ok {
			os.Setenv("GOFLAGS", "-mod=readonly")
			defer os.Setenv("GOFLAGS", old)
		}
		pkg, err := analysis.LoadSource(defsSource)
		if err != nil {
			realOutputs.err = err
			return
		}
		an := analysis.NewAnalysisFromFile(pkg, defsSource)
		realOutputs.types = generator.WriteDeclarations(typescript.Generate(an))

		strMap := &analysis.Map{Key: analysis.String, Elem: analysis.Int}
		apis := []httpapi.Endpoint{
			{Url: "/samlskm/", Method: http.MethodPost, Contract: httpapi.Contract{
				Name: "M1", InputBody: &analysis.Array{Elem: analysis.Bool, Len: 5}, Return: &analysis.Array{Elem: analysis.Int, Len: -1},
			}},
			{Url: "/samlskm/:param1", Method: http.MethodGet, Contract: httpapi.Contract{
				Name: "M2",
				InputQueryParams: []httpapi.TypedParam{
					{Name: "arg1", Type: analysis.String}, {Name: "arg2", Type: analysis.Int},
					{Name: "arg2bis", Type: analysis.Float}, {Name: "arg3", Type: analysis.Bool},
				},
			}},
			{Url: "/form", Method: http.MethodPut, Contract: httpapi.Contract{
				Name:      "M3",
				InputForm: httpapi.Form{File: "the-file", ValueNames: []string{"a", "b-c"}, JSON: httpapi.TypedParam{Name: "js", Type: strMap}},
				Return:    strMap,
			}},
			{Url: "/blob", Method: http.MethodGet, Contract: httpapi.Contract{
				Name: "M4", IsReturnBlob: true, Return: &analysis.Array{Elem: analysis.Int, Len: -1},
			}},
			{Url: "/nobody", Method: http.MethodPost, Contract: httpapi.Contract{Name: "M5"}},
		}
		realOutputs.axios = typescript.GenerateAxios(apis)
	})
	if realOutputs.err != nil {
		t.Fatal(realOutputs.err)
	}
	return realOutputs.types, realOutputs.axios
}

func mustParse(t testing.TB, src string) *File {
	t.Helper()
	f, err := Parse(src)
	if err != nil {
		t.Fatalf("Parse: %v\n--- source ---\n%s", err, src)
	}
	return f
}
