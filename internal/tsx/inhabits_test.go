package tsx

import (
	"encoding/json"
	"errors"
	"strings"
	"testing"
)

func decode(t testing.TB, s string) any {
	t.Helper()
	dec := json.NewDecoder(strings.NewReader(s))
	dec.UseNumber()
	var v any
	if err := dec.Decode(&v); err != nil {
		t.Fatalf("bad test JSON %q: %v", s, err)
	}
	return v
}

type inhabitCase struct {
	typ  string // a type name or expression, parsed in the scope of the declarations
	doc  string
	want string // "" for acceptance, otherwise a substring of the *Mismatch text
}

func runInhabitCases(t *testing.T, decls string, cases []inhabitCase) {
	t.Helper()
	for _, c := range cases {
		f := mustParse(t, decls+"\nexport type Probe__ = "+c.typ)
		env := NewEnv(f)
		target, _ := env.Lookup("Probe__")
		err := env.Inhabits(decode(t, c.doc), target)
		switch {
		case c.want == "" && err != nil:
			t.Errorf("%s ∌ %s: unexpected error: %v", c.typ, c.doc, err)
		case c.want != "" && err == nil:
			t.Errorf("%s ∋ %s: accepted, want mismatch %q", c.typ, c.doc, c.want)
		case c.want != "":
			var mm *Mismatch
			if !errors.As(err, &mm) {
				t.Errorf("%s / %s: want *Mismatch, got %T %v", c.typ, c.doc, err, err)
			} else if !strings.Contains(err.Error(), c.want) {
				t.Errorf("%s / %s: error %q lacks %q", c.typ, c.doc, err, c.want)
			}
		}
	}
}

func TestInhabitsBasics(t *testing.T) {
	runInhabitCases(t, "", []inhabitCase{
		{"string", `"a"`, ""},
		{"string", `1`, `$: 1 is not a string`},
		{"string", `null`, `$: null is not a string`},
		{"number", `1.5e3`, ""},
		{"number", `-0`, ""},
		{"number", `"1"`, `is not a number`},
		{"number", `null`, `is not a number`},
		{"boolean", `true`, ""},
		{"boolean", `0`, `is not a boolean`},
		{"null", `null`, ""},
		{"null", `0`, `is not null`},
		{"unknown", `{"a":[1,null]}`, ""},
		{"unknown", `null`, ""},
		{"any", `[1]`, ""},
		{"never", `null`, `no value inhabits never`},
		{"undefined", `null`, `never undefined`},
		{"string | null", `null`, ""},
		{"string | null", `"x"`, ""},
		{"string | null", `3`, `$: 3 is not a string`},
		{"(string | null)", `3`, `is not a string`},
		// literals
		{`"a"`, `"a"`, ""},
		{`"a"`, `"b"`, `"b" is not "a"`},
		{`"1"`, `1`, `is not "1"`},
		{`1`, `1`, ""},
		{`1`, `1.0`, ""},
		{`1`, `1e0`, ""},
		{`100`, `1e2`, ""},
		{`1`, `2`, `2 is not 1`},
		{`1`, `"1"`, `"1" is not 1`},
		{`-1`, `-1`, ""},
		{`-1`, `1`, `1 is not -1`},
		{`0.5`, `0.50`, ""},
		{`true`, `true`, ""},
		{`true`, `false`, `false is not true`},
		{`0 | 1 | 2 | 4`, `4`, ""},
		{`0 | 1 | 2 | 4`, `3`, `$: 3 is not one of 0 | 1 | 2 | 4`},
		{`"a" | "b"`, `"c"`, `"c" is not one of "a" | "b"`},
		// arrays and tuples
		{"number[]", `[]`, ""},
		{"number[]", `[1,2]`, ""},
		{"number[]", `[1,"2"]`, `$[1]: "2" is not a number`},
		{"number[]", `null`, `null given where an array`},
		{"number[]", `{}`, `object given where an array`},
		{"(number[] | null)", `null`, ""},
		{"Array<string>", `["a"]`, ""},
		{"Array<string>", `[1]`, `$[0]: 1 is not a string`},
		{"number[][]", `[[1],[],[2,3]]`, ""},
		{"number[][]", `[[1],[null]]`, `$[1][0]: null is not a number`},
		{"[number,string,]", `[1,"a"]`, ""},
		{"[number,string,]", `["a",1]`, `$[0]: "a" is not a number`},
		{"[number,string,]", `[1]`, `array of length 1 given where the tuple [number, string] of length 2`},
		{"[number,string,]", `[1,"a",2]`, `of length 3`},
		{"[number,string,]", `null`, `null given where the tuple`},
		{"[]", `[]`, ""},
		{"[]", `[1]`, `of length 1`},
		// objects
		{"{ a: number, b?: string }", `{"a":1}`, ""},
		{"{ a: number, b?: string }", `{"a":1,"b":"x"}`, ""},
		{"{ a: number, b?: string }", `{"a":1,"b":2}`, `$.b: 2 is not a string`},
		{"{ a: number, b?: string }", `{"b":"x"}`, `$: missing property "a"`},
		{"{ a: number, b?: string }", `{"a":1,"c":2}`, `$: extra property "c"`},
		{"{ a: number }", `{"a":null}`, `$.a: null is not a number`},
		{"{ a: number }", `null`, `null given where the object`},
		{"{ a: number }", `[]`, `array given where the object`},
		{"{ 'a-b': { c: number[] } }", `{"a-b":{"c":[1,"x"]}}`, `$["a-b"].c[1]: "x" is not a number`},
		{"{}", `{}`, ""},
		{"{}", `{"a":1}`, `extra property "a"`},
		// records
		{"Record<string, number>", `{}`, ""},
		{"Record<string, number>", `{"a":1,"":2,"3":3}`, ""},
		{"Record<string, number>", `{"a":1,"b":"x"}`, `$.b: "x" is not a number`},
		{"Record<string, number>", `null`, `null given where Record<string, number>`},
		{"Record<string, number>", `[]`, `array given where`},
		{"(Record<string, number> | null)", `null`, ""},
		{"Record<number, string>", `{"1":"a","-2":"b","1.5":"c"}`, ""},
		{"Record<number, string>", `{"1":"a","x":"b"}`, `$: key "x" is not admitted`},
		{"Record<number, string>", `{"":"a"}`, `key "" is not admitted`},
		{"Record<number, string>", `{"01":"a"}`, `key "01" is not admitted`},
		{"Record<string, never>", `{}`, ""},
		{"Record<string, never>", `{"a":1}`, `$.a: 1 given, but no value inhabits never`},
		{"Record<'a' | 'b', number>", `{"a":1}`, ""},
		{"Record<'a' | 'b', number>", `{"c":1}`, `key "c" is not admitted`},
		{"Record<1 | 2, number>", `{"1":1,"2.0":2}`, ""},
		{"Record<1 | 2, number>", `{"3":1}`, `key "3" is not admitted`},
		{"Record<string, Record<number, boolean[]>>", `{"a":{"1":[true,0]}}`, `$.a["1"][1]: 0 is not a boolean`},
	})
}

const genLike = `
export type Int = number & { __opaque__: 'Int' };
export type IdCamp = number & { __opaque__: 'IdCamp' };
// ISO date-time string
export type Time = string & { __opaque__: 'Time' }
export type MyTime = Time
export const EnumInt = {
	Ai : 0,
	Bi : 1,
	Di : 4,
} as const;
export type EnumInt = (typeof EnumInt)[keyof typeof EnumInt];
export const EnumIntLabels: Record<EnumInt, string> = {
	[EnumInt.Ai]: "sdsd",
};
export const EnumStr = { A: "a", B: "b\n" } as const;
export type EnumStr = (typeof EnumStr)[keyof typeof EnumStr];
export const Loose = { A: "a", N: 1, T: true };
export type Loose = (typeof Loose)[keyof typeof Loose];
export const Empty = {} as const;
export type EmptyEnum = (typeof Empty)[keyof typeof Empty];
export type Keys = keyof typeof EnumInt
export interface ConcretType1 {
	List2: ( Int[] | null),
	V: Int,
}
export interface ConcretType2 {
	D: number,
}
export type Nothing = Record<string, never>
export const ItfTypeKind = {
	ConcretType1: "ConcretType1",
	ConcretType2: "ConcretType2"
} as const;
export type ItfTypeKind = (typeof ItfTypeKind)[keyof typeof ItfTypeKind];
export type ItfType =
	| { Kind : "ConcretType1", Data: ConcretType1}
	| { Kind : "ConcretType2", Data: ConcretType2}
	| { Kind : "Nothing", Data: Nothing}
export type ItfList = ( ItfType[] | null)
export type Ar3_Int = [Int,Int,Int,]
export type Ar2_Ar3_Int = [Ar3_Int,Ar3_Int,]
export interface Recursive {
	Children: ( Recursive[] | null),
}
export interface Complex {
	with_tag: (Record<Int,Int> | null),
	Time: MyTime,
	Value: ItfType,
	Items: ItfList,
	E: EnumInt,
	S: EnumStr,
	F: Ar2_Ar3_Int,
	EnumMap: (Record<EnumInt,boolean> | null),
	StrMap: (Record<EnumStr,Int> | null),
	IdMap: (Record<IdCamp, Recursive> | null),
	Opaque: unknown,
}
`

const complexOK = `{
	"with_tag": {"1": 2, "-3": 4},
	"Time": "2020-01-02T00:00:00Z",
	"Value": {"Kind": "ConcretType2", "Data": {"D": 1.5}},
	"Items": [{"Kind": "ConcretType1", "Data": {"List2": null, "V": 1}}, {"Kind": "Nothing", "Data": {}}],
	"E": 4,
	"S": "b\n",
	"F": [[1,2,3],[4,5,6]],
	"EnumMap": {"0": true, "4": false},
	"StrMap": {"a": 1},
	"IdMap": {"12": {"Children": [{"Children": null}]}},
	"Opaque": {"what": ["ever"]}
}`

func TestInhabitsGenerated(t *testing.T) {
	edit := func(old, new string) string {
		if !strings.Contains(complexOK, old) {
			t.Fatalf("bad edit %q", old)
		}
		return strings.Replace(complexOK, old, new, 1)
	}
	runInhabitCases(t, genLike, []inhabitCase{
		{"Int", `3`, ""},
		{"Int", `3.5`, ""}, // brands reduce to their primitive: number
		{"Int", `"3"`, `"3" is not a number`},
		{"Int", `null`, `null is not a number`},
		{"Int", `{"__opaque__":"Int"}`, `is not a number`},
		{"MyTime", `"x"`, ""},
		{"MyTime", `1`, `1 is not a string`},
		{"EnumInt", `0`, ""},
		{"EnumInt", `4`, ""},
		{"EnumInt", `4.0`, ""},
		{"EnumInt", `2`, `$: 2 is not one of 0 | 1 | 4`},
		{"EnumInt", `"0"`, `"0" is not one of 0 | 1 | 4`},
		{"EnumInt", `null`, `null is not one of`},
		{"EnumStr", `"a"`, ""},
		{"EnumStr", `"b\n"`, ""},
		{"EnumStr", `"b"`, `"b" is not one of "a" | "b\n"`},
		{"Loose", `"anything"`, ""}, // not `as const`: the property types are widened
		{"Loose", `7`, ""},
		{"Loose", `false`, ""},
		{"Loose", `null`, `does not inhabit any alternative`},
		{"EmptyEnum", `0`, `no value inhabits never`},
		{"Keys", `"Bi"`, ""},
		{"Keys", `"Ci"`, `"Ci" is not one of "Ai" | "Bi" | "Di"`},
		{"Nothing", `{}`, ""},
		{"Nothing", `{"a":null}`, `$.a: null given, but no value inhabits never`},
		{"ConcretType1", `{"List2":[1,2],"V":3}`, ""},
		{"ConcretType1", `{"List2":null,"V":3}`, ""},
		{"ConcretType1", `{"List2":[1,null],"V":3}`, `$.List2[1]: null is not a number`},
		{"ConcretType1", `{"V":3}`, `$: missing property "List2"`},
		{"ConcretType1", `{"List2":null,"V":3,"W":0}`, `$: extra property "W" (declared: List2, V)`},
		{"ConcretType1", `{"List2":null,"V":null}`, `$.V: null is not a number`},
		{"ConcretType1", `null`, `null given where the object`},
		{"ItfType", `{"Kind":"ConcretType2","Data":{"D":1}}`, ""},
		{"ItfType", `{"Kind":"Nothing","Data":{}}`, ""},
		{"ItfType", `{"Kind":"ConcretType2","Data":{"D":"1"}}`, `$.Data.D: "1" is not a number`},
		{"ItfType", `{"Kind":"ConcretType2","Data":{"List2":null,"V":1}}`, `$.Data: missing property "D"`},
		{"ItfType", `{"Kind":"Foo","Data":{"D":1}}`, `$.Kind: "Foo" is not one of "ConcretType1", "ConcretType2", "Nothing"`},
		{"ItfType", `{"Kind":"ConcretType2"}`, `$: missing property "Data"`},
		{"ItfType", `{"Kind":"ConcretType2","Data":{"D":1},"X":1}`, `$: extra property "X"`},
		{"ItfType", `{"Data":{"D":1}}`, `does not inhabit any alternative`},
		{"ItfType", `{"Kind":1,"Data":{"D":1}}`, `does not inhabit any alternative`},
		{"ItfType", `null`, `does not inhabit any alternative`},
		{"ItfType | null", `null`, ""},
		{"ItfList", `null`, ""},
		{"ItfList", `[]`, ""},
		{"ItfList", `[{"Kind":"ConcretType2","Data":{"D":1}},{"Kind":"Nope","Data":null}]`, `$[1].Kind: "Nope" is not one of`},
		{"ItfList", `{}`, `object given where an array`},
		{"Ar3_Int", `[1,2,3]`, ""},
		{"Ar3_Int", `[1,2]`, `of length 2`},
		{"Ar3_Int", `null`, `null given where the tuple`},
		{"Ar2_Ar3_Int", `[[1,2,3],[1,2,3,4]]`, `$[1]: array of length 4`},
		{"Recursive", `{"Children":[{"Children":[]},{"Children":[{"Children":null}]}]}`, ""},
		{"Recursive", `{"Children":[{"Children":[]},{"Children":[{"Children":0}]}]}`, `$.Children[1].Children[0].Children: number given where an array`},
		{"Complex", complexOK, ""},
		{"Complex", edit(`"-3": 4`, `"x": 4`), `$.with_tag: key "x" is not admitted`},
		{"Complex", edit(`{"1": 2, "-3": 4}`, `null`), ""},
		{"Complex", edit(`"Time": "2020-01-02T00:00:00Z"`, `"Time": null`), `$.Time: null is not a string`},
		{"Complex", edit(`"Kind": "Nothing", "Data": {}`, `"Kind": "Nothing", "Data": {"a": 1}`), `$.Items[1].Data.a: 1 given`},
		{"Complex", edit(`"Kind": "ConcretType1"`, `"Kind": "Foo"`), `$.Items[0].Kind: "Foo" is not one of`},
		{"Complex", edit(`"E": 4`, `"E": 3`), `$.E: 3 is not one of 0 | 1 | 4`},
		{"Complex", edit(`[4,5,6]`, `[4,5]`), `$.F[1]: array of length 2`},
		{"Complex", edit(`"4": false`, `"2": false`), `$.EnumMap: key "2" is not admitted by the Record key type EnumInt`},
		{"Complex", edit(`"4": false`, `"4": 0`), `$.EnumMap["4"]: 0 is not a boolean`},
		{"Complex", edit(`{"a": 1}`, `{"A": 1}`), `$.StrMap: key "A" is not admitted`},
		{"Complex", edit(`"12": {`, `"1x": {`), `$.IdMap: key "1x" is not admitted`},
		{"Complex", edit(`{"Children": null}`, `{"Children": null, "x": 1}`), `$.IdMap["12"].Children[0]: extra property "x"`},
		{"Complex", edit(`"Opaque": {"what": ["ever"]}`, `"Opaque": null`), ""},
		{"Complex", edit(`,
	"Opaque": {"what": ["ever"]}`, ``), `$: missing property "Opaque"`},
		{"Complex", edit(`"E": 4,`, `"E": 4, "e": 4,`), `$: extra property "e"`},
	})
}

func TestInhabitsRealOutput(t *testing.T) {
	types, _ := loadReal(t)
	env := NewEnv(mustParse(t, types))
	check := func(name, doc, want string) {
		t.Helper()
		target, ok := env.Lookup(name)
		if !ok {
			t.Fatalf("no type %s", name)
		}
		err := env.Inhabits(decode(t, doc), target)
		if (err == nil) != (want == "") || (err != nil && !strings.Contains(err.Error(), want)) {
			t.Errorf("%s / %s: got %v, want %q", name, doc, err, want)
		}
	}
	ok := `{"with_tag":{"1":2},"Time":"t","B":"b","Value":{"Kind":"ConcretType1","Data":{"List2":[1],"V":2}},"L":null,"A":1,"E":2,"E2":4,
		"Date":"2020-01-01","F":[[true,false,true,false,true],[true,false,true,false,true],[true,false,true,false,true],[true,false,true,false,true],[true,false,true,false,true]],
		"Imported":{"A":1},"EnumMap":{"4":true},"OptID1":{"Id":1},"OptID2":{"Id":-1}}`
	check("ComplexStruct", ok, "")
	check("ComplexStruct", strings.Replace(ok, `"E":2`, `"E":3`, 1), `$.E: 3 is not one of 0 | 1 | 2 | 4`)
	check("ComplexStruct", strings.Replace(ok, `"L":null`, `"L":[{"Kind":"ConcretType3","Data":{}}]`, 1), `$.L[0].Kind: "ConcretType3" is not one of "ConcretType1", "ConcretType2"`)
	check("ComplexStruct", strings.Replace(ok, `"OptID2":{"Id":-1}`, `"OptID2":{"ID":-1}`, 1), `$.OptID2: missing property "Id"`)
	check("ComplexStruct", strings.Replace(ok, `[true,false,true,false,true]],`, `[true,false,true,false]],`, 1), `$.F[4]: array of length 4`)
	check("WithOpaque", `{"F1":{"Field1":[0,1,2],"Field2":null,"Field3":0},"F2":null,"F3":[{}]}`, "")
	check("WithOpaque", `{"F1":{"Field1":[0,1,3],"Field2":null,"Field3":0},"F2":null,"F3":[{}]}`, `$.F1.Field1[2]: 3 is not one of 0 | 1 | 2`)
	check("ItfType2", `{"Kind":"ConcretType1","Data":{"List2":null,"V":0}}`, "")
	check("ItfType2", `{"Kind":"ConcretType2","Data":{"D":0}}`, `$.Kind: "ConcretType2" is not "ConcretType1"`)
}

func TestInhabitsInconclusive(t *testing.T) {
	decls := `
export type A = Missing
export interface B { x: Missing, y: number }
export type C = number | Missing
export type D = (typeof Nope)[keyof typeof Nope]
export type E = Record<Missing, number>
export type F = Promise<number>
export type G = { a: number } & { b: number }
export type H = typeof X
export const X = { a: 1 } as const
export type I = (typeof X)["a"]
export type Cyc = Cyc
export type Cyc2 = Cyc2 | null
export class K { foo() {} }
export type L = K
export type M = B<number>
export type N = Date
export type O = Record<boolean, number>
export type P = string<number>
`
	f := mustParse(t, decls)
	env := NewEnv(f)
	cases := []struct {
		name, doc string
		want      string // "unresolved:NAME", "unsupported", "mismatch", "ok"
	}{
		{"A", `1`, "unresolved:Missing"},
		{"B", `{"x":1,"y":2}`, "unresolved:Missing"},
		{"B", `{"x":1,"y":"2"}`, "mismatch"}, // a definite mismatch wins over an inconclusive sibling
		{"B", `{"x":1}`, "mismatch"},
		{"C", `1`, "ok"},
		{"C", `"s"`, "unresolved:Missing"},
		{"D", `1`, "unresolved:Nope"},
		{"E", `{"a":1}`, "unresolved:Missing"},
		{"E", `{"a":"x"}`, "mismatch"},
		{"E", `[]`, "mismatch"},
		{"F", `1`, "unsupported"},
		{"G", `{"a":1,"b":2}`, "unsupported"},
		{"H", `{"a":1}`, "unsupported"},
		{"I", `1`, "unsupported"},
		{"Cyc", `1`, "unsupported"},
		{"Cyc2", `1`, "unsupported"},
		{"Cyc2", `null`, "ok"},
		{"L", `{}`, "unsupported"},
		{"M", `{}`, "unsupported"},
		{"N", `"2020"`, "unsupported"},
		{"O", `{}`, "unsupported"},
		{"P", `""`, "unsupported"},
	}
	for _, c := range cases {
		target, _ := env.Lookup(c.name)
		err := env.Inhabits(decode(t, c.doc), target)
		var got string
		var ur *Unresolved
		var us *Unsupported
		var mm *Mismatch
		switch {
		case err == nil:
			got = "ok"
		case errors.As(err, &ur):
			got = "unresolved:" + ur.Name
			if ur.Error() == "" || ur.Path == "" {
				t.Errorf("malformed %+v", ur)
			}
		case errors.As(err, &us):
			got = "unsupported"
		case errors.As(err, &mm):
			got = "mismatch"
		default:
			got = "other"
		}
		if got != c.want {
			t.Errorf("%s / %s: got %s (%v), want %s", c.name, c.doc, got, err, c.want)
		}
	}
	if ur := new(Unresolved); !errors.As(env.Inhabits(1.0, &Ref{Name: "Nope"}), &ur) || ur.Namespace != "type" {
		t.Error("direct unresolved reference")
	}
	if ur := new(Unresolved); !errors.As(env.Inhabits(1.0, f.Decls[3].Type), &ur) || ur.Namespace != "value" {
		t.Error("unresolved const")
	}
}

// Documents decoded without UseNumber, or built from Go values, are accepted.
func TestInhabitsGoNumbers(t *testing.T) {
	env := NewEnv(mustParse(t, "export type T = { a: number, b: 2, c: number[] }"))
	target, _ := env.Lookup("T")
	doc := map[string]any{"a": 1.5, "b": 2, "c": []any{int64(1), uint(2), float32(3)}}
	if err := env.Inhabits(doc, target); err != nil {
		t.Error(err)
	}
	doc["b"] = 2.5
	if err := env.Inhabits(doc, target); err == nil || !strings.Contains(err.Error(), "$.b: 2.5 is not 2") {
		t.Error(err)
	}
}

// A declaration of the file shadows a global of the same name.
func TestInhabitsShadowing(t *testing.T) {
	env := NewEnv(mustParse(t, "export interface File { Name: string }\nexport type T = File[]"))
	target, _ := env.Lookup("T")
	if err := env.Inhabits(decode(t, `[{"Name":"x"}]`), target); err != nil {
		t.Error(err)
	}
	if err := env.Inhabits(decode(t, `[{"name":"x"}]`), target); err == nil {
		t.Error("accepted")
	}
}
