package tsx

import "sort"

// Builtins lists the type names that ReferencedTypeNames does not report
// because the TypeScript standard library (or the DOM library) declares them.
// Callers may add or remove entries.
var Builtins = map[string]bool{
	"string": true, "number": true, "boolean": true, "object": true, "symbol": true, "bigint": true, "void": true,
	"Record": true, "Array": true, "ReadonlyArray": true, "Promise": true, "Partial": true, "Required": true,
	"Readonly": true, "Pick": true, "Omit": true, "Exclude": true, "Extract": true, "NonNullable": true,
	"ReturnType": true, "Parameters": true, "Awaited": true,
	"Map": true, "Set": true, "Date": true, "Error": true, "RegExp": true, "Function": true, "Object": true,
	"String": true, "Number": true, "Boolean": true, "ArrayBuffer": true, "Uint8Array": true,
	"Blob": true, "File": true, "FormData": true, "URL": true, "URLSearchParams": true,
	"AxiosResponse": true, "AxiosRequestConfig": true, "AxiosError": true, "AxiosInstance": true,
}

// Env holds the declarations of a file by namespace. TypeScript keeps types
// and values apart: `export const X = {...} as const; export type X = ...`
// legally declares X once in each.
type Env struct {
	file      *File
	types     map[string][]*Decl // type alias, interface, class
	values    map[string][]*Decl // const, class
	typeNames []string
}

// NewEnv indexes the declarations of f.
func NewEnv(f *File) *Env {
	e := &Env{file: f, types: map[string][]*Decl{}, values: map[string][]*Decl{}}
	for i := range f.Decls {
		d := &f.Decls[i]
		switch d.Kind {
		case "type", "interface":
			e.types[d.Name] = append(e.types[d.Name], d)
		case "const":
			e.values[d.Name] = append(e.values[d.Name], d)
		case "class":
			e.types[d.Name] = append(e.types[d.Name], d)
			e.values[d.Name] = append(e.values[d.Name], d)
		}
	}
	for name := range e.types {
		e.typeNames = append(e.typeNames, name)
	}
	sort.Strings(e.typeNames)
	return e
}

// TypeDeclCount returns the number of declarations of name in the type
// namespace (type aliases, interfaces, classes). Imports are not counted.
func (e *Env) TypeDeclCount(name string) int { return len(e.types[name]) }

// ValueDeclCount returns the number of declarations of name in the value
// namespace (consts, classes). Imports are not counted.
func (e *Env) ValueDeclCount(name string) int { return len(e.values[name]) }

// TypeNames returns the sorted names declared in the type namespace.
func (e *Env) TypeNames() []string { return append([]string(nil), e.typeNames...) }

// ValueNames returns the sorted names declared in the value namespace.
func (e *Env) ValueNames() []string {
	var out []string
	for name := range e.values {
		out = append(out, name)
	}
	sort.Strings(out)
	return out
}

// Lookup returns the type declared for name: the target of a type alias or
// the body of an interface (as *Object). When name is declared several times
// the first declaration wins. Classes have no structural type here.
func (e *Env) Lookup(name string) (Type, bool) {
	for _, d := range e.types[name] {
		if d.Type != nil {
			return d.Type, true
		}
	}
	return nil, false
}

// LookupConst returns the first const declaration of name.
func (e *Env) LookupConst(name string) (*Decl, bool) {
	for _, d := range e.values[name] {
		if d.Kind == "const" {
			return d, true
		}
	}
	return nil, false
}

// WalkTypes calls fn for every type node of t, parents first.
func WalkTypes(t Type, fn func(Type)) {
	if t == nil {
		return
	}
	fn(t)
	switch t := t.(type) {
	case *Ref:
		for _, a := range t.Args {
			WalkTypes(a, fn)
		}
	case *Union:
		for _, a := range t.Alts {
			WalkTypes(a, fn)
		}
	case *Intersection:
		for _, a := range t.Parts {
			WalkTypes(a, fn)
		}
	case *ArrayOf:
		WalkTypes(t.Elem, fn)
	case *Tuple:
		for _, a := range t.Elems {
			WalkTypes(a, fn)
		}
	case *Object:
		for _, p := range t.Props {
			WalkTypes(p.Type, fn)
		}
	case *KeyOf:
		WalkTypes(t.T, fn)
	case *Indexed:
		WalkTypes(t.Obj, fn)
		WalkTypes(t.Index, fn)
	}
}

// allTypes calls fn for every top-level type expression of the file: alias
// targets, interface bodies, const annotations, member parameter and return
// types, and the annotations found in method bodies.
func (f *File) allTypes(fn func(Type)) {
	for i := range f.Decls {
		d := &f.Decls[i]
		if d.Type != nil {
			fn(d.Type)
		}
		if d.Class == nil {
			continue
		}
		for _, m := range d.Class.Members {
			for _, p := range m.Params {
				if p.Type != nil {
					fn(p.Type)
				}
			}
			if m.Return != nil {
				fn(m.Return)
			}
			for _, t := range m.BodyAnnotations {
				fn(t)
			}
		}
	}
}

// ImportedNames returns the sorted names bound by import declarations.
func (f *File) ImportedNames() []string {
	set := map[string]bool{}
	for _, d := range f.Decls {
		if d.Kind == "import" {
			for _, n := range d.Imports {
				set[n] = true
			}
		}
	}
	return sortedKeys(set)
}

// ReferencedTypeNames returns the sorted identifiers used in type position
// anywhere in the file, excluding Builtins and imported names.
func (f *File) ReferencedTypeNames() []string {
	imported := map[string]bool{}
	for _, n := range f.ImportedNames() {
		imported[n] = true
	}
	set := map[string]bool{}
	f.allTypes(func(t Type) {
		WalkTypes(t, func(n Type) {
			if r, ok := n.(*Ref); ok && !Builtins[r.Name] && !imported[r.Name] {
				set[r.Name] = true
			}
		})
	})
	return sortedKeys(set)
}

// ReferencedValueNames returns the sorted identifiers used in value position
// by the declarations: operands of `typeof` and the objects of computed keys
// `[X.Y]`. Imported names are excluded. Method bodies are not inspected.
func (f *File) ReferencedValueNames() []string {
	imported := map[string]bool{}
	for _, n := range f.ImportedNames() {
		imported[n] = true
	}
	set := map[string]bool{}
	f.allTypes(func(t Type) {
		WalkTypes(t, func(n Type) {
			if q, ok := n.(*TypeOf); ok && !imported[q.Name] {
				set[q.Name] = true
			}
		})
	})
	for _, d := range f.Decls {
		for _, c := range d.Const {
			if c.Computed && !imported[c.Obj] {
				set[c.Obj] = true
			}
		}
	}
	return sortedKeys(set)
}

func sortedKeys(set map[string]bool) []string {
	out := make([]string, 0, len(set))
	for k := range set {
		out = append(out, k)
	}
	sort.Strings(out)
	return out
}
