package tsx

import (
	"strings"
	"unicode/utf8"
)

// This file holds the shallow JavaScript scanner used for method bodies. It
// knows just enough lexical structure (strings, template literals, comments,
// regular expression literals) to match braces reliably and to find the few
// type annotations the eraser removes. Everything else in a body is left for
// Node to judge.

// regexKeywords are the words after which a `/` starts a regular expression.
var regexKeywords = map[string]bool{
	"return": true, "typeof": true, "case": true, "in": true, "of": true, "do": true, "else": true,
	"void": true, "delete": true, "throw": true, "new": true, "await": true, "yield": true, "instanceof": true,
}

// jsCursor walks JavaScript text token-ish by token-ish.
type jsCursor struct {
	lx       *lexer
	i        int
	end      int    // scanning never goes beyond this offset
	prevSig  byte   // last significant byte before i (0 at the start)
	prevWord string // the identifier ending just before i, if any
	depth    int    // nesting of template literal substitutions
}

// skipAtom skips a string, template literal, comment or regular expression
// literal starting at c.i and reports whether it did so. Comments do not
// update the "previous significant" state.
func (c *jsCursor) skipAtom() bool {
	src := c.lx.src
	i := c.i
	ch := src[i]
	switch {
	case ch == '"' || ch == '\'':
		_, e := c.lx.scanString(i)
		if e > c.end {
			c.lx.syntax(i, "unterminated string literal")
		}
		c.i, c.prevSig, c.prevWord = e, ch, ""
		return true
	case ch == '`':
		c.i = c.skipTemplate(i)
		c.prevSig, c.prevWord = '`', ""
		return true
	case ch == '/' && i+1 < c.end && src[i+1] == '/':
		for i < c.end && src[i] != '\n' {
			i++
		}
		c.i = i
		return true
	case ch == '/' && i+1 < c.end && src[i+1] == '*':
		e := strings.Index(src[i+2:c.end], "*/")
		if e < 0 {
			c.lx.syntax(i, "unterminated block comment")
		}
		c.i = i + 2 + e + 2
		return true
	case ch == '/':
		isRegex := c.prevSig == 0 || strings.IndexByte("(,=:[!&|?{};+-*%<>~^", c.prevSig) >= 0 || regexKeywords[c.prevWord]
		if !isRegex {
			return false
		}
		if e, ok := c.regexEnd(i); ok {
			c.i, c.prevSig, c.prevWord = e, '/', ""
			return true
		}
	}
	return false
}

// regexEnd finds the end of a regular expression literal starting at i; it
// fails (so that `/` is read as a division) when the line ends first.
func (c *jsCursor) regexEnd(i int) (int, bool) {
	src := c.lx.src
	inClass := false
	for j := i + 1; j < c.end; j++ {
		switch src[j] {
		case '\n', '\r':
			return 0, false
		case '\\':
			j++
		case '[':
			inClass = true
		case ']':
			inClass = false
		case '/':
			if !inClass {
				j++
				for j < c.end && (src[j] >= 'a' && src[j] <= 'z') {
					j++
				}
				return j, true
			}
		}
	}
	return 0, false
}

// skipTemplate returns the offset after the template literal starting at i.
func (c *jsCursor) skipTemplate(i int) int {
	src := c.lx.src
	start := i
	i++
	for i < c.end {
		switch src[i] {
		case '\\':
			i += 2
		case '`':
			return i + 1
		case '$':
			if i+1 < c.end && src[i+1] == '{' {
				if c.depth >= maxDepth {
					c.lx.unsupported(i, "template literals nested deeper than %d levels", maxDepth)
				}
				inner := &jsCursor{lx: c.lx, i: i + 1, end: c.end, depth: c.depth + 1}
				i = inner.matchBrace()
			} else {
				i++
			}
		default:
			i++
		}
	}
	c.lx.syntax(start, "unterminated template literal")
	return 0
}

// step advances over one atom, word or byte. It returns the word it stepped
// over, if any, or else the byte when that byte is plain punctuation.
func (c *jsCursor) step() (word string, punct byte) {
	src := c.lx.src
	ch := src[c.i]
	switch {
	case ch == ' ' || ch == '\t' || ch == '\n' || ch == '\r' || ch == '\v' || ch == '\f':
		c.i++
		return "", 0
	case c.skipAtom():
		return "", 0
	}
	r, size := utf8.DecodeRuneInString(src[c.i:c.end])
	if isIdentRune(r, false) {
		start := c.i
		for c.i < c.end {
			r, size = utf8.DecodeRuneInString(src[c.i:c.end])
			if !isIdentRune(r, false) {
				break
			}
			c.i += size
		}
		c.prevWord = src[start:c.i]
		c.prevSig = src[c.i-1]
		return c.prevWord, 0
	}
	c.i += size
	c.prevWord = ""
	if ch < utf8.RuneSelf {
		c.prevSig = ch
		return "", ch
	}
	c.prevSig = 0x80
	return "", 0
}

// matchBrace expects c.i at a `{` and returns the offset after the matching
// `}`.
func (c *jsCursor) matchBrace() int {
	start := c.i
	depth := 0
	for c.i < c.end {
		switch _, b := c.step(); b {
		case '{':
			depth++
		case '}':
			depth--
			if depth == 0 {
				return c.i
			}
		}
	}
	c.lx.syntax(start, "unbalanced `{`")
	return 0
}

// scanBlock returns the offset after the `}` matching the `{` at start.
func (lx *lexer) scanBlock(start int) int {
	c := &jsCursor{lx: lx, i: start, end: len(lx.src)}
	return c.matchBrace()
}

// scanAnnotations looks, in the block src[start:end], for the type
// annotations the eraser removes:
//
//	const|let|var name : T   (followed by `=`, `;`, `,`, `in`, `of` or a line break)
//	catch ( name : T )
//
// It returns the annotated types and the ranges `: T` relative to start.
func (lx *lexer) scanAnnotations(start, end int) ([]Type, []span) {
	var (
		types []Type
		spans []span
	)
	c := &jsCursor{lx: lx, i: start, end: end}
	for c.i < c.end {
		before := c.prevSig
		word, _ := c.step()
		if word == "" || before == '.' {
			continue
		}
		switch word {
		case "const", "let", "var":
			name := lx.tokenAt(c.i, end)
			if name.kind != tIdent {
				continue
			}
			colon := lx.tokenAt(name.end, end)
			if !colon.is(":") {
				continue
			}
			t, typeEnd, next := lx.typeAt(colon.end, end)
			switch {
			case next.is("="), next.is(";"), next.is(","), next.nl, next.isIdent("in"), next.isIdent("of"):
			default:
				lx.syntax(next.pos, "unexpected %s after the type annotation of `%s %s`", next.describe(), word, name.text)
			}
			types = append(types, t)
			spans = append(spans, span{name.end - start, typeEnd - start})
			c.i, c.prevSig, c.prevWord = typeEnd, ')', ""
		case "catch":
			open := lx.tokenAt(c.i, end)
			if !open.is("(") {
				continue
			}
			name := lx.tokenAt(open.end, end)
			if name.kind != tIdent {
				continue
			}
			colon := lx.tokenAt(name.end, end)
			if !colon.is(":") {
				continue
			}
			t, typeEnd, next := lx.typeAt(colon.end, end)
			if !next.is(")") {
				lx.syntax(next.pos, "expected `)` after the type annotation of the catch variable, found %s", next.describe())
			}
			types = append(types, t)
			spans = append(spans, span{name.end - start, typeEnd - start})
			c.i, c.prevSig, c.prevWord = typeEnd, ')', ""
		}
	}
	return types, spans
}

// tokenAt lexes one token at offset at, never reading beyond limit.
func (lx *lexer) tokenAt(at, limit int) token {
	sub := &lexer{src: lx.src[:limit], pos: at, lineStarts: lx.lineStarts}
	return sub.next()
}

// typeAt parses a type starting at offset at. It returns the type, the offset
// just after its last token, and the token that follows.
func (lx *lexer) typeAt(at, limit int) (Type, int, token) {
	sub := &parser{lx: &lexer{src: lx.src[:limit], pos: at, lineStarts: lx.lineStarts}}
	sub.advance()
	if sub.tok.kind == tEOF || sub.tok.is("=") || sub.tok.is(")") || sub.tok.is(";") {
		sub.syntax("missing type after `:`")
	}
	t := sub.parseType()
	return t, sub.prevEnd, sub.tok
}
