package tsx

import (
	"encoding/json"
	"fmt"
	"math/big"
	"regexp"
	"sort"
	"strconv"
	"strings"
)

// Mismatch is returned by Env.Inhabits when the document is definitely not an
// inhabitant of the type.
type Mismatch struct {
	Path string // e.g. $.Items[2].Kind
	Msg  string
}

func (e *Mismatch) Error() string { return e.Path + ": " + e.Msg }

// Unresolved is returned by Env.Inhabits when a name used by the type is not
// declared.
type Unresolved struct {
	Name      string
	Namespace string // "type" or "value"
	Path      string
}

func (e *Unresolved) Error() string {
	return fmt.Sprintf("%s: %s name %q is not declared", e.Path, e.Namespace, e.Name)
}

// maxCheckDepth bounds the recursion of Inhabits; it is only reached by
// cyclic aliases such as `type A = A`.
const maxCheckDepth = 12000

// Inhabits returns nil iff doc is a structural inhabitant of t. doc must be a
// JSON value as decoded by encoding/json (preferably with UseNumber): nil,
// bool, json.Number (or a Go numeric type), string, []any, map[string]any.
//
// The error is a *Mismatch (doc is not an inhabitant), an *Unresolved (a name
// is not declared) or an *Unsupported (the relation is not modelled for t).
func (e *Env) Inhabits(doc any, t Type) error {
	return e.check(doc, t, "$", 0)
}

func inconclusive(err error) bool {
	switch err.(type) {
	case *Unresolved, *Unsupported:
		return true
	}
	return false
}

// firstError keeps the most telling error of a sequence of sibling checks: a
// mismatch is a verdict whatever the inconclusive siblings say.
type firstError struct{ mismatch, other error }

func (f *firstError) add(err error) {
	switch {
	case err == nil:
	case inconclusive(err):
		if f.other == nil {
			f.other = err
		}
	default:
		if f.mismatch == nil {
			f.mismatch = err
		}
	}
}

func (f *firstError) err() error {
	if f.mismatch != nil {
		return f.mismatch
	}
	return f.other
}

func mismatch(path, format string, args ...any) error {
	return &Mismatch{Path: path, Msg: fmt.Sprintf(format, args...)}
}

func notModelled(format string, args ...any) error {
	return &Unsupported{Msg: fmt.Sprintf(format, args...)}
}

func showDoc(doc any) string {
	b, err := json.Marshal(doc)
	if err != nil {
		return fmt.Sprintf("%v", doc)
	}
	s := string(b)
	if len(s) > 80 {
		s = s[:77] + "..."
	}
	return s
}

func kindOf(doc any) string {
	switch doc.(type) {
	case nil:
		return "null"
	case bool:
		return "boolean"
	case string:
		return "string"
	case []any:
		return "array"
	case map[string]any:
		return "object"
	}
	if _, ok := numberOf(doc); ok {
		return "number"
	}
	return fmt.Sprintf("%T", doc)
}

// numberOf returns the decimal text of a JSON number document.
func numberOf(doc any) (string, bool) {
	switch v := doc.(type) {
	case json.Number:
		return string(v), true
	case float64:
		return strconv.FormatFloat(v, 'g', -1, 64), true
	case float32:
		return strconv.FormatFloat(float64(v), 'g', -1, 32), true
	case int:
		return strconv.Itoa(v), true
	case int64:
		return strconv.FormatInt(v, 10), true
	case int32:
		return strconv.FormatInt(int64(v), 10), true
	case uint:
		return strconv.FormatUint(uint64(v), 10), true
	case uint64:
		return strconv.FormatUint(v, 10), true
	case uint32:
		return strconv.FormatUint(uint64(v), 10), true
	}
	return "", false
}

var jsonNumberRE = regexp.MustCompile(`^-?(0|[1-9][0-9]*)(\.[0-9]+)?([eE][+-]?[0-9]+)?$`)

// sameNumber compares two decimal texts numerically.
func sameNumber(a, b string) bool {
	if a == b {
		return true
	}
	if !jsonNumberRE.MatchString(a) || !jsonNumberRE.MatchString(b) {
		return false
	}
	fa, _, errA := big.ParseFloat(a, 10, 512, big.ToNearestEven)
	fb, _, errB := big.ParseFloat(b, 10, 512, big.ToNearestEven)
	if errA != nil || errB != nil {
		return false
	}
	return fa.Cmp(fb) == 0
}

func childPath(path, key string) string {
	if isIdentName(key) {
		return path + "." + key
	}
	return path + "[" + strconv.Quote(key) + "]"
}

func (e *Env) check(doc any, t Type, path string, depth int) error {
	if depth > maxCheckDepth {
		return notModelled("%s: type recursion deeper than %d (cyclic alias?)", path, maxCheckDepth)
	}
	depth++
	switch t := t.(type) {
	case nil:
		return notModelled("%s: missing type", path)
	case *Any, *Unknown:
		return nil
	case *Never:
		return mismatch(path, "%s given, but no value inhabits never", showDoc(doc))
	case *Undefined:
		return mismatch(path, "%s given, but a JSON value is never undefined", showDoc(doc))
	case *Null:
		if doc == nil {
			return nil
		}
		return mismatch(path, "%s is not null", showDoc(doc))
	case *StringLit:
		if s, ok := doc.(string); ok && s == t.Value {
			return nil
		}
		return mismatch(path, "%s is not %s", showDoc(doc), t)
	case *NumberLit:
		if n, ok := numberOf(doc); ok && sameNumber(n, string(t.Value)) {
			return nil
		}
		return mismatch(path, "%s is not %s", showDoc(doc), t)
	case *BoolLit:
		if b, ok := doc.(bool); ok && b == t.Value {
			return nil
		}
		return mismatch(path, "%s is not %s", showDoc(doc), t)
	case *Ref:
		return e.checkRef(doc, t, path, depth)
	case *Union:
		return e.checkUnion(doc, t, path, depth)
	case *Intersection:
		reduced, err := reduceBrand(t, path)
		if err != nil {
			return err
		}
		return e.check(doc, reduced, path, depth)
	case *ArrayOf:
		return e.checkArray(doc, t.Elem, path, depth)
	case *Tuple:
		arr, ok := doc.([]any)
		if !ok {
			return mismatch(path, "%s given where the tuple %s is expected", kindOf(doc), t)
		}
		if len(arr) != len(t.Elems) {
			return mismatch(path, "array of length %d given where the tuple %s of length %d is expected", len(arr), t, len(t.Elems))
		}
		var fe firstError
		for i, el := range arr {
			fe.add(e.check(el, t.Elems[i], fmt.Sprintf("%s[%d]", path, i), depth))
		}
		return fe.err()
	case *Object:
		return e.checkObject(doc, t, path, depth)
	case *Indexed, *KeyOf:
		set, err := e.literalSet(t, path)
		if err != nil {
			return err
		}
		return e.check(doc, set, path, depth)
	case *TypeOf:
		return notModelled("%s: membership in the type query %s is not modelled", path, t)
	}
	return notModelled("%s: unknown type node %T", path, t)
}

// reduceBrand drops the branding parts of an intersection, i.e. object types
// all of whose property names start with "__".
func reduceBrand(t *Intersection, path string) (Type, error) {
	var rest []Type
	for _, part := range t.Parts {
		if obj, ok := part.(*Object); ok && len(obj.Props) > 0 {
			brand := true
			for _, p := range obj.Props {
				if !strings.HasPrefix(p.Name, "__") {
					brand = false
				}
			}
			if brand {
				continue
			}
		}
		rest = append(rest, part)
	}
	if len(rest) != 1 {
		return nil, notModelled("%s: intersection %s does not reduce to one part plus brands", path, t)
	}
	return rest[0], nil
}

func (e *Env) checkRef(doc any, t *Ref, path string, depth int) error {
	if e.TypeDeclCount(t.Name) > 0 { // declarations of the file shadow the global ones
		if len(t.Args) > 0 {
			return notModelled("%s: generic reference %s to a declared type", path, t)
		}
		target, ok := e.Lookup(t.Name)
		if !ok {
			return notModelled("%s: %s is a class; its instances are not modelled", path, t.Name)
		}
		return e.check(doc, target, path, depth)
	}
	switch t.Name {
	case "string", "number", "boolean":
		if len(t.Args) > 0 {
			return notModelled("%s: type arguments on %s", path, t.Name)
		}
		if kindOf(doc) == t.Name {
			return nil
		}
		return mismatch(path, "%s is not a %s", showDoc(doc), t.Name)
	case "Array", "ReadonlyArray":
		if len(t.Args) != 1 {
			return notModelled("%s: %s with %d type arguments", path, t.Name, len(t.Args))
		}
		return e.checkArray(doc, t.Args[0], path, depth)
	case "Record":
		if len(t.Args) != 2 {
			return notModelled("%s: Record with %d type arguments", path, len(t.Args))
		}
		return e.checkRecord(doc, t, path, depth)
	}
	if Builtins[t.Name] {
		return notModelled("%s: membership in the built-in type %s is not modelled", path, t)
	}
	return &Unresolved{Name: t.Name, Namespace: "type", Path: path}
}

func (e *Env) checkArray(doc any, elem Type, path string, depth int) error {
	arr, ok := doc.([]any)
	if !ok {
		return mismatch(path, "%s given where an array of %s is expected", kindOf(doc), elem)
	}
	var fe firstError
	for i, el := range arr {
		fe.add(e.check(el, elem, fmt.Sprintf("%s[%d]", path, i), depth))
		if fe.mismatch != nil {
			break
		}
	}
	return fe.err()
}

func (e *Env) checkObject(doc any, t *Object, path string, depth int) error {
	obj, ok := doc.(map[string]any)
	if !ok {
		return mismatch(path, "%s given where the object %s is expected", kindOf(doc), shortType(t))
	}
	var fe firstError
	declared := map[string]bool{}
	for _, p := range t.Props {
		declared[p.Name] = true
		if _, present := obj[p.Name]; !present && !p.Optional {
			fe.add(mismatch(path, "missing property %q", p.Name))
		}
	}
	var extra []string
	for k := range obj {
		if !declared[k] {
			extra = append(extra, k)
		}
	}
	sort.Strings(extra)
	for _, k := range extra {
		fe.add(mismatch(path, "extra property %q (declared: %s)", k, propNames(t)))
	}
	if fe.mismatch != nil {
		return fe.mismatch
	}
	for _, p := range t.Props {
		if v, present := obj[p.Name]; present {
			fe.add(e.check(v, p.Type, childPath(path, p.Name), depth))
		}
	}
	return fe.err()
}

func propNames(t *Object) string {
	names := make([]string, len(t.Props))
	for i, p := range t.Props {
		names[i] = p.Name
	}
	return strings.Join(names, ", ")
}

func shortType(t Type) string {
	s := t.String()
	if len(s) > 120 {
		s = s[:117] + "..."
	}
	return s
}

// resolveShallow follows references to declared aliases and interfaces until
// another kind of node is met.
func (e *Env) resolveShallow(t Type) Type {
	for i := 0; i < 100; i++ {
		r, ok := t.(*Ref)
		if !ok || len(r.Args) > 0 {
			return t
		}
		target, ok := e.Lookup(r.Name)
		if !ok {
			return t
		}
		t = target
	}
	return t
}

// kindLiteral returns the string literal of the Kind property of an object
// type, if it has one.
func (e *Env) kindLiteral(t Type) (string, bool) {
	obj, ok := e.resolveShallow(t).(*Object)
	if !ok {
		return "", false
	}
	for _, p := range obj.Props {
		if p.Name == "Kind" {
			if lit, ok := e.resolveShallow(p.Type).(*StringLit); ok {
				return lit.Value, true
			}
		}
	}
	return "", false
}

func isLiteral(t Type) bool {
	switch t.(type) {
	case *StringLit, *NumberLit, *BoolLit, *Null:
		return true
	}
	return false
}

func (e *Env) checkUnion(doc any, t *Union, path string, depth int) error {
	errs := make([]error, len(t.Alts))
	var other error
	for i, alt := range t.Alts {
		err := e.check(doc, alt, path, depth)
		if err == nil {
			return nil
		}
		if inconclusive(err) && other == nil {
			other = err
		}
		errs[i] = err
	}
	if other != nil {
		return other
	}
	if len(t.Alts) == 0 {
		return mismatch(path, "%s given, but the union is empty", showDoc(doc))
	}
	// discriminated union: report against the alternative of the same Kind
	if obj, ok := doc.(map[string]any); ok {
		if kind, ok := obj["Kind"].(string); ok {
			var kinds []string
			for i, alt := range t.Alts {
				if lit, ok := e.kindLiteral(alt); ok {
					if lit == kind {
						return errs[i]
					}
					kinds = append(kinds, strconv.Quote(lit))
				}
			}
			if len(kinds) == len(t.Alts) {
				return mismatch(childPath(path, "Kind"), "%s is not one of %s", strconv.Quote(kind), strings.Join(kinds, ", "))
			}
		}
	}
	allLits := true
	for _, alt := range t.Alts {
		if !isLiteral(alt) {
			allLits = false
		}
	}
	if allLits {
		return mismatch(path, "%s is not one of %s", showDoc(doc), shortType(t))
	}
	// a single non-null alternative: its error is the interesting one
	var nonNull []int
	for i, alt := range t.Alts {
		if _, isNull := alt.(*Null); !isNull {
			nonNull = append(nonNull, i)
		}
	}
	if len(nonNull) == 1 && doc != nil {
		return errs[nonNull[0]]
	}
	return mismatch(path, "%s does not inhabit any alternative of %s", showDoc(doc), shortType(t))
}

// literalSet resolves `(typeof X)[keyof typeof X]` to the union of the values
// of the const X, and `keyof typeof X` to the union of its keys.
func (e *Env) literalSet(t Type, path string) (Type, error) {
	constOf := func(q Type) (*Decl, error) {
		query, ok := q.(*TypeOf)
		if !ok {
			return nil, notModelled("%s: %s is not of the form (typeof X)[keyof typeof X]", path, t)
		}
		d, ok := e.LookupConst(query.Name)
		if !ok {
			return nil, &Unresolved{Name: query.Name, Namespace: "value", Path: path}
		}
		return d, nil
	}
	switch t := t.(type) {
	case *KeyOf:
		d, err := constOf(t.T)
		if err != nil {
			return nil, err
		}
		u := &Union{}
		for _, c := range d.Const {
			if c.Computed {
				return nil, notModelled("%s: keyof a const with computed keys", path)
			}
			u.Alts = append(u.Alts, &StringLit{Value: c.Key})
		}
		if len(u.Alts) == 0 {
			return &Never{}, nil
		}
		return u, nil
	case *Indexed:
		d, err := constOf(t.Obj)
		if err != nil {
			return nil, err
		}
		key, ok := t.Index.(*KeyOf)
		if !ok {
			return nil, notModelled("%s: indexed access %s is not of the form (typeof X)[keyof typeof X]", path, t)
		}
		d2, err := constOf(key.T)
		if err != nil {
			return nil, err
		}
		if d2 != d {
			return nil, notModelled("%s: indexed access %s mixes two consts", path, t)
		}
		u := &Union{}
		for _, c := range d.Const {
			var alt Type
			switch v := c.Value.(type) {
			case string:
				alt = &StringLit{Value: v}
				if !d.AsConst {
					alt = &Ref{Name: "string"}
				}
			case json.Number:
				alt = &NumberLit{Value: v}
				if !d.AsConst {
					alt = &Ref{Name: "number"}
				}
			case bool:
				alt = &BoolLit{Value: v}
				if !d.AsConst {
					alt = &Ref{Name: "boolean"}
				}
			default:
				return nil, notModelled("%s: const value of type %T", path, c.Value)
			}
			u.Alts = append(u.Alts, alt)
		}
		if len(u.Alts) == 0 {
			return &Never{}, nil
		}
		return u, nil
	}
	return nil, notModelled("%s: %s", path, t)
}

// keySpec describes which JSON object keys a Record key type admits.
type keySpec struct {
	anyString bool
	numeric   bool
	strings   []string // admitted literally
	numbers   []string // admitted up to numeric equality
}

func (k *keySpec) admits(key string) bool {
	if k.anyString {
		return true
	}
	isNum := jsonNumberRE.MatchString(key)
	if k.numeric && isNum {
		return true
	}
	for _, s := range k.strings {
		if s == key {
			return true
		}
	}
	if isNum {
		for _, n := range k.numbers {
			if sameNumber(n, key) {
				return true
			}
		}
	}
	return false
}

func (k *keySpec) describe() string {
	var parts []string
	if k.anyString {
		parts = append(parts, "any string")
	}
	if k.numeric {
		parts = append(parts, "a number")
	}
	for _, s := range k.strings {
		parts = append(parts, strconv.Quote(s))
	}
	for _, n := range k.numbers {
		parts = append(parts, strconv.Quote(n))
	}
	if len(parts) == 0 {
		return "nothing"
	}
	return strings.Join(parts, ", ")
}

func (e *Env) keySpecOf(t Type, spec *keySpec, path string, depth int) error {
	if depth > 200 {
		return notModelled("%s: Record key type nested too deep (cyclic alias?)", path)
	}
	depth++
	switch t := t.(type) {
	case *Ref:
		if e.TypeDeclCount(t.Name) > 0 {
			target, ok := e.Lookup(t.Name)
			if !ok || len(t.Args) > 0 {
				return notModelled("%s: Record key type %s", path, t)
			}
			return e.keySpecOf(target, spec, path, depth)
		}
		switch {
		case t.Name == "string" && len(t.Args) == 0:
			spec.anyString = true
			return nil
		case t.Name == "number" && len(t.Args) == 0:
			spec.numeric = true
			return nil
		case Builtins[t.Name]:
			return notModelled("%s: Record key type %s", path, t)
		}
		return &Unresolved{Name: t.Name, Namespace: "type", Path: path}
	case *Intersection:
		reduced, err := reduceBrand(t, path)
		if err != nil {
			return err
		}
		return e.keySpecOf(reduced, spec, path, depth)
	case *StringLit:
		spec.strings = append(spec.strings, t.Value)
		return nil
	case *NumberLit:
		spec.numbers = append(spec.numbers, string(t.Value))
		return nil
	case *Union:
		for _, alt := range t.Alts {
			if err := e.keySpecOf(alt, spec, path, depth); err != nil {
				return err
			}
		}
		return nil
	case *Never:
		return nil
	case *Indexed, *KeyOf:
		set, err := e.literalSet(t, path)
		if err != nil {
			return err
		}
		return e.keySpecOf(set, spec, path, depth)
	}
	return notModelled("%s: Record key type %s", path, t)
}

func (e *Env) checkRecord(doc any, t *Ref, path string, depth int) error {
	var spec keySpec
	specErr := e.keySpecOf(t.Args[0], &spec, path, 0)
	if specErr != nil && !inconclusive(specErr) {
		return specErr
	}
	obj, ok := doc.(map[string]any)
	if !ok {
		return mismatch(path, "%s given where %s is expected", kindOf(doc), shortType(t))
	}
	keys := make([]string, 0, len(obj))
	for k := range obj {
		keys = append(keys, k)
	}
	sort.Strings(keys)
	var fe firstError
	fe.add(specErr)
	for _, k := range keys {
		if specErr == nil && !spec.admits(k) {
			fe.add(mismatch(path, "key %q is not admitted by the Record key type %s (admitted: %s)", k, t.Args[0], spec.describe()))
		}
		fe.add(e.check(obj[k], t.Args[1], childPath(path, k), depth))
	}
	return fe.err()
}
