package tsx

import (
	"encoding/json"
	"errors"
	"os/exec"
	"reflect"
	"strings"
	"testing"
)

func TestParseRealTypes(t *testing.T) {
	types, _ := loadReal(t)
	f := mustParse(t, types)
	env := NewEnv(f)

	// every referenced name resolves, in its namespace
	for _, name := range f.ReferencedTypeNames() {
		if env.TypeDeclCount(name) != 1 {
			t.Errorf("type %s: %d declarations", name, env.TypeDeclCount(name))
		}
	}
	for _, name := range f.ReferencedValueNames() {
		if env.ValueDeclCount(name) != 1 {
			t.Errorf("value %s: %d declarations", name, env.ValueDeclCount(name))
		}
	}
	if got := f.ImportedNames(); len(got) != 0 {
		t.Errorf("imports: %v", got)
	}
	for _, name := range env.TypeNames() {
		if env.TypeDeclCount(name) != 1 {
			t.Errorf("type %s declared %d times", name, env.TypeDeclCount(name))
		}
		if _, ok := env.Lookup(name); !ok {
			t.Errorf("Lookup(%s) fails", name)
		}
	}

	// an enum is declared once as a value and once as a type
	if env.TypeDeclCount("EnumInt") != 1 || env.ValueDeclCount("EnumInt") != 1 {
		t.Errorf("EnumInt: %d type, %d value declarations", env.TypeDeclCount("EnumInt"), env.ValueDeclCount("EnumInt"))
	}
	if env.TypeDeclCount("EnumIntLabels") != 0 || env.ValueDeclCount("EnumIntLabels") != 1 {
		t.Error("EnumIntLabels must only be a value")
	}
	if env.TypeDeclCount("NoSuchType") != 0 {
		t.Error("NoSuchType")
	}

	refs := strings.Join(f.ReferencedTypeNames(), " ")
	for _, want := range []string{"Int", "ItfType", "EnumInt", "Ar5_boolean", "Generic_IdCamp", "RecursiveType", "NamedSlice"} {
		if !strings.Contains(" "+refs+" ", " "+want+" ") {
			t.Errorf("ReferencedTypeNames lacks %s: %s", want, refs)
		}
	}
	for _, not := range []string{"string", "number", "boolean", "Record", "ComplexStruct" /* never referenced */} {
		if strings.Contains(" "+refs+" ", " "+not+" ") {
			t.Errorf("ReferencedTypeNames has %s", not)
		}
	}
	if got, want := f.ReferencedValueNames(), []string{"Enum", "EnumInt", "EnumUInt", "ItfType2Kind", "ItfTypeKind"}; !reflect.DeepEqual(got, want) {
		t.Errorf("ReferencedValueNames = %v", got)
	}

	// spot checks of the shapes
	tt, _ := env.Lookup("Ar5_boolean")
	if tu, ok := tt.(*Tuple); !ok || len(tu.Elems) != 5 {
		t.Errorf("Ar5_boolean = %v", tt)
	}
	tt, _ = env.Lookup("ItfType")
	if u, ok := tt.(*Union); !ok || len(u.Alts) != 2 {
		t.Errorf("ItfType = %v", tt)
	}
	tt, _ = env.Lookup("ItfType2") // a one-member union written with a leading |
	if _, ok := tt.(*Object); !ok {
		t.Errorf("ItfType2 = %v", tt)
	}
	tt, _ = env.Lookup("Int")
	if tt.String() != `number & { __opaque__: "Int" }` {
		t.Errorf("Int = %v", tt)
	}
	tt, _ = env.Lookup("EnumInt")
	if tt.String() != "(typeof EnumInt)[keyof typeof EnumInt]" {
		t.Errorf("EnumInt = %v", tt)
	}
	d, ok := env.LookupConst("EnumInt")
	if !ok || !d.AsConst || len(d.Const) != 4 || d.Const[3].Key != "Di" || d.Const[3].Value != json.Number("4") {
		t.Errorf("const EnumInt = %+v", d)
	}
	d, ok = env.LookupConst("EnumIntLabels")
	if !ok || d.AsConst || d.Type.String() != "Record<EnumInt, string>" || !d.Const[0].Computed ||
		d.Const[0].Obj != "EnumInt" || d.Const[0].Member != "Ai" || d.Const[0].Key != "[EnumInt.Ai]" || d.Const[0].Value != "sdsd" {
		t.Errorf("const EnumIntLabels = %+v", d)
	}
}

func TestParseCommittedFixture(t *testing.T) {
	out, err := exec.Command("git", "-C", "/repo", "show", "HEAD:generator/typescript/test/gen.ts").Output()
	if err != nil {
		t.Skip("committed fixture not available:", err)
	}
	f := mustParse(t, string(out))
	env := NewEnv(f)
	for _, name := range f.ReferencedTypeNames() {
		if env.TypeDeclCount(name) != 1 {
			t.Errorf("type %s: %d declarations", name, env.TypeDeclCount(name))
		}
	}
}

func TestParseRealAxios(t *testing.T) {
	_, axios := loadReal(t)
	f := mustParse(t, axios)
	env := NewEnv(f)

	if got, want := f.ImportedNames(), []string{"Axios", "AxiosResponse"}; !reflect.DeepEqual(got, want) {
		t.Errorf("ImportedNames = %v", got)
	}
	if !f.Decls[0].ImportType || f.Decls[0].From != "axios" || f.Decls[1].ImportType {
		t.Errorf("imports: %+v %+v", f.Decls[0], f.Decls[1])
	}
	// Int is used by signatures and by AxiosResponse<...> annotations
	if got, want := f.ReferencedTypeNames(), []string{"Ar5_boolean", "Int"}; !reflect.DeepEqual(got, want) {
		t.Errorf("ReferencedTypeNames = %v", got)
	}
	for _, name := range f.ReferencedTypeNames() {
		if env.TypeDeclCount(name) != 1 {
			t.Errorf("type %s: %d declarations", name, env.TypeDeclCount(name))
		}
	}
	if env.TypeDeclCount("AbstractAPI") != 1 || env.ValueDeclCount("AbstractAPI") != 1 {
		t.Error("class must be declared in both namespaces")
	}
	if _, ok := env.Lookup("AbstractAPI"); ok {
		t.Error("a class has no structural type")
	}

	var cl *Class
	for _, d := range f.Decls {
		if d.Kind == "class" {
			cl = d.Class
		}
	}
	if cl == nil || !cl.Abstract || cl.Name != "AbstractAPI" {
		t.Fatalf("class = %+v", cl)
	}
	var names []string
	for _, m := range cl.Members {
		names = append(names, m.Name)
	}
	if want := []string{"constructor", "handleError", "startRequest", "getHeaders", "M1", "M2", "M3", "M4", "M5"}; !reflect.DeepEqual(names, want) {
		t.Fatalf("members = %v", names)
	}
	ctor := cl.Members[0]
	if !ctor.IsConstructor || len(ctor.Params) != 2 || ctor.Params[1].Name != "authToken" ||
		!reflect.DeepEqual(ctor.Params[1].Modifiers, []string{"protected"}) || ctor.Params[1].Type.String() != "string" || ctor.Body != "{}" {
		t.Errorf("constructor = %+v", ctor)
	}
	he := cl.Members[1]
	if !reflect.DeepEqual(he.Modifiers, []string{"abstract", "protected"}) || he.Body != "" || he.Return.String() != "void" ||
		he.Params[0].Type.String() != "any" {
		t.Errorf("handleError = %+v", he)
	}
	m1 := cl.Members[4]
	if !m1.HasModifier("async") || m1.Params[0].Type.String() != "Ar5_boolean" || len(m1.BodyAnnotations) != 1 ||
		m1.BodyAnnotations[0].String() != "AxiosResponse<Int[] | null>" ||
		!strings.HasPrefix(m1.Body, "{") || !strings.HasSuffix(m1.Body, "}") || !strings.Contains(m1.Body, `Axios.post(fullUrl, params, {`) {
		t.Errorf("M1 = %+v", m1)
	}
	m2 := cl.Members[5]
	obj, ok := m2.Params[0].Type.(*Object)
	if !ok || len(obj.Props) != 4 || !obj.Props[0].Quoted || obj.Props[1].Name != "arg2" || obj.Props[1].Type.String() != "Int" {
		t.Errorf("M2 params = %v", m2.Params[0].Type)
	}
	m3 := cl.Members[6]
	if len(m3.Params) != 3 || m3.Params[0].Type.(*Object).Props[1].Name != "b-c" || m3.Params[1].Type.String() != "File" ||
		m3.Params[2].Type.String() != "Record<string, Int> | null" {
		t.Errorf("M3 params = %v", m3.Params)
	}
}

func parseAlias(t *testing.T, typ string) Type {
	t.Helper()
	f := mustParse(t, "export type T = "+typ)
	if len(f.Decls) != 1 || f.Decls[0].Kind != "type" || f.Decls[0].Name != "T" {
		t.Fatalf("decls = %+v", f.Decls)
	}
	return f.Decls[0].Type
}

func TestTypeGrammar(t *testing.T) {
	cases := []struct{ src, want string }{
		{"string", "string"},
		{"( Int[] | null)", "Int[] | null"},
		{"(Int | null)[]", "(Int | null)[]"},
		{"(Record<Int,Int> | null)", "Record<Int, Int> | null"},
		{"[Int,Int,Int,]", "[Int, Int, Int]"},
		{"[Int,Int]", "[Int, Int]"},
		{"[]", "[]"},
		{"[][]", "[][]"},
		{"number & { __opaque__: 'Int' };", `number & { __opaque__: "Int" }`},
		{"\n | { Kind : \"A\", Data: A}\n| { Kind : \"B\", Data: B}\n", `{ Kind: "A", Data: A } | { Kind: "B", Data: B }`},
		{"A | B & C", "A | B & C"},
		{"(A | B) & C", "(A | B) & C"},
		{"keyof A[]", "keyof A[]"},
		{"(keyof A)[]", "(keyof A)[]"},
		{"keyof typeof X", "keyof typeof X"},
		{"(typeof X)[keyof typeof X]", "(typeof X)[keyof typeof X]"},
		{"A[\"k\"][0]", `A["k"][0]`},
		{"-1 | 2.5 | 1e3 | 'a\\'b' | \"q\\\"\\n\\u00e9\\x41\"", `-1 | 2.5 | 1e3 | "a'b" | "q\"\né` + `A"`},
		{"null | undefined | unknown | never | any | true | false", "null | undefined | unknown | never | any | true | false"},
		{"Array<Promise<Int>>", "Array<Promise<Int>>"},
		{"{ a?: Int; 'b-c': string\n d: X }", `{ a?: Int, "b-c": string, d: X }`},
		{"{}", "{}"},
		{"/* c */ A // d\n | B", "A | B"},
		{"& A & B", "A & B"},
		{"readonly", "readonly"},
	}
	for _, c := range cases {
		got := parseAlias(t, c.src)
		if got.String() != c.want {
			t.Errorf("%q: got %s, want %s", c.src, got, c.want)
			continue
		}
		// the rendering parses back to the same tree
		again := parseAlias(t, got.String())
		if !reflect.DeepEqual(got, again) {
			t.Errorf("%q: rendering %s does not round-trip: %s", c.src, got, again)
		}
	}
}

func TestStatementBoundaries(t *testing.T) {
	f := mustParse(t, "export type A = B\nexport type C = D;export type E = F\n// c\nexport interface G { a: A }export type H = [A,\n]\n;\n")
	var names []string
	for _, d := range f.Decls {
		names = append(names, d.Name)
		if !d.Exported {
			t.Errorf("%s not exported", d.Name)
		}
	}
	if want := []string{"A", "C", "E", "G", "H"}; !reflect.DeepEqual(names, want) {
		t.Errorf("names = %v", names)
	}
	if f.Decls[2].Line != 2 || f.Decls[3].Line != 4 {
		t.Errorf("lines = %d %d", f.Decls[2].Line, f.Decls[3].Line)
	}
	if f, err := Parse(""); err != nil || len(f.Decls) != 0 {
		t.Errorf("empty input: %v %v", f, err)
	}
	if f, err := Parse("// only a comment\n/** doc */"); err != nil || len(f.Decls) != 0 {
		t.Errorf("comment input: %v %v", f, err)
	}
}

func TestConstForms(t *testing.T) {
	f := mustParse(t, `export const K = { A: "x", 'b c': -2, C: true, D: 1.50, } as const
export const L: Record<K, string> = { [K.A]: "l\"1" };
export const E = {}`)
	k := f.Decls[0]
	want := []ConstEntry{
		{Key: "A", Value: "x"}, {Key: "b c", Quoted: true, Value: json.Number("-2")},
		{Key: "C", Value: true}, {Key: "D", Value: json.Number("1.50")},
	}
	if !k.AsConst || !reflect.DeepEqual(k.Const, want) {
		t.Errorf("K = %+v", k.Const)
	}
	if k.ObjText != `{ A: "x", 'b c': -2, C: true, D: 1.50, }` {
		t.Errorf("ObjText = %q", k.ObjText)
	}
	l := f.Decls[1]
	if l.AsConst || l.Const[0].Value != `l"1` || l.ObjText != `{ [K.A]: "l\"1" }` {
		t.Errorf("L = %+v", l)
	}
	if e := f.Decls[2]; e.Kind != "const" || len(e.Const) != 0 || e.ObjText != "{}" {
		t.Errorf("E = %+v", e)
	}
}

func TestDuplicateDeclarations(t *testing.T) {
	f := mustParse(t, "export type A = string\nexport interface A { x: A, x: number }\nexport const A = {}\nexport const A = {}\nexport const A = {}")
	env := NewEnv(f)
	if env.TypeDeclCount("A") != 2 || env.ValueDeclCount("A") != 3 {
		t.Errorf("counts = %d %d", env.TypeDeclCount("A"), env.ValueDeclCount("A"))
	}
	if got := f.Decls[1].Type.(*Object).DuplicateProps(); !reflect.DeepEqual(got, []string{"x"}) {
		t.Errorf("DuplicateProps = %v", got)
	}
	if got := env.ValueNames(); !reflect.DeepEqual(got, []string{"A"}) {
		t.Errorf("ValueNames = %v", got)
	}
}

func TestSyntaxErrors(t *testing.T) {
	cases := []string{
		"export interface A {\n a-b: Int,\n}",
		"export interface A {\n r,omitempty: number,\n}",
		"export interface A {\n a b: number,\n}",
		"export interface A { a: Int b: Int }",
		"export type T = [Int,,Int]",
		"export type T = [,Int]",
		"export type T = [Int Int]",
		"export interface A {\n a: Int,\n",
		"export interface A {\n a: Int,\n}}",
		"export interface A { a: { b: Int }",
		"export type T = ",
		"export type T = \nexport type U = A",
		"export type T",
		"export type T = (A",
		"export type T = (A | )",
		"export type T = A | ",
		"export type T = A |\n",
		"export type T = A[",
		"export type T = [A",
		"export type T = Record<A",
		"export type T = Record<>",
		"export type T = Record<,A>",
		"export type T = A B",
		"export type T = A }",
		"export type T = A )",
		"export type T = A\n)",
		"export type T = A\n, B",
		"export type T = ()",
		"export type T = -a",
		"export type T = 3a",
		"export type T = 1e",
		"export type T = const",
		"export type = A",
		"export type class = A",
		"export type 3 = A",
		"export interface A { x: }",
		"export interface A { x: , y: Int }",
		"export interface A { x: Int,, y: Int }",
		"export interface A { , }",
		"export interface A { x }",
		"export interface A x: Int }",
		"export interface { x: Int }",
		"export interface A { x: 'abc }",
		"export interface A { x: \"abc\n\" }",
		"export type T = 'abc",
		"export type T = 'a\\x4g'",
		"export type T = A § B",
		"export type T = A \x00",
		"export type T = A\n\xff\xfe",
		"export type T = A /* never closed",
		"export const X = {",
		"export const X = { A: 1",
		"export const X = { A: 1,, B: 2 }",
		"export const X = { A: 1 B: 2 }",
		"export const X = { A: 1 \"b\": 2 }",
		"export const X = { A: }",
		"export const X = { A: , }",
		"export const X = { a-b: 1 }",
		"export const X = { [A.]: 1 }",
		"export const X = { [A.B: 1 }",
		"export const X = }",
		"export const X = ",
		"export const X",
		"export const X: = {}",
		"export const X = {} export type A = B",
		"export const X = {} as const export type A = B",
		"export const = {}",
		"export",
		"export 5",
		"export ,",
		"export abstract type A = B",
		"}",
		")",
		"]",
		", export type A = B",
		"export type A = B\n}",
		"import { A from \"x\"",
		"import { A } \"x\"",
		"import { A } from",
		"import { A } from x",
		"import { , } from 'x'",
		"import A from 'x' import B from 'y'",
		"import",
		"export class {}",
		"export class A {",
		"export class A { foo( }",
		"export class A { foo() { }",
		"export class A { foo() { ` } }",
		"export class A { foo() { ' } }",
		"export class A { foo() { /* } }",
		"export class A { foo(a,,b) {} }",
		"export class A { foo(a: ) {} }",
		"export class A { foo(a: Int b: Int) {} }",
		"export class A { foo(: Int) {} }",
		"export class A { foo() x }",
		"export class A { foo bar() {} }",
		"export class A { , }",
		"export class A { foo() { const x: = 1 } }",
		"export class A { foo() { const x: Q<A = 1 } }",
		"export class A { foo() { const x: [A,,B] = 1 } }",
		"export class A { foo() { const x: A B = 1 } }",
		"export class A { foo() { try {} catch (e: ) {} } }",
		"export class A { foo() { try {} catch (e: any {} } }",
	}
	for _, src := range cases {
		f, err := Parse(src)
		var se *SyntaxError
		if !errors.As(err, &se) {
			t.Errorf("%q: want *SyntaxError, got %T %v (file %v)", src, err, err, f)
			continue
		}
		if se.Line < 1 || se.Pos < 0 || se.Pos > len(src) || se.Msg == "" || !strings.Contains(se.Error(), "syntax error") {
			t.Errorf("%q: malformed error %+v", src, se)
		}
		if want := 1 + strings.Count(src[:se.Pos], "\n"); se.Line != want {
			t.Errorf("%q: line %d, want %d", src, se.Line, want)
		}
	}
}

func TestUnsupported(t *testing.T) {
	cases := []string{
		"export function f() {}",
		"export enum E {A}",
		"export const enum E {A}",
		"export default class {}",
		"export let x = 1",
		"export * from 'x'",
		"export { A }",
		"export = A",
		"export declare const x: number",
		"export namespace N {}",
		"export type { A } from 'x'",
		"export type T = A extends B ? X : Y",
		"export type T = A\n extends B ? X : Y",
		"export type T = { [K in keyof A]: A[K] }",
		"export type T = { [key: string]: number }",
		"export type T = { readonly a: number }",
		"export type T = { -readonly [K in A]: B }",
		"export type T = { foo(): void }",
		"export type T = { (x: number): void }",
		"export type T = { new (x: number): T }",
		"export type T = { 0: number }",
		"export type T = { get a(): number }",
		"export type T<X> = X[]",
		"export type T = () => void",
		"export type T = (a: number) => void",
		"export type T = (a?: number) => void",
		"export type T = (a, b) => void",
		"export type T = (...a: number[]) => void",
		"export type T = (A) => void",
		"export type T = <X>(a: X) => X",
		"export type T = new () => A",
		"export type T = readonly string[]",
		"export type T = unique symbol",
		"export type T = A.B",
		"export type T = typeof A.B",
		"export type T = import('x').Y",
		"export type T = `a${string}`",
		"export type T = [a: number, b: string]",
		"export type T = [number?]",
		"export type T = [...A]",
		"export type T = this",
		"export type T = 0x10",
		"export type T = 10n",
		"export type T = 1_000",
		"export type T = '\\101'",
		"export type T = Record<A, B,>",
		"export type T = A extends (infer U)[] ? U : never",
		"export interface A extends B { x: number }",
		"export interface A<T> { x: T }",
		"export interface A { x(): void }",
		"export const x = 5",
		"export const x = 'a'",
		"export const x = [1, 2]",
		"export const x = foo()",
		"export const x = { a: [1] }",
		"export const x = { a: { b: 1 } }",
		"export const x = { a: 1 + 2 }",
		"export const x = { a: foo }",
		"export const x = { a }",
		"export const x = { a() {} }",
		"export const x = { ...y }",
		"export const x = { 1: 2 }",
		"export const x = { [y]: 2 }",
		"export const x = { ['a']: 2 }",
		"export const x = { a: 1 } as Foo",
		"export const x = { a: 1 } satisfies Foo",
		"export const x = { a: 1 }.a",
		"export const x = {}, y = {}",
		"export const { a } = b",
		"const x = {}",
		"type T = string",
		"interface A { x: number }",
		"class A {}",
		"function f() {}",
		"let x = 1",
		"declare module 'x' {}",
		"foo();",
		"'use strict';",
		"(function () {})()",
		"@decorator\nexport class A {}",
		"#!/usr/bin/env node",
		"import * as X from 'x'",
		"import A, { B } from 'x'",
		"import 'x'",
		"import { A as B } from 'x'",
		"import { type A } from 'x'",
		"import x = require('x')",
		"import A from 'x' with { type: 'json' }",
		"export class A extends B {}",
		"export class A implements B {}",
		"export class A<T> {}",
		"export class A { x: number }",
		"export class A { x = 1 }",
		"export class A { x }",
		"export class A { x; }",
		"export class A { private x: number }",
		"export class A { readonly x: number }",
		"export class A { static x = 1 }",
		"export class A { get x() { return 1 } }",
		"export class A { foo?(): void }",
		"export class A { foo<T>(a: T) {} }",
		"export class A { 'foo'() {} }",
		"export class A { [foo]() {} }",
		"export class A { *gen() {} }",
		"export class A { #priv() {} }",
		"export class A { @dec foo() {} }",
		"export class A { foo(...a: number[]) {} }",
		"export class A { foo({a}: X) {} }",
		"export class A { foo(a = 1) {} }",
		"export class A { foo(a: number = 1) {} }",
		"export class A { foo(a: any): a is string {} }",
		"export class A { foo(a: any): asserts a {} }",
		"export class A { constructor(a: number); }",
		"export class A { foo() { const x: A extends B ? C : D = 1 } }",
		"export class A { foo() { let f: (a: number) => void = g } }",
	}
	for _, src := range cases {
		f, err := Parse(src)
		var ue *Unsupported
		if !errors.As(err, &ue) {
			t.Errorf("%q: want *Unsupported, got %T %v (file %v)", src, err, err, f)
			continue
		}
		if ue.Line < 1 || ue.Pos < 0 || ue.Pos > len(src) || ue.Msg == "" || !strings.Contains(ue.Error(), "unsupported") {
			t.Errorf("%q: malformed error %+v", src, ue)
		}
	}
}

func TestClassForms(t *testing.T) {
	src := `export class C {
	constructor(private readonly a: string, b?: number, public c: X[] = [],) { this.b = b }
}`
	if _, err := Parse(src); err == nil {
		t.Error("default value must be unsupported")
	}
	src = `/** doc */
export class C {
	constructor(private readonly a: string, b?: number, c,) { this.b = b; }
	static async make(): Promise<C> { return new C("}", 1) }
	public over(a: string): void;
	public over(a: any): void { /* } */ const re = /[}/]\}/g; const s = ` + "`a${ {x: \"}\"}.x }b}`" + `; // }
	}
	async(static: number) { return 1 / 2 / 3 }
	;
	abstract foo(): void
	protected bar(x: { a: string }): { b: number } { return { b: 1 } }
}
export type After = C`
	f := mustParse(t, src)
	if len(f.Decls) != 2 || f.Decls[1].Name != "After" {
		t.Fatalf("decls = %+v", f.Decls)
	}
	cl := f.Decls[0].Class
	var sigs []string
	for _, m := range cl.Members {
		sig := strings.Join(append(append([]string{}, m.Modifiers...), m.Name), " ")
		if m.Body == "" {
			sig += ";"
		}
		sigs = append(sigs, sig)
	}
	want := []string{"constructor", "static async make", "public over;", "public over", "async", "abstract foo;", "protected bar"}
	if !reflect.DeepEqual(sigs, want) {
		t.Fatalf("members = %q", sigs)
	}
	ctor := cl.Members[0]
	if !reflect.DeepEqual(ctor.Params[0].Modifiers, []string{"private", "readonly"}) || !ctor.Params[1].Optional || ctor.Params[2].Type != nil {
		t.Errorf("ctor params = %+v", ctor.Params)
	}
	if cl.Members[4].Params[0].Name != "static" {
		t.Errorf("async(static) = %+v", cl.Members[4])
	}
	if cl.Members[6].Return.String() != "{ b: number }" || cl.Members[6].Body != "{ return { b: 1 } }" {
		t.Errorf("bar = %+v", cl.Members[6])
	}
	if cl.Members[1].Return.String() != "Promise<C>" {
		t.Errorf("make = %+v", cl.Members[1])
	}
}

func TestBodyAnnotations(t *testing.T) {
	src := `export class C {
	foo(a: A) {
		const x : Array<{ a: B[] }> = [], s = "const y: Nope = 1";
		// let z: Nope = 1
		let u:U
		var v: [V, W,] = a.const, k = { let: 1, var: 2 }
		for (const w: W2 of list) {}
		try {} catch (err: unknown) {} finally {}
		try {} catch {}
		const { p, q } = a
		return cond ? x : y
	}
}`
	f := mustParse(t, src)
	m := f.Decls[0].Class.Members[0]
	var got []string
	for _, a := range m.BodyAnnotations {
		got = append(got, a.String())
	}
	want := []string{"Array<{ a: B[] }>", "U", "[V, W]", "W2", "unknown"}
	if !reflect.DeepEqual(got, want) {
		t.Errorf("annotations = %q", got)
	}
	if got, want := f.ReferencedTypeNames(), []string{"A", "B", "U", "V", "W", "W2"}; !reflect.DeepEqual(got, want) {
		t.Errorf("ReferencedTypeNames = %v", got)
	}
	erased := m.erasedBody()
	for _, wantSub := range []string{`const x = [], s = "const y: Nope = 1";`, "// let z: Nope = 1", "let u\n", "var v = a.const, k = { let: 1, var: 2 }", "(const w of list)", "catch (err) {}", "cond ? x : y"} {
		if !strings.Contains(erased, wantSub) {
			t.Errorf("erased body lacks %q:\n%s", wantSub, erased)
		}
	}
}
