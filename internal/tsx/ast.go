// Package tsx is a small, purpose-built reader for the TypeScript emitted by
// gomacro's typescript generator (type declarations and the Axios client).
//
// It offers three services:
//
//   - Parse: a lexer and recursive-descent parser for the declaration and
//     type-expression subset the generator can reach;
//   - Env.Inhabits: a structural "is this JSON document a member of this type"
//     relation;
//   - EraseToJS: a type eraser producing plain JavaScript runnable by Node.
//
// The parser is two-sided. Text that cannot be TypeScript at all yields a
// *SyntaxError; text that is (or may well be) valid TypeScript but lies outside
// the modelled subset yields *Unsupported. When in doubt the parser answers
// *Unsupported.
package tsx

import (
	"encoding/json"
	"fmt"
	"sort"
	"strconv"
	"strings"
)

// SyntaxError reports text that cannot be valid TypeScript.
type SyntaxError struct {
	Pos  int // byte offset in the source
	Line int // 1-based line number
	Msg  string
}

func (e *SyntaxError) Error() string {
	return fmt.Sprintf("tsx: syntax error at line %d (offset %d): %s", e.Line, e.Pos, e.Msg)
}

// Unsupported reports a construct that is valid TypeScript (or may be) but is
// outside the subset modelled by this package. It is also returned by
// Env.Inhabits for types whose membership relation is not modelled.
type Unsupported struct {
	Pos  int
	Line int
	Msg  string
}

func (e *Unsupported) Error() string {
	if e.Line == 0 {
		return "tsx: unsupported: " + e.Msg
	}
	return fmt.Sprintf("tsx: unsupported construct at line %d (offset %d): %s", e.Line, e.Pos, e.Msg)
}

// Type is a TypeScript type expression. String renders it back as TypeScript.
type Type interface {
	String() string
}

type (
	// Ref is a (possibly generic) type reference such as Int or Record<K,V>.
	Ref struct {
		Name string
		Args []Type
	}
	// StringLit is a string literal type.
	StringLit struct{ Value string }
	// NumberLit is a numeric literal type; Value is the decimal source text,
	// including a leading '-' for negative literals.
	NumberLit struct{ Value json.Number }
	// BoolLit is the literal type true or false.
	BoolLit struct{ Value bool }
	// Null is the type null.
	Null struct{}
	// Unknown is the type unknown.
	Unknown struct{}
	// Never is the type never.
	Never struct{}
	// Any is the type any.
	Any struct{}
	// Undefined is the type undefined.
	Undefined struct{}
	// Union is A | B | ...
	Union struct{ Alts []Type }
	// Intersection is A & B & ...
	Intersection struct{ Parts []Type }
	// ArrayOf is Elem[].
	ArrayOf struct{ Elem Type }
	// Tuple is [A, B, ...]; it may be empty.
	Tuple struct{ Elems []Type }
	// Object is an object type literal or the body of an interface.
	Object struct{ Props []Prop }
	// TypeOf is the type query `typeof Name` (Name lives in the value namespace).
	TypeOf struct{ Name string }
	// KeyOf is `keyof T`.
	KeyOf struct{ T Type }
	// Indexed is the indexed access type Obj[Index].
	Indexed struct{ Obj, Index Type }
)

// Prop is one property of an Object.
type Prop struct {
	Name     string
	Quoted   bool // the name was written as a string literal
	Optional bool
	Type     Type
}

// DuplicateProps returns the sorted property names that occur more than once.
func (o *Object) DuplicateProps() []string {
	seen := map[string]int{}
	for _, p := range o.Props {
		seen[p.Name]++
	}
	var out []string
	for name, n := range seen {
		if n > 1 {
			out = append(out, name)
		}
	}
	sort.Strings(out)
	return out
}

// precedence levels used by String to decide where parentheses are needed.
const (
	precUnion = iota
	precInter
	precOperator
	precPostfix
)

func typePrec(t Type) int {
	switch t.(type) {
	case *Union:
		return precUnion
	case *Intersection:
		return precInter
	case *KeyOf:
		return precOperator
	case *TypeOf:
		// `typeof X[K]` would be read as an indexed access on the query, which
		// is what the grammar does as well; parenthesise for readability.
		return precOperator
	}
	return precPostfix
}

func wrap(t Type, min int) string {
	if t == nil {
		return "<nil>"
	}
	if typePrec(t) < min {
		return "(" + t.String() + ")"
	}
	return t.String()
}

func (t *Ref) String() string {
	if len(t.Args) == 0 {
		return t.Name
	}
	args := make([]string, len(t.Args))
	for i, a := range t.Args {
		args[i] = wrap(a, precUnion)
	}
	return t.Name + "<" + strings.Join(args, ", ") + ">"
}
func (t *StringLit) String() string { return strconv.Quote(t.Value) }
func (t *NumberLit) String() string { return string(t.Value) }
func (t *BoolLit) String() string   { return strconv.FormatBool(t.Value) }
func (*Null) String() string        { return "null" }
func (*Unknown) String() string     { return "unknown" }
func (*Never) String() string       { return "never" }
func (*Any) String() string         { return "any" }
func (*Undefined) String() string   { return "undefined" }
func (t *Union) String() string {
	parts := make([]string, len(t.Alts))
	for i, a := range t.Alts {
		parts[i] = wrap(a, precInter)
	}
	return strings.Join(parts, " | ")
}
func (t *Intersection) String() string {
	parts := make([]string, len(t.Parts))
	for i, a := range t.Parts {
		parts[i] = wrap(a, precOperator)
	}
	return strings.Join(parts, " & ")
}
func (t *ArrayOf) String() string { return wrap(t.Elem, precPostfix) + "[]" }
func (t *Tuple) String() string {
	parts := make([]string, len(t.Elems))
	for i, a := range t.Elems {
		parts[i] = wrap(a, precUnion)
	}
	return "[" + strings.Join(parts, ", ") + "]"
}
func (t *Object) String() string {
	if len(t.Props) == 0 {
		return "{}"
	}
	parts := make([]string, len(t.Props))
	for i, p := range t.Props {
		name := p.Name
		if p.Quoted || !isIdentName(name) {
			name = strconv.Quote(name)
		}
		if p.Optional {
			name += "?"
		}
		parts[i] = name + ": " + wrap(p.Type, precUnion)
	}
	return "{ " + strings.Join(parts, ", ") + " }"
}
func (t *TypeOf) String() string { return "typeof " + t.Name }
func (t *KeyOf) String() string  { return "keyof " + wrap(t.T, precOperator) }
func (t *Indexed) String() string {
	return wrap(t.Obj, precPostfix) + "[" + wrap(t.Index, precUnion) + "]"
}

// ConstEntry is one `key: value` entry of a const object literal.
type ConstEntry struct {
	// Key is the property name; for a computed key `[X.Y]` it is the text
	// "[X.Y]" and Obj, Member hold X and Y.
	Key      string
	Computed bool
	Obj      string
	Member   string
	Quoted   bool // the key was written as a string literal
	// Value is a string, a json.Number or a bool.
	Value any
}

// Decl is one top-level declaration.
type Decl struct {
	Kind string // "type", "interface", "const", "class", "import"
	Name string // declared name; for imports the first imported name
	// Type is the alias target, the interface body as *Object, or the
	// annotation of a const (nil when absent).
	Type    Type
	Const   []ConstEntry // entries of a const object literal
	AsConst bool
	ObjText string // verbatim source text of the const object literal
	Class   *Class
	// Imports lists the names bound by an import declaration.
	Imports    []string
	ImportType bool   // `import type`
	From       string // module specifier of an import
	Exported   bool
	Line       int
	Pos        int
}

// Class is a class declaration.
type Class struct {
	Name     string
	Abstract bool
	Members  []Member
}

// Member is a constructor or method of a class.
type Member struct {
	Name          string
	Modifiers     []string
	Params        []Param
	Return        Type   // nil when absent
	Body          string // verbatim `{...}` text, "" if the member has no body
	IsConstructor bool
	// BodyAnnotations are the types found in the body in the positions the
	// eraser removes: `const|let|var x: T` and `catch (e: T)`.
	BodyAnnotations []Type
	Line            int

	annots []span // source ranges, relative to Body, that the eraser deletes
}

// span is a half-open byte range.
type span struct{ start, end int }

// HasModifier reports whether the member carries the given modifier.
func (m *Member) HasModifier(mod string) bool {
	for _, x := range m.Modifiers {
		if x == mod {
			return true
		}
	}
	return false
}

// Param is one parameter of a class member.
type Param struct {
	Name      string
	Modifiers []string
	Optional  bool
	Type      Type // nil when the parameter has no annotation
}

// File is a parsed source text.
type File struct {
	Decls []Decl
}

func isIdentName(s string) bool {
	if s == "" {
		return false
	}
	for i, r := range s {
		if !isIdentRune(r, i == 0) {
			return false
		}
	}
	return true
}
