package dartx

import (
	"math/rand"
	"os"
	"path/filepath"
	"testing"
)

// exercise calls every extractor, to check that none panics.
func exercise(f *File) {
	f.Declared()
	f.Duplicates()
	f.UsedTypeNames()
	f.UsedFunctionNames()
	f.DeclaredTypeNames()
	f.DeclaredFunctionNames()
	f.eachBody(func(fn *Function) {
		fn.JSONReads()
		fn.MapWrites()
		fn.SwitchCases()
		fn.KindWrites()
		fn.IsChecks()
		fn.Calls()
		fn.ConstructorCall()
		fn.ItemFieldReads()
		fn.Interpolations()
		fn.StringLiterals()
	})
}

// Parse must return a *File, a *SyntaxError or an *Unsupported on any
// input, never panic, and be deterministic.
func TestMutationsNeverPanic(t *testing.T) {
	entries, err := filepath.Glob("testdata/*.dart")
	if err != nil || len(entries) == 0 {
		t.Fatal("no seed", err)
	}
	var seeds []string
	for _, e := range entries {
		b, err := os.ReadFile(e)
		if err != nil {
			t.Fatal(err)
		}
		seeds = append(seeds, string(b))
	}
	seeds = append(seeds,
		"enum S { a, b }\nextension _SExt on S {\n static const _values = [ \"a\", -1, 2.5 ];\n static S fromValue(String s) => S.values[_values.indexOf(s)];\n String toValue() => _values[index];\n}\n",
		"class A extends B implements C, D<int> {\n final Map<String, List<E?>>? f;\n const A(this.f,);\n @override\n String toString() => '''x ${f['a']} $f''';\n}\n",
	)
	fragments := []string{
		"{", "}", "(", ")", "[", "]", "<", ">", ",", ";", ":", ".", "=", "=>", "?", "!", "@", "-", "$", "\\", "'", "\"", "'''", "r'", "${", "/*", "*/", "//", "\n", " ",
		"final", "const", "class", "enum", "extension", "on", "typedef", "import", "static", "this", "return", "case", "is", "as", "abstract", "implements", "extends", "required",
		"a-b", "r,omitempty", "1", "0x", "1.5e", "é", "\x00", "json['k']", "\"K\" :", "Foo(", "item.x", "_values", "List<", "@override",
	}
	rng := rand.New(rand.NewSource(20260926))
	mutate := func(src string) string {
		n := 1 + rng.Intn(4)
		for k := 0; k < n && len(src) > 0; k++ {
			i := rng.Intn(len(src))
			switch rng.Intn(6) {
			case 0: // delete a span
				j := i + rng.Intn(20)
				if j > len(src) {
					j = len(src)
				}
				src = src[:i] + src[j:]
			case 1: // insert a fragment
				src = src[:i] + fragments[rng.Intn(len(fragments))] + src[i:]
			case 2: // replace one byte
				src = src[:i] + string(rune(rng.Intn(128))) + src[i+1:]
			case 3: // truncate
				src = src[:i]
			case 4: // duplicate a span
				j := i + rng.Intn(60)
				if j > len(src) {
					j = len(src)
				}
				src = src[:j] + src[i:j] + src[j:]
			case 5: // swap two spans
				j := rng.Intn(len(src))
				if i > j {
					i, j = j, i
				}
				w := rng.Intn(10)
				if i+w <= j && j+w <= len(src) {
					src = src[:i] + src[j:j+w] + src[i+w:j] + src[i:i+w] + src[j+w:]
				}
			}
		}
		return src
	}

	const rounds = 30000
	var parsed, syntax, unsupported int
	for round := 0; round < rounds; round++ {
		src := mutate(seeds[rng.Intn(len(seeds))])
		if round%10 == 0 && len(src) > 400 { // also short inputs
			i := rng.Intn(len(src) - 300)
			src = src[i : i+300]
		}
		f, err := func() (f *File, err error) {
			defer func() {
				if r := recover(); r != nil {
					t.Fatalf("panic %v on input\n%s", r, src)
				}
			}()
			f, err = Parse(src)
			if f != nil {
				exercise(f)
			}
			return f, err
		}()
		switch {
		case err == nil && f != nil:
			parsed++
		case f != nil:
			t.Fatalf("both a file and an error on\n%s", src)
		case isSyntax(err):
			syntax++
		case isUnsupported(err):
			unsupported++
		default:
			t.Fatalf("unexpected error %T %v on\n%s", err, err, src)
		}
		if round%100 == 0 { // determinism
			_, err2 := Parse(src)
			if (err == nil) != (err2 == nil) || (err != nil && err.Error() != err2.Error()) {
				t.Fatalf("not deterministic: %v / %v", err, err2)
			}
		}
	}
	t.Logf("%d inputs: %d parsed, %d syntax errors, %d unsupported", rounds, parsed, syntax, unsupported)
	if parsed == 0 || syntax == 0 || unsupported == 0 {
		t.Errorf("the mutations are not diverse enough")
	}
}

// Every strict prefix of a valid file either parses (cut between two
// declarations) or is rejected; it never panics.
func TestPrefixes(t *testing.T) {
	b, err := os.ReadFile("testdata/testsource_subpackage.dart")
	if err != nil {
		t.Fatal(err)
	}
	src := string(b)
	full, err := Parse(src)
	if err != nil {
		t.Fatal(err)
	}
	for i := 0; i < len(src); i++ {
		f, err := Parse(src[:i])
		if err != nil {
			if !isSyntax(err) && !isUnsupported(err) {
				t.Fatalf("prefix %d: %v", i, err)
			}
			continue
		}
		if len(f.Order) > len(full.Order) {
			t.Fatalf("prefix %d has more declarations than the file", i)
		}
		for k, d := range f.Order {
			if d != full.Order[k] {
				t.Fatalf("prefix %d: declaration %d is %v, want %v", i, k, d, full.Order[k])
			}
		}
	}
}
