package dartx

import (
	"sort"
	"strings"
)

// CoreTypes are the names of dart:core (and pseudo types) which
// UsedTypeNames does not report.
var CoreTypes = []string{
	"String", "int", "double", "bool", "num", "dynamic", "List", "Map", "Set",
	"DateTime", "MapEntry", "Object", "Iterable", "Null", "void", "Function", "Never",
}

// CoreFunctions are the keywords and dart:core functions which may be
// followed by '(' and which UsedFunctionNames does not report.
// (Reserved words are never reported, listed here or not.)
var CoreFunctions = []string{
	"throw", "switch", "if", "return", "while", "for", "catch", "assert", "super", "this",
	"print", "identical", "await", "yield", "on", "rethrow",
}

func toSet(l []string) map[string]bool {
	out := make(map[string]bool, len(l))
	for _, s := range l {
		out[s] = true
	}
	return out
}

func sortedKeys(set map[string]bool) []string {
	out := make([]string, 0, len(set))
	for k := range set {
		out = append(out, k)
	}
	sort.Strings(out)
	return out
}

// Declared maps every declared top-level name to the kinds of its
// declarations ("class", "abstract class", "typedef", "enum", "extension",
// "function"), in source order. A name with several entries is declared
// several times. Unnamed extensions are not listed.
func (f *File) Declared() map[string][]string {
	out := make(map[string][]string)
	for _, d := range f.Order {
		if d.Kind == KindImport || d.Name == "" {
			continue
		}
		out[d.Name] = append(out[d.Name], d.Kind)
	}
	return out
}

// Duplicates returns the sorted names which are declared several times.
func (f *File) Duplicates() []string {
	out := []string{}
	for name, kinds := range f.Declared() {
		if len(kinds) > 1 {
			out = append(out, name)
		}
	}
	sort.Strings(out)
	return out
}

// DeclaredTypeNames returns the sorted names of the classes, typedefs and enums.
func (f *File) DeclaredTypeNames() []string {
	set := map[string]bool{}
	for _, d := range f.Order {
		switch d.Kind {
		case KindClass, KindAbstractClass, KindTypedef, KindEnum:
			set[d.Name] = true
		}
	}
	return sortedKeys(set)
}

// DeclaredFunctionNames returns the sorted names of the top-level functions.
func (f *File) DeclaredFunctionNames() []string {
	set := map[string]bool{}
	for _, fn := range f.Functions {
		set[fn.Name] = true
	}
	return sortedKeys(set)
}

// eachBody calls fn for every function, method and static constant of the
// file (a constant is presented as a parameterless arrow function).
func (f *File) eachBody(fn func(*Function)) {
	consts := func(l []StaticConst) {
		for _, c := range l {
			fn(&Function{Name: c.Name, Arrow: true, Body: c.Expr, Raw: c.Raw, Line: c.Line})
		}
	}
	for i := range f.Classes {
		for j := range f.Classes[i].Methods {
			fn(&f.Classes[i].Methods[j])
		}
		consts(f.Classes[i].Consts)
	}
	for i := range f.Extensions {
		for j := range f.Extensions[i].Methods {
			fn(&f.Extensions[i].Methods[j])
		}
		consts(f.Extensions[i].Consts)
	}
	for i := range f.Functions {
		fn(&f.Functions[i])
	}
}

// UsedTypeNames returns, sorted and without duplicates, every identifier
// starting with an upper-case letter which is used as a type: field types,
// typedef targets, return and parameter types (type arguments included),
// `extends` / `implements` lists, the `on` type of extensions and, inside
// bodies, constructor calls `Name(`, static accesses `Name.x` (such as
// Name.values), `is Name` / `as Name` types, the types of `final Type name = ...`
// local variables and `_NameExt.x` accesses (reported as Name). The names of CoreTypes are excluded.
func (f *File) UsedTypeNames() []string {
	core := toSet(CoreTypes)
	set := map[string]bool{}
	add := func(name string) {
		if isCapitalised(name) && !core[name] {
			set[name] = true
		}
	}
	addType := func(t Type) {
		for _, n := range t.Names(nil) {
			add(n)
		}
	}

	for _, td := range f.Typedefs {
		addType(td.Target)
	}
	for _, cl := range f.Classes {
		if cl.extendsType != nil {
			addType(*cl.extendsType)
		}
		for _, t := range cl.implementTypes {
			addType(t)
		}
		for _, fi := range cl.Fields {
			addType(fi.Type)
		}
	}
	for _, ext := range f.Extensions {
		addType(ext.On)
	}
	f.eachBody(func(fn *Function) {
		addType(fn.ReturnType)
		for _, p := range fn.Params {
			addType(p.Type)
		}
		toks := fn.Body
		for i, t := range toks {
			if t.Kind != Ident {
				continue
			}
			if t.Text == "is" || t.Text == "as" {
				j := i + 1
				if t.Text == "is" && tokAt(toks, j).Is("!") {
					j++
				}
				if typ, _, ok := scanType(toks, j, 0); ok {
					addType(typ)
				}
				continue
			}
			if t.Text == "final" || t.Text == "const" || t.Text == "late" {
				// local variable `final Type name = ...`
				if typ, j, ok := scanType(toks, i+1, 0); ok && tokAt(toks, j).IsIdent() && (tokAt(toks, j+1).Is("=") || tokAt(toks, j+1).Is(";")) {
					addType(typ)
				}
				continue
			}
			if isMemberAccess(tokAt(toks, i-1)) {
				continue
			}
			next := tokAt(toks, i+1)
			switch {
			case isCapitalised(t.Text) && (next.Is("(") || next.Is(".")):
				add(t.Text)
			case next.Is("."):
				if on, ok := extensionTarget(t.Text); ok {
					add(on)
				}
			}
		}
	})
	return sortedKeys(set)
}

// extensionTarget returns Name for an identifier of the form _NameExt.
func extensionTarget(ident string) (string, bool) {
	if strings.HasPrefix(ident, "_") && strings.HasSuffix(ident, "Ext") && len(ident) > len("_Ext") {
		return ident[1 : len(ident)-len("Ext")], true
	}
	return "", false
}

// UsedFunctionNames returns, sorted and without duplicates, every
// identifier not starting with an upper-case letter which is called
// (`name(`), passed to `.map(name)`, or merely mentioned when its name ends
// with FromJson or ToJson. Method calls (after '.'), reserved words,
// CoreFunctions, and the parameters and local variables of the enclosing
// function are excluded.
func (f *File) UsedFunctionNames() []string {
	core := toSet(CoreFunctions)
	set := map[string]bool{}
	f.eachBody(func(fn *Function) {
		locals := localNames(fn)
		add := func(name string) {
			if !isCapitalised(name) && !core[name] && !locals[name] {
				set[name] = true
			}
		}
		for _, c := range fn.Calls() {
			if !c.AfterDot {
				add(c.Name)
			}
		}
		for i, t := range fn.Body {
			if t.IsIdent() && (strings.HasSuffix(t.Text, "FromJson") || strings.HasSuffix(t.Text, "ToJson")) &&
				!isMemberAccess(tokAt(fn.Body, i-1)) {
				add(t.Text)
			}
		}
	})
	return sortedKeys(set)
}

// localNames returns the parameters of fn, the variables declared with
// final / var / const / late in its body, and the parameters of its
// `(a, b) =>` closures.
func localNames(fn *Function) map[string]bool {
	out := map[string]bool{}
	for _, p := range fn.Params {
		out[p.Name] = true
	}
	toks := fn.Body
	for i, t := range toks {
		switch {
		case t.Is("final") || t.Is("var") || t.Is("const") || t.Is("late"):
			// the declared name is the identifier before the first '=' or ';'
			for j := i + 1; j < len(toks) && j < i+12; j++ {
				if toks[j].Is("=") || toks[j].Is(";") {
					if toks[j-1].IsIdent() && j-1 > i {
						out[toks[j-1].Text] = true
					}
					break
				}
			}
		case t.Is("=>") && tokAt(toks, i-1).Is(")"):
			for j := i - 2; j >= 0 && !toks[j].Is("("); j-- {
				if toks[j].IsIdent() {
					out[toks[j].Text] = true
				} else if !toks[j].Is(",") {
					break
				}
			}
		}
	}
	return out
}
