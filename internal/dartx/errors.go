// Package dartx is a small, purpose-built reader for the subset of Dart
// emitted by github.com/benoitkugler/gomacro/generator/dart: a lexer and a
// declaration-level parser (imports, typedefs, classes, enums, extensions and
// top-level functions), plus pattern extractors working on the token lists of
// function bodies.
//
// It is NOT a Dart front end. The contract is two-sided:
//
//   - text that cannot be valid Dart at all (unbalanced delimiters,
//     unterminated strings, names that are not identifiers, empty list
//     entries, ...) is reported as a *SyntaxError;
//   - text that is (or may be) valid Dart but is outside the modelled subset
//     is reported as *Unsupported.
//
// When the parser cannot tell, it answers *Unsupported. Function and method
// bodies are opaque: only the balance of their delimiters is checked.
//
// The package only uses the standard library and is deterministic.
package dartx

import "fmt"

// SyntaxError reports text that is not valid Dart.
type SyntaxError struct {
	Line, Col int // 1-based; Col counts bytes
	Msg       string
}

func (e *SyntaxError) Error() string {
	return fmt.Sprintf("dart syntax error at %d:%d: %s", e.Line, e.Col, e.Msg)
}

// Unsupported reports a construct which may be valid Dart but is outside
// the subset modelled by this package.
type Unsupported struct {
	Line, Col int // 1-based; Col counts bytes
	Msg       string
}

func (e *Unsupported) Error() string {
	return fmt.Sprintf("unsupported dart construct at %d:%d: %s", e.Line, e.Col, e.Msg)
}

func syntaxAt(t Token, format string, args ...interface{}) error {
	return &SyntaxError{Line: t.Line, Col: t.Col, Msg: fmt.Sprintf(format, args...)}
}

func unsupportedAt(t Token, format string, args ...interface{}) error {
	return &Unsupported{Line: t.Line, Col: t.Col, Msg: fmt.Sprintf(format, args...)}
}
