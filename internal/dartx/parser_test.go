package dartx

import (
	"errors"
	"reflect"
	"strings"
	"testing"
)

func mustParse(t *testing.T, src string) *File {
	t.Helper()
	f, err := Parse(src)
	if err != nil {
		t.Fatalf("Parse(%q): %v", src, err)
	}
	return f
}

func isSyntax(err error) bool {
	var e *SyntaxError
	return errors.As(err, &e)
}

func isUnsupported(err error) bool {
	var e *Unsupported
	return errors.As(err, &e)
}

func TestTokenize(t *testing.T) {
	src := "a1 $b _c 12 1.5 0x1F 1e-3 'x' \"y\" => == ?. List<List<int>> // c\n/* d /* nested */ */ /// doc\n@override -4"
	toks, comments, err := Tokenize(src)
	if err != nil {
		t.Fatal(err)
	}
	var texts []string
	for _, tk := range toks {
		texts = append(texts, tk.Text)
		if src[tk.Off:tk.End] != tk.Text {
			t.Errorf("offsets of %q", tk.Text)
		}
	}
	want := []string{"a1", "$b", "_c", "12", "1.5", "0x1F", "1e-3", "'x'", `"y"`, "=>", "==", "?.", "List", "<", "List", "<", "int", ">", ">", "@", "override", "-", "4"}
	if !reflect.DeepEqual(texts, want) {
		t.Errorf("tokens %q, want %q", texts, want)
	}
	kinds := []Kind{Ident, Ident, Ident, Number, Number, Number, Number, String, String, Punct}
	for i, k := range kinds {
		if toks[i].Kind != k {
			t.Errorf("token %q has kind %v, want %v", toks[i].Text, toks[i].Kind, k)
		}
	}
	if len(comments) != 3 || comments[0].Text != "// c" || comments[1].Text != "/* d /* nested */ */" || !comments[2].Doc || comments[0].Doc || comments[2].Line != 2 {
		t.Errorf("comments %+v", comments)
	}
	last := toks[len(toks)-1]
	if last.Line != 3 || last.Col != 12 {
		t.Errorf("position of the last token: %d:%d", last.Line, last.Col)
	}
}

func TestStrings(t *testing.T) {
	tests := []struct {
		src     string
		value   string
		interps []string
	}{
		{`'abc'`, "abc", nil},
		{`"a'b"`, "a'b", nil},
		{`'a\'b'`, "a'b", nil},
		{`"a\"b\\c"`, `a"b\c`, nil},
		{`"\n\r\f\b\t\v"`, "\n\r\f\b\t\v", nil},
		{`"\x41é\u{1F600}"`, "Aé\U0001F600", nil},
		{`"\a\d\$"`, "ad$", nil}, // Go's \a is NOT a bell in Dart
		{`"é直"`, "é直", nil},
		{`"S($a, $b_1, ${c.d}, $e$f)"`, "S($a, $b_1, ${c.d}, $e$f)", []string{"a", "b_1", "c.d", "e", "f"}},
		{`"${m['k}']}"`, "${m['k}']}", []string{"m['k}']"}},
		{`"${ {1: "}"} }"`, `${ {1: "}"} }`, []string{`{1: "}"}`}},
		{`r'a\n$b'`, `a\n$b`, nil},
		{`'''a'b` + "\n" + `c'''`, "a'b\nc", nil},
		{`""`, "", nil},
		{`""""""`, "", nil},
	}
	for _, test := range tests {
		toks, _, err := Tokenize(test.src)
		if err != nil {
			t.Errorf("%s: %v", test.src, err)
			continue
		}
		if len(toks) != 1 || toks[0].Kind != String {
			t.Errorf("%s: tokens %+v", test.src, toks)
			continue
		}
		if toks[0].Value != test.value || !reflect.DeepEqual(toks[0].Interps, test.interps) || toks[0].Text != test.src {
			t.Errorf("%s: value %q interps %q, want %q %q", test.src, toks[0].Value, toks[0].Interps, test.value, test.interps)
		}
	}

	// line numbers after a multi-line string
	toks, _, err := Tokenize("'''a\nb''' x")
	if err != nil || len(toks) != 2 || toks[1].Line != 2 || toks[1].Col != 6 {
		t.Errorf("multi-line string: %+v %v", toks, err)
	}
}

func TestLexicalErrors(t *testing.T) {
	for _, src := range []string{
		`'abc`, `"abc`, "'ab\nc'", `'abc\`, `'''abc''`, `"a${b"`, `"a${b'}"`,
		`"cost $5"`, `"a$"`, `"$$a"`, `"\xZZ"`, `"\u12"`, `"\u{}"`, `"\u{1234567}"`, `"\u{110000}"`,
		`/* abc`, `/* a /* b */`,
		"a ` b", `a \ b`, "a é b", "a \x00 b", `r'abc`,
	} {
		_, _, err := Tokenize(src)
		if !isSyntax(err) {
			t.Errorf("Tokenize(%q): expected a syntax error, got %v", src, err)
		}
		if _, err := Parse(src); !isSyntax(err) {
			t.Errorf("Parse(%q): expected a syntax error, got %v", src, err)
		}
	}
	if _, _, err := Tokenize(`"${"${"${"${"${"${"${"${"${"${"${a}"}"}"}"}"}"}"}"}"}"}"}"`); !isUnsupported(err) {
		t.Errorf("deep interpolation: %v", err)
	}
}

func TestIsIdentifier(t *testing.T) {
	for _, s := range []string{"a", "_a", "$a", "a1_$", "A", "get", "dynamic"} {
		if !IsIdentifier(s) {
			t.Errorf("%q is an identifier", s)
		}
	}
	for _, s := range []string{"", "1a", "a-b", "a,b", "a b", "é", "class", "default", "new", "in", "void"} {
		if IsIdentifier(s) {
			t.Errorf("%q is not an identifier", s)
		}
	}
	if !IsReservedWord("switch") || IsReservedWord("dynamic") || !IsBuiltInIdentifier("dynamic") || IsBuiltInIdentifier("foo") {
		t.Error("word lists")
	}
}

func TestTypes(t *testing.T) {
	f := mustParse(t, `
typedef A = int;
typedef B = Map< String , List<List<C?>>? >;
typedef D = dynamic;
typedef E = List<F>?;
`)
	want := []string{"int", "Map<String,List<List<C?>>?>", "dynamic", "List<F>?"}
	for i, td := range f.Typedefs {
		if td.Target.String() != want[i] {
			t.Errorf("typedef %s = %s, want %s", td.Name, td.Target, want[i])
		}
	}
	b := f.Typedef("B").Target
	if b.Name != "Map" || len(b.Args) != 2 || !b.Args[1].Nullable || b.Args[1].Args[0].Args[0].Name != "C" || !b.Args[1].Args[0].Args[0].Nullable {
		t.Errorf("structure of %v", b)
	}
	if got := b.Names(nil); !reflect.DeepEqual(got, []string{"Map", "String", "List", "List", "C"}) {
		t.Errorf("names %v", got)
	}
	if got := f.UsedTypeNames(); !reflect.DeepEqual(got, []string{"C", "F"}) {
		t.Errorf("used types %v", got)
	}
	if f.Typedefs[1].Line != 3 {
		t.Errorf("line %d", f.Typedefs[1].Line)
	}
}

func TestClassForms(t *testing.T) {
	f := mustParse(t, `
import 'a.dart';
import "b.dart";

/// doc
abstract class U {}
abstract class V extends W implements X<int>, Y {}

class Empty {
  const Empty();
}

@immutable
class P extends Q implements U , V {
  final int a;
  final Map<String, List<R>>? get;
  @deprecated
  final dynamic set;

  P(this.a, this.get, this.set,);

  static const zero = 0;
  static const List<int> _table = [1, 2];

  @override
  String toString() => "P($a)";

  static P make(int a, S s) { return P(a, null, {'}': 1}); }
}
`)
	if got := f.ImportURIs(); !reflect.DeepEqual(got, []string{"a.dart", "b.dart"}) {
		t.Errorf("imports %v", got)
	}
	u, v, e, p := f.Class("U"), f.Class("V"), f.Class("Empty"), f.Class("P")
	if !u.Abstract || len(u.Implements) != 0 || u.Extends != "" || u.HasCtor {
		t.Errorf("U: %+v", u)
	}
	if !v.Abstract || v.Extends != "W" || !reflect.DeepEqual(v.Implements, []string{"X<int>", "Y"}) {
		t.Errorf("V: %+v", v)
	}
	if e.Abstract || !e.HasCtor || !e.HasConstCtor || e.CtorParams == nil || len(e.CtorParams) != 0 || len(e.Fields) != 0 {
		t.Errorf("Empty: %+v", e)
	}
	if p.Extends != "Q" || !reflect.DeepEqual(p.Implements, []string{"U", "V"}) || !p.HasCtor || p.HasConstCtor ||
		!reflect.DeepEqual(p.CtorParams, []string{"a", "get", "set"}) || len(p.Fields) != 3 ||
		p.Fields[1].Type.String() != "Map<String,List<R>>?" || p.Fields[1].Name != "get" || p.Fields[2].Type.String() != "dynamic" {
		t.Errorf("P: %+v", p)
	}
	if len(p.Consts) != 2 || p.Consts[0].Name != "zero" || p.Consts[0].Raw != "0" || p.Consts[1].Name != "_table" || p.Consts[1].Raw != "[1, 2]" {
		t.Errorf("P consts: %+v", p.Consts)
	}
	ts, mk := p.Method("toString"), p.Method("make")
	if ts == nil || !ts.Arrow || ts.Raw != `"P($a)"` || ts.Static || !reflect.DeepEqual(ts.Annotations, []string{"override"}) {
		t.Errorf("toString: %+v", ts)
	}
	if mk == nil || mk.Arrow || !mk.Static || mk.Raw != ` return P(a, null, {'}': 1}); ` || len(mk.Params) != 2 || mk.Params[1].Type.String() != "S" {
		t.Errorf("make: %+v", mk)
	}
	if name, n, ok, err := mk.ConstructorCall(); name != "P" || n != 3 || !ok || err != nil {
		t.Errorf("make constructs %s %d %v %v", name, n, ok, err)
	}
	if got := f.UsedTypeNames(); !reflect.DeepEqual(got, []string{"P", "Q", "R", "S", "U", "V", "W", "X", "Y"}) {
		t.Errorf("used types %v", got)
	}
	wantDeclared := map[string][]string{"U": {"abstract class"}, "V": {"abstract class"}, "Empty": {"class"}, "P": {"class"}}
	if got := f.Declared(); !reflect.DeepEqual(got, wantDeclared) {
		t.Errorf("declared %v", got)
	}
}

func TestEnumForms(t *testing.T) {
	f := mustParse(t, `
enum A { a }
enum B { a, b, }
enum C { a, b; }
enum D { a, b,; }
enum E {
  /// doc
  @deprecated
  get,
  $x
}
`)
	want := [][]string{{"a"}, {"a", "b"}, {"a", "b"}, {"a", "b"}, {"get", "$x"}}
	for i, en := range f.Enums {
		if !reflect.DeepEqual(en.Members, want[i]) {
			t.Errorf("enum %s: %v", en.Name, en.Members)
		}
	}
}

func TestExtensionForms(t *testing.T) {
	f := mustParse(t, `
enum S { a, b, c }
extension _SExt on S {
  static const _values = [ "va", 'v\'b', "c$d", ];
  static S fromValue(String s) { return S.values[_values.indexOf(s)]; }
  String toValue() { return _values[index]; }
}
extension _IExt on I {
  static I fromValue(int i) => I.values[i];
  int toValue() => this.index;
}
extension _NExt on N {
  static const _values = [ -1, 0, 1.5, 0x10, 017, 9223372036854775808 ];
  static N fromValue(int s) { return N.values[_values.indexOf(s)]; }
  int toValue() { return _values[this.index]; }
}
extension _XExt on X {
  static const _values = [ 1 ];
  static X fromValue(int s) { return X.values[s]; }
  int toValue() { return _values[index]; }
}
extension _YExt on Y {
  static Y fromValue(int s) { return Z.values[s]; }
  int toValue() { return index; }
}
extension on W { int twice() => 2; }
`)
	s, i, n, x, y, w := f.ExtensionOn("S"), f.ExtensionOn("I"), f.ExtensionOn("N"), f.ExtensionOn("X"), f.ExtensionOn("Y"), f.ExtensionOn("W")
	if !s.TableMode || s.IndexMode || !s.HasValues || len(s.Values) != 3 {
		t.Fatalf("S: %+v", s)
	}
	if v := s.Values; !v[0].IsString || v[0].Str != "va" || v[0].Text != `"va"` || v[1].Str != "v'b" || v[2].Str != "c$d" || !reflect.DeepEqual(v[2].Interps, []string{"d"}) {
		t.Errorf("S values: %+v", s.Values)
	}
	if !i.IndexMode || i.TableMode || i.HasValues {
		t.Errorf("I: %+v", i)
	}
	if !n.TableMode || n.IndexMode || len(n.Values) != 6 {
		t.Fatalf("N: %+v", n)
	}
	wantN := []Literal{
		{Text: "-1", IsInt: true, Int: -1, Float: -1},
		{Text: "0", IsInt: true, Int: 0},
		{Text: "1.5", Float: 1.5},
		{Text: "0x10", IsInt: true, Int: 16, Float: 16},
		{Text: "017", IsInt: true, Int: 17, Float: 17},
		{Text: "9223372036854775808", Float: 9223372036854775808},
	}
	for k, v := range n.Values {
		v.Line = 0
		if !reflect.DeepEqual(v, wantN[k]) {
			t.Errorf("N value %d: %+v, want %+v", k, v, wantN[k])
		}
	}
	if x.IndexMode || x.TableMode || y.IndexMode || y.TableMode {
		t.Errorf("X and Y mix the schemes: %+v %+v", x, y)
	}
	if w == nil || w.Name != "" || len(w.Methods) != 1 {
		t.Errorf("W: %+v", w)
	}
	if got := f.Declared()["_SExt"]; !reflect.DeepEqual(got, []string{"extension"}) {
		t.Errorf("declared: %v", f.Declared())
	}
	if got := f.UsedTypeNames(); !reflect.DeepEqual(got, []string{"I", "N", "S", "W", "X", "Y", "Z"}) {
		t.Errorf("used types %v", got)
	}
}

func TestFunctionHelpers(t *testing.T) {
	f := mustParse(t, `
void nothing() {}
int one() => 1;
A f(dynamic json_, List<B> l,) {
  final json = json_ as Map<String, dynamic>;
  final C local = cFromJson(json["c"]);
  if (x is! D && y is E<int> ? true : false) { print(json['p']); }
  final h = (k, v) => k(v);
  switch (kind) { case "K1": case 'K2': return g(data); case F.a: break; default: throw ("no"); }
  other.json['no'];
  l.map(hFromJson).toList();
  l.map((e) => iToJson(e));
  final m = {'Kind': "KV", "Data": 1, "x" : item.f1, 2: item.g(), "t": c ? "u" : "v", "n": {"inner": item?.f2}};
  local(3);
  jToJson;
  _GExt.fromValue(1);
  H.values[0];
  return A( [1, 2], {3: 4}, (a, b), json as Map<String, dynamic>, z );
}
`)
	if fn := f.Function("nothing"); fn.ReturnType.String() != "void" || len(fn.Body) != 0 || fn.Raw != "" || fn.Params == nil {
		t.Errorf("nothing: %+v", fn)
	}
	if fn := f.Function("one"); !fn.Arrow || fn.Raw != "1" || len(fn.Body) != 1 {
		t.Errorf("one: %+v", fn)
	}
	fn := f.Function("f")
	if len(fn.Params) != 2 || fn.Params[1].Type.String() != "List<B>" || fn.Params[1].Name != "l" || fn.Line != 4 {
		t.Errorf("f: %+v", fn.Params)
	}
	check := func(what string, got, want []string) {
		t.Helper()
		if !reflect.DeepEqual(got, want) {
			t.Errorf("%s: %q, want %q", what, got, want)
		}
	}
	check("JSONReads", fn.JSONReads(), []string{"c", "p"})
	check("MapWrites", fn.MapWrites(), []string{"Kind", "Data", "x", "t", "n", "inner"})
	check("SwitchCases", fn.SwitchCases(), []string{"K1", "K2"})
	check("KindWrites", fn.KindWrites(), []string{"KV"})
	check("IsChecks", fn.IsChecks(), []string{"D", "E<int>"})
	check("ItemFieldReads", fn.ItemFieldReads(), []string{"f1"})
	check("CalledFunctions", fn.CalledFunctions(), []string{"cFromJson", "print", "k", "g", "map", "hFromJson", "toList", "map", "iToJson", "g", "local", "fromValue", "A"})
	name, n, ok, err := fn.ConstructorCall()
	if name != "A" || n != 5 || !ok || err != nil {
		t.Errorf("ConstructorCall: %s %d %v %v", name, n, ok, err)
	}
	check("UsedFunctionNames", f.UsedFunctionNames(), []string{"cFromJson", "g", "hFromJson", "iToJson", "jToJson"})
	check("UsedTypeNames", f.UsedTypeNames(), []string{"A", "B", "C", "D", "E", "F", "G", "H"})
}

func TestConstructorCall(t *testing.T) {
	body := func(stmt string) *Function {
		t.Helper()
		f := mustParse(t, "Foo f(dynamic json) { "+stmt+" }")
		return f.Function("f")
	}
	tests := []struct {
		stmt string
		name string
		n    int
		ok   bool
	}{
		{"return Foo();", "Foo", 0, true},
		{"return Foo( );", "Foo", 0, true},
		{"return Foo(a);", "Foo", 1, true},
		{"return Foo(a, b, c);", "Foo", 3, true},
		{"return Foo(a, b, c,);", "Foo", 3, true},
		{"return Foo(g(a, b), [c, d], {e: f, g: h});", "Foo", 3, true},
		{"return Foo(a as Map<String, dynamic>, b is List<int>);", "Foo", 2, true},
		{"return Foo(a < b, c > d);", "", 0, false},
		{"return foo(a);", "", 0, false},
		{"return Foo(a).b;", "", 0, false},
		{"final x = Foo(a);", "", 0, false},
		{"if (a) { return Bar(1); } return Foo(1, 2);", "Bar", 1, true},
	}
	for _, test := range tests {
		name, n, ok, err := body(test.stmt).ConstructorCall()
		if err != nil || name != test.name || n != test.n || ok != test.ok {
			t.Errorf("%s: %s %d %v %v", test.stmt, name, n, ok, err)
		}
	}
	for _, stmt := range []string{"return Foo(a, , b);", "return Foo(, a);", "return Foo(a,,);", "return Foo(,);"} {
		_, _, ok, err := body(stmt).ConstructorCall()
		if !isSyntax(err) || ok {
			t.Errorf("%s: expected a syntax error, got %v %v", stmt, ok, err)
		}
	}
}

func TestSyntaxErrors(t *testing.T) {
	for _, src := range []string{
		// field and parameter names
		`class A { final int a-b; const A(this.a-b); }`,
		`class A { final String r,omitempty; const A(this.r,omitempty); }`,
		`class A { final int 1a; }`,
		`class A { final int class; }`,
		`class A { final int a b; }`,
		`class A { final List<int a; }`,
		`class A { final List<> a; }`,
		`class A { final List<int,> a; }`,
		`class A { final int a; const A(this.a-b); }`,
		`class A { final int a; const A(this.a, , this.b); }`,
		`class A { final int a; const A(, this.a); }`,
		`class A { final int a; const A(this.1); }`,
		`class A { final int a; const A(this.a) }`,
		`class A { final int a; const A(this.default); }`,
		`int f(int a-b) { return 1; }`,
		`int f(int a, , int b) { return 1; }`,
		`int f(int 3) { return 1; }`,
		`int f(int in) { return 1; }`,
		// declared names
		`class 1A {}`, `class A-B {}`, `class {}`, `class default {}`, `class dynamic {}`, `class A, B {}`,
		`abstract class 1A {}`,
		`typedef 1A = int;`, `typedef A-B = int;`, `typedef = int;`, `typedef A = ;`, `typedef A = int`, `typedef A = 1;`, `typedef class = int;`,
		`enum 1E { a }`, `enum E-F { a }`, `enum { a }`, `enum E a, b`,
		`extension 1E on A {}`, `extension E A {}`, `extension E on {}`,
		`int 1f() { return 1; }`, `int f-g() { return 1; }`, `int default() { return 1; }`,
		// enums
		`enum E { a, , b }`, `enum E { , a }`, `enum E { a,, }`, `enum E { }`, `enum E { ; }`, `enum E { 1 }`, `enum E { a-b }`, `enum E { a b }`, `enum E { default }`, `enum E { a, 10 }`,
		// delimiters and strings
		`class A {`, `class A { final int a; const A(this.a); `, `class A }`, `class A { ( }`, `int f() { return g(1; }`, `int f() { return [1); }`, `}`, `)`,
		`int f() { return 'abc; }`, `import 'a.dart;`,
		// others
		`import a;`, `import 'a.dart'`, `import 'a.dart' }`, `import '$a.dart';`,
		`class A implements {}`, `class A implements B, {}`, `class A extends {}`, `class A implements B-C {}`, `class A extends B extends C {}`,
		`class A { @override }`, `@override`, `@1 class A {}`,
		`int f() => ;`, `int f() => 1`, `int f() return 1;`, `int f()`,
		`int a-b;`, `1;`, `;`, `'abc';`, `return 1;`,
		`class A { static const a = ; }`, `class A { static const = 1; }`,
		`extension E on A { static const _values = [ 1, , 2 ]; }`, `extension E on A { static const _values = [ , ]; }`,
	} {
		if _, err := Parse(src); !isSyntax(err) {
			t.Errorf("Parse(%q): expected a syntax error, got %v", src, err)
		}
	}
}

func TestUnsupported(t *testing.T) {
	for _, src := range []string{
		`mixin M {}`,
		`part of x;`, `part 'x.dart';`, `library x;`, `export 'a.dart';`,
		`int x = 1;`, `int x;`, `final x = 1;`, `var x = 1;`, `const x = 1;`, `late int x;`, `int a, b;`,
		`class A { final int a; const A({required this.a}); }`,
		`class A { final int a; const A([this.a = 1]); }`,
		`class A { final int a; const A(int a); }`,
		`class A { final int a; const A(this.a) : super(); }`,
		`class A { final int a; A(this.a) { print(a); } }`,
		`class A { final int a; const A.named(this.a); }`,
		`class A { final int a; factory A.x() => A(1); }`,
		`class A { final int a; const A(this.a); const A(this.a); }`,
		`class A { final int a = 1; }`, `class A { final a = 1; }`, `class A { final a; }`, `class A { final int; }`, `class A { int a; }`, `class A { int a = 1; }`, `class A { static final int a = 1; }`,
		`class A { int get a => 1; }`, `class A { get a => 1; }`, `class A { set a(int v) {} }`, `class A { toString() { return ""; } }`,
		`class A { int f(); }`, `class A { int f<T>() => 1; }`, `class A { external int f(); }`, `class A { late int a; }`,
		`class A { bool operator ==(Object o) => true; }`,
		`class A<T> {}`, `class A with M {}`, `class A extends B with M {}`, `sealed class A {}`, `final class A {}`, `abstract interface class A {}`,
		`class A { ; }`,
		`enum E { a(1), b(2); final int v; const E(this.v); }`, `enum E { a, b; int f() => 1; }`, `enum E implements I { a }`, `enum E<T> { a }`,
		`extension type E(int i) {}`, `extension E<T> on List<T> {}`, `extension E on A { int get x => 1; }`,
		`extension E on A { static const _values = [ a ]; }`, `extension E on A { static const _values = [ "a" "b" ]; }`,
		`extension E on A { static const _values = 1; }`, `extension E on A { static const _values = <int>[ 1 ]; }`,
		`extension E on A { static const _values = [1]; static const _values = [2]; }`,
		`typedef void F(int x);`, `typedef F(int x);`, `typedef F<T> = List<T>;`, `typedef F = void Function(int);`, `typedef F = a.B;`, `typedef F = (int, int);`,
		`import 'a.dart' as a;`, `import 'a.dart' show b;`, `import 'a' 'b';`,
		`f() { return 1; }`, `int f<T>() { return 1; }`, `int f({int a = 1}) { return 1; }`, `int f([int a = 1]) { return 1; }`, `int f(a) { return 1; }`, `int f(a, b) { return 1; }`,
		`int f(final int a) { return 1; }`, `int f(void g(int x)) { return 1; }`, `int f(int Function(int) g) { return 1; }`, `int f(@a int b) { return 1; }`,
		`Future<int> f() async { return 1; }`, `Iterable<int> f() sync* { yield 1; }`, `int f();`, `external int f();`,
		`int get x => 1;`, `set x(int v) {}`, `(int, int) f() => (1, 2);`, `void Function() f() => g;`,
		`abstract final class A {}`,
		`class A = B with M;`, `class A { (int, int) r; }`, `class A { static (int, int) f() => (1, 2); }`, `extension E on A { (int, int) f() => (1, 2); }`,
		`class A { final int Function(int) f; const A(this.f(int x)); }`, `class A { final F f; const A(this.f(int x)); }`,
	} {
		_, err := Parse(src)
		if !isUnsupported(err) {
			t.Errorf("Parse(%q): expected an unsupported error, got %v", src, err)
		}
	}
}

func TestErrorPositions(t *testing.T) {
	_, err := Parse("class A {\n  final int a;\n  final int b-c;\n}")
	var se *SyntaxError
	if !errors.As(err, &se) || se.Line != 3 || se.Col != 14 || !strings.Contains(se.Error(), "3:14") {
		t.Errorf("position: %v", err)
	}
	_, err = Parse("\n\nmixin M {}")
	var ue *Unsupported
	if !errors.As(err, &ue) || ue.Line != 3 || ue.Col != 1 {
		t.Errorf("position: %v", err)
	}
	_, err = Parse("class A {\n  final int a;\n")
	if !errors.As(err, &se) || se.Line != 1 || se.Col != 9 {
		t.Errorf("position: %v", err)
	}
}

func TestDuplicates(t *testing.T) {
	f := mustParse(t, `
class Generic { final int a; const Generic(this.a); }
class Generic { final String a; const Generic(this.a); }
typedef X = int;
enum X { a }
int f() => 1;
int f() => 2;
int g() => 3;
`)
	if got := f.Duplicates(); !reflect.DeepEqual(got, []string{"Generic", "X", "f"}) {
		t.Errorf("duplicates %v", got)
	}
	if got := f.Declared()["X"]; !reflect.DeepEqual(got, []string{"typedef", "enum"}) {
		t.Errorf("declared %v", got)
	}
}
