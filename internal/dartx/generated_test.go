package dartx

import (
	"os"
	"path/filepath"
	"reflect"
	"sort"
	"strings"
	"testing"

	"github.com/benoitkugler/gomacro/analysis"
	"github.com/benoitkugler/gomacro/generator"
	"github.com/benoitkugler/gomacro/generator/dart"
)

func TestMain(m *testing.M) {
	// the loader of the repository shells out to `go list`
	for k, v := range map[string]string{"GOFLAGS": "-mod=mod", "GOPROXY": "off", "GOSUMDB": "off", "GOTOOLCHAIN": "local"} {
		if os.Getenv(k) == "" {
			os.Setenv(k, v)
		}
	}
	os.Exit(m.Run())
}

const testsourceDir = "/repo/testutils/testsource"

// generateDart runs the Dart generator of the repository and returns
// file name -> text.
func generateDart(t *testing.T, root string, sources ...string) map[string]string {
	t.Helper()
	var ans []*analysis.Analysis
	for _, source := range sources {
		pkg, err := analysis.LoadSource(source)
		if err != nil {
			t.Fatal(err)
		}
		ans = append(ans, analysis.NewAnalysisFromFile(pkg, source))
	}
	out := map[string]string{}
	for _, file := range dart.Generate(root, ans) {
		if _, has := out[file.Filename]; has {
			t.Fatalf("file %s emitted twice", file.Filename)
		}
		out[file.Filename] = generator.WriteDeclarations(file.Content)
	}
	return out
}

func parseAll(t *testing.T, texts map[string]string) map[string]*File {
	t.Helper()
	out := map[string]*File{}
	for name, text := range texts {
		f, err := Parse(text)
		if err != nil {
			t.Fatalf("%s: %v", name, err)
		}
		out[name] = f
	}
	return out
}

func readTestdata(t *testing.T, names ...string) map[string]string {
	t.Helper()
	out := map[string]string{}
	for _, name := range names {
		b, err := os.ReadFile(filepath.Join("testdata", name))
		if err != nil {
			t.Fatal(err)
		}
		out[name] = string(b)
	}
	return out
}

// linkViolations applies Dart's scoping to a set of generated files: every
// used type or function name must be declared locally or, failing that, in
// exactly one of the imported files. It also reports duplicate declarations,
// self imports and imports of unknown files.
func linkViolations(files map[string]*File) []string {
	var out []string
	names := make([]string, 0, len(files))
	for name := range files {
		names = append(names, name)
	}
	sort.Strings(names)
	for _, name := range names {
		f := files[name]
		for _, dup := range f.Duplicates() {
			out = append(out, name+": "+dup+" is declared several times: "+strings.Join(f.Declared()[dup], ", "))
		}
		seen := map[string]bool{}
		for _, imp := range f.ImportURIs() {
			switch {
			case imp == name:
				out = append(out, name+": imports itself")
			case files[imp] == nil:
				out = append(out, name+": imports the unknown file "+imp)
			case seen[imp]:
				out = append(out, name+": imports "+imp+" twice")
			}
			seen[imp] = true
		}
		resolve := func(what, used string, declaredIn func(*File) []string) {
			has := func(f *File) bool {
				for _, d := range declaredIn(f) {
					if d == used {
						return true
					}
				}
				return false
			}
			if has(f) {
				return
			}
			var found []string
			for _, imp := range f.ImportURIs() {
				if other := files[imp]; other != nil && imp != name && has(other) {
					found = append(found, imp)
				}
			}
			switch len(found) {
			case 1:
			case 0:
				out = append(out, name+": "+what+" "+used+" is used but neither declared nor imported")
			default:
				out = append(out, name+": "+what+" "+used+" is ambiguous, declared in "+strings.Join(found, ", "))
			}
		}
		for _, used := range f.UsedTypeNames() {
			resolve("type", used, (*File).DeclaredTypeNames)
		}
		for _, used := range f.UsedFunctionNames() {
			resolve("function", used, (*File).DeclaredFunctionNames)
		}
	}
	return out
}

type wantField struct{ typ, name, key string }

type wantStruct struct {
	name       string
	implements []string
	fields     []wantField
}

// checkStruct checks the class and its two JSON functions against the
// expected (Dart type, Dart name, JSON key) triples.
func checkStruct(t *testing.T, f *File, want wantStruct) {
	t.Helper()
	cl := f.Class(want.name)
	if cl == nil {
		t.Fatalf("class %s not found", want.name)
	}
	if cl.Abstract || cl.Extends != "" {
		t.Errorf("class %s: unexpected abstract/extends", want.name)
	}
	if want.implements == nil {
		want.implements = []string{}
	}
	if !reflect.DeepEqual(cl.Implements, want.implements) {
		t.Errorf("class %s implements %v, want %v", want.name, cl.Implements, want.implements)
	}
	var types, names, keys []string
	for _, fi := range want.fields {
		types, names, keys = append(types, fi.typ), append(names, fi.name), append(keys, fi.key)
	}
	var gotTypes, gotNames []string
	for _, fi := range cl.Fields {
		gotTypes, gotNames = append(gotTypes, fi.Type.String()), append(gotNames, fi.Name)
	}
	if !reflect.DeepEqual(gotTypes, types) || !reflect.DeepEqual(gotNames, names) {
		t.Errorf("class %s: fields %v %v, want %v %v", want.name, gotTypes, gotNames, types, names)
	}
	if !cl.HasCtor || !cl.HasConstCtor || !reflect.DeepEqual(cl.CtorParams, names) {
		t.Errorf("class %s: constructor %v %v %v, want %v", want.name, cl.HasCtor, cl.HasConstCtor, cl.CtorParams, names)
	}
	ts := cl.Method("toString")
	if ts == nil || !reflect.DeepEqual(ts.Annotations, []string{"override"}) || ts.ReturnType.String() != "String" {
		t.Errorf("class %s: toString %v", want.name, ts)
	} else if !reflect.DeepEqual(ts.Interpolations(), names) {
		t.Errorf("class %s: toString interpolates %v, want %v", want.name, ts.Interpolations(), names)
	}

	id := strings.ToLower(want.name[:1]) + want.name[1:]
	from := f.Function(id + "FromJson")
	if from == nil {
		t.Fatalf("%sFromJson not found", id)
	}
	if from.ReturnType.String() != want.name || len(from.Params) != 1 || from.Params[0].Type.String() != "dynamic" || from.Params[0].Name != "json_" || from.Arrow {
		t.Errorf("%s: unexpected signature %v %v", from.Name, from.ReturnType, from.Params)
	}
	if got := from.JSONReads(); !reflect.DeepEqual(got, keys) {
		t.Errorf("%s reads %v, want %v", from.Name, got, keys)
	}
	name, n, ok, err := from.ConstructorCall()
	if err != nil || !ok || name != want.name || n != len(keys) {
		t.Errorf("%s: constructor call %s %d %v %v", from.Name, name, n, ok, err)
	}
	if got := from.Interpolations(); len(got) != 0 {
		t.Errorf("%s: interpolations %v", from.Name, got)
	}

	to := f.Function(id + "ToJson")
	if to == nil {
		t.Fatalf("%sToJson not found", id)
	}
	if to.ReturnType.String() != "Map<String,dynamic>" || len(to.Params) != 1 || to.Params[0].Type.String() != want.name || to.Params[0].Name != "item" {
		t.Errorf("%s: unexpected signature %v %v", to.Name, to.ReturnType, to.Params)
	}
	if got := to.MapWrites(); !reflect.DeepEqual(got, keys) {
		t.Errorf("%s writes %v, want %v", to.Name, got, keys)
	}
	if got := to.ItemFieldReads(); !reflect.DeepEqual(got, names) {
		t.Errorf("%s reads the fields %v, want %v", to.Name, got, names)
	}
	if got := to.Interpolations(); len(got) != 0 {
		t.Errorf("%s: interpolations %v", to.Name, got)
	}
}

func checkUnion(t *testing.T, f *File, name string, members []string) {
	t.Helper()
	cl := f.Class(name)
	if cl == nil || !cl.Abstract || len(cl.Fields) != 0 || cl.HasCtor || len(cl.Methods) != 0 || len(cl.Implements) != 0 {
		t.Fatalf("abstract class %s: %+v", name, cl)
	}
	if got := f.Declared()[name]; !reflect.DeepEqual(got, []string{KindAbstractClass}) {
		t.Errorf("%s declared as %v", name, got)
	}
	id := strings.ToLower(name[:1]) + name[1:]
	from, to := f.Function(id+"FromJson"), f.Function(id+"ToJson")
	if from == nil || to == nil {
		t.Fatalf("JSON functions of %s not found", name)
	}
	if got := from.SwitchCases(); !reflect.DeepEqual(got, members) {
		t.Errorf("%s: cases %v, want %v", from.Name, got, members)
	}
	if got := from.JSONReads(); !reflect.DeepEqual(got, []string{"Kind", "Data"}) {
		t.Errorf("%s: reads %v", from.Name, got)
	}
	if got := to.KindWrites(); !reflect.DeepEqual(got, members) {
		t.Errorf("%s: Kind writes %v, want %v", to.Name, got, members)
	}
	if got := to.IsChecks(); !reflect.DeepEqual(got, members) {
		t.Errorf("%s: is-checks %v, want %v", to.Name, got, members)
	}
	var wantWrites, wantCallsFrom, wantCallsTo []string
	for _, m := range members {
		wantWrites = append(wantWrites, "Kind", "Data")
		mid := strings.ToLower(m[:1]) + m[1:]
		wantCallsFrom = append(wantCallsFrom, mid+"FromJson")
		wantCallsTo = append(wantCallsTo, mid+"ToJson")
	}
	if got := to.MapWrites(); !reflect.DeepEqual(got, wantWrites) {
		t.Errorf("%s: writes %v, want %v", to.Name, got, wantWrites)
	}
	if got := from.CalledFunctions(); !reflect.DeepEqual(got, append(wantCallsFrom, "throw")) && !reflect.DeepEqual(got, wantCallsFrom) {
		t.Errorf("%s: calls %v, want %v", from.Name, got, wantCallsFrom)
	}
	if got := to.CalledFunctions(); !reflect.DeepEqual(got, wantCallsTo) {
		t.Errorf("%s: calls %v, want %v", to.Name, got, wantCallsTo)
	}
	if _, _, ok, _ := from.ConstructorCall(); ok {
		t.Errorf("%s: unexpected constructor call", from.Name)
	}
}

type wantEnum struct {
	name    string
	members []string
	table   []string // nil: index mode
	labels  []string
}

func checkEnum(t *testing.T, f *File, want wantEnum) {
	t.Helper()
	en := f.Enum(want.name)
	if en == nil {
		t.Fatalf("enum %s not found", want.name)
	}
	if !reflect.DeepEqual(en.Members, want.members) {
		t.Errorf("enum %s: members %v, want %v", want.name, en.Members, want.members)
	}
	ext := f.ExtensionOn(want.name)
	if ext == nil || ext.Name != "_"+want.name+"Ext" || ext.On.String() != want.name {
		t.Fatalf("extension on %s: %+v", want.name, ext)
	}
	if ext.FromValue() == nil || ext.ToValue() == nil || !ext.FromValue().Static || ext.ToValue().Static {
		t.Errorf("extension on %s: fromValue / toValue missing", want.name)
	}
	if want.table == nil {
		if !ext.IndexMode || ext.TableMode || ext.HasValues {
			t.Errorf("enum %s: expected the index mode, got %v %v %v", want.name, ext.IndexMode, ext.TableMode, ext.HasValues)
		}
	} else {
		if ext.IndexMode || !ext.TableMode || !ext.HasValues {
			t.Errorf("enum %s: expected the table mode, got %v %v %v", want.name, ext.IndexMode, ext.TableMode, ext.HasValues)
		}
		var got []string
		for _, v := range ext.Values {
			got = append(got, v.Text)
		}
		if !reflect.DeepEqual(got, want.table) {
			t.Errorf("enum %s: table %v, want %v", want.name, got, want.table)
		}
	}
	id := strings.ToLower(want.name[:1]) + want.name[1:]
	label := f.Function(id + "Label")
	if label == nil {
		t.Fatalf("%sLabel not found", id)
	}
	var labels []string
	for _, s := range label.StringLiterals() {
		labels = append(labels, s)
	}
	if !reflect.DeepEqual(labels, want.labels) {
		t.Errorf("%s: labels %v, want %v", label.Name, labels, want.labels)
	}
	from, to := f.Function(id+"FromJson"), f.Function(id+"ToJson")
	if from == nil || to == nil || !from.Arrow || !to.Arrow {
		t.Fatalf("JSON functions of enum %s", want.name)
	}
	if got := from.CalledFunctions(); !reflect.DeepEqual(got, []string{"fromValue"}) {
		t.Errorf("%s calls %v", from.Name, got)
	}
	if got := to.CalledFunctions(); !reflect.DeepEqual(got, []string{"toValue"}) {
		t.Errorf("%s calls %v", to.Name, got)
	}
}

// checkTestsource checks the files generated for testutils/testsource/defs.go.
func checkTestsource(t *testing.T, files map[string]*File) {
	t.Helper()
	main, sub, pre := files["testsource.dart"], files["testsource_subpackage.dart"], files["predefined.dart"]
	if main == nil || sub == nil || pre == nil {
		t.Fatalf("missing files, got %d", len(files))
	}

	if got := main.ImportURIs(); !reflect.DeepEqual(got, []string{"predefined.dart", "testsource_subpackage.dart"}) {
		t.Errorf("imports of testsource.dart: %v", got)
	}
	if got := sub.ImportURIs(); !reflect.DeepEqual(got, []string{"predefined.dart"}) {
		t.Errorf("imports of testsource_subpackage.dart: %v", got)
	}
	if got := pre.ImportURIs(); len(got) != 0 {
		t.Errorf("imports of predefined.dart: %v", got)
	}

	// typedefs
	wantTypedefs := map[string]string{
		"Basic1": "int", "Basic2": "bool", "Basic3": "double", "Basic4": "String",
		"IdCamp": "int", "IdFile": "int", "ItfList": "List<ItfType>", "MyDate": "DateTime",
	}
	if len(main.Typedefs) != len(wantTypedefs) {
		t.Errorf("typedefs: %v", main.Typedefs)
	}
	for name, target := range wantTypedefs {
		td := main.Typedef(name)
		if td == nil || td.Target.String() != target {
			t.Errorf("typedef %s: %v, want %s", name, td, target)
		}
	}
	if td := sub.Typedef("NamedSlice"); td == nil || td.Target.String() != "List<Enum>" || len(td.Target.Args) != 1 {
		t.Errorf("typedef NamedSlice: %v", td)
	}

	// structs
	checkStruct(t, main, wantStruct{name: "ComplexStruct", fields: []wantField{
		{"Map<int,int>", "with_tag", "with_tag"},
		{"DateTime", "time", "Time"},
		{"String", "b", "B"},
		{"ItfType", "value", "Value"},
		{"ItfList", "l", "L"},
		{"int", "a", "A"},
		{"EnumInt", "e", "E"},
		{"EnumUInt", "e2", "E2"},
		{"MyDate", "date", "Date"},
		{"List<List<bool>>", "f", "F"},
		{"StructWithComment", "imported", "Imported"},
		{"Map<EnumInt,bool>", "enumMap", "EnumMap"},
		{"Generic", "optID1", "OptID1"},
		{"Generic", "optID2", "OptID2"},
	}})
	checkStruct(t, main, wantStruct{name: "ConcretType1", implements: []string{"ItfType", "ItfType2"}, fields: []wantField{
		{"List<int>", "list2", "List2"}, {"int", "v", "V"},
	}})
	checkStruct(t, main, wantStruct{name: "ConcretType2", implements: []string{"ItfType"}, fields: []wantField{{"double", "d", "D"}}})
	checkStruct(t, main, wantStruct{name: "RecursiveType", fields: []wantField{{"List<RecursiveType>", "children", "Children"}}})
	checkStruct(t, main, wantStruct{name: "StructWithExternalRef", fields: []wantField{
		{"NamedSlice", "field1", "Field1"}, {"NamedSlice", "field2", "Field2"}, {"int", "field3", "Field3"},
	}})
	checkStruct(t, main, wantStruct{name: "WithOpaque", fields: []wantField{
		{"dynamic", "f1", "F1"}, {"dynamic", "f2", "F2"}, {"StructWithExternalRef", "f3", "F3"},
	}})
	checkStruct(t, sub, wantStruct{name: "StructWithComment", fields: []wantField{{"int", "a", "A"}}})
	// the generic struct: one class for two instantiations; only the shape is checked
	if cl := main.Class("Generic"); cl == nil || len(cl.Fields) != 1 || cl.Fields[0].Name != "id" || !reflect.DeepEqual(cl.CtorParams, []string{"id"}) {
		t.Errorf("class Generic: %+v", cl)
	}
	if got := main.Function("genericFromJson").JSONReads(); !reflect.DeepEqual(got, []string{"Id"}) {
		t.Errorf("genericFromJson reads %v", got)
	}

	// calls of a struct function, in order
	wantCalls := []string{"structWithCommentFromJson"}
	if got := sub.Function("structWithCommentFromJson").CalledFunctions(); !reflect.DeepEqual(got, []string{"StructWithComment", "intFromJson"}) {
		t.Errorf("structWithCommentFromJson calls %v (%v)", got, wantCalls)
	}
	if got := main.Function("withOpaqueFromJson").CalledFunctions(); !reflect.DeepEqual(got, []string{"WithOpaque", "structWithExternalRefFromJson"}) {
		t.Errorf("withOpaqueFromJson calls %v", got)
	}
	if got := main.Function("listIntFromJson").Calls(); !reflect.DeepEqual(got, []Call{
		{Name: "map", AfterDot: true, Line: got[0].Line},
		{Name: "intFromJson", Ref: true, Line: got[0].Line},
		{Name: "toList", AfterDot: true, Line: got[0].Line},
	}) {
		t.Errorf("listIntFromJson calls %v", got)
	}
	if got := main.Function("dictIntToIntToJson").CalledFunctions(); !reflect.DeepEqual(got, []string{"map", "MapEntry", "intToJson", "toString", "intToJson"}) {
		t.Errorf("dictIntToIntToJson calls %v", got)
	}

	// unions
	checkUnion(t, main, "ItfType", []string{"ConcretType1", "ConcretType2"})
	checkUnion(t, main, "ItfType2", []string{"ConcretType1"})

	// enums
	checkEnum(t, main, wantEnum{name: "EnumInt", members: []string{"ai", "bi", "ci", "di"}, table: []string{"0", "1", "2", "4"}, labels: []string{"sdsd", "sdsdB", "sdsdC", "sdsdD"}})
	checkEnum(t, main, wantEnum{name: "EnumUInt", members: []string{"a", "b", "c", "d"}, labels: []string{"sdsd", "sdsdB", "sdsdC", "sdsdD"}})
	checkEnum(t, sub, wantEnum{name: "Enum", members: []string{"a", "b", "c"}, labels: []string{"", "", ""}})
	for i, v := range main.ExtensionOn("EnumInt").Values {
		if want := []int64{0, 1, 2, 4}[i]; !v.IsInt || v.Int != want || v.Float != float64(want) || v.IsString {
			t.Errorf("EnumInt value %d: %+v", i, v)
		}
	}

	// predefined
	wantPre := []string{"boolFromJson", "boolToJson", "dateTimeFromJson", "dateTimeToJson", "doubleFromJson", "doubleToJson", "intFromJson", "intToJson", "stringFromJson", "stringToJson"}
	if got := pre.DeclaredFunctionNames(); !reflect.DeepEqual(got, wantPre) {
		t.Errorf("predefined.dart declares %v", got)
	}
	if got := pre.UsedTypeNames(); len(got) != 0 {
		t.Errorf("predefined.dart uses the types %v", got)
	}
	if got := pre.UsedFunctionNames(); len(got) != 0 {
		t.Errorf("predefined.dart uses the functions %v", got)
	}

	// used names
	wantTypes := []string{"ComplexStruct", "ConcretType1", "ConcretType2", "EnumInt", "EnumUInt", "Generic", "IdFile", "ItfList", "ItfType", "ItfType2", "MyDate", "NamedSlice", "RecursiveType", "StructWithComment", "StructWithExternalRef", "WithOpaque"}
	if got := main.UsedTypeNames(); !reflect.DeepEqual(got, wantTypes) {
		t.Errorf("testsource.dart uses the types\n%v, want\n%v", got, wantTypes)
	}
	if got := sub.UsedTypeNames(); !reflect.DeepEqual(got, []string{"Enum", "NamedSlice", "StructWithComment"}) {
		t.Errorf("testsource_subpackage.dart uses the types %v", got)
	}
	if got := sub.UsedFunctionNames(); !reflect.DeepEqual(got, []string{"enumFromJson", "enumToJson", "intFromJson", "intToJson", "listEnumFromJson", "listEnumToJson"}) {
		t.Errorf("testsource_subpackage.dart uses the functions %v", got)
	}
	usedFuncs := strings.Join(main.UsedFunctionNames(), " ")
	for _, name := range []string{"structWithCommentFromJson", "namedSliceToJson", "dateTimeFromJson", "boolFromJson", "listListBoolToJson", "concretType1FromJson", "itfTypeToJson"} {
		if !strings.Contains(" "+usedFuncs+" ", " "+name+" ") {
			t.Errorf("testsource.dart: %s is not reported as used (%s)", name, usedFuncs)
		}
	}
	for _, name := range []string{"map", "toList", "throw", "toValue", "fromValue", "parse", "indexOf", "json", "k", "v"} {
		if strings.Contains(" "+usedFuncs+" ", " "+name+" ") {
			t.Errorf("testsource.dart: %s is reported as a used function", name)
		}
	}

	// source order
	var order []string
	for _, d := range sub.Order {
		order = append(order, d.Kind+" "+d.Name)
	}
	wantOrder := []string{
		"import predefined.dart", "enum Enum", "extension _EnumExt", "function enumLabel", "function enumFromJson", "function enumToJson",
		"typedef NamedSlice", "function namedSliceFromJson", "function namedSliceToJson",
		"class StructWithComment", "function structWithCommentFromJson", "function structWithCommentToJson",
		"function listEnumFromJson", "function listEnumToJson",
	}
	if !reflect.DeepEqual(order, wantOrder) {
		t.Errorf("order of testsource_subpackage.dart:\n%v, want\n%v", order, wantOrder)
	}
	for i := 1; i < len(sub.Order); i++ {
		if sub.Order[i].Line <= sub.Order[i-1].Line {
			t.Errorf("lines are not increasing: %v", sub.Order)
		}
	}

	if v := linkViolations(files); len(v) != 0 {
		t.Errorf("link violations:\n%s", strings.Join(v, "\n"))
	}
}

// The fixtures committed in the repository (generator/dart/test/*.dart).
func TestCommittedFixtures(t *testing.T) {
	texts := readTestdata(t, "predefined.dart", "testsource.dart", "testsource_subpackage.dart", "stdlib_time.dart", "stdlib_math_big.dart")
	files := parseAll(t, texts)
	checkTestsource(t, files)
	for _, empty := range []string{"stdlib_time.dart", "stdlib_math_big.dart"} {
		f := files[empty]
		if len(f.Order) != 0 || len(f.Comments) != 1 || f.Comments[0].Line != 1 {
			t.Errorf("%s: %+v", empty, f)
		}
	}
	// the origin comments are kept
	main := files["testsource.dart"]
	var origin string
	line := main.Class("ComplexStruct").Line
	for _, c := range main.Comments {
		if c.Line == line-1 {
			origin = c.Text
		}
	}
	if origin != "// github.com/benoitkugler/gomacro/testutils/testsource.ComplexStruct" {
		t.Errorf("origin comment of ComplexStruct: %q", origin)
	}
}

// Files formatted by `dart format`, from an older version of the generator (cmd/test/*.dart).
func TestCommittedFormattedFixtures(t *testing.T) {
	files := parseAll(t, readTestdata(t, "cmd_out.dart", "cmd_predefined.dart", "cmd_test.dart"))
	test := files["cmd_test.dart"]
	cl := test.Class("S")
	if cl == nil || !reflect.DeepEqual(cl.Implements, []string{"Union"}) || !reflect.DeepEqual(cl.CtorParams, []string{"d", "a", "b", "c"}) {
		t.Fatalf("class S: %+v", cl)
	}
	from, to := test.Function("sFromJson"), test.Function("sToJson")
	if got := from.JSONReads(); !reflect.DeepEqual(got, []string{"D", "A", "B", "C"}) {
		t.Errorf("sFromJson reads %v", got)
	}
	if name, n, ok, err := from.ConstructorCall(); name != "S" || n != 4 || !ok || err != nil {
		t.Errorf("sFromJson constructs %s %d %v %v", name, n, ok, err)
	}
	if got := to.MapWrites(); !reflect.DeepEqual(got, []string{"D", "A", "B", "C"}) {
		t.Errorf("sToJson writes %v", got)
	}
	if got := to.ReturnType.String(); got != "JSON" {
		t.Errorf("sToJson returns %s", got)
	}
	if got := test.UsedTypeNames(); !reflect.DeepEqual(got, []string{"JSON", "S", "Union"}) {
		t.Errorf("cmd_test.dart uses %v", got)
	}
	if td := files["cmd_predefined.dart"].Typedef("JSON"); td == nil || td.Target.String() != "Map<String,dynamic>" {
		t.Errorf("typedef JSON: %v", td)
	}
	files["predefined.dart"] = files["cmd_predefined.dart"]
	delete(files, "cmd_predefined.dart")
	delete(files, "cmd_out.dart")
	if v := linkViolations(files); len(v) != 0 {
		t.Errorf("link violations:\n%s", strings.Join(v, "\n"))
	}
}

// The same files, generated now by the generator of the repository, with
// the two branches of the linker (root inside and outside a go/src path).
func TestGeneratedTestsource(t *testing.T) {
	for _, root := range []string{
		"go/src/github.com/benoitkugler/gomacro/testutils/testsource", // as the test of the repository does
		"/repo/testutils",
	} {
		texts := generateDart(t, root, testsourceDir+"/defs.go")
		var names []string
		for name := range texts {
			names = append(names, name)
		}
		sort.Strings(names)
		t.Logf("root %s: files %v", root, names)
		files := parseAll(t, texts)
		if root == "/repo/testutils" {
			// the module layout gives other file names, and the linker treats every package as "stdlib"
			if v := linkViolations(files); len(v) != 0 {
				t.Errorf("root %s: link violations:\n%s", root, strings.Join(v, "\n"))
			}
			continue
		}
		checkTestsource(t, files)
		// byte-for-byte the committed fixtures?
		for name, text := range readTestdata(t, "predefined.dart", "testsource.dart", "testsource_subpackage.dart") {
			if texts[name] != text {
				t.Logf("note: %s differs from the committed (dart-formatted or older) fixture", name)
			}
		}
	}
}

// Several analysed sources in one call, as the command line tool does.
// (testsource/other_file.go cannot be used as a source: it declares the generic
// struct Generic[T], on which analysis.NewAnalysisFromFile panics "unsupported type T".)
func TestGeneratedSeveralSources(t *testing.T) {
	texts := generateDart(t, "go/src/github.com/benoitkugler/gomacro/testutils/testsource",
		testsourceDir+"/defs.go", testsourceDir+"/subpackage/enums.go", testsourceDir+"/subpackage/named.go")
	files := parseAll(t, texts)
	checkTestsource(t, files)
	// the result does not depend on the sub package being also a source
	single := generateDart(t, "go/src/github.com/benoitkugler/gomacro/testutils/testsource", testsourceDir+"/defs.go")
	if !reflect.DeepEqual(texts, single) {
		t.Logf("note: the output for three sources differs from the output for defs.go alone")
	}
}
