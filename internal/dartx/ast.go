package dartx

import "strings"

// Declaration kinds, as used by DeclRef.Kind and File.Declared.
const (
	KindImport        = "import"
	KindTypedef       = "typedef"
	KindClass         = "class"
	KindAbstractClass = "abstract class"
	KindEnum          = "enum"
	KindExtension     = "extension"
	KindFunction      = "function"
)

// File is the result of Parse.
type File struct {
	Imports    []Import
	Typedefs   []Typedef
	Classes    []Class
	Enums      []Enum
	Extensions []Extension
	Functions  []Function

	// Order lists every top-level declaration (imports included) in source order.
	Order []DeclRef
	// Comments lists every comment of the file, in source order.
	Comments []Comment
}

// DeclRef locates one top-level declaration.
type DeclRef struct {
	Kind  string // one of the Kind* constants
	Name  string // the URI for an import
	Line  int
	Index int // index in the slice of File holding declarations of this kind
}

// Import is `import '<URI>';`.
type Import struct {
	URI  string
	Line int
}

// Type is a type annotation: Name, Name<Args...>, possibly nullable.
// `void` and `dynamic` are plain names.
type Type struct {
	Name     string
	Args     []Type
	Nullable bool
}

// String prints the canonical form, without spaces: Map<int,List<bool>>?
func (t Type) String() string {
	var b strings.Builder
	t.write(&b)
	return b.String()
}

func (t Type) write(b *strings.Builder) {
	b.WriteString(t.Name)
	if len(t.Args) != 0 {
		b.WriteByte('<')
		for i, a := range t.Args {
			if i != 0 {
				b.WriteByte(',')
			}
			a.write(b)
		}
		b.WriteByte('>')
	}
	if t.Nullable {
		b.WriteByte('?')
	}
}

// Names appends to dst the name of t and of its type arguments, recursively.
func (t Type) Names(dst []string) []string {
	dst = append(dst, t.Name)
	for _, a := range t.Args {
		dst = a.Names(dst)
	}
	return dst
}

// Typedef is `typedef Name = Type;`.
type Typedef struct {
	Name   string
	Target Type
	Line   int
}

// Class is a class declaration of the modelled form.
type Class struct {
	Name       string
	Abstract   bool
	Extends    string   // canonical text of the super class, or ""
	Implements []string // canonical texts of the implemented types, in order

	Fields []Field // `final Type name;` members, in order

	HasCtor      bool     // an unnamed constructor `[const] Name(this.a, ...);` is present
	HasConstCtor bool     // ... and it is const
	CtorParams   []string // a, b, ... of the `this.a, this.b` parameters, in order

	Consts  []StaticConst // `static const name = expr;` members
	Methods []Function    // methods, with their bodies

	Line int

	extendsType    *Type
	implementTypes []Type
}

// Field is a `final Type name;` member of a class.
type Field struct {
	Type Type
	Name string
	Line int
}

// Enum is `enum Name { a, b, c }`.
type Enum struct {
	Name    string
	Members []string
	Line    int
}

// StaticConst is a `static const [Type] name = expr;` member.
type StaticConst struct {
	Name string
	Expr []Token
	Raw  string // text of the expression
	Line int
}

// Literal is a number or string literal of a `_values` table.
type Literal struct {
	IsString bool
	// Text is the literal as written: for a number the sign (if any)
	// immediately followed by the digits; for a string the quoted source text.
	Text string

	Str     string   // strings: the decoded value
	Interps []string // strings: interpolations (a constant table should have none)

	IsInt bool    // numbers: Text is an integer which fits in an int64
	Int   int64   // numbers: its value when IsInt
	Float float64 // numbers: the value as a float64 (also set for integers)

	Line int
}

// Extension is `extension Name on Type { ... }`.
type Extension struct {
	Name string // "" for an unnamed extension
	On   Type

	HasValues bool      // a `static const _values = [ ... ];` member is present
	Values    []Literal // its entries, in order

	Consts  []StaticConst // every static const member, _values included
	Methods []Function

	// IndexMode: fromValue is `return <On>.values[<param>];` and toValue is `return index;`.
	// TableMode: _values is present, fromValue is
	// `return <On>.values[_values.indexOf(<param>)];` and toValue is `return _values[index];`.
	// When both are false the conversion scheme is unknown to this package.
	IndexMode, TableMode bool

	Line int
}

// Method returns the method with the given name, or nil.
func (e *Extension) Method(name string) *Function { return findMethod(e.Methods, name) }

// FromValue returns the `fromValue` member, or nil.
func (e *Extension) FromValue() *Function { return e.Method("fromValue") }

// ToValue returns the `toValue` member, or nil.
func (e *Extension) ToValue() *Function { return e.Method("toValue") }

// Method returns the method with the given name, or nil.
func (c *Class) Method(name string) *Function { return findMethod(c.Methods, name) }

func findMethod(l []Function, name string) *Function {
	for i := range l {
		if l[i].Name == name {
			return &l[i]
		}
	}
	return nil
}

// Param is a `Type name` positional parameter.
type Param struct {
	Type Type
	Name string
}

// Function is a top-level function, or a method of a class or extension.
type Function struct {
	Name        string
	ReturnType  Type
	Params      []Param
	Static      bool     // methods only
	Annotations []string // e.g. "override"

	Arrow bool // `=> expr;` form
	// Body is the token list of the body: for a block what is between the
	// outer braces, for the arrow form the expression (without `=>` and `;`).
	Body []Token
	// Raw is the source text covered by Body (untrimmed).
	Raw string

	Line int
}

// Lookups on File.

// Class returns the class with the given name, or nil.
func (f *File) Class(name string) *Class {
	for i := range f.Classes {
		if f.Classes[i].Name == name {
			return &f.Classes[i]
		}
	}
	return nil
}

// Enum returns the enum with the given name, or nil.
func (f *File) Enum(name string) *Enum {
	for i := range f.Enums {
		if f.Enums[i].Name == name {
			return &f.Enums[i]
		}
	}
	return nil
}

// Typedef returns the typedef with the given name, or nil.
func (f *File) Typedef(name string) *Typedef {
	for i := range f.Typedefs {
		if f.Typedefs[i].Name == name {
			return &f.Typedefs[i]
		}
	}
	return nil
}

// Function returns the first top-level function with the given name, or nil.
func (f *File) Function(name string) *Function {
	for i := range f.Functions {
		if f.Functions[i].Name == name {
			return &f.Functions[i]
		}
	}
	return nil
}

// ExtensionOn returns the first extension whose `on` type is name, or nil.
func (f *File) ExtensionOn(name string) *Extension {
	for i := range f.Extensions {
		if f.Extensions[i].On.Name == name {
			return &f.Extensions[i]
		}
	}
	return nil
}

// ImportURIs returns the imported URIs, in source order.
func (f *File) ImportURIs() []string {
	out := make([]string, len(f.Imports))
	for i, imp := range f.Imports {
		out[i] = imp.URI
	}
	return out
}
