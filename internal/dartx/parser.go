package dartx

import (
	"strconv"
	"strings"
)

// maxTypeDepth bounds the nesting of generic type arguments.
const maxTypeDepth = 32

// Parse reads a Dart source file of the modelled subset.
// The error, if any, is either a *SyntaxError or an *Unsupported.
func Parse(src string) (*File, error) {
	toks, comments, err := Tokenize(src)
	if err != nil {
		return nil, err
	}
	match, err := matchDelimiters(toks)
	if err != nil {
		return nil, err
	}
	p := &parser{src: src, toks: toks, match: match, file: &File{Comments: comments}}
	p.eof = Token{Kind: EOF, Line: 1, Col: 1, Off: len(src), End: len(src)}
	if n := len(toks); n != 0 {
		last := toks[n-1]
		p.eof.Line, p.eof.Col = last.Line, last.Col+len(last.Text)
	}
	if err := p.parseFile(); err != nil {
		return nil, err
	}
	return p.file, nil
}

// matchDelimiters checks that ( ) [ ] { } are balanced and returns, for
// every opening or closing delimiter, the index of its partner (-1 for the
// other tokens).
func matchDelimiters(toks []Token) ([]int, error) {
	match := make([]int, len(toks))
	var stack []int
	for i, t := range toks {
		match[i] = -1
		if t.Kind != Punct || len(t.Text) != 1 {
			continue
		}
		switch t.Text[0] {
		case '(', '[', '{':
			stack = append(stack, i)
		case ')', ']', '}':
			if len(stack) == 0 {
				return nil, syntaxAt(t, "unbalanced delimiters: '%s' closes nothing", t.Text)
			}
			open := stack[len(stack)-1]
			stack = stack[:len(stack)-1]
			if want := closerOf(toks[open].Text[0]); want != t.Text[0] {
				return nil, syntaxAt(t, "unbalanced delimiters: '%s' opened at line %d is closed by '%s'", toks[open].Text, toks[open].Line, t.Text)
			}
			match[open], match[i] = i, open
		}
	}
	if len(stack) != 0 {
		open := toks[stack[len(stack)-1]]
		return nil, syntaxAt(open, "unbalanced delimiters: '%s' is never closed", open.Text)
	}
	return match, nil
}

func closerOf(open byte) byte {
	switch open {
	case '(':
		return ')'
	case '[':
		return ']'
	default:
		return '}'
	}
}

type parser struct {
	src   string
	toks  []Token
	match []int
	pos   int
	eof   Token
	file  *File
}

func (p *parser) peek(n int) Token {
	if i := p.pos + n; i >= 0 && i < len(p.toks) {
		return p.toks[i]
	}
	return p.eof
}

func (p *parser) next() Token {
	t := p.peek(0)
	if p.pos < len(p.toks) {
		p.pos++
	}
	return t
}

// expect consumes the punctuation or keyword text, or fails with a *SyntaxError.
func (p *parser) expect(text, context string) (Token, error) {
	t := p.peek(0)
	if !t.Is(text) {
		return t, syntaxAt(t, "expected '%s' %s, found %s", text, context, t.describe())
	}
	return p.next(), nil
}

func (p *parser) parseFile() error {
	for p.peek(0).Kind != EOF {
		if _, err := p.parseMetadata(); err != nil {
			return err
		}
		t := p.peek(0)
		if t.Kind != Ident {
			if t.Kind == EOF {
				return syntaxAt(t, "annotation without a declaration")
			}
			if t.Is("(") {
				return unsupportedAt(t, "top-level declaration starting with '(' (record type)")
			}
			return syntaxAt(t, "unexpected %s at top level", t.describe())
		}
		var err error
		switch t.Text {
		case "import":
			err = p.parseImport()
		case "typedef":
			err = p.parseTypedef()
		case "abstract":
			if !p.peek(1).Is("class") {
				return unsupportedAt(t, "'abstract' not followed by 'class'")
			}
			p.next()
			err = p.parseClass(true)
		case "class":
			err = p.parseClass(false)
		case "enum":
			err = p.parseEnum()
		case "extension":
			err = p.parseExtension()
		case "export", "part", "library", "mixin", "sealed", "base", "interface",
			"final", "var", "const", "late", "external", "covariant", "get", "set":
			return unsupportedAt(t, "top-level '%s' declaration", t.Text)
		default:
			if IsReservedWord(t.Text) && t.Text != "void" {
				return syntaxAt(t, "unexpected keyword '%s' at top level", t.Text)
			}
			err = p.parseTopLevelTyped()
		}
		if err != nil {
			return err
		}
	}
	return nil
}

// parseMetadata consumes `@name`, `@a.b` and `@name(args)` annotations.
func (p *parser) parseMetadata() ([]string, error) {
	var out []string
	for p.peek(0).Is("@") {
		p.next()
		t := p.next()
		if !t.IsIdent() {
			return nil, syntaxAt(t, "expected an identifier after '@', found %s", t.describe())
		}
		name := t.Text
		for p.peek(0).Is(".") && p.peek(1).IsIdent() {
			p.next()
			name += "." + p.next().Text
		}
		if p.peek(0).Is("(") {
			p.pos = p.match[p.pos] + 1
		}
		out = append(out, name)
	}
	return out, nil
}

func (p *parser) addOrder(kind, name string, line, index int) {
	p.file.Order = append(p.file.Order, DeclRef{Kind: kind, Name: name, Line: line, Index: index})
}

func (p *parser) parseImport() error {
	kw := p.next()
	uri := p.next()
	if uri.Kind != String {
		return syntaxAt(uri, "expected a string literal after 'import', found %s", uri.describe())
	}
	if len(uri.Interps) != 0 {
		return syntaxAt(uri, "string interpolation in an import URI")
	}
	t := p.peek(0)
	if !t.Is(";") {
		if t.Kind == Ident || t.Kind == String {
			return unsupportedAt(t, "import with a combinator, prefix or adjacent string (%s)", t.describe())
		}
		return syntaxAt(t, "expected ';' after the import URI, found %s", t.describe())
	}
	p.next()
	p.file.Imports = append(p.file.Imports, Import{URI: uri.Value, Line: kw.Line})
	p.addOrder(KindImport, uri.Value, kw.Line, len(p.file.Imports)-1)
	return nil
}

// declName consumes the declared name of a class, enum, typedef or
// extension; what comes with its article ("a class").
func (p *parser) declName(what string) (Token, error) {
	t := p.next()
	if !t.IsIdent() {
		return t, syntaxAt(t, "the name of %s must be an identifier, found %s", what, t.describe())
	}
	if IsBuiltInIdentifier(t.Text) {
		return t, syntaxAt(t, "the built-in identifier '%s' cannot be the name of %s", t.Text, what)
	}
	return t, nil
}

func (p *parser) parseTypedef() error {
	kw := p.next()
	// old style `typedef void F(int x);` : a type comes first
	if p.peek(0).Kind == Ident && !p.peek(1).Is("=") && !p.peek(1).Is("<") && (p.peek(1).Kind == Ident) {
		return unsupportedAt(kw, "old-style function typedef")
	}
	name, err := p.declName("a type alias")
	if err != nil {
		return err
	}
	if p.peek(0).Is("<") {
		return unsupportedAt(p.peek(0), "generic typedef")
	}
	if p.peek(0).Is("(") {
		return unsupportedAt(kw, "old-style function typedef")
	}
	if _, err := p.expect("=", "in typedef "+name.Text); err != nil {
		return err
	}
	target, err := p.parseType(0)
	if err != nil {
		return err
	}
	if _, err := p.expect(";", "after typedef "+name.Text); err != nil {
		return err
	}
	p.file.Typedefs = append(p.file.Typedefs, Typedef{Name: name.Text, Target: target, Line: kw.Line})
	p.addOrder(KindTypedef, name.Text, kw.Line, len(p.file.Typedefs)-1)
	return nil
}

// parseType reads Name, Name<T, U>, with an optional trailing '?'.
func (p *parser) parseType(depth int) (Type, error) {
	t := p.next()
	if depth > maxTypeDepth {
		return Type{}, unsupportedAt(t, "type arguments nested too deeply")
	}
	if t.Kind != Ident {
		if t.Is("(") {
			return Type{}, unsupportedAt(t, "record or parenthesised type")
		}
		return Type{}, syntaxAt(t, "expected a type name, found %s", t.describe())
	}
	if IsReservedWord(t.Text) && t.Text != "void" {
		return Type{}, syntaxAt(t, "the keyword '%s' cannot be used as a type", t.Text)
	}
	if t.Text == "Function" {
		return Type{}, unsupportedAt(t, "function type")
	}
	out := Type{Name: t.Text}
	if p.peek(0).Is(".") && p.peek(1).Kind == Ident {
		return Type{}, unsupportedAt(p.peek(0), "prefixed type name %s.%s", t.Text, p.peek(1).Text)
	}
	if p.peek(0).Is("<") {
		p.next()
		for {
			if a := p.peek(0); a.Is(">") || a.Is(",") {
				return Type{}, syntaxAt(a, "missing type argument in %s<...>", out.Name)
			}
			arg, err := p.parseType(depth + 1)
			if err != nil {
				return Type{}, err
			}
			out.Args = append(out.Args, arg)
			sep := p.next()
			if sep.Is(">") {
				break
			}
			if !sep.Is(",") {
				return Type{}, syntaxAt(sep, "expected ',' or '>' in the type arguments of %s, found %s", out.Name, sep.describe())
			}
		}
	}
	if p.peek(0).Is("?") {
		p.next()
		out.Nullable = true
	}
	if p.peek(0).Is("Function") {
		return Type{}, unsupportedAt(p.peek(0), "function type")
	}
	return out, nil
}

func (p *parser) parseClass(abstract bool) error {
	kw := p.next() // class
	name, err := p.declName("a class")
	if err != nil {
		return err
	}
	cl := Class{Name: name.Text, Abstract: abstract, Line: kw.Line, Implements: []string{}}
	if p.peek(0).Is("<") {
		return unsupportedAt(p.peek(0), "generic class %s", cl.Name)
	}
	if p.peek(0).Is("extends") {
		p.next()
		typ, err := p.parseType(0)
		if err != nil {
			return err
		}
		cl.Extends, cl.extendsType = typ.String(), &typ
	}
	if p.peek(0).Is("with") {
		return unsupportedAt(p.peek(0), "class %s has a 'with' clause", cl.Name)
	}
	if p.peek(0).Is("implements") {
		p.next()
		for {
			typ, err := p.parseType(0)
			if err != nil {
				return err
			}
			cl.Implements = append(cl.Implements, typ.String())
			cl.implementTypes = append(cl.implementTypes, typ)
			if !p.peek(0).Is(",") {
				break
			}
			p.next()
		}
	}
	open := p.peek(0)
	if open.Is("=") {
		return unsupportedAt(open, "mixin application class %s", cl.Name)
	}
	if !open.Is("{") {
		return syntaxAt(open, "expected '{' to open the body of class %s, found %s", cl.Name, open.describe())
	}
	end := p.match[p.pos]
	p.next()
	for p.pos < end {
		if err := p.parseClassMember(&cl); err != nil {
			return err
		}
	}
	p.pos = end + 1

	kind := KindClass
	if abstract {
		kind = KindAbstractClass
	}
	p.file.Classes = append(p.file.Classes, cl)
	p.addOrder(kind, cl.Name, cl.Line, len(p.file.Classes)-1)
	return nil
}

// memberModifiers start members which are outside the modelled subset.
var memberModifiers = map[string]bool{
	"factory": true, "external": true, "late": true, "var": true,
	"covariant": true, "abstract": true, "operator": true,
}

func (p *parser) parseClassMember(cl *Class) error {
	annotations, err := p.parseMetadata()
	if err != nil {
		return err
	}
	t := p.peek(0)
	switch {
	case t.Is("}"):
		return syntaxAt(t, "annotation without a member in class %s", cl.Name)
	case t.Is(";"):
		return unsupportedAt(t, "stray ';' in the body of class %s", cl.Name)
	case t.Is("("):
		return unsupportedAt(t, "member of class %s starting with '(' (record type)", cl.Name)
	case t.Kind != Ident:
		return syntaxAt(t, "unexpected %s in the body of class %s", t.describe(), cl.Name)
	case t.Text == "final":
		return p.parseField(cl)
	case t.Text == "const":
		if p.peek(1).Is(cl.Name) && p.peek(2).Is("(") {
			p.next()
			return p.parseConstructor(cl, true)
		}
		if p.peek(1).Is(cl.Name) && p.peek(2).Is(".") {
			return unsupportedAt(t, "named constructor in class %s", cl.Name)
		}
		return unsupportedAt(t, "'const' member of class %s which is not its unnamed constructor", cl.Name)
	case t.Text == cl.Name && p.peek(1).Is("("):
		return p.parseConstructor(cl, false)
	case t.Text == cl.Name && p.peek(1).Is("."):
		return unsupportedAt(t, "named constructor in class %s", cl.Name)
	case memberModifiers[t.Text] && p.peek(1).Kind == Ident:
		return unsupportedAt(t, "'%s' member in class %s", t.Text, cl.Name)
	}
	fn, cst, err := p.parseMethodOrConst("class "+cl.Name, annotations)
	if err != nil {
		return err
	}
	if fn != nil {
		cl.Methods = append(cl.Methods, *fn)
	} else {
		cl.Consts = append(cl.Consts, *cst)
	}
	return nil
}

// parseField reads `final Type name;`.
func (p *parser) parseField(cl *Class) error {
	kw := p.next() // final
	typ, err := p.parseType(0)
	if err != nil {
		return err
	}
	name := p.next()
	if name.Kind != Ident {
		if len(typ.Args) == 0 && !typ.Nullable && (name.Is(";") || name.Is("=")) {
			return unsupportedAt(kw, "final field '%s' without a type in class %s", typ.Name, cl.Name)
		}
		return syntaxAt(name, "the name of a field must be an identifier, found %s (class %s)", name.describe(), cl.Name)
	}
	if IsReservedWord(name.Text) {
		return syntaxAt(name, "the keyword '%s' cannot be the name of a field (class %s)", name.Text, cl.Name)
	}
	after := p.next()
	switch {
	case after.Is(";"):
	case after.Is("="):
		return unsupportedAt(after, "field %s.%s has an initializer", cl.Name, name.Text)
	case after.Is(","):
		// `final T a, b;` is accepted by Dart as two fields, but the generator
		// never means it: it is how a JSON name with a comma surfaces.
		return syntaxAt(after, "the name of field '%s' is followed by ',': several names in one field declaration (class %s)", name.Text, cl.Name)
	default:
		return syntaxAt(after, "expected ';' after field '%s', found %s: the field name is not an identifier (class %s)", name.Text, after.describe(), cl.Name)
	}
	cl.Fields = append(cl.Fields, Field{Type: typ, Name: name.Text, Line: kw.Line})
	return nil
}

// parseConstructor reads `Name(this.a, this.b);` with p on Name.
func (p *parser) parseConstructor(cl *Class, isConst bool) error {
	name := p.next()
	if cl.HasCtor {
		return unsupportedAt(name, "class %s has several unnamed constructors", cl.Name)
	}
	open := p.pos
	end := p.match[open]
	p.next() // (
	params := []string{}
	for p.pos < end {
		t := p.peek(0)
		switch {
		case t.Is(","):
			return syntaxAt(t, "empty parameter in the constructor of %s", cl.Name)
		case t.Is("{") || t.Is("["):
			return unsupportedAt(t, "named or optional parameters in the constructor of %s", cl.Name)
		case t.Is("this"):
			p.next()
			if _, err := p.expect(".", "after 'this' in the constructor of "+cl.Name); err != nil {
				return err
			}
			f := p.next()
			if !f.IsIdent() {
				return syntaxAt(f, "expected a field name after 'this.', found %s (constructor of %s)", f.describe(), cl.Name)
			}
			params = append(params, f.Text)
		case t.Kind == Ident || t.Is("@"):
			return unsupportedAt(t, "constructor parameter of %s which is not of the form this.<field>", cl.Name)
		default:
			return syntaxAt(t, "unexpected %s in the parameters of the constructor of %s", t.describe(), cl.Name)
		}
		// separator
		sep := p.peek(0)
		switch {
		case p.pos == end:
		case sep.Is(","):
			p.next()
		case sep.Is("="):
			return unsupportedAt(sep, "default value in the constructor of %s", cl.Name)
		case sep.Is("(") || sep.Is("<"):
			return unsupportedAt(sep, "function-typed parameter in the constructor of %s", cl.Name)
		default:
			return syntaxAt(sep, "expected ',' or ')' after a parameter of the constructor of %s, found %s: the parameter name is not an identifier", cl.Name, sep.describe())
		}
	}
	p.pos = end + 1
	after := p.next()
	switch {
	case after.Is(";"):
	case after.Is(":"):
		return unsupportedAt(after, "initializer list in the constructor of %s", cl.Name)
	case after.Is("{"):
		return unsupportedAt(after, "constructor of %s has a body", cl.Name)
	default:
		return syntaxAt(after, "expected ';' after the constructor of %s, found %s", cl.Name, after.describe())
	}
	cl.HasCtor, cl.HasConstCtor, cl.CtorParams = true, isConst, params
	return nil
}

// parseMethodOrConst reads `[static] Type name(params) body` or
// `static const [Type] name = expr;`.
func (p *parser) parseMethodOrConst(where string, annotations []string) (*Function, *StaticConst, error) {
	first := p.peek(0)
	static := false
	if first.Is("static") && p.peek(1).Kind == Ident {
		static = true
		p.next()
		if p.peek(0).Is("const") {
			cst, err := p.parseStaticConst(where)
			return nil, cst, err
		}
		if t := p.peek(0); t.Is("final") || t.Is("late") || t.Is("var") {
			return nil, nil, unsupportedAt(t, "static '%s' variable in %s", t.Text, where)
		}
	}
	t := p.peek(0)
	if t.Is("(") {
		return nil, nil, unsupportedAt(t, "member of %s starting with '(' (record type)", where)
	}
	if t.Kind != Ident {
		return nil, nil, syntaxAt(t, "unexpected %s in %s", t.describe(), where)
	}
	if (t.Is("get") || t.Is("set")) && p.peek(1).Kind == Ident {
		return nil, nil, unsupportedAt(t, "getter or setter in %s", where)
	}
	if p.peek(1).Is("(") {
		return nil, nil, unsupportedAt(t, "member '%s' of %s has no return type", t.Text, where)
	}
	typ, err := p.parseType(0)
	if err != nil {
		return nil, nil, err
	}
	name := p.next()
	if name.Kind != Ident {
		return nil, nil, syntaxAt(name, "expected a member name after type %s in %s, found %s", typ, where, name.describe())
	}
	if (name.Is("get") || name.Is("set") || name.Is("operator")) && !p.peek(0).Is("(") {
		return nil, nil, unsupportedAt(name, "getter, setter or operator in %s", where)
	}
	if IsReservedWord(name.Text) {
		return nil, nil, syntaxAt(name, "the keyword '%s' cannot be the name of a member of %s", name.Text, where)
	}
	after := p.peek(0)
	switch {
	case after.Is("("):
	case after.Is("<"):
		return nil, nil, unsupportedAt(after, "generic method %s in %s", name.Text, where)
	case after.Is(";") || after.Is("=") || after.Is(","):
		return nil, nil, unsupportedAt(name, "non-final field %s in %s", name.Text, where)
	default:
		return nil, nil, syntaxAt(after, "unexpected %s after member name '%s' in %s", after.describe(), name.Text, where)
	}
	fn, err := p.parseFunctionRest(typ, name, where)
	if err != nil {
		return nil, nil, err
	}
	fn.Static, fn.Annotations = static, annotations
	return fn, nil, nil
}

// parseStaticConst reads `const [Type] name = expr;` (after `static`).
func (p *parser) parseStaticConst(where string) (*StaticConst, error) {
	kw := p.next() // const
	if !(p.peek(0).Kind == Ident && p.peek(1).Is("=")) {
		if _, err := p.parseType(0); err != nil {
			return nil, err
		}
	}
	name := p.next()
	if !name.IsIdent() {
		return nil, syntaxAt(name, "expected the name of a static constant in %s, found %s", where, name.describe())
	}
	if eq := p.next(); !eq.Is("=") {
		if eq.Is("(") {
			return nil, unsupportedAt(eq, "const method or constructor in %s", where)
		}
		return nil, syntaxAt(eq, "expected '=' after static const %s in %s, found %s", name.Text, where, eq.describe())
	}
	start := p.pos
	end, err := p.scanToSemicolon("static const " + name.Text)
	if err != nil {
		return nil, err
	}
	if end == start {
		return nil, syntaxAt(p.peek(0), "static const %s has no value", name.Text)
	}
	out := &StaticConst{Name: name.Text, Expr: p.toks[start:end:end], Raw: p.src[p.toks[start].Off:p.toks[end-1].End], Line: kw.Line}
	p.pos = end + 1
	return out, nil
}

// scanToSemicolon returns the index of the first ';' at nesting depth 0,
// starting from p.pos, which is not moved.
func (p *parser) scanToSemicolon(what string) (int, error) {
	i := p.pos
	for i < len(p.toks) {
		t := p.toks[i]
		if t.Is(";") {
			return i, nil
		}
		if m := p.match[i]; m > i {
			i = m + 1
			continue
		} else if m >= 0 {
			// a closing delimiter at depth 0: the enclosing body ends here
			return 0, syntaxAt(t, "expected ';' to end %s, found %s", what, t.describe())
		}
		i++
	}
	return 0, syntaxAt(p.eof, "expected ';' to end %s, found end of file", what)
}

func (p *parser) parseTopLevelTyped() error {
	first := p.peek(0)
	if p.peek(1).Is("(") {
		return unsupportedAt(first, "top-level function '%s' without a return type", first.Text)
	}
	typ, err := p.parseType(0)
	if err != nil {
		return err
	}
	name := p.next()
	if name.Kind != Ident {
		return syntaxAt(name, "expected a name after type %s, found %s", typ, name.describe())
	}
	if (name.Is("get") || name.Is("set") || name.Is("operator")) && !p.peek(0).Is("(") {
		return unsupportedAt(name, "top-level getter or setter")
	}
	if IsReservedWord(name.Text) {
		return syntaxAt(name, "the keyword '%s' cannot be the name of a declaration", name.Text)
	}
	after := p.peek(0)
	switch {
	case after.Is("("):
	case after.Is("<"):
		return unsupportedAt(after, "generic function %s", name.Text)
	case after.Is(";") || after.Is("=") || after.Is(","):
		return unsupportedAt(name, "top-level variable %s", name.Text)
	default:
		return syntaxAt(after, "unexpected %s after the name '%s' of a top-level declaration", after.describe(), name.Text)
	}
	fn, err := p.parseFunctionRest(typ, name, "the top level")
	if err != nil {
		return err
	}
	p.file.Functions = append(p.file.Functions, *fn)
	p.addOrder(KindFunction, fn.Name, fn.Line, len(p.file.Functions)-1)
	return nil
}

// paramModifiers are valid in front of a parameter but not modelled.
var paramModifiers = map[string]bool{"required": true, "covariant": true, "final": true, "var": true, "const": true, "late": true}

// parseFunctionRest reads `(params) { body }` or `(params) => expr;` with p on '('.
func (p *parser) parseFunctionRest(ret Type, name Token, where string) (*Function, error) {
	fn := &Function{Name: name.Text, ReturnType: ret, Line: name.Line, Params: []Param{}}
	end := p.match[p.pos]
	p.next() // (
	for p.pos < end {
		t := p.peek(0)
		switch {
		case t.Is(","):
			return nil, syntaxAt(t, "empty parameter in function %s", fn.Name)
		case t.Is("{") || t.Is("["):
			return nil, unsupportedAt(t, "named or optional parameters in function %s", fn.Name)
		case t.Is("@"):
			return nil, unsupportedAt(t, "annotated parameter in function %s", fn.Name)
		case t.Kind == Ident && paramModifiers[t.Text] && p.peek(1).Kind == Ident:
			return nil, unsupportedAt(t, "'%s' parameter in function %s", t.Text, fn.Name)
		case t.Is("this") || t.Is("super"):
			return nil, unsupportedAt(t, "'%s.' parameter in function %s", t.Text, fn.Name)
		}
		typ, err := p.parseType(0)
		if err != nil {
			return nil, err
		}
		pn := p.peek(0)
		switch {
		case pn.Kind == Ident:
			if IsReservedWord(pn.Text) {
				return nil, syntaxAt(pn, "the keyword '%s' cannot be the name of a parameter (function %s)", pn.Text, fn.Name)
			}
			p.next()
		case p.pos == end || pn.Is(","):
			return nil, unsupportedAt(t, "parameter '%s' of function %s has no type", typ, fn.Name)
		case pn.Is("("):
			return nil, unsupportedAt(t, "function-typed parameter in function %s", fn.Name)
		default:
			return nil, syntaxAt(pn, "the name of a parameter must be an identifier, found %s (function %s)", pn.describe(), fn.Name)
		}
		fn.Params = append(fn.Params, Param{Type: typ, Name: pn.Text})
		sep := p.peek(0)
		switch {
		case p.pos == end:
		case sep.Is(","):
			p.next()
		case sep.Is("="):
			return nil, unsupportedAt(sep, "default value of parameter %s in function %s", pn.Text, fn.Name)
		case sep.Is("("):
			return nil, unsupportedAt(sep, "function-typed parameter in function %s", fn.Name)
		default:
			return nil, syntaxAt(sep, "expected ',' or ')' after parameter '%s' of function %s, found %s: the parameter name is not an identifier", pn.Text, fn.Name, sep.describe())
		}
	}
	p.pos = end + 1

	t := p.peek(0)
	switch {
	case t.Is("{"):
		open, close := p.pos, p.match[p.pos]
		fn.Body = p.toks[open+1 : close : close]
		fn.Raw = p.src[p.toks[open].End:p.toks[close].Off]
		p.pos = close + 1
	case t.Is("=>"):
		p.next()
		start := p.pos
		semi, err := p.scanToSemicolon("the body of function " + fn.Name)
		if err != nil {
			return nil, err
		}
		if semi == start {
			return nil, syntaxAt(p.peek(0), "function %s has an empty '=>' body", fn.Name)
		}
		fn.Arrow = true
		fn.Body = p.toks[start:semi:semi]
		fn.Raw = p.src[p.toks[start].Off:p.toks[semi-1].End]
		p.pos = semi + 1
	case t.Is("async") || t.Is("sync"):
		return nil, unsupportedAt(t, "'%s' function %s", t.Text, fn.Name)
	case t.Is(";"):
		return nil, unsupportedAt(t, "function %s has no body (abstract or external) in %s", fn.Name, where)
	default:
		return nil, syntaxAt(t, "expected '{' or '=>' after the parameters of function %s, found %s", fn.Name, t.describe())
	}
	return fn, nil
}

func (p *parser) parseEnum() error {
	kw := p.next()
	name, err := p.declName("an enum")
	if err != nil {
		return err
	}
	en := Enum{Name: name.Text, Line: kw.Line, Members: []string{}}
	if t := p.peek(0); t.Is("<") || t.Is("with") || t.Is("implements") {
		return unsupportedAt(t, "enhanced enum %s ('%s')", en.Name, t.Text)
	}
	open := p.peek(0)
	if !open.Is("{") {
		return syntaxAt(open, "expected '{' to open the body of enum %s, found %s", en.Name, open.describe())
	}
	end := p.match[p.pos]
	p.next()
members:
	for p.pos < end {
		if _, err := p.parseMetadata(); err != nil {
			return err
		}
		t := p.peek(0)
		switch {
		case t.Is(","):
			return syntaxAt(t, "empty member in enum %s", en.Name)
		case t.Is(";"):
			if len(en.Members) == 0 {
				return syntaxAt(t, "enum %s declares no member", en.Name)
			}
			return unsupportedAt(t, "enhanced enum %s (members after ';')", en.Name)
		case t.Kind != Ident:
			return syntaxAt(t, "the name of an enum member must be an identifier, found %s (enum %s)", t.describe(), en.Name)
		case IsReservedWord(t.Text):
			return syntaxAt(t, "the keyword '%s' cannot be the name of an enum member (enum %s)", t.Text, en.Name)
		}
		p.next()
		en.Members = append(en.Members, t.Text)
		sep := p.peek(0)
		switch {
		case p.pos == end:
		case sep.Is(","):
			p.next()
			if p.peek(0).Is(";") && p.pos+1 == end {
				p.next()
				break members
			}
		case sep.Is(";"):
			if p.pos+1 != end {
				return unsupportedAt(sep, "enhanced enum %s (members after ';')", en.Name)
			}
			p.next()
			break members
		case sep.Is("(") || sep.Is("<") || sep.Is("."):
			return unsupportedAt(sep, "enhanced enum %s (member %s has arguments)", en.Name, t.Text)
		default:
			return syntaxAt(sep, "expected ',' or '}' after enum member '%s', found %s: the member name is not an identifier (enum %s)", t.Text, sep.describe(), en.Name)
		}
	}
	if p.pos != end {
		return unsupportedAt(p.peek(0), "enhanced enum %s (members after ';')", en.Name)
	}
	if len(en.Members) == 0 {
		return syntaxAt(p.peek(0), "enum %s declares no member", en.Name)
	}
	p.pos = end + 1
	p.file.Enums = append(p.file.Enums, en)
	p.addOrder(KindEnum, en.Name, en.Line, len(p.file.Enums)-1)
	return nil
}

func (p *parser) parseExtension() error {
	kw := p.next()
	ext := Extension{Line: kw.Line}
	if p.peek(0).Is("type") && p.peek(1).Kind == Ident && !p.peek(1).Is("on") {
		return unsupportedAt(kw, "extension type")
	}
	if !(p.peek(0).Is("on") && !p.peek(1).Is("on")) {
		name, err := p.declName("an extension")
		if err != nil {
			return err
		}
		ext.Name = name.Text
	}
	if p.peek(0).Is("<") {
		return unsupportedAt(p.peek(0), "generic extension %s", ext.Name)
	}
	if _, err := p.expect("on", "in extension "+ext.Name); err != nil {
		return err
	}
	on, err := p.parseType(0)
	if err != nil {
		return err
	}
	ext.On = on
	open := p.peek(0)
	if !open.Is("{") {
		return syntaxAt(open, "expected '{' to open the body of extension %s, found %s", ext.Name, open.describe())
	}
	end := p.match[p.pos]
	p.next()
	where := "extension " + ext.Name
	for p.pos < end {
		annotations, err := p.parseMetadata()
		if err != nil {
			return err
		}
		t := p.peek(0)
		switch {
		case t.Is("}"):
			return syntaxAt(t, "annotation without a member in %s", where)
		case t.Is(";"):
			return unsupportedAt(t, "stray ';' in the body of %s", where)
		case t.Is("("):
			return unsupportedAt(t, "member of %s starting with '(' (record type)", where)
		case t.Kind != Ident:
			return syntaxAt(t, "unexpected %s in the body of %s", t.describe(), where)
		case (t.Is("final") || t.Is("const") || memberModifiers[t.Text]) && p.peek(1).Kind == Ident:
			return unsupportedAt(t, "'%s' member in %s", t.Text, where)
		}
		fn, cst, err := p.parseMethodOrConst(where, annotations)
		if err != nil {
			return err
		}
		if fn != nil {
			ext.Methods = append(ext.Methods, *fn)
			continue
		}
		ext.Consts = append(ext.Consts, *cst)
		if cst.Name == "_values" {
			if ext.HasValues {
				return unsupportedAt(t, "%s declares _values twice", where)
			}
			values, err := parseLiteralList(cst)
			if err != nil {
				return err
			}
			ext.HasValues, ext.Values = true, values
		}
	}
	p.pos = end + 1
	ext.IndexMode, ext.TableMode = conversionMode(&ext)
	p.file.Extensions = append(p.file.Extensions, ext)
	p.addOrder(KindExtension, ext.Name, ext.Line, len(p.file.Extensions)-1)
	return nil
}

// parseLiteralList reads `[ lit, lit, ... ]` made of numbers (with an
// optional unary minus) and strings.
func parseLiteralList(cst *StaticConst) ([]Literal, error) {
	toks := cst.Expr
	if len(toks) < 2 || !toks[0].Is("[") || !toks[len(toks)-1].Is("]") {
		return nil, unsupportedAt(toks[0], "the value of %s is not a plain list literal", cst.Name)
	}
	toks = toks[1 : len(toks)-1]
	out := []Literal{}
	i := 0
	for i < len(toks) {
		t := toks[i]
		var lit Literal
		switch {
		case t.Is(","):
			return nil, syntaxAt(t, "empty entry in the list %s", cst.Name)
		case t.Kind == String:
			lit = Literal{IsString: true, Text: t.Text, Str: t.Value, Interps: t.Interps, Line: t.Line}
			i++
		case t.Kind == Number:
			lit = numberLiteral("", t)
			i++
		case t.Is("-") && i+1 < len(toks) && toks[i+1].Kind == Number:
			lit = numberLiteral("-", toks[i+1])
			lit.Line = t.Line
			i += 2
		default:
			return nil, unsupportedAt(t, "entry of the list %s which is not a number or string literal (%s)", cst.Name, t.describe())
		}
		out = append(out, lit)
		if i == len(toks) {
			break
		}
		if sep := toks[i]; !sep.Is(",") {
			return nil, unsupportedAt(sep, "entry of the list %s which is not a single literal (unexpected %s)", cst.Name, sep.describe())
		}
		i++
	}
	return out, nil
}

func numberLiteral(sign string, t Token) Literal {
	lit := Literal{Text: sign + t.Text, Line: t.Line}
	digits, base := t.Text, 10
	if strings.HasPrefix(digits, "0x") || strings.HasPrefix(digits, "0X") {
		digits, base = digits[2:], 16
	}
	// (base 10 on purpose: Dart reads 017 as seventeen)
	if v, err := strconv.ParseInt(sign+digits, base, 64); err == nil {
		lit.IsInt, lit.Int, lit.Float = true, v, float64(v)
		return lit
	}
	if f, err := strconv.ParseFloat(lit.Text, 64); err == nil && base == 10 {
		lit.Float = f
	}
	return lit
}

// conversionMode recognises the two schemes used for enum conversion.
func conversionMode(ext *Extension) (indexMode, tableMode bool) {
	from, to := ext.FromValue(), ext.ToValue()
	if from == nil || to == nil || len(from.Params) != 1 || len(to.Params) != 0 {
		return false, false
	}
	if !from.Static || to.Static {
		return false, false
	}
	n, arg := ext.On.Name, from.Params[0].Name
	fromExpr, toExpr := returnedExpr(from), returnedExpr(to)
	toExpr = strings.TrimPrefix(toExpr, "this . ")
	toExpr = strings.ReplaceAll(toExpr, "[ this . index ]", "[ index ]")
	switch {
	case fromExpr == n+" . values [ "+arg+" ]" && toExpr == "index":
		return true, false
	case ext.HasValues && fromExpr == n+" . values [ _values . indexOf ( "+arg+" ) ]" && toExpr == "_values [ index ]":
		return false, true
	}
	return false, false
}

// returnedExpr returns the space-joined tokens of the expression of a body
// of the form `return expr;` or `=> expr`, or "" for any other body.
func returnedExpr(fn *Function) string {
	toks := fn.Body
	if !fn.Arrow {
		if len(toks) < 3 || !toks[0].Is("return") || !toks[len(toks)-1].Is(";") {
			return ""
		}
		toks = toks[1 : len(toks)-1]
	}
	parts := make([]string, len(toks))
	for i, t := range toks {
		if t.Is(";") {
			return ""
		}
		parts[i] = t.Text
	}
	return strings.Join(parts, " ")
}
