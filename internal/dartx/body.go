package dartx

// Pattern extractors over the token list of a function body. They never
// fail on unknown constructs: bodies are opaque to this package and only
// the listed token patterns are recognised.
//
// String literals are reported by their decoded value (Token.Value), in
// which an interpolation is kept verbatim: `json['a$b']` reports "a$b"
// although Dart would read another key. Callers comparing keys must also
// require Interpolations() to be empty.

func tokAt(toks []Token, i int) Token {
	if i >= 0 && i < len(toks) {
		return toks[i]
	}
	return Token{Kind: EOF}
}

func isMemberAccess(t Token) bool {
	return t.Kind == Punct && (t.Text == "." || t.Text == "?." || t.Text == ".." || t.Text == "?..")
}

func isCapitalised(s string) bool { return s != "" && s[0] >= 'A' && s[0] <= 'Z' }

// JSONReads returns every string literal K of an index expression
// json['K'] or json_["K"] (on an identifier named json or json_), in order.
func (f *Function) JSONReads() []string {
	out := []string{}
	toks := f.Body
	for i, t := range toks {
		if !(t.Is("json") || t.Is("json_")) || isMemberAccess(tokAt(toks, i-1)) {
			continue
		}
		if tokAt(toks, i+1).Is("[") && tokAt(toks, i+2).Kind == String && tokAt(toks, i+3).Is("]") {
			out = append(out, toks[i+2].Value)
		}
	}
	return out
}

// MapWrites returns every string literal K which starts an entry `K : value`
// of a { ... } map literal, in order.
func (f *Function) MapWrites() []string {
	out := []string{}
	toks := f.Body
	var stack []byte
	for i, t := range toks {
		if t.Kind == Punct && len(t.Text) == 1 {
			switch c := t.Text[0]; c {
			case '(', '[', '{':
				stack = append(stack, c)
			case ')', ']', '}':
				if len(stack) != 0 {
					stack = stack[:len(stack)-1]
				}
			}
			continue
		}
		if t.Kind != String || !tokAt(toks, i+1).Is(":") {
			continue
		}
		prev := tokAt(toks, i-1)
		if len(stack) != 0 && stack[len(stack)-1] == '{' && (prev.Is("{") || prev.Is(",")) {
			out = append(out, t.Value)
		}
	}
	return out
}

// SwitchCases returns the string literals K of `case K:` clauses, in order.
func (f *Function) SwitchCases() []string {
	out := []string{}
	toks := f.Body
	for i, t := range toks {
		if t.Is("case") && tokAt(toks, i+1).Kind == String && tokAt(toks, i+2).Is(":") {
			out = append(out, toks[i+1].Value)
		}
	}
	return out
}

// KindWrites returns the string literals V of the map entries 'Kind': V, in order.
func (f *Function) KindWrites() []string {
	out := []string{}
	toks := f.Body
	for i, t := range toks {
		if t.Kind == String && t.Value == "Kind" && tokAt(toks, i+1).Is(":") && tokAt(toks, i+2).Kind == String {
			out = append(out, toks[i+2].Value)
		}
	}
	return out
}

// IsChecks returns the canonical text of the types T of `x is T` and
// `x is! T` tests, in order.
func (f *Function) IsChecks() []string {
	out := []string{}
	toks := f.Body
	for i, t := range toks {
		if !t.Is("is") {
			continue
		}
		j := i + 1
		if tokAt(toks, j).Is("!") {
			j++
		}
		if typ, _, ok := scanType(toks, j, 0); ok {
			out = append(out, typ.String())
		}
	}
	return out
}

// Call is an identifier used as a function.
type Call struct {
	Name     string
	AfterDot bool // method call: preceded by '.', '?.' or '..'
	Ref      bool // bare reference `.map(Name)`, not followed by '('
	Line     int
}

// Calls returns every identifier (reserved words excluded) immediately
// followed by '(' and every identifier passed alone to a .map(...) call,
// in order of appearance.
func (f *Function) Calls() []Call {
	out := []Call{}
	toks := f.Body
	for i, t := range toks {
		if !t.IsIdent() {
			continue
		}
		prev := tokAt(toks, i-1)
		switch {
		case tokAt(toks, i+1).Is("("):
			out = append(out, Call{Name: t.Text, AfterDot: isMemberAccess(prev), Line: t.Line})
		case prev.Is("(") && tokAt(toks, i+1).Is(")") && tokAt(toks, i-2).Is("map") && isMemberAccess(tokAt(toks, i-3)):
			out = append(out, Call{Name: t.Text, Ref: true, Line: t.Line})
		}
	}
	return out
}

// CalledFunctions returns the names of Calls(), duplicates kept.
func (f *Function) CalledFunctions() []string {
	calls := f.Calls()
	out := make([]string, len(calls))
	for i, c := range calls {
		out[i] = c.Name
	}
	return out
}

// ConstructorCall looks for the first statement `return Name( a, b, c );`
// where Name starts with an upper-case letter, and returns Name and the
// number of positional arguments (a trailing comma is accepted).
// An empty argument (`Name(a, , b)`, `Name(, a)`) is a *SyntaxError.
// ok is false when there is no such statement, or when the arguments cannot
// be counted reliably ('<' or '>' outside of an `as`/`is` type).
func (f *Function) ConstructorCall() (name string, argCount int, ok bool, err error) {
	toks := f.Body
	for i, t := range toks {
		if !t.Is("return") {
			continue
		}
		n := tokAt(toks, i+1)
		if !n.IsIdent() || !isCapitalised(n.Text) || !tokAt(toks, i+2).Is("(") {
			continue
		}
		open := i + 2
		close := closingIndex(toks, open)
		if close < 0 || !tokAt(toks, close+1).Is(";") {
			continue
		}
		count, reliable, err := countArguments(toks[open+1:close], n.Text)
		if err != nil {
			return "", 0, false, err
		}
		if !reliable {
			return "", 0, false, nil
		}
		return n.Text, count, true, nil
	}
	return "", 0, false, nil
}

// closingIndex returns the index of the delimiter closing toks[open], or -1.
func closingIndex(toks []Token, open int) int {
	depth := 0
	for i := open; i < len(toks); i++ {
		t := toks[i]
		if t.Kind != Punct || len(t.Text) != 1 {
			continue
		}
		switch t.Text[0] {
		case '(', '[', '{':
			depth++
		case ')', ']', '}':
			depth--
			if depth == 0 {
				return i
			}
		}
	}
	return -1
}

// countArguments splits an argument list on its top-level commas.
func countArguments(toks []Token, callee string) (count int, reliable bool, err error) {
	depth := 0
	pending := false // the current argument has at least one token
	for i := 0; i < len(toks); i++ {
		t := toks[i]
		if t.Kind == Punct && len(t.Text) == 1 {
			switch t.Text[0] {
			case '(', '[', '{':
				depth++
				pending = true
				continue
			case ')', ']', '}':
				depth--
				continue
			case ',':
				if depth != 0 {
					continue
				}
				if !pending {
					return 0, false, syntaxAt(t, "empty argument in the call of %s", callee)
				}
				count++
				pending = false
				continue
			case '<', '>':
				if depth == 0 {
					return 0, false, nil
				}
			}
		}
		pending = true
		if depth == 0 && (t.Is("as") || t.Is("is")) {
			j := i + 1
			if tokAt(toks, j).Is("!") {
				j++
			}
			if _, next, ok := scanType(toks, j, 0); ok {
				i = next - 1
			}
		}
	}
	if pending {
		count++
	}
	return count, true, nil
}

// ItemFieldReads returns F for every `item.F` which is not a method call, in order.
func (f *Function) ItemFieldReads() []string {
	out := []string{}
	toks := f.Body
	for i, t := range toks {
		if !t.Is("item") || isMemberAccess(tokAt(toks, i-1)) {
			continue
		}
		if tokAt(toks, i+1).Is(".") && tokAt(toks, i+2).Kind == Ident && !tokAt(toks, i+3).Is("(") {
			out = append(out, toks[i+2].Text)
		}
	}
	return out
}

// Interpolations returns every $name / ${expr} interpolation found in the
// string literals of the body, in order.
func (f *Function) Interpolations() []string {
	out := []string{}
	for _, t := range f.Body {
		if t.Kind == String {
			out = append(out, t.Interps...)
		}
	}
	return out
}

// StringLiterals returns the decoded value of every string literal of the body, in order.
func (f *Function) StringLiterals() []string {
	out := []string{}
	for _, t := range f.Body {
		if t.Kind == String {
			out = append(out, t.Value)
		}
	}
	return out
}

// endsType lists the tokens which may follow a nullable type in an expression.
var endsType = map[string]bool{
	")": true, ",": true, ";": true, "]": true, "}": true, ">": true,
	"&&": true, "||": true, "=": true, "{": true, "==": true, "!=": true,
}

// scanType leniently reads a type starting at toks[i] inside an expression
// (after `is` or `as`). It returns the type and the index following it.
func scanType(toks []Token, i, depth int) (Type, int, bool) {
	t := tokAt(toks, i)
	if t.Kind != Ident || (IsReservedWord(t.Text) && t.Text != "void") || depth > maxTypeDepth {
		return Type{}, i, false
	}
	out := Type{Name: t.Text}
	i++
	if tokAt(toks, i).Is("<") {
		// type arguments, if they can be read as such
		j := i + 1
		var args []Type
		for {
			arg, next, ok := scanType(toks, j, depth+1)
			if !ok {
				args = nil
				break
			}
			args = append(args, arg)
			j = next
			if tokAt(toks, j).Is(",") {
				j++
				continue
			}
			if tokAt(toks, j).Is(">") {
				j++
			} else {
				args = nil
			}
			break
		}
		if args != nil {
			out.Args = args
			i = j
		}
	}
	if tokAt(toks, i).Is("?") {
		if after := tokAt(toks, i+1); after.Kind == EOF || (after.Kind == Punct && endsType[after.Text]) {
			out.Nullable = true
			i++
		}
	}
	return out, i, true
}
