package dartx

import (
	"strings"
	"unicode/utf8"
)

// Kind is the kind of a Token.
type Kind int

const (
	EOF    Kind = iota // only used as the "no more token" sentinel
	Ident              // identifiers and keywords
	Number             // 12, 1.5, 0x1F, 1e-3 (always unsigned: '-' is a Punct)
	String             // '...', "...", r'...', '''...'''
	Punct              // punctuation and operators
)

func (k Kind) String() string {
	switch k {
	case EOF:
		return "EOF"
	case Ident:
		return "identifier"
	case Number:
		return "number"
	case String:
		return "string"
	case Punct:
		return "punctuation"
	}
	return "?"
}

// Token is one lexical element. Comments and white space are not tokens.
type Token struct {
	Kind Kind
	Text string // the raw source text (strings: with quotes and escapes)

	// Value is, for a String, the decoded literal: escapes are resolved with
	// Dart's rules and interpolations are kept verbatim ("$name", "${expr}").
	// For the other kinds it is equal to Text.
	Value string
	// Interps lists, for a String, the interpolated identifiers ($name) and
	// raw expressions (${expr}, without the braces), in order.
	Interps []string

	Line, Col int // 1-based position of the first byte; Col counts bytes
	Off, End  int // byte offsets in the source: src[Off:End] == Text
}

// Is reports whether the token is the punctuation or identifier with the given text.
// (A String token never matches.)
func (t Token) Is(text string) bool {
	return (t.Kind == Punct || t.Kind == Ident) && t.Text == text
}

// IsIdent reports whether the token is an identifier which is not a
// reserved word of Dart.
func (t Token) IsIdent() bool { return t.Kind == Ident && !IsReservedWord(t.Text) }

func (t Token) describe() string {
	if t.Kind == EOF {
		return "end of file"
	}
	return "'" + t.Text + "'"
}

// Comment is a comment of the source, with its delimiters.
type Comment struct {
	Text string
	Line int
	Doc  bool // "///" or "/**"
}

// reservedWords cannot be used as identifiers anywhere in Dart.
var reservedWords = map[string]bool{
	"assert": true, "break": true, "case": true, "catch": true, "class": true,
	"const": true, "continue": true, "default": true, "do": true, "else": true,
	"enum": true, "extends": true, "false": true, "final": true, "finally": true,
	"for": true, "if": true, "in": true, "is": true, "new": true, "null": true,
	"rethrow": true, "return": true, "super": true, "switch": true, "this": true,
	"throw": true, "true": true, "try": true, "var": true, "void": true,
	"while": true, "with": true,
}

// builtInIdentifiers may be used as variable, field or function names but
// not as the name of a class, enum, extension or type alias.
var builtInIdentifiers = map[string]bool{
	"abstract": true, "as": true, "covariant": true, "deferred": true,
	"dynamic": true, "export": true, "extension": true, "external": true,
	"factory": true, "Function": true, "get": true, "implements": true,
	"import": true, "interface": true, "late": true, "library": true,
	"mixin": true, "operator": true, "part": true, "required": true,
	"set": true, "static": true, "typedef": true,
}

// IsReservedWord reports whether s is a reserved word of Dart, which can
// never be used as an identifier.
func IsReservedWord(s string) bool { return reservedWords[s] }

// IsBuiltInIdentifier reports whether s is one of Dart's built-in
// identifiers, which cannot name a type.
func IsBuiltInIdentifier(s string) bool { return builtInIdentifiers[s] }

// IsIdentifier reports whether s has the shape [A-Za-z_$][A-Za-z0-9_$]*
// and is not a reserved word.
func IsIdentifier(s string) bool {
	if s == "" || !isIdentStart(s[0]) {
		return false
	}
	for i := 1; i < len(s); i++ {
		if !isIdentPart(s[i]) {
			return false
		}
	}
	return !IsReservedWord(s)
}

func isIdentStart(c byte) bool {
	return c == '_' || c == '$' || (c >= 'a' && c <= 'z') || (c >= 'A' && c <= 'Z')
}

func isDigit(c byte) bool { return c >= '0' && c <= '9' }

func isHexDigit(c byte) bool {
	return isDigit(c) || (c >= 'a' && c <= 'f') || (c >= 'A' && c <= 'F')
}

func isIdentPart(c byte) bool { return isIdentStart(c) || isDigit(c) }

// operators, longest first. '<' and '>' are always lexed alone so that the
// closing of nested generics (List<List<int>>) needs no special treatment.
var operators = []string{
	"...?", "??=", "?..", "...", "~/=",
	"=>", "==", "!=", "&&", "||", "??", "?.", "..", "++", "--",
	"+=", "-=", "*=", "/=", "%=", "&=", "|=", "^=", "~/",
}

const singlePunct = "{}()[]<>,;:.=?!@+-*/%&|^~#"

// maxInterpolationDepth bounds the nesting of strings inside ${...}.
const maxInterpolationDepth = 8

type lexer struct {
	src       string
	off       int
	line      int
	lineStart int
	toks      []Token
	comments  []Comment
}

// Tokenize splits src into tokens. The only possible errors are
// *SyntaxError (unterminated string or comment, invalid character or
// escape) and, for absurdly nested string interpolations, *Unsupported.
func Tokenize(src string) ([]Token, []Comment, error) {
	lx := &lexer{src: src, line: 1}
	if err := lx.run(); err != nil {
		return nil, nil, err
	}
	return lx.toks, lx.comments, nil
}

func (lx *lexer) errAt(off int, line, lineStart int, msg string) error {
	return &SyntaxError{Line: line, Col: off - lineStart + 1, Msg: msg}
}

func (lx *lexer) here(msg string) error {
	return lx.errAt(lx.off, lx.line, lx.lineStart, msg)
}

// newline must be called with lx.off on a '\n' byte, before consuming it.
func (lx *lexer) newline() {
	lx.line++
	lx.lineStart = lx.off + 1
}

func (lx *lexer) emit(kind Kind, start, startLine, startLineStart int, value string, interps []string) {
	text := lx.src[start:lx.off]
	if kind != String {
		value = text
	}
	lx.toks = append(lx.toks, Token{
		Kind: kind, Text: text, Value: value, Interps: interps,
		Line: startLine, Col: start - startLineStart + 1,
		Off: start, End: lx.off,
	})
}

func (lx *lexer) run() error {
	src := lx.src
	for lx.off < len(src) {
		c := src[lx.off]
		switch {
		case c == '\n':
			lx.newline()
			lx.off++
		case c == ' ' || c == '\t' || c == '\r':
			lx.off++
		case c == '/' && strings.HasPrefix(src[lx.off:], "//"):
			start := lx.off
			for lx.off < len(src) && src[lx.off] != '\n' {
				lx.off++
			}
			text := src[start:lx.off]
			lx.comments = append(lx.comments, Comment{Text: text, Line: lx.line, Doc: strings.HasPrefix(text, "///")})
		case c == '/' && strings.HasPrefix(src[lx.off:], "/*"):
			if err := lx.blockComment(); err != nil {
				return err
			}
		case (c == 'r' && lx.off+1 < len(src) && (src[lx.off+1] == '\'' || src[lx.off+1] == '"')) || c == '\'' || c == '"':
			start, line, lineStart := lx.off, lx.line, lx.lineStart
			value, interps, err := lx.stringLit(0)
			if err != nil {
				return err
			}
			lx.emit(String, start, line, lineStart, value, interps)
		case isIdentStart(c):
			start := lx.off
			for lx.off < len(src) && isIdentPart(src[lx.off]) {
				lx.off++
			}
			lx.emit(Ident, start, lx.line, lx.lineStart, "", nil)
		case isDigit(c) || (c == '.' && lx.off+1 < len(src) && isDigit(src[lx.off+1])):
			start := lx.off
			lx.number()
			lx.emit(Number, start, lx.line, lx.lineStart, "", nil)
		default:
			start := lx.off
			matched := false
			for _, op := range operators {
				if strings.HasPrefix(src[lx.off:], op) {
					lx.off += len(op)
					matched = true
					break
				}
			}
			if !matched {
				if c < utf8.RuneSelf && strings.IndexByte(singlePunct, c) >= 0 {
					lx.off++
				} else {
					r, _ := utf8.DecodeRuneInString(src[lx.off:])
					return lx.here("invalid character " + quoteRune(r) + " outside of a string or comment")
				}
			}
			lx.emit(Punct, start, lx.line, lx.lineStart, "", nil)
		}
	}
	return nil
}

func quoteRune(r rune) string {
	if r < ' ' || r == 0x7f || r == utf8.RuneError {
		const hex = "0123456789abcdef"
		return "U+00" + string(hex[(r>>4)&0xf]) + string(hex[r&0xf])
	}
	return "'" + string(r) + "'"
}

// blockComment consumes a (possibly nested) /* */ comment.
func (lx *lexer) blockComment() error {
	src := lx.src
	start, line, lineStart := lx.off, lx.line, lx.lineStart
	depth := 0
	for lx.off < len(src) {
		switch {
		case strings.HasPrefix(src[lx.off:], "/*"):
			depth++
			lx.off += 2
		case strings.HasPrefix(src[lx.off:], "*/"):
			depth--
			lx.off += 2
			if depth == 0 {
				text := src[start:lx.off]
				lx.comments = append(lx.comments, Comment{Text: text, Line: line, Doc: strings.HasPrefix(text, "/**") && text != "/**/"})
				return nil
			}
		default:
			if src[lx.off] == '\n' {
				lx.newline()
			}
			lx.off++
		}
	}
	return lx.errAt(start, line, lineStart, "unterminated block comment")
}

// number consumes a numeric literal starting at lx.off.
func (lx *lexer) number() {
	src := lx.src
	if strings.HasPrefix(src[lx.off:], "0x") || strings.HasPrefix(src[lx.off:], "0X") {
		if lx.off+2 < len(src) && isHexDigit(src[lx.off+2]) {
			lx.off += 2
			for lx.off < len(src) && isHexDigit(src[lx.off]) {
				lx.off++
			}
			return
		}
	}
	for lx.off < len(src) && isDigit(src[lx.off]) {
		lx.off++
	}
	if lx.off+1 < len(src) && src[lx.off] == '.' && isDigit(src[lx.off+1]) {
		lx.off++
		for lx.off < len(src) && isDigit(src[lx.off]) {
			lx.off++
		}
	}
	if lx.off < len(src) && (src[lx.off] == 'e' || src[lx.off] == 'E') {
		j := lx.off + 1
		if j < len(src) && (src[j] == '+' || src[j] == '-') {
			j++
		}
		if j < len(src) && isDigit(src[j]) {
			for j < len(src) && isDigit(src[j]) {
				j++
			}
			lx.off = j
		}
	}
}

// stringLit consumes a string literal starting at lx.off (on the quote, or
// on the 'r' of a raw string) and returns its decoded value and
// interpolations.
func (lx *lexer) stringLit(depth int) (string, []string, error) {
	src := lx.src
	start, line, lineStart := lx.off, lx.line, lx.lineStart
	unterminated := func() error {
		return lx.errAt(start, line, lineStart, "unterminated string literal")
	}
	if depth > maxInterpolationDepth {
		return "", nil, &Unsupported{Line: line, Col: start - lineStart + 1, Msg: "string interpolations nested too deeply"}
	}

	raw := false
	if src[lx.off] == 'r' {
		raw = true
		lx.off++
	}
	q := src[lx.off]
	closing := string(q)
	triple := false
	if strings.HasPrefix(src[lx.off:], closing+closing+closing) {
		triple = true
		closing = closing + closing + closing
	}
	lx.off += len(closing)

	var value strings.Builder
	var interps []string
	for {
		if lx.off >= len(src) {
			return "", nil, unterminated()
		}
		c := src[lx.off]
		if strings.HasPrefix(src[lx.off:], closing) {
			lx.off += len(closing)
			return value.String(), interps, nil
		}
		switch {
		case c == '\n':
			if !triple {
				return "", nil, unterminated()
			}
			value.WriteByte(c)
			lx.newline()
			lx.off++
		case c == '\r' && !triple:
			return "", nil, unterminated()
		case c == '\\' && !raw:
			if err := lx.escape(&value, triple); err != nil {
				if err == errUnterminated {
					return "", nil, unterminated()
				}
				return "", nil, err
			}
		case c == '$' && !raw:
			text, interp, err := lx.interpolation(depth)
			if err != nil {
				return "", nil, err
			}
			value.WriteString(text)
			interps = append(interps, interp)
		default:
			value.WriteByte(c)
			lx.off++
		}
	}
}

var errUnterminated = &SyntaxError{Msg: "unterminated string literal"}

// escape decodes one escape sequence, with lx.off on the backslash.
func (lx *lexer) escape(out *strings.Builder, triple bool) error {
	src := lx.src
	if lx.off+1 >= len(src) {
		return errUnterminated
	}
	c := src[lx.off+1]
	switch c {
	case 'n':
		out.WriteByte('\n')
	case 'r':
		out.WriteByte('\r')
	case 'f':
		out.WriteByte('\f')
	case 'b':
		out.WriteByte('\b')
	case 't':
		out.WriteByte('\t')
	case 'v':
		out.WriteByte('\v')
	case 'x':
		if lx.off+3 < len(src) && isHexDigit(src[lx.off+2]) && isHexDigit(src[lx.off+3]) {
			out.WriteRune(rune(hexValue(src[lx.off+2 : lx.off+4])))
			lx.off += 4
			return nil
		}
		return lx.here(`invalid \x escape: two hexadecimal digits expected`)
	case 'u':
		rest := src[lx.off+2:]
		if strings.HasPrefix(rest, "{") {
			end := strings.IndexByte(rest, '}')
			if end < 2 || end > 7 || !allHex(rest[1:end]) {
				return lx.here(`invalid \u{...} escape: one to six hexadecimal digits expected`)
			}
			v := hexValue(rest[1:end])
			if v > utf8.MaxRune {
				return lx.here(`invalid \u{...} escape: code point out of range`)
			}
			out.WriteRune(rune(v))
			lx.off += 2 + end + 1
			return nil
		}
		if len(rest) >= 4 && allHex(rest[:4]) {
			out.WriteRune(rune(hexValue(rest[:4])))
			lx.off += 6
			return nil
		}
		return lx.here(`invalid \u escape: four hexadecimal digits expected`)
	case '\n':
		if !triple {
			return errUnterminated
		}
		// in a multi-line string the escaped character is the line break itself
		out.WriteByte(c)
		lx.off++ // now on the '\n'
		lx.newline()
		lx.off++
		return nil
	case '\r':
		if !triple {
			return errUnterminated
		}
		out.WriteByte(c)
	default:
		// any other character stands for itself
		_, size := utf8.DecodeRuneInString(src[lx.off+1:])
		out.WriteString(src[lx.off+1 : lx.off+1+size])
		lx.off += 1 + size
		return nil
	}
	lx.off += 2
	return nil
}

func allHex(s string) bool {
	for i := 0; i < len(s); i++ {
		if !isHexDigit(s[i]) {
			return false
		}
	}
	return len(s) > 0
}

func hexValue(s string) int {
	v := 0
	for i := 0; i < len(s); i++ {
		c := s[i]
		switch {
		case isDigit(c):
			v = v*16 + int(c-'0')
		case c >= 'a' && c <= 'f':
			v = v*16 + int(c-'a') + 10
		default:
			v = v*16 + int(c-'A') + 10
		}
	}
	return v
}

// interpolation consumes $name or ${expr}, with lx.off on the '$'. It
// returns the verbatim text and the identifier or expression.
func (lx *lexer) interpolation(depth int) (text, interp string, err error) {
	src := lx.src
	start := lx.off
	if lx.off+1 >= len(src) {
		return "", "", lx.here("'$' in a string must be followed by an identifier or '{' (a literal dollar is written \\$)")
	}
	c := src[lx.off+1]
	switch {
	case c == '{':
		startLine, startLineStart := lx.line, lx.lineStart
		lx.off += 2
		exprStart := lx.off
		braces := 1
		for {
			if lx.off >= len(src) {
				return "", "", lx.errAt(start, startLine, startLineStart, "unterminated ${...} interpolation")
			}
			c := src[lx.off]
			switch {
			case c == '{':
				braces++
				lx.off++
			case c == '}':
				braces--
				lx.off++
				if braces == 0 {
					return src[start:lx.off], strings.TrimSpace(src[exprStart : lx.off-1]), nil
				}
			case c == '\'' || c == '"' ||
				(c == 'r' && lx.off+1 < len(src) && (src[lx.off+1] == '\'' || src[lx.off+1] == '"') && !isIdentPart(src[lx.off-1])):
				if _, _, err := lx.stringLit(depth + 1); err != nil {
					return "", "", err
				}
			case c == '\n':
				lx.newline()
				lx.off++
			default:
				lx.off++
			}
		}
	case c != '$' && isIdentStart(c):
		lx.off++
		for lx.off < len(src) && isIdentPart(src[lx.off]) && src[lx.off] != '$' {
			lx.off++
		}
		return src[start:lx.off], src[start+1 : lx.off], nil
	default:
		return "", "", lx.here("'$' in a string must be followed by an identifier or '{' (a literal dollar is written \\$)")
	}
}
