package synth

import (
	"fmt"
	"sort"
	"strconv"
	"strings"

	"pgregory.net/rapid"
)

// ---------------------------------------------------------------------------
// enums

// EnumInfo is the reference model of one enum as declared by the Spec.
type EnumMemberRef struct {
	Name    string
	Val     string // Go literal text of the value
	Comment string
	Blank   bool
}

func (g *gen) constName(pkg *Pkg, enum string, i int, exported bool, label string) string {
	used := g.used(pkg)
	for try := 0; ; try++ {
		suffix := string(rune('A' + (i+try*7)%26))
		if try > 3 {
			suffix += strconv.Itoa(try)
		}
		name := enum + suffix
		if g.o.Spelling {
			switch rapid.IntRange(0, 15).Draw(g.t, label+"Sp") {
			case 0:
				if !g.o.gated("const_trailing_underscore") {
					name = enum + suffix + "_"
				}
			case 1:
				name = enum + "_" + suffix
			}
		}
		if !exported {
			name = strings.ToLower(name[:1]) + name[1:]
		} else {
			name = strings.ToUpper(name[:1]) + name[1:]
		}
		if used[name] || goKeyword(name) {
			continue
		}
		used[name] = true
		return name
	}
}

var enumComments = []string{"", "", "first", "second one", "the rest", "with \"quotes\"", "café", "a, b"}

func (g *gen) addEnum(pkg *Pkg, file *File, constFile *File) *tinfo {
	t := g.t
	exported := rapid.IntRange(0, 6).Draw(t, "enumExported") != 0
	name := g.freshName(pkg, "enumName", exported)
	bases := []string{"int", "int", "int", "uint8", "string", "string", "int64", "uint", "int16"}
	if g.o.EnumStress || g.o.Hostile {
		bases = append(bases, "bool", "float64", "int8", "uint16")
	}
	base := bases[rapid.IntRange(0, len(bases)-1).Draw(t, "enumBase")]
	if (base == "bool" || base == "float64") && g.o.gated("non_int_non_string_enum") {
		base = "int"
	}
	d := &Decl{Kind: KEnum, Name: name, Type: Basic(base)}
	ti := &tinfo{cat: "enum", base: base, keyOK: base == "string" || isIntKind(base)}
	g.newDecl(pkg, file, d, ti)

	n := rapid.IntRange(1, 6).Draw(t, "nConsts")
	blk := &Block{Grouped: true}
	unsigned := strings.HasPrefix(base, "uint")
	mkComment := func() string {
		return enumComments[rapid.IntRange(0, len(enumComments)-1).Draw(t, "constComment")]
	}
	memberExported := func(i int) bool {
		if i == 0 && !g.o.Hostile {
			return true // an enum without any exported member is outside the documented domain
		}
		// unexported members at any position, low weight
		if rapid.IntRange(0, 7).Draw(t, "memberUnexported") == 0 {
			if g.o.gated("enum_unexported_member_not_last") && i != n-1 {
				return true
			}
			return false
		}
		return true
	}
	switch {
	case isIntKind(base):
		style := rapid.IntRange(0, 9).Draw(t, "enumStyle")
		switch {
		case style <= 4: // iota block
			forms := []string{"iota", "iota", "iota", "iota + 1", "1 + iota", "iota * 2", "1 << iota"}
			if !unsigned {
				forms = append(forms, "-1 + iota", "iota - 2")
			}
			form := forms[rapid.IntRange(0, len(forms)-1).Draw(t, "iotaForm")]
			eval := func(i int) int {
				switch form {
				case "iota":
					return i
				case "iota + 1", "1 + iota":
					return i + 1
				case "iota * 2":
					return i * 2
				case "1 << iota":
					return 1 << i
				case "-1 + iota":
					return i - 1
				case "iota - 2":
					return i - 2
				}
				return i
			}
			for i := 0; i < n; i++ {
				cs := &ConstSpec{}
				blank := i > 0 && rapid.IntRange(0, 9).Draw(t, "blank") == 0
				if blank {
					cs.Names = []string{"_"}
					cs.OfType = []string{""}
				} else {
					cs.Names = []string{g.constName(pkg, name, i, memberExported(i), "constName")}
					cs.OfType = []string{name}
					cs.Comment = mkComment()
				}
				cs.Vals = []string{strconv.Itoa(eval(i))}
				if i == 0 {
					cs.Type, cs.Exprs = name, []string{form}
				}
				blk.Specs = append(blk.Specs, cs)
			}
			g.o.class("enum:iota_block")
		case style <= 7: // explicit values, grouped or one per line
			blk.Grouped = style != 7
			lo := -3
			if unsigned {
				lo = 0
			}
			for i := 0; i < n; i++ {
				v := rapid.IntRange(lo, 6).Draw(t, "constVal")
				if i > 0 && g.o.gated("enum_duplicate_values") {
					// repair: make the values distinct
					for dup := true; dup; {
						dup = false
						for _, p := range blk.Specs {
							if p.Vals[0] == strconv.Itoa(v) {
								dup = true
								v++
							}
						}
					}
				}
				cs := &ConstSpec{
					Names: []string{g.constName(pkg, name, i, memberExported(i), "constName")}, Type: name,
					Exprs: []string{strconv.Itoa(v)}, Vals: []string{strconv.Itoa(v)}, OfType: []string{name}, Comment: mkComment(),
				}
				blk.Specs = append(blk.Specs, cs)
			}
			g.o.class("enum:explicit_values")
		default: // multi-name specification
			if g.o.gated("multi_name_const") {
				for i := 0; i < n; i++ {
					blk.Specs = append(blk.Specs, &ConstSpec{
						Names: []string{g.constName(pkg, name, i, true, "constName")}, Type: name,
						Exprs: []string{strconv.Itoa(i + 1)}, Vals: []string{strconv.Itoa(i + 1)}, OfType: []string{name},
					})
				}
			} else {
				cs := &ConstSpec{Type: name, Comment: mkComment()}
				for i := 0; i < n; i++ {
					cs.Names = append(cs.Names, g.constName(pkg, name, i, true, "constName"))
					cs.Exprs = append(cs.Exprs, strconv.Itoa(i+1))
					cs.Vals = append(cs.Vals, strconv.Itoa(i+1))
					cs.OfType = append(cs.OfType, name)
				}
				blk.Specs = append(blk.Specs, cs)
				blk.Grouped = rapid.Bool().Draw(t, "multiGrouped")
				g.o.class("enum:multi_name_spec")
			}
		}
	case base == "string":
		vals := []string{"a", "b", "va", "vb", "red", "blue", "x y", "UP", ""}
		if g.o.EnumStress || g.o.Hostile {
			if !g.o.gated("enum_string_quote") {
				vals = append(vals, "it's", `say "hi"`)
			}
			vals = append(vals, "héllo", "a\\b")
			if !g.o.gated("enum_long_string") {
				vals = append(vals, strings.Repeat("long-value-", 9))
			}
		}
		blk.Grouped = rapid.IntRange(0, 4).Draw(t, "strGrouped") != 0
		seen := map[string]bool{}
		for i := 0; i < n; i++ {
			v := vals[rapid.IntRange(0, len(vals)-1).Draw(t, "strVal")]
			if seen[v] {
				v = v + strconv.Itoa(i)
			}
			seen[v] = true
			q := strconv.Quote(v)
			blk.Specs = append(blk.Specs, &ConstSpec{
				Names: []string{g.constName(pkg, name, i, memberExported(i), "constName")}, Type: name,
				Exprs: []string{q}, Vals: []string{q}, OfType: []string{name}, Comment: mkComment(),
			})
		}
		g.o.class("enum:string")
	case base == "bool":
		for i := 0; i < n && i < 2; i++ {
			v := []string{"true", "false"}[i]
			blk.Specs = append(blk.Specs, &ConstSpec{
				Names: []string{g.constName(pkg, name, i, true, "constName")}, Type: name,
				Exprs: []string{v}, Vals: []string{v}, OfType: []string{name}, Comment: mkComment(),
			})
		}
		g.o.class("enum:bool")
	default: // float64
		for i := 0; i < n; i++ {
			v := []string{"0.5", "1.5", "2", "-1.25", "3.75", "10"}[i%6]
			blk.Specs = append(blk.Specs, &ConstSpec{
				Names: []string{g.constName(pkg, name, i, true, "constName")}, Type: name,
				Exprs: []string{v}, Vals: []string{v}, OfType: []string{name}, Comment: mkComment(),
			})
		}
		g.o.class("enum:float")
	}
	if g.o.EnumStress {
		for _, cs := range blk.Specs {
			if cs.Comment != "" && rapid.IntRange(0, 5).Draw(t, "blockComment") == 0 {
				cs.BlockComment = true
				g.o.class("enum:block_comment")
			}
		}
	}
	constFile.Consts = append(constFile.Consts, blk)

	// extras: an unexported alias of an exported member; an opted-out constant
	var firstExported *ConstSpec
	for _, cs := range blk.Specs {
		if len(cs.Names) == 1 && cs.Names[0] != "_" && cs.Names[0][0] >= 'A' && cs.Names[0][0] <= 'Z' {
			firstExported = cs
			break
		}
	}
	if firstExported != nil && rapid.IntRange(0, 7).Draw(t, "aliasConst") == 0 && !g.o.gated("enum_unexported_alias") {
		an := g.constName(pkg, name, 20, false, "aliasName")
		af := constFile
		if len(pkg.Files) > 1 && rapid.Bool().Draw(t, "aliasOtherFile") {
			// the members of one enum are then spread over two files of the package
			for _, f := range pkg.Files {
				if f != constFile {
					af = f
				}
			}
			g.o.class("enum:members_in_two_files")
		}
		af.Consts = append(af.Consts, &Block{Grouped: false, Specs: []*ConstSpec{{
			Names: []string{an}, Exprs: []string{firstExported.Names[0]}, Vals: []string{firstExported.Vals[0]}, OfType: []string{name},
		}}})
		g.o.class("enum:unexported_alias_of_exported")
	}
	if g.o.EnumStress && firstExported != nil && rapid.IntRange(0, 5).Draw(t, "localShadow") == 0 {
		// a function-local constant and variable carrying the name of a member (legal shadowing, with comments of their own,
		// one of them the opt-out marker): not declarations of the package, so the enum is unchanged
		m := firstExported.Names[0]
		constFile.Raw += fmt.Sprintf("\nfunc zzShadow%s() int {\n\tconst %s = 7 // gomacro:no-enum\n\tvar zz%s = %s // local spelling\n\treturn zz%s\n}\n", m, m, m, m, m)
		g.o.class("enum:member_name_shadowed_in_a_function")
	}
	if rapid.IntRange(0, 5).Draw(t, "optOut") == 0 {
		on := g.constName(pkg, name, 21, true, "optOutName")
		v := "0"
		switch {
		case base == "string":
			v = `"special"`
		case base == "bool":
			v = "true"
		case base == "float64":
			v = "9.5"
		}
		spec := &ConstSpec{Names: []string{on}, Type: name, Exprs: []string{v}, Vals: []string{v}, OfType: []string{""}, Comment: "gomacro:no-enum"}
		if rapid.Bool().Draw(t, "optOutTwoNames") {
			// const Min, Max T = .., .. // gomacro:no-enum : the marker opts out every name of the specification
			v2 := map[string]string{"string": `"special2"`, "bool": "false", "float64": "8.5"}[base]
			if v2 == "" {
				v2 = "77"
			}
			spec.Names = append(spec.Names, g.constName(pkg, name, 22, true, "optOutName2"))
			spec.Exprs, spec.Vals, spec.OfType = append(spec.Exprs, v2), append(spec.Vals, v2), append(spec.OfType, "")
			g.o.class("enum:opt_out_multi_name_spec")
		}
		constFile.Consts = append(constFile.Consts, &Block{Grouped: false, Specs: []*ConstSpec{spec}})
		g.o.class("enum:opt_out_member")
	}
	return ti
}

// ---------------------------------------------------------------------------
// generics, aliases

func (g *gen) addGeneric(pkg *Pkg, other *File, file *File) {
	t := g.t
	// generic declaration lives outside the analysed file (documented precondition)
	name := g.freshName(pkg, "genericName", true)
	gd := &Decl{Kind: KGeneric, Name: name, TParams: "T ~int64", Fields: []*Field{{Name: "Id", Type: Basic("T")}}}
	if rapid.Bool().Draw(t, "genericExtra") {
		gd.Fields = append(gd.Fields, &Field{Name: "Valid", Type: Basic("bool")})
	}
	other.Decls = append(other.Decls, gd)
	g.types = append(g.types, &tinfo{pkg: pkg, d: gd, cat: "generic", exported: true})
	// instantiations are used as field types: register pseudo types for each named int64 id
	ids := g.candidates(pkg, func(x *tinfo) bool { return x.cat == "id" })
	if len(ids) == 0 {
		ids = append(ids, g.addNamedID(pkg, file))
	}
	if len(ids) == 1 && rapid.Bool().Draw(t, "genericSecondArg") {
		// two instantiations of one generic type in one program
		ids = append(ids, g.addNamedID(pkg, file))
	}
	for i, id := range ids {
		if i >= 2 {
			break
		}
		inst := &Decl{Kind: "inst", Name: name}
		g.types = append(g.types, &tinfo{pkg: pkg, d: inst, cat: "inst", exported: true, arg: g.refTo(pkg, id)})
	}
	if rapid.IntRange(0, 3).Draw(t, "genericBasicArg") == 0 && !g.o.gated("generic_basic_type_arg") {
		g.types = append(g.types, &tinfo{pkg: pkg, d: &Decl{Kind: "inst", Name: name}, cat: "inst", exported: true, arg: Basic("int64")})
		g.o.class("feature:generic_basic_arg")
	}
	g.o.class("feature:generic_instantiation")
}

func (g *gen) addNamedID(pkg *Pkg, file *File) *tinfo {
	name := "Id" + g.freshName(pkg, "idName2", true)
	g.used(pkg)[name] = true
	d := &Decl{Kind: KNamed, Name: name, Type: Basic("int64")}
	return g.newDecl(pkg, file, d, &tinfo{cat: "id", base: "int64", keyOK: true})
}

// ---------------------------------------------------------------------------
// top level

// GenTypes draws a program of the "types" family of profiles.
func GenTypes(t *rapid.T, o *Opts) *Spec {
	g := &gen{t: t, o: o, spec: &Spec{}, names: map[string]map[string]bool{}}
	if o.MaxDecls == 0 {
		o.MaxDecls = 10
	}
	if o.MinDecls == 0 {
		o.MinDecls = 2
	}
	rootName := pkgNames[rapid.IntRange(0, len(pkgNames)-1).Draw(t, "rootPkg")]
	module := Module
	root := &Pkg{Name: rootName, Path: module + "/" + rootName}
	subAtModuleRoot := false
	var userTime, likeRootEnum *tinfo
	if o.ShortModule {
		switch rapid.IntRange(0, 7).Draw(t, "moduleForm") {
		case 4:
			// a module without domain; the analysed package sits below a directory whose name has a dot
			module = "shop"
			root = &Pkg{Name: rootName, Path: module + "/api.v2/" + rootName, Mod: module}
			o.class("pkg:dotted_directory_in_a_local_module")
		case 3:
			// a two-element module whose own root package is imported by the analysed sub-package
			module = "verif.test/shopmod"
			root = &Pkg{Name: rootName, Path: module + "/" + rootName, Mod: module}
			subAtModuleRoot = o.SubPkgs
		case 0:
			// the analysed package is the root of a two-element module
			module = "verif.test/" + rootName
			root = &Pkg{Name: rootName, Path: module, Mod: module}
			o.class("pkg:import_path_of_two_elements")
		case 1:
			// a one-element module
			module = "shop"
			root = &Pkg{Name: rootName, Path: module + "/" + rootName, Mod: module}
			o.class("pkg:import_path_of_two_elements")
		case 2:
			module = "shop"
			root = &Pkg{Name: "shop", Path: module, Mod: module}
			rootName = "shop"
			o.class("pkg:import_path_of_one_element")
		}
	}
	root.Files = []*File{{Name: "defs.go"}, {Name: "other.go"}}
	if rapid.IntRange(0, 3).Draw(t, "siblingFileName") == 0 {
		// the sibling file's name ends with the analysed file's name
		root.Files[1].Name = "old_defs.go"
		o.class("pkg:sibling_file_name_ends_with_analysed_file_name")
	}
	g.spec.Pkgs = []*Pkg{root}

	// sub packages first (root refers to them)
	if o.SubPkgs {
		maxSub := 2
		if o.ManySubPkgs {
			maxSub = 4
		}
		nSub := rapid.IntRange(0, maxSub).Draw(t, "nSub")
		if subAtModuleRoot {
			sp := &Pkg{Name: "shopmod", Path: module, Files: []*File{{Name: "shopmod.go"}}, Mod: module}
			g.spec.Pkgs = append(g.spec.Pkgs, sp)
			g.fillPackage(sp, sp.Files[0], sp.Files[0], rapid.IntRange(2, 4).Draw(t, "nModRootDecls"), false)
			o.class("pkg:imports_the_module_root_package")
		}
		for i := 0; i < nSub; i++ {
			sn := subNames[rapid.IntRange(0, len(subNames)-1).Draw(t, "subName")]
			if o.Spelling && rapid.IntRange(0, 3).Draw(t, "shortPkg") == 0 {
				short := []string{"sb", "x", "ab", "geo", "pk"}[rapid.IntRange(0, 4).Draw(t, "shortPkgName")]
				if len(short) >= 3 || !o.gated("short_package_name") {
					sn = short
					o.class("spelling:short_package_name")
				}
			}
			if o.StdNamedPkgs && rapid.IntRange(0, 7).Draw(t, "stdNamedPkg") == 0 {
				sn = "time"
			}
			likeRoot := false
			if o.SameNameAsRoot && rapid.IntRange(0, 7).Draw(t, "namedLikeRoot") == 0 {
				sn, likeRoot = rootName, true
			}
			dup, sameName := false, 0
			for _, p := range g.spec.Pkgs {
				if p.Name == sn {
					dup = true
					sameName++
				}
			}
			parent := root.Path
			if rapid.Bool().Draw(t, "subSibling") {
				parent = module
			}
			if dup && likeRoot {
				if sameName > 1 {
					continue
				}
				// an imported package named like the analysed one (models imports legacy/models)
				parent = module + "/legacy"
				o.class("pkg:imported_package_named_like_the_analysed_one")
			} else if dup {
				if !o.SameNamePkgs || sameName > 1 || sn == rootName {
					continue
				}
				// two imported packages sharing their name (v1/models and v2/models)
				parent = module + "/alt"
				o.class("pkg:two_packages_same_name")
			}
			dir := sn
			switch rapid.IntRange(0, 7).Draw(t, "subDirForm") {
			case 0, 1:
				// a versioned directory: package geo in .../geo/v2
				dir = sn + "/v2"
				o.class("pkg:versioned_directory")
			case 2:
				// the directory is not named after the package
				dir = "go-" + sn
				o.class("pkg:directory_differs_from_name")
			}
			sp := &Pkg{Name: sn, Path: parent + "/" + dir, Files: []*File{{Name: sn + ".go"}}, Mod: root.Mod}
			// insert after root so that later subs can be imported by earlier ones? keep simple: subs do not import each other
			g.spec.Pkgs = append(g.spec.Pkgs, sp)
			g.fillPackage(sp, sp.Files[0], sp.Files[0], rapid.IntRange(1, 4).Draw(t, "nSubDecls"), false)
			if likeRoot {
				// make sure the analysed package uses an enum of its namesake
				if e := g.addEnum(sp, sp.Files[0], sp.Files[0]); e != nil && e.exported {
					likeRootEnum = e
				}
			}
			if sn == "time" {
				// a user package that is itself named time, with a named type over the standard time.Time
				name := g.freshName(sp, "userTimeName", true) + "Stamp"
				g.used(sp)[name] = true
				userTime = g.newDecl(sp, sp.Files[0], &Decl{Kind: KNamed, Name: name, Type: Std("time", "Time"), TimeLike: true}, &tinfo{cat: "time"})
				o.class("pkg:user_package_named_time")
			}
		}
	}
	// a diamond in the import graph: the analysed package imports two packages, one of which imports the other
	var diamond []*tinfo
	if o.Diamonds && len(g.spec.Pkgs) >= 3 && rapid.Bool().Draw(t, "diamond") {
		i := rapid.IntRange(1, len(g.spec.Pkgs)-2).Draw(t, "diamondUpper")
		j := rapid.IntRange(i+1, len(g.spec.Pkgs)-1).Draw(t, "diamondLower")
		upper, lower := g.spec.Pkgs[i], g.spec.Pkgs[j]
		var targets []*tinfo
		for _, ti := range g.types {
			if ti.pkg == lower && ti.exported && ti.d != nil && (ti.cat == "struct" || ti.cat == "enum" || ti.cat == "basic" || (ti.cat == "union" && o.ForeignUnions)) && ti.d.Kind != KGeneric && !ti.unsupp {
				targets = append(targets, ti)
			}
		}
		if len(targets) > 0 && g.imports(upper, lower) {
			tg := targets[rapid.IntRange(0, len(targets)-1).Draw(t, "diamondTarget")]
			link := &Decl{Kind: KStruct, Name: g.freshName(upper, "diamondLink", true), Fields: []*Field{{Name: "Ref", Type: g.refTo(upper, tg)}, {Name: "N", Type: Basic("int")}}}
			li := g.newDecl(upper, upper.Files[0], link, &tinfo{cat: "struct", hasUnion: tg.hasUnion || tg.cat == "union"})
			diamond = []*tinfo{tg, li}
			o.class("graph:diamond_import")
		}
	}
	n := rapid.IntRange(o.MinDecls, o.MaxDecls).Draw(t, "nDecls")
	g.fillPackage(root, root.Files[0], root.Files[1], n, true)
	if len(diamond) == 2 {
		h := &Decl{Kind: KStruct, Name: g.freshName(root, "diamondHolder", true), Fields: []*Field{
			{Name: "Direct", Type: g.refTo(root, diamond[0])}, {Name: "Through", Type: g.refTo(root, diamond[1])}}}
		g.newDecl(root, root.Files[0], h, &tinfo{cat: "struct", hasUnion: diamond[0].hasUnion || diamond[0].cat == "union"})
	}
	if likeRootEnum != nil {
		h := &Decl{Kind: KStruct, Name: g.freshName(root, "likeRootHolder", true), Fields: []*Field{{Name: "Kind", Type: g.refTo(root, likeRootEnum)}, {Name: "N", Type: Basic("int")}}}
		g.newDecl(root, root.Files[0], h, &tinfo{cat: "struct"})
	}
	if userTime != nil {
		h := &Decl{Kind: KStruct, Name: g.freshName(root, "userTimeHolder", true), Fields: []*Field{{Name: "At", Type: g.refTo(root, userTime)}, {Name: "N", Type: Basic("int")}}}
		g.newDecl(root, root.Files[0], h, &tinfo{cat: "struct"})
	}

	if o.Unions == 2 {
		has := false
		for _, ti := range g.types {
			if ti.cat == "union" && ti.pkg == root {
				has = true
			}
		}
		if !has {
			u := g.addUnion(root, root.Files[0])
			// and a holder using it
			h := &Decl{Kind: KStruct, Name: g.freshName(root, "holderName", true), Fields: []*Field{{Name: "Value", Type: g.refTo(root, u)}, {Name: "Extra", Type: Basic("int"), Tag: g.drawTag("Extra", "holderTag")}}}
			g.newDecl(root, root.Files[0], h, &tinfo{cat: "struct", hasUnion: true})
		}
	}

	if o.Unions == 2 && rapid.Bool().Draw(t, "reachThrough") {
		// a struct holding a union that lives outside the analysed file and is only reached as an
		// element of a container (anonymous or named), a member of another union, or a nested field
		var us []*tinfo
		for _, ti := range g.types {
			if ti.cat == "union" && ti.pkg == root && len(g.spec.Unions()[root.Path][ti.d.Name].Members) > 0 {
				us = append(us, ti)
			}
		}
		if len(us) > 0 {
			u := us[rapid.IntRange(0, len(us)-1).Draw(t, "rtUnion")]
			other := root.Files[1]
			e := &Decl{Kind: KStruct, Name: g.freshName(root, "rtElem", true), Fields: []*Field{
				{Name: "Inner", Type: g.refTo(root, u), Tag: g.drawTag("Inner", "rtTag")}, {Name: "Num", Type: Basic("int")}}}
			eti := g.newDecl(root, other, e, &tinfo{cat: "struct", hasUnion: true})
			ref := g.refTo(root, eti)
			var ft *TypeRef
			switch rapid.IntRange(0, 4).Draw(t, "rtShape") {
			case 0:
				ft = Slice(ref)
			case 1:
				ft = Map(Basic("string"), ref)
			case 2:
				ft = Array(2, ref)
			case 3:
				nd := &Decl{Kind: KNamed, Name: g.freshName(root, "rtNamed", true), Type: Slice(ref)}
				g.newDecl(root, root.Files[rapid.IntRange(0, 1).Draw(t, "rtNamedFile")], nd, &tinfo{cat: "slice", hasUnion: true})
				ft = Ref(root.Path, nd.Name)
			default:
				ft = ref
			}
			h := &Decl{Kind: KStruct, Name: g.freshName(root, "rtHolder", true), Fields: []*Field{{Name: "Items", Type: ft}, {Name: "Label", Type: Basic("string")}}}
			g.newDecl(root, root.Files[0], h, &tinfo{cat: "struct", hasUnion: true})
			o.class("feature:union_holder_reached_through_container")
		}
	}
	if o.Unions == 2 && o.ContainerMembers && o.FixedArrays && rapid.IntRange(0, 2).Draw(t, "namedArrayOfUnion") == 0 && !o.gated("named_array_of_union") {
		// a named fixed array of unions held by value in a struct that has a union field of its own
		// (its shadow struct is marshalled by value: the array is not addressable there)
		var us []*tinfo
		for _, ti := range g.types {
			if ti.cat == "union" && ti.pkg == root && len(g.spec.Unions()[root.Path][ti.d.Name].Members) > 0 {
				us = append(us, ti)
			}
		}
		if len(us) > 0 {
			u := us[rapid.IntRange(0, len(us)-1).Draw(t, "naouUnion")]
			ad := &Decl{Kind: KNamed, Name: g.freshName(root, "naouName", true), Type: Array(rapid.IntRange(1, 3).Draw(t, "naouLen"), g.refTo(root, u))}
			ai := g.newDecl(root, root.Files[rapid.IntRange(0, 1).Draw(t, "naouFile")], ad, &tinfo{cat: "array", hasUnion: true, elemUnion: true})
			h := &Decl{Kind: KStruct, Name: g.freshName(root, "naouHolder", true), Fields: []*Field{
				{Name: "Items", Type: g.refTo(root, ai)}, {Name: "Main", Type: g.refTo(root, u)},
				{Name: "ByName", Type: Map(Basic("string"), g.refTo(root, ai))}}}
			if rapid.Bool().Draw(t, "naouNoMap") {
				h.Fields = h.Fields[:2]
			}
			g.newDecl(root, root.Files[0], h, &tinfo{cat: "struct", hasUnion: true})
			o.class("feature:named_array_of_unions_held_by_value")
		}
	}
	if o.EmbedUnionHolders && o.Unions == 2 && rapid.IntRange(0, 2).Draw(t, "embedUnionHolder") == 0 {
		// directed: an embedded struct (untagged, or with an options-only tag: both are flattened) that holds a
		// union field, inside a struct that has no union field of its own
		var us []*tinfo
		for _, ti := range g.types {
			if ti.cat == "union" && ti.pkg == root && len(g.spec.Unions()[root.Path][ti.d.Name].Members) > 0 {
				us = append(us, ti)
			}
		}
		if len(us) > 0 {
			u := us[rapid.IntRange(0, len(us)-1).Draw(t, "euhUnion")]
			inner := &Decl{Kind: KStruct, Name: g.freshName(root, "euhInner", true), Fields: []*Field{
				{Name: "Zshape", Type: g.refTo(root, u)}, {Name: "Zcount", Type: Basic("int")}}}
			ii := g.newDecl(root, root.Files[rapid.IntRange(0, 1).Draw(t, "euhInnerFile")], inner, &tinfo{cat: "struct", hasUnion: true})
			emb := &Field{Name: inner.Name, Type: g.refTo(root, ii), Embedded: true}
			if rapid.Bool().Draw(t, "euhOptTag") {
				emb.Tag = `json:",omitempty"`
			}
			outer := &Decl{Kind: KStruct, Name: g.freshName(root, "euhOuter", true), Fields: []*Field{emb, {Name: "Ztitle", Type: Basic("string")}}}
			g.newDecl(root, root.Files[0], outer, &tinfo{cat: "struct", hasUnion: true})
			o.class("feature:embedded_struct_holding_a_union")
		}
	}
	if o.Unions >= 1 && o.Embedded && o.TagVariety && rapid.IntRange(0, 3).Draw(t, "taggedEmbedNextToUnion") == 0 && !o.gated("tagged_embedded") {
		// directed: a struct with a union field that also embeds a struct under a JSON name (not flattened)
		var us []*tinfo
		for _, ti := range g.types {
			if ti.cat == "union" && ti.pkg == root && len(g.spec.Unions()[root.Path][ti.d.Name].Members) > 0 {
				us = append(us, ti)
			}
		}
		if len(us) > 0 {
			u := us[rapid.IntRange(0, len(us)-1).Draw(t, "tenuUnion")]
			exported := rapid.Bool().Draw(t, "tenuExported")
			inner := &Decl{Kind: KStruct, Name: g.freshName(root, "tenuInner", exported), Fields: []*Field{
				{Name: "Zby", Type: Basic("string")}, {Name: "Zversion", Type: Basic("int")}}}
			ii := g.newDecl(root, root.Files[rapid.IntRange(0, 1).Draw(t, "tenuInnerFile")], inner, &tinfo{cat: "struct"})
			outer := &Decl{Kind: KStruct, Name: g.freshName(root, "tenuOuter", true), Fields: []*Field{
				{Name: inner.Name, Type: g.refTo(root, ii), Embedded: true, Tag: `json:"zaudit"`},
				{Name: "Zshape", Type: g.refTo(root, u)}}}
			g.newDecl(root, root.Files[0], outer, &tinfo{cat: "struct", hasUnion: true})
			o.class("feature:tagged_embedded_struct_next_to_a_union_field")
		}
	}
	if o.EmbedPtrNextToUnion && o.Unions >= 1 && rapid.IntRange(0, 3).Draw(t, "embedPtrNextToUnion") == 0 {
		// directed (Go-side properties): a struct with a union field that embeds a pointer to an exported struct;
		// encoding/json promotes the fields of the pointed-to struct (and writes nothing for a nil pointer)
		var us []*tinfo
		for _, ti := range g.types {
			if ti.cat == "union" && ti.pkg == root && len(g.spec.Unions()[root.Path][ti.d.Name].Members) > 0 {
				us = append(us, ti)
			}
		}
		if len(us) > 0 {
			u := us[rapid.IntRange(0, len(us)-1).Draw(t, "epnuUnion")]
			inner := &Decl{Kind: KStruct, Name: g.freshName(root, "epnuInner", true), Fields: []*Field{
				{Name: "Zauthor", Type: Basic("string")}, {Name: "Zrev", Type: Basic("int"), Tag: `json:"rev"`}}}
			ii := g.newDecl(root, root.Files[rapid.IntRange(0, 1).Draw(t, "epnuInnerFile")], inner, &tinfo{cat: "struct"})
			outer := &Decl{Kind: KStruct, Name: g.freshName(root, "epnuOuter", true), Fields: []*Field{
				{Name: inner.Name, Type: Ptr(g.refTo(root, ii)), Embedded: true},
				{Name: "Ztitle", Type: Basic("string")}, {Name: "Zshape", Type: g.refTo(root, u)}}}
			g.newDecl(root, root.Files[0], outer, &tinfo{cat: "struct", hasUnion: true})
			o.class("feature:embedded_pointer_next_to_a_union_field")
		}
	}
	if o.EmbedUnionIface && o.Unions >= 1 && rapid.IntRange(0, 3).Draw(t, "embedUnionIface") == 0 {
		// directed (compile-only properties): a struct that embeds an exported union interface of its package; the method
		// set of the interface is promoted, so the struct is itself a member of the union it embeds
		var us []*tinfo
		for _, ti := range g.types {
			if ti.cat == "union" && ti.pkg == root && ti.exported && len(g.spec.Unions()[root.Path][ti.d.Name].Members) > 0 {
				us = append(us, ti)
			}
		}
		if len(us) > 0 {
			u := us[rapid.IntRange(0, len(us)-1).Draw(t, "euiUnion")]
			outer := &Decl{Kind: KStruct, Name: g.freshName(root, "euiOuter", true), Fields: []*Field{
				{Name: u.d.Name, Type: g.refTo(root, u), Embedded: true}, {Name: "Zname", Type: Basic("string")}}}
			g.newDecl(root, root.Files[0], outer, &tinfo{cat: "struct", hasUnion: true})
			o.class("feature:embedded_union_interface")
		}
	}
	if o.RecursiveUnions && rapid.IntRange(0, 2).Draw(t, "recursiveUnion") == 0 {
		// a recursive union: a struct member holds a value of the union it belongs to (type Add struct{ Left, Right Expr })
		type pair struct {
			u *tinfo
			m *tinfo
		}
		var ps []pair
		for _, ti := range g.types {
			if ti.cat != "union" || ti.pkg != root {
				continue
			}
			ur := g.spec.Unions()[root.Path][ti.d.Name]
			if ur == nil {
				continue
			}
			for _, mn := range ur.Members {
				for _, mi := range g.types {
					// (a struct that is embedded elsewhere stays free of unions: the generated MarshalJSON would be
					// promoted to the embedding struct, the restriction the embedding generator already observes)
					if mi.pkg == root && mi.d != nil && mi.d.Name == mn && mi.d.Kind == KStruct && mi.cat == "struct" && !g.embeddedSomewhere(mi.d.Name) {
						ps = append(ps, pair{ti, mi})
					}
				}
			}
		}
		if len(ps) > 0 {
			p := ps[rapid.IntRange(0, len(ps)-1).Draw(t, "recursiveUnionOf")]
			has := false
			for _, f := range p.m.d.Fields {
				if f.Name == "Operand" || JSONKey(f) == "Operand" {
					has = true
				}
			}
			if !has {
				p.m.d.Fields = append(p.m.d.Fields, &Field{Name: "Operand", Type: g.refTo(root, p.u)})
				if g.embeddedInCycle(root) && o.gated("embedded_struct_in_cycle") {
					p.m.d.Fields = p.m.d.Fields[:len(p.m.d.Fields)-1]
				} else {
					p.m.hasUnion = true
					o.class("graph:recursive_union_through_struct_member")
				}
			}
		}
	}
	if o.SameNamePromoted && rapid.IntRange(0, 2).Draw(t, "sameNamePromotedPair") == 0 {
		// directed: Order{ID `json:"id"`; Audit} with Audit{ID `json:"audit_id"`}: both keys are on the wire
		inner := &Decl{Kind: KStruct, Name: g.freshName(root, "snpInner", true), Fields: []*Field{
			{Name: "Zident", Type: Basic("int"), Tag: `json:"inner_ident"`}, {Name: "Zrev", Type: Basic("int")}}}
		ii := g.newDecl(root, root.Files[rapid.IntRange(0, 1).Draw(t, "snpInnerFile")], inner, &tinfo{cat: "struct"})
		outer := &Decl{Kind: KStruct, Name: g.freshName(root, "snpOuter", true), Fields: []*Field{
			{Name: "Zident", Type: Basic("string"), Tag: `json:"ident"`},
			{Name: inner.Name, Type: g.refTo(root, ii), Embedded: true},
			{Name: "Znote", Type: Basic("string")}}}
		if rapid.Bool().Draw(t, "snpOrder") {
			outer.Fields[0], outer.Fields[1] = outer.Fields[1], outer.Fields[0]
		}
		g.newDecl(root, root.Files[0], outer, &tinfo{cat: "struct"})
		o.class("feature:promoted_field_same_go_name_distinct_key")
	}
	if o.Times && rapid.IntRange(0, 2).Draw(t, "timeAndDate") == 0 {
		// directed: a plain time.Time, a date type and a named time in one struct (the targets declare `Time` and `Date` once each)
		var date *tinfo
		for _, x := range g.types {
			if x.pkg == root && x.cat == "date" {
				date = x
			}
		}
		if date == nil {
			name := g.freshName(root, "tadDateName", true) + "Date"
			g.used(root)[name] = true
			date = g.newDecl(root, root.Files[rapid.IntRange(0, 1).Draw(t, "tadDateFile")], &Decl{Kind: KNamed, Name: name, Type: Std("time", "Time"), TimeLike: true}, &tinfo{cat: "date"})
		}
		fs := []*Field{{Name: "Zat", Type: Std("time", "Time")}, {Name: "Zday", Type: g.refTo(root, date)}, {Name: "Zlog", Type: Slice(Std("time", "Time"))}}
		if rapid.Bool().Draw(t, "tadOrder") {
			fs[0], fs[1] = fs[1], fs[0]
		}
		g.newDecl(root, root.Files[0], &Decl{Kind: KStruct, Name: g.freshName(root, "tadHolder", true), Fields: fs}, &tinfo{cat: "struct"})
		o.class("feature:time_and_date_in_one_struct")
	}
	if o.LongArrays && rapid.Bool().Draw(t, "longArray") {
		// a fixed array longer than the slices the generators build (3..7 elements), whose elements have no
		// acceptable zero value: a string enum, or a union
		var es, us []*tinfo
		for _, ti := range g.types {
			if ti.pkg != root || !ti.exported {
				continue
			}
			if ti.cat == "enum" && ti.base == "string" {
				es = append(es, ti)
			}
			if ti.cat == "union" && len(g.spec.Unions()[root.Path][ti.d.Name].Members) > 0 {
				us = append(us, ti)
			}
		}
		n := rapid.IntRange(4, 9).Draw(t, "longArrayLen")
		switch {
		case len(es) > 0:
			e := es[rapid.IntRange(0, len(es)-1).Draw(t, "longArrayEnum")]
			h := &Decl{Kind: KStruct, Name: g.freshName(root, "longArrayHolder", true), Fields: []*Field{
				{Name: "Zpalette", Type: Array(n, g.refTo(root, e))}, {Name: "Zn", Type: Basic("int")}}}
			g.newDecl(root, root.Files[0], h, &tinfo{cat: "struct"})
			o.class("feature:long_fixed_array_of_string_enum")
		case len(us) > 0 && !o.gated("named_array_of_union"):
			u := us[rapid.IntRange(0, len(us)-1).Draw(t, "longArrayUnion")]
			ad := &Decl{Kind: KNamed, Name: g.freshName(root, "longArrayName", true), Type: Array(n, g.refTo(root, u))}
			g.newDecl(root, root.Files[0], ad, &tinfo{cat: "array", hasUnion: true, elemUnion: true})
			o.class("feature:long_fixed_array_of_unions")
		}
	}
	if o.SmallKeyMaps && rapid.Bool().Draw(t, "smallKeyMap") {
		// a map whose key type has only a handful of values (an enum): it cannot hold dozens of entries
		var es []*tinfo
		for _, ti := range g.types {
			if ti.cat == "enum" && ti.pkg == root && ti.keyOK && ti.exported {
				es = append(es, ti)
			}
		}
		if len(es) > 0 {
			e := es[rapid.IntRange(0, len(es)-1).Draw(t, "smallKeyEnum")]
			h := &Decl{Kind: KStruct, Name: g.freshName(root, "smallKeyHolder", true), Fields: []*Field{
				{Name: "ByKind", Type: Map(g.refTo(root, e), Basic("int"))}, {Name: "N", Type: Basic("int")}}}
			g.newDecl(root, root.Files[0], h, &tinfo{cat: "struct"})
			o.class("feature:map_keyed_by_small_enum")
		}
	}
	if o.DataIgnoreUnions && rapid.Bool().Draw(t, "dataIgnoreHolder") {
		// a struct whose union field is skipped for data generation, next to one that is not
		var us []*tinfo
		for _, ti := range g.types {
			if ti.cat == "union" && ti.pkg == root && len(g.spec.Unions()[root.Path][ti.d.Name].Members) > 0 {
				us = append(us, ti)
			}
		}
		if len(us) > 0 {
			u := us[rapid.IntRange(0, len(us)-1).Draw(t, "dihUnion")]
			h := &Decl{Kind: KStruct, Name: g.freshName(root, "dihName", true), Fields: []*Field{
				{Name: "Main", Type: g.refTo(root, u)},
				{Name: "Cached", Type: g.refTo(root, u), Tag: `gomacro-data:"ignore"`},
				{Name: "N", Type: Basic("int")}}}
			g.newDecl(root, root.Files[0], h, &tinfo{cat: "struct", hasUnion: true})
			o.class("feature:data_ignore_on_union_field")
		}
	}
	if o.Unions == 2 && o.ContainerMembers && rapid.IntRange(0, 2).Draw(t, "containerMember") == 0 {
		// a union member that is a named container of unions (of the same union: a recursive union, or of
		// another one), declared outside the analysed file and only reachable through the union
		var us []*tinfo
		for _, ti := range g.types {
			if ti.cat == "union" && ti.pkg == root && len(ti.d.Methods) > 0 && len(g.spec.Unions()[root.Path][ti.d.Name].Members) > 0 {
				us = append(us, ti)
			}
		}
		if len(us) > 0 {
			u := us[rapid.IntRange(0, len(us)-1).Draw(t, "cmUnion")]
			e := us[rapid.IntRange(0, len(us)-1).Draw(t, "cmElem")]
			var ct *TypeRef
			cat := "slice"
			if rapid.Bool().Draw(t, "cmMap") {
				ct, cat = Map(Basic("string"), g.refTo(root, e)), "map"
			} else {
				ct = Slice(g.refTo(root, e))
			}
			nd := &Decl{Kind: KNamed, Name: g.freshName(root, "cmName", true), Type: ct}
			for _, meth := range g.fullMethodSet(root, u.d) {
				nd.Impl = appendMethod(nd.Impl, Method{Name: meth})
			}
			g.newDecl(root, root.Files[1], nd, &tinfo{cat: cat, hasUnion: true, elemUnion: true})
			h := &Decl{Kind: KStruct, Name: g.freshName(root, "cmHolder", true), Fields: []*Field{{Name: "Root", Type: g.refTo(root, u)}, {Name: "Title", Type: Basic("string")}}}
			g.newDecl(root, root.Files[0], h, &tinfo{cat: "struct", hasUnion: true})
			if u == e {
				o.class("feature:recursive_union_through_container_member")
			} else {
				o.class("feature:container_of_unions_as_union_member")
			}
		}
	}
	if o.Recursion && rapid.IntRange(0, 3).Draw(t, "recursion") == 0 {
		g.addRecursion(root)
	}
	if o.NamedRecursion && rapid.IntRange(0, 5).Draw(t, "namedRecursion") == 0 {
		g.addNamedRecursion(root)
	}
	if o.Aliases && rapid.IntRange(0, 4).Draw(t, "alias") == 0 {
		g.addAlias(root)
	}
	if o.EnumStress && len(g.spec.Pkgs) > 1 && rapid.IntRange(0, 2).Draw(t, "foreignEnumConst") == 0 {
		// the analysed package declares a constant whose type is an enum of an imported package
		// (const DefaultKind = kinds.Medium): it is not a member of that enum, which belongs to its own package
		type cand struct {
			pkg    *Pkg
			member string
			val    string
			enum   string
		}
		var cands []cand
		for _, p := range g.spec.Pkgs[1:] {
			if !g.imports(root, p) {
				continue
			}
			sameName := 0
			for _, q := range g.spec.Pkgs {
				if q.Name == p.Name {
					sameName++
				}
			}
			if sameName > 1 {
				continue // the qualifier would be an alias that depends on which packages survive pruning
			}
			for _, f := range p.Files {
				for _, b := range f.Consts {
					for _, cs := range b.Specs {
						if len(cs.Names) == 1 && cs.OfType[0] != "" && cs.Names[0] != "_" && cs.Names[0][0] >= 'A' && cs.Names[0][0] <= 'Z' {
							cands = append(cands, cand{p, cs.Names[0], cs.Vals[0], cs.OfType[0]})
						}
					}
				}
			}
		}
		if len(cands) > 0 {
			c := cands[rapid.IntRange(0, len(cands)-1).Draw(t, "foreignEnumConstOf")]
			// variant: the constant is declared by a sibling package that imports the enum's package, and the analysed
			// package merely uses it through a variable (three packages, two import paths to the enum, no constant of the
			// enum in the analysed package itself)
			sibling := false
			if rapid.IntRange(0, 2).Draw(t, "siblingEnumConst") == 0 && c.enum != "" && c.enum[0] >= 'A' && c.enum[0] <= 'Z' {
				for _, q := range g.spec.Pkgs[1:] {
					if q == c.pkg || !g.imports(q, c.pkg) || len(q.Files) == 0 {
						continue
					}
					sameName := 0
					for _, q2 := range g.spec.Pkgs {
						if q2.Name == q.Name {
							sameName++
						}
					}
					if sameName > 1 {
						continue
					}
					n2 := g.constName(q, "Fallback"+c.member, 0, true, "siblingEnumConstName")
					q.Files[0].Consts = append(q.Files[0].Consts, &Block{Grouped: false, Specs: []*ConstSpec{{
						Names: []string{n2}, Exprs: []string{g.spec.qualifier(c.pkg.Path) + "." + c.member}, Vals: []string{c.val}, OfType: []string{""}}}})
					q.Files[0].Raw += fmt.Sprintf("//import %q\n", c.pkg.Path)
					root.Files[0].Raw += fmt.Sprintf("//import %q\n//import %q\nvar _, _ = %s.%s, %s.%s\n", q.Path, c.pkg.Path, g.spec.qualifier(q.Path), n2, g.spec.qualifier(c.pkg.Path), c.member)
					// the enum is part of the analysed graph: every target prints its members
					g.newDecl(root, root.Files[0], &Decl{Kind: KStruct, Name: g.freshName(root, "siblingEnumHolder", true), Fields: []*Field{
						{Name: "Zkind", Type: Ref(c.pkg.Path, c.enum)}, {Name: "Zn", Type: Basic("int")}}}, &tinfo{cat: "struct"})
					o.class("enum:constant_of_sibling_enum_declared_in_sibling")
					sibling = true
					break
				}
			}
			if !sibling {
				name := g.constName(root, "Default"+c.member, 0, true, "foreignEnumConstName")
				root.Files[0].Consts = append(root.Files[0].Consts, &Block{Grouped: false, Specs: []*ConstSpec{{
					Names: []string{name}, Exprs: []string{g.spec.qualifier(c.pkg.Path) + "." + c.member}, Vals: []string{c.val}, OfType: []string{""}}}})
				root.Files[0].Raw += fmt.Sprintf("//import %q\n", c.pkg.Path)
				o.class("enum:constant_of_imported_enum_declared_in_root")
			}
		}
	}
	if o.EnumStress && rapid.IntRange(0, 3).Draw(t, "untypedConsts") == 0 {
		root.Files[0].Consts = append(root.Files[0].Consts, &Block{Grouped: true, Specs: []*ConstSpec{
			{Names: []string{g.constName(root, "Untyped", 0, true, "untypedName")}, Exprs: []string{"1"}, Vals: []string{"1"}, OfType: []string{""}, Comment: "not a typed constant"},
			{Names: []string{g.constName(root, "Untyped", 1, true, "untypedName2")}, Exprs: []string{`"s"`}, Vals: []string{`"s"`}, OfType: []string{""}},
		}})
	}
	// whatever pattern closed it: no embedded struct on a type cycle while the finding is open (the directed
	// patterns above check for themselves; cycles can also close through union membership by promoted methods)
	for try := 0; try < 8; try++ {
		f := g.embeddedCycleField(root)
		if f == nil || !o.gated("embedded_struct_in_cycle") {
			break
		}
		f.Embedded = false // an ordinary field named after the type
		if strings.HasPrefix(f.Tag, `json:",`) || f.Tag == `json:",omitempty"` {
			f.Tag = ""
		}
	}
	g.regroup(root.Files[0])
	// drop the sibling file if it stayed empty
	if len(root.Files[1].Decls) == 0 && len(root.Files[1].Consts) == 0 && root.Files[1].Raw == "" {
		root.Files = root.Files[:1]
	}
	g.pruneUnusedPkgs()
	return g.spec
}

func (g *gen) fillPackage(pkg *Pkg, file, other *File, n int, isRoot bool) {
	t := g.t
	o := g.o
	for i := 0; i < n; i++ {
		type ch struct {
			k string
			w int
		}
		chs := []ch{{"struct", 40}, {"named", 25}, {"enum", 15}}
		if o.Unions > 0 {
			chs = append(chs, ch{"union", 12})
		}
		if o.Generics && isRoot {
			chs = append(chs, ch{"generic", 4})
		}
		total := 0
		for _, c := range chs {
			total += c.w
		}
		x := rapid.IntRange(0, total-1).Draw(t, "declKind")
		pick := ""
		for _, c := range chs {
			if x < c.w {
				pick = c.k
				break
			}
			x -= c.w
		}
		target := file
		ow := o.OtherFile
		if ow == 0 {
			ow = 1
		}
		if isRoot && rapid.IntRange(0, 9).Draw(t, "inOther") < ow {
			target = other
		}
		switch pick {
		case "struct":
			g.addStruct(pkg, target, !isRoot || rapid.IntRange(0, 7).Draw(t, "structExported") != 0)
		case "named":
			g.addNamed(pkg, target)
		case "enum":
			cf := target
			if isRoot && rapid.IntRange(0, 5).Draw(t, "constInOther") == 0 {
				cf = other
			}
			g.addEnum(pkg, target, cf)
		case "union":
			g.addUnion(pkg, target)
		case "generic":
			hasGeneric := false
			for _, ti := range g.types {
				if ti.cat == "generic" && ti.pkg == pkg {
					hasGeneric = true
				}
			}
			zero := false
			for _, ti := range g.types {
				if ti.cat == "union" && ti.pkg == pkg && len(ti.d.Methods) == 0 && len(ti.d.Embeds) == 0 {
					zero = true
				}
			}
			if !hasGeneric && !zero {
				g.addGeneric(pkg, other, file)
			}
		}
	}
	// make instantiations reachable: a struct with fields typed by them
	var insts []*tinfo
	for _, ti := range g.types {
		if ti.cat == "inst" && ti.pkg == pkg {
			insts = append(insts, ti)
		}
	}
	if len(insts) > 0 {
		d := &Decl{Kind: KStruct, Name: g.freshName(pkg, "instHolder", true)}
		for i, in := range insts {
			arg := in.arg
			d.Fields = append(d.Fields, &Field{Name: fmt.Sprintf("Opt%d", i+1), Type: &TypeRef{K: TRef, Pkg: pkg.Path, Name: in.d.Name, Args: []*TypeRef{arg}}})
		}
		if o.NestedGenerics && rapid.Bool().Draw(t, "nestedGeneric") {
			// directed: a second generic struct instantiated with an instantiation (Box[Gen[int64]], Box[Gen[IdX]]) and with a basic type
			bd := &Decl{Kind: KGeneric, Name: g.freshName(pkg, "boxName", true), TParams: "T any", Fields: []*Field{{Name: "Val", Type: Basic("T")}, {Name: "Ok", Type: Basic("bool")}}}
			other.Decls = append(other.Decls, bd)
			g.types = append(g.types, &tinfo{pkg: pkg, d: bd, cat: "generic", exported: true})
			box := func(arg *TypeRef) *TypeRef {
				return &TypeRef{K: TRef, Pkg: pkg.Path, Name: bd.Name, Args: []*TypeRef{arg}}
			}
			in := insts[0]
			d.Fields = append(d.Fields, &Field{Name: "Nested1", Type: box(&TypeRef{K: TRef, Pkg: pkg.Path, Name: in.d.Name, Args: []*TypeRef{in.arg}})})
			if !g.o.gated("generic_basic_type_arg") {
				d.Fields = append(d.Fields, &Field{Name: "Nested2", Type: box(&TypeRef{K: TRef, Pkg: pkg.Path, Name: in.d.Name, Args: []*TypeRef{Basic("int64")}})})
				d.Fields = append(d.Fields, &Field{Name: "Nested3", Type: box(Basic("string"))})
			}
			o.class("feature:generic_instantiated_with_an_instantiation")
		}
		g.newDecl(pkg, file, d, &tinfo{cat: "struct"})
		// the pseudo entries are not referable
		var keep []*tinfo
		for _, ti := range g.types {
			if ti.cat != "inst" {
				keep = append(keep, ti)
			}
		}
		g.types = keep
	}
}

// addRecursion adds back-edges: a struct that contains itself (or a later struct) through a slice / map / pointer.
func (g *gen) addRecursion(pkg *Pkg) {
	t := g.t
	structs := g.candidates(pkg, func(x *tinfo) bool { return x.pkg == pkg && x.cat == "struct" && x.d.Kind == KStruct })
	if len(structs) == 0 {
		return
	}
	if g.o.gated("recursive_type") {
		return
	}
	a := structs[rapid.IntRange(0, len(structs)-1).Draw(t, "recA")]
	b := a
	if rapid.Bool().Draw(t, "mutual") {
		b = structs[rapid.IntRange(0, len(structs)-1).Draw(t, "recB")]
	}
	// b must (transitively) be reachable from a for a cycle; simplest: a gets a container of b and b a container of a
	mk := func(target *tinfo, label string) *TypeRef {
		ref := g.refTo(pkg, target)
		switch rapid.IntRange(0, 3).Draw(t, label) {
		case 0:
			if g.o.Maps {
				return Map(Basic("string"), ref)
			}
		case 1:
			if g.o.Pointers {
				return Ptr(ref)
			}
		}
		return Slice(ref)
	}
	a.d.Fields = append(a.d.Fields, &Field{Name: "Children", Type: mk(b, "recKindA")})
	if b != a {
		b.d.Fields = append(b.d.Fields, &Field{Name: "Parents", Type: mk(a, "recKindB")})
	}
	if g.embeddedInCycle(pkg) && g.o.gated("embedded_struct_in_cycle") {
		// repair: drop the back-edges again
		a.d.Fields = a.d.Fields[:len(a.d.Fields)-1]
		if b != a {
			b.d.Fields = b.d.Fields[:len(b.d.Fields)-1]
		}
		return
	}
	if b != a {
		g.o.class("graph:mutual_recursion")
	} else {
		g.o.class("graph:self_recursion")
	}
	a.hasUnion = a.hasUnion || b.hasUnion
}

// addNamedRecursion declares named containers that contain themselves without any struct on the cycle:
// type Tree map[string]Tree, type Nest []Nest, or two named containers referring to each other.
func (g *gen) addNamedRecursion(pkg *Pkg) {
	t := g.t
	file := pkg.Files[0]
	con := func(label string, ref *TypeRef) *TypeRef {
		switch rapid.IntRange(0, 3).Draw(t, label) {
		case 0:
			return Slice(ref)
		case 1:
			return Map(Basic("int"), ref)
		case 2:
			return Slice(Slice(ref))
		}
		return Map(Basic("string"), ref)
	}
	cat := func(tr *TypeRef) string {
		if tr.K == TMap {
			return "map"
		}
		return "slice"
	}
	an := g.freshName(pkg, "nrA", true)
	if rapid.Bool().Draw(t, "nrMutual") {
		bn := g.freshName(pkg, "nrB", true)
		ta, tb := con("nrKindA", Ref(pkg.Path, bn)), con("nrKindB", Ref(pkg.Path, an))
		g.newDecl(pkg, file, &Decl{Kind: KNamed, Name: an, Type: ta}, &tinfo{cat: cat(ta)})
		g.newDecl(pkg, file, &Decl{Kind: KNamed, Name: bn, Type: tb}, &tinfo{cat: cat(tb)})
		g.o.class("graph:mutual_named_container_recursion")
		return
	}
	ta := con("nrKindA", Ref(pkg.Path, an))
	g.newDecl(pkg, file, &Decl{Kind: KNamed, Name: an, Type: ta}, &tinfo{cat: cat(ta)})
	g.o.class("graph:named_container_self_recursion")
}

func (g *gen) addAlias(pkg *Pkg) {
	t := g.t
	cands := g.candidates(pkg, func(x *tinfo) bool {
		if x.pkg != pkg || x.d.Kind == "inst" || x.cat == "generic" {
			return false
		}
		if x.cat == "struct" && g.o.gated("alias_to_struct") {
			return false
		}
		return true
	})
	if len(cands) == 0 {
		return
	}
	target := cands[rapid.IntRange(0, len(cands)-1).Draw(t, "aliasTarget")]
	d := &Decl{Kind: KAlias, Name: g.freshName(pkg, "aliasName", true), Type: g.refTo(pkg, target)}
	f := pkg.Files[0]
	f.Decls = append(f.Decls, d)
	g.o.class("feature:alias_to_" + target.cat)
	// a user of the alias
	h := &Decl{Kind: KStruct, Name: g.freshName(pkg, "aliasUser", true), Fields: []*Field{{Name: "Via", Type: Ref(pkg.Path, d.Name)}}}
	if target.cat == "union" && target.d.Kind == KUnion {
		// keep unions behind fields of local union type only (wrappers are generated for those)
		h.Fields[0].Type = g.refTo(pkg, target)
	}
	f.Decls = append(f.Decls, h)
}

// regroup turns some runs of consecutive declarations into grouped `type ( … )` declarations.
func (g *gen) regroup(f *File) {
	t := g.t
	for i := 0; i < len(f.Decls); i++ {
		if rapid.IntRange(0, 7).Draw(t, "group") != 0 {
			continue
		}
		g.group++
		n := rapid.IntRange(1, 3).Draw(t, "groupLen")
		for j := i; j < i+n && j < len(f.Decls); j++ {
			f.Decls[j].Group = g.group
		}
		i += n
		g.o.class("decl:grouped_type_decl")
	}
}

// pruneUnusedPkgs removes sub-packages the root never references (they would not be part of the import graph).
// embeddedSomewhere reports whether a struct of the program embeds the type of that name.
func (g *gen) embeddedSomewhere(name string) bool {
	for _, p := range g.spec.Pkgs {
		for _, f := range p.Files {
			for _, d := range f.Decls {
				for _, fl := range d.Fields {
					if fl.Embedded && fl.Type != nil && fl.Type.K == TRef && fl.Type.Name == name {
						return true
					}
				}
			}
		}
	}
	return false
}

func (g *gen) pruneUnusedPkgs() {
	used := map[string]bool{}
	var walk func(tr *TypeRef)
	walk = func(tr *TypeRef) {
		if tr == nil {
			return
		}
		if tr.K == TRef && tr.Pkg != "" {
			used[tr.Pkg] = true
		}
		walk(tr.Elem)
		walk(tr.Key)
		for _, a := range tr.Args {
			walk(a)
		}
	}
	scan := func(p *Pkg) {
		for _, f := range p.Files {
			for _, d := range f.Decls {
				walk(d.Type)
				for _, fl := range d.Fields {
					walk(fl.Type)
				}
			}
			for _, imp := range rawImports(f.Raw) {
				used[imp] = true
			}
		}
	}
	scan(g.spec.Root())
	// transitively: what the kept packages use themselves
	for changed := true; changed; {
		changed = false
		n := len(used)
		for _, p := range g.spec.Pkgs[1:] {
			if used[p.Path] {
				scan(p)
			}
		}
		changed = len(used) != n
	}
	keep := []*Pkg{g.spec.Root()}
	for _, p := range g.spec.Pkgs[1:] {
		if used[p.Path] {
			keep = append(keep, p)
		}
	}
	g.spec.Pkgs = keep
}

// embeddedInCycle reports whether some struct S embeds a struct E such that E reaches S
// (E is then still incomplete when S is analysed).
func (g *gen) embeddedInCycle(pkg *Pkg) bool { return g.embeddedCycleField(pkg) != nil }

// embeddedCycleField returns an embedded field whose struct type reaches the embedding struct, or nil.
func (g *gen) embeddedCycleField(pkg *Pkg) *Field {
	unions := g.spec.Unions()[pkg.Path]
	decls := map[string]*Decl{}
	for _, f := range pkg.Files {
		for _, d := range f.Decls {
			decls[d.Name] = d
		}
	}
	var refs func(t *TypeRef, out *[]string)
	refs = func(t *TypeRef, out *[]string) {
		if t == nil {
			return
		}
		if t.K == TRef && (t.Pkg == "" || t.Pkg == pkg.Path) {
			*out = append(*out, t.Name)
		}
		refs(t.Elem, out)
		refs(t.Key, out)
		for _, a := range t.Args {
			refs(a, out)
		}
	}
	succ := func(name string) []string {
		d := decls[name]
		if d == nil {
			return nil
		}
		var out []string
		refs(d.Type, &out)
		for _, f := range d.Fields {
			refs(f.Type, &out)
		}
		if d.Kind == KUnion {
			if u := unions[d.Name]; u != nil {
				out = append(out, u.Members...)
			}
		}
		return out
	}
	reaches := func(from, to string) bool {
		seen := map[string]bool{}
		stack := []string{from}
		for len(stack) > 0 {
			n := stack[len(stack)-1]
			stack = stack[:len(stack)-1]
			for _, s := range succ(n) {
				if s == to {
					return true
				}
				if !seen[s] {
					seen[s] = true
					stack = append(stack, s)
				}
			}
		}
		return false
	}
	var names []string
	for n := range decls {
		names = append(names, n)
	}
	sort.Strings(names)
	for _, n := range names {
		d := decls[n]
		for _, f := range d.Fields {
			if f.Embedded && f.Type.K == TRef && reaches(f.Type.Name, d.Name) {
				return f
			}
		}
	}
	return nil
}
