package synth

import "sort"

// Reference model read off the Spec (never off gomacro's or go/types' view).

// EnumRef is the expected enum table of one named basic type.
type EnumRef struct {
	Pkg     string // import path
	Name    string
	Base    string
	Members []EnumMemberRef // every typed, not opted-out constant of the type in its own package (exported or not), in declaration order
	// PlainIota: declared as one plain iota block (`A T = iota` then implicit repetitions), all members exported, no blank, no other constant of the type
	PlainIota bool
}

// Enums returns, per package path and type name, the expected enum table for every
// named basic type (Kind KEnum or KNamed over a basic) of the spec. A type with no
// member is expected not to be an enum.
func (s *Spec) Enums() map[string]map[string]*EnumRef {
	out := map[string]map[string]*EnumRef{}
	for _, p := range s.Pkgs {
		m := map[string]*EnumRef{}
		out[p.Path] = m
		for _, f := range p.Files {
			for _, d := range f.Decls {
				if (d.Kind == KEnum || d.Kind == KNamed) && d.Type != nil && d.Type.K == TBasic {
					m[d.Name] = &EnumRef{Pkg: p.Path, Name: d.Name, Base: d.Type.Name}
				}
			}
		}
		blocksOf := map[string]int{}
		for _, f := range p.Files {
			for _, b := range f.Consts {
				touched := map[string]bool{}
				for si, cs := range b.Specs {
					for i, n := range cs.Names {
						ty := cs.OfType[i]
						if ty == "" {
							continue
						}
						e := m[ty]
						if e == nil {
							continue
						}
						touched[ty] = true
						if n == "_" {
							continue
						}
						e.Members = append(e.Members, EnumMemberRef{Name: n, Val: cs.Vals[i], Comment: cs.Comment})
					}
					_ = si
				}
				for ty := range touched {
					blocksOf[ty]++
				}
			}
		}
		// plain iota blocks
		for _, f := range p.Files {
			for _, b := range f.Consts {
				if !b.Grouped || len(b.Specs) == 0 {
					continue
				}
				first := b.Specs[0]
				if len(first.Names) != 1 || len(first.Exprs) != 1 || first.Exprs[0] != "iota" || first.Type == "" {
					continue
				}
				e := m[first.Type]
				if e == nil || !isIntKind(e.Base) || blocksOf[first.Type] != 1 {
					continue
				}
				plain := true
				for i, cs := range b.Specs {
					if len(cs.Names) != 1 || cs.Names[0] == "_" || !(cs.Names[0][0] >= 'A' && cs.Names[0][0] <= 'Z') {
						plain = false
					}
					if i > 0 && (len(cs.Exprs) != 0 || cs.Type != "") {
						plain = false
					}
					if cs.OfType[0] != first.Type {
						plain = false // opted out member
					}
				}
				e.PlainIota = plain
			}
		}
	}
	return out
}

// UnionRef is the expected membership of one interface.
type UnionRef struct {
	Pkg     string
	Name    string
	Methods []string // full method set (own + embedded)
	Members []string // local names of the member types, sorted byte-wise; empty = not a union
}

// Unions computes, from the rendered method sets, the expected unions of every package.
func (s *Spec) Unions() map[string]map[string]*UnionRef {
	out := map[string]map[string]*UnionRef{}
	for _, p := range s.Pkgs {
		m := map[string]*UnionRef{}
		out[p.Path] = m
		decls := map[string]*Decl{}
		for _, f := range p.Files {
			for _, d := range f.Decls {
				decls[d.Name] = d
			}
		}
		var methodSet func(d *Decl, seen map[string]bool) []string
		methodSet = func(d *Decl, seen map[string]bool) []string {
			if seen[d.Name] {
				return nil
			}
			seen[d.Name] = true
			ms := append([]string{}, d.Methods...)
			for _, e := range d.Embeds {
				if ed := decls[e]; ed != nil {
					ms = append(ms, methodSet(ed, seen)...)
				}
			}
			return ms
		}
		for _, f := range p.Files {
			for _, d := range f.Decls {
				if d.Kind != KUnion {
					continue
				}
				u := &UnionRef{Pkg: p.Path, Name: d.Name, Methods: methodSet(d, map[string]bool{})}
				for _, f2 := range p.Files {
					for _, c := range f2.Decls {
						if c.Kind == KUnion || c.Kind == KAlias || c.Kind == "inst" {
							continue
						}
						// value method set: methods with value receivers, own or promoted from embedded
						// structs; a name declared at a shallower depth shadows deeper ones, two
						// declarations at the same depth are ambiguous (not in the method set)
						has := map[string]bool{}
						decided := map[string]bool{}
						type pd struct {
							p *Pkg
							d *Decl
						}
						// identity of a method name: unexported names are package-qualified
						ident := func(pk *Pkg, name string) string {
							if name != "" && name[0] >= 'A' && name[0] <= 'Z' {
								return name
							}
							return pk.Path + "." + name
						}
						level := []pd{{p, c}}
						for depth := 0; depth < 10 && len(level) > 0; depth++ {
							count := map[string]int{}
							ptr := map[string]bool{}
							var next []pd
							for _, l := range level {
								for _, im := range l.d.Impl {
									k := ident(l.p, im.Name)
									count[k]++
									ptr[k] = ptr[k] || im.Ptr
								}
								// fields come from the struct the type is (transitively) defined over:
								// `type B alpha` gets alpha's embedded fields (and their promoted methods),
								// not alpha's own methods
								fp, fd := l.p, l.d
								for hops := 0; fd != nil && fd.Kind == KNamed && fd.Type != nil && fd.Type.K == TRef && hops < 10; hops++ {
									fp, fd = s.Resolve(fp, fd.Type)
								}
								if fd != nil && (fd.Kind == KStruct || fd.Kind == KGeneric) {
									for _, fl := range fd.Fields {
										if fl.Embedded && fl.Type.K == TRef {
											if ep, ed := s.Resolve(fp, fl.Type); ed != nil {
												next = append(next, pd{ep, ed})
											}
										}
									}
								}
							}
							for name, n := range count {
								if decided[name] {
									continue
								}
								decided[name] = true
								has[name] = n == 1 && !ptr[name]
							}
							level = next
						}
						ok := true
						for _, need := range u.Methods {
							if !has[ident(p, need)] {
								ok = false
							}
						}
						if ok {
							u.Members = append(u.Members, c.Name)
						}
					}
				}
				sort.Strings(u.Members)
				m[d.Name] = u
			}
		}
	}
	return out
}

// Resolve follows a reference to its declaration (nil for non-refs / unknown).
func (s *Spec) Resolve(from *Pkg, t *TypeRef) (*Pkg, *Decl) {
	if t == nil || t.K != TRef {
		return nil, nil
	}
	path := t.Pkg
	if path == "" {
		path = from.Path
	}
	p := s.PkgByPath(path)
	if p == nil {
		return nil, nil
	}
	for _, f := range p.Files {
		for _, d := range f.Decls {
			if d.Name == t.Name && d.Kind != "inst" {
				return p, d
			}
		}
	}
	return p, nil
}

// BreakValueCycles repairs the spec so that no type contains itself (through
// fields, containers, pointers, named underlying types or union membership,
// promoted methods included): the field closing a cycle is retyped to int.
// It returns the number of repaired fields.
func (s *Spec) BreakValueCycles() int {
	repaired := 0
	for iter := 0; iter < 50; iter++ {
		unions := s.Unions()
		type node struct {
			p *Pkg
			d *Decl
		}
		var cycleField *Field
		state := map[*Decl]int{} // 1 = on stack, 2 = done
		var visit func(n node) bool
		var visitType func(p *Pkg, t *TypeRef, via *Field) bool
		visitType = func(p *Pkg, t *TypeRef, via *Field) bool {
			if t == nil {
				return false
			}
			if t.K == TRef {
				if rp, rd := s.Resolve(p, t); rd != nil {
					if state[rd] == 1 {
						cycleField = via
						return true
					}
					if state[rd] == 0 && visit(node{rp, rd}) {
						if cycleField == nil {
							cycleField = via
						}
						return true
					}
				}
			}
			if visitType(p, t.Elem, via) || visitType(p, t.Key, via) {
				return true
			}
			for _, a := range t.Args {
				if visitType(p, a, via) {
					return true
				}
			}
			return false
		}
		visit = func(n node) bool {
			state[n.d] = 1
			defer func() { state[n.d] = 2 }()
			switch n.d.Kind {
			case KUnion:
				if u := unions[n.p.Path][n.d.Name]; u != nil {
					for _, m := range u.Members {
						md := s.FindDecl(n.p.Path, m)
						if md == nil {
							continue
						}
						if state[md] == 1 {
							return true // closed through membership: the caller's field is the culprit
						}
						if state[md] == 0 && visit(node{n.p, md}) {
							return true
						}
					}
				}
			default:
				if n.d.Type != nil && visitType(n.p, n.d.Type, nil) {
					return true
				}
				for _, f := range n.d.Fields {
					if visitType(n.p, f.Type, f) {
						if cycleField == nil {
							cycleField = f
						}
						return true
					}
				}
			}
			return false
		}
		found := false
		for _, p := range s.Pkgs {
			for _, f := range p.Files {
				for _, d := range f.Decls {
					if state[d] == 0 && visit(node{p, d}) {
						found = true
						break
					}
				}
				if found {
					break
				}
			}
			if found {
				break
			}
		}
		if !found {
			return repaired
		}
		if cycleField == nil {
			return repaired // cycle without a struct field (cannot happen for well-typed programs)
		}
		if cycleField.Embedded {
			cycleField.Embedded = false
			cycleField.Name = "Was" + cycleField.Name
		}
		cycleField.Type = Basic("int")
		repaired++
	}
	return repaired
}
